"""C01 Mass-matrix operators agree and M is symmetric positive definite (DESIGN 5 C01).
Model/tie as C04 (coq/Lib/MB.v, correspondence on random trees); compared: multiplyByM, calcM (all entries),
calcM*w, kinetic energy.  The inverse operators are exercised by the search predicates only (not yet modelled)."""
import os
from vlib import *
import mbcorr, C04

PROPS = ['Props/Properties_C01.v']
TAGS = ('MW', 'MMATW', 'MROW', 'KE')

def run(ctx):
    ctx.build_repo()
    ctx.coq_props(PROPS)
    d = mbcorr.build(ctx)
    if d:
        nsys, maxb = (150, 10) if ctx.tier == 'quick' else (3000, 14)
        n, dis, stats = mbcorr.run(ctx, d, nsys, maxb, TAGS, seed_offset=1)
        ctx.extra['correspondence'] = stats
        if dis:
            x = dis[0]
            ctx.broken.append(('correspondence:mb:' + x['tag'], 'model and implementation differ on system %d (seed %d) tag %s[%d]: impl=%s model=%s' %
                               (x['system'], x['seed'], x['tag'], x['index'], x['impl'], x['model'])))
            ctx.extra['first_disagreement'] = x
    ctx.cov['rule'] = ('random simbody trees (1..N bodies; chain/star/random branching; 17 mobilizer types x forward/reversed; quaternion or Euler); '
                       'multiplyByM(w), every entry of calcM, calcM*w and kinetic energy compared with the extracted model (rel tol 1e-9); '
                       'non-trivial = at least 3 bodies incl. Ground, distinct by the vector of (mobilizer type, reversed)')
    ctx.assumptions += ['theorems over R; float runs only validate the model against the code',
                        'M^-1 routes (multiplyByMInv, calcMInv) are NOT in the model yet: only the implementation-side predicates MInv(M w)=w and calcMInv*calcM=I are run (always, as part of this check)',
                        'positive definiteness is proved under an explicit rank hypothesis (partial)']
    # the inverse routes are not modelled: their consistency predicates are always evaluated on the implementation
    C04.search(ctx, 'C01', 150 if ctx.tier == 'quick' else 3000, 12)
    ctx.finish()
