"""C01 Mass-matrix operators agree and M is symmetric positive definite (DESIGN 5 C01).
Model/tie as C04 (coq/Lib/MB.v, correspondence on random trees); compared: multiplyByM, calcM (all entries),
calcM*w, kinetic energy.  The inverse operators are exercised by the search predicates only (not yet modelled)."""
import os
from vlib import *
import mbcorr, C04, C02

PROPS = ['Props/Properties_C01.v', 'Props/Properties_C01b.v']
# tags of the C02 articulated-body model that belong to C01's inverse routes
INV_TAGS = ('MINV', 'MINVMAT', 'ABI', 'PPLUS', 'DMAT', 'DIMAT', 'GMAT')
TAGS = ('MW', 'MMATW', 'MROW', 'KE')

def run(ctx):
    ctx.build_repo()
    ctx.coq_props(PROPS)
    d = mbcorr.build(ctx)
    if d:
        nsys, maxb = (150, 10) if ctx.tier == 'quick' else (3000, 14)
        n, dis, stats = mbcorr.run(ctx, d, nsys, maxb, TAGS, seed_offset=1)
        ctx.extra['correspondence_forward_routes'] = stats
        if dis:
            x = dis[0]
            ctx.broken.append(('correspondence:mb:' + x['tag'], 'model and implementation differ on system %d (seed %d) tag %s[%d]: impl=%s model=%s' %
                               (x['system'], x['seed'], x['tag'], x['index'], x['impl'], x['model'])))
            ctx.extra['first_disagreement'] = x
    ctx.cov['rule'] = ('random simbody trees (1..N bodies; chain/star/random branching; 17 mobilizer types x forward/reversed; quaternion or Euler); '
                       'multiplyByM(w), every entry of calcM, calcM*w and kinetic energy compared with the extracted model (rel tol 1e-9); '
                       'non-trivial = at least 3 bodies incl. Ground, distinct by the vector of (mobilizer type, reversed)')
    ctx.assumptions += ['theorems over R; float runs only validate the model against the code',
                        'M^-1 routes: modelled by the articulated-body passes of coq/C02/C02_Model.v; M(M^-1 f)=f proved for every tree under the per-body hypothesis that the computed inverse of D=~H P H is a symmetric inverse (discharged for dof<=2, measured on the float runs otherwise)',
                        'positive definiteness is proved under an explicit rank hypothesis (partial)']
    # inverse routes: the articulated-body model built for C02 (coq/C02/C02_Model.v), restricted to the tags C01 is about
    d2 = C02.build(ctx)
    if d2:
        saved = C02.TOL
        C02.TOL = {t: v for t, v in saved.items() if t in INV_TAGS}
        try:
            nsys, maxb = (150, 10) if ctx.tier == 'quick' else (3000, 14)
            C02.correspondence(ctx, d2, nsys, maxb)
            ctx.extra['correspondence_inverse_routes'] = ctx.extra.pop('correspondence', None)
        finally:
            C02.TOL = saved
    # implementation-side consistency predicates (M symmetric, routes agree, MInv(M w)=w, calcMInv*calcM=I, KE) are evaluated on every run
    C04.search(ctx, 'C01', 150 if ctx.tier == 'quick' else 3000, 12)
    ctx.finish()
