"""C02 Forward and inverse dynamics of trees are exact inverses (DESIGN 5 C02).
Model: coq/C02/C02_Model.v (hand-written; recursive Newton-Euler inverse dynamics, articulated-body inertias,
articulated-body forward dynamics, M^-1 passes; generic in the abstract spatial structure of coq/Lib/MB.v, concrete
ArticulatedInertia algebra mirroring SimTK's).  Theorems for every tree: coq/C02/C02_Proofs.v (abstract),
C02_Concrete.v (laws of the concrete algebra over R, instantiation).
Tie: correspondence on random simbody trees (17 built-in mobilizer types, forward/reversed, quaternion/Euler,
zero and non-zero velocities, random applied mobility and body forces incl. on Ground, plus lone-particle systems):
harness/C02_probe.cpp vs the extracted model driven by the implementation's per-body data."""
import os, collections
from vlib import *

PROPS = ['Props/Properties_C02.v', 'Props/Properties_C02b.v']
EXTRACT = '''From Coq Require Import Extraction ExtrOcamlBasic.
Require Import Num Vec Tree MB Spatial C02_Model.
Extraction Language OCaml.
Extraction "c02run.ml" cmkTree out_resid out_idacc out_abi out_fd out_minv out_rnea_of_fd out_react_art out_react_fb out_equiv out_pivots mkCbx mkNode mkDyn.
'''
INDEXED = ('IDACC', 'FDACC', 'RACC', 'REACT', 'REACTFB', 'ABI', 'PPLUS', 'Z', 'ZP', 'DMAT', 'DIMAT', 'GMAT')
# tag -> relative tolerance (scale = max(1, largest |component| of the implementation's vector)).
# Inverse-dynamics quantities are sums/products only: 1e-9.  Forward-dynamics quantities go through the inverses of the
# D = ~H P H blocks (the model inverts by Gauss-Jordan, the code by closed forms / LAPACK): 1e-8; measured worst 1e-12.
TOL = {'RESID': 1e-9, 'IDACC': 1e-9, 'ABI': 1e-9,
       'FDUD': 1e-8, 'FDACC': 1e-8, 'RUD': 1e-8, 'RACC': 1e-8, 'MINV': 1e-8, 'MINVMAT': 1e-8,
       'Z': 1e-8, 'ZP': 1e-8, 'EPS': 1e-8, 'IDFD': 1e-8,
       'DMAT': 1e-9, 'DIMAT': 1e-8, 'GMAT': 1e-8, 'PPLUS': 1e-8,
       'REACT': 1e-8, 'REACTFB': 1e-8, 'EQUIV': 1e-9}
# z / z+ of RBNodeLoneParticle bodies are not comparable (that node type keeps its own, different temporaries)
SKIP_IF_LONE = ('Z', 'ZP', 'PPLUS', 'DMAT', 'DIMAT', 'GMAT')

def build(ctx):
    d = ctx.bdir('run'); os.makedirs(d, exist_ok=True)
    ok, built, log = ctx.coq_make(['C02/C02_Model.vo'])
    if not ok:
        ctx.broken.append(('model:C02/C02_Model.v', first_error(log))); return None
    if not ctx.extract(EXTRACT, d):
        ctx.broken.append(('correspondence:C02', 'extraction failed')); return None
    drv = 'open C02run\n' + open(os.path.join(VERIF, 'ocaml', 'fops.inc')).read() + '\n' + open(os.path.join(VERIF, 'ocaml', 'C02_drv.ml')).read()
    open(os.path.join(d, 'drv.ml'), 'w').write(drv)
    if not ctx.ocaml(d, ['c02run.mli', 'c02run.ml', 'drv.ml'], 'drv'):
        ctx.broken.append(('correspondence:C02', 'ocaml driver build failed')); return None
    if not ctx.cxx(os.path.join(VERIF, 'harness', 'C02_probe.cpp'), os.path.join(d, 'C02_probe')):
        ctx.broken.append(('correspondence:C02', 'C++ probe does not compile against current source')); return None
    return d

def parse(out):
    systems = []; cur = None
    for line in out.split('\n'):
        t = line.split()
        if not t: continue
        if t[0] == 'SYS': cur = {'inputs': [line], 'outs': collections.OrderedDict(), 'types': [], 'nb': int(t[1]), 'nu': int(t[2]), 'lone': False, 'hyp': None, 'piv': None, 'zeroU': False}
        elif t[0] == 'END':
            if cur is not None: systems.append(cur); cur = None
        elif t[0] == 'SKIP': systems.append(None)
        elif cur is None: continue
        elif t[0] == 'OUT':
            if t[1] in INDEXED: cur['outs'][(t[1], int(t[2]))] = parse_floats(' '.join(t[3:]))
            else: cur['outs'][(t[1], 0)] = parse_floats(' '.join(t[2:]))
        elif t[0] == 'HYP': cur['hyp'] = parse_floats(' '.join(t[1:]))
        elif t[0] == 'PIV': cur['piv'] = parse_floats(' '.join(t[1:]))[0]
        else:
            cur['inputs'].append(line)
            if t[0] == 'BODY': cur['types'].append((t[5], int(t[6])))
            elif t[0] == 'LONE': cur['lone'] = True
            elif t[0] == 'U': cur['zeroU'] = all(x == 0.0 for x in parse_floats(' '.join(t[1:])))
    return systems

def correspondence(ctx, d, nsys, maxb):
    seed = ctx.seed + 2
    rc1, o1, e1 = sh([os.path.join(d, 'C02_probe'), str(seed), str(nsys), str(maxb)], timeout=1800)
    if rc1 != 0:
        ctx.broken.append(('correspondence:C02', 'probe failed rc=%d %s' % (rc1, e1[-400:]))); return
    rc2, o2, e2 = sh([os.path.join(d, 'drv')], input=o1, timeout=1800)
    if rc2 != 0:
        ctx.broken.append(('correspondence:C02', 'model driver failed rc=%d %s' % (rc2, e2[-400:]))); return
    P1 = parse(o1); P2 = parse(o2)
    skipped = sum(1 for s in P1 if s is None)
    S1 = [s for s in P1 if s is not None]; S2 = [s for s in P2 if s is not None]
    if len(S1) != len(S2) or not S1:
        ctx.broken.append(('correspondence:C02', 'system count mismatch %d vs %d' % (len(S1), len(S2)))); return
    dis = []; ncmp = collections.Counter(); worst = collections.defaultdict(float); typehist = collections.Counter()
    distinct = set(); nontriv = 0; nlone = 0; nzero = 0; hyp1 = 0.0; hyp2 = 0.0; predfail = []; pivmin = float('inf')
    for k, (a, b) in enumerate(zip(S1, S2)):
        for ty in a['types']: typehist['%s%s' % (ty[0], '(rev)' if ty[1] else '')] += 1
        sig = (tuple(a['types']), a['zeroU'], a['lone'])
        if a['nb'] >= 3 and sig not in distinct: nontriv += 1
        distinct.add(sig); nlone += a['lone']; nzero += a['zeroU']
        if b['hyp']: hyp1 = max(hyp1, b['hyp'][0]); hyp2 = max(hyp2, b['hyp'][1])
        if b.get('piv') is not None: pivmin = min(pivmin, b['piv']) if b['piv'] == b['piv'] else float('nan')
        fscale = max([1.0] + [abs(x) for key in a['outs'] if key[0] == 'RESID' for x in a['outs'][key]])
        for key, va in a['outs'].items():
            tag = key[0]
            if tag not in TOL: continue
            if a['lone'] and tag in SKIP_IF_LONE: continue
            vb = b['outs'].get(key); ncmp[tag] += 1
            sc = max([1.0] + [abs(x) for x in va if x == x])
            if tag == 'IDFD': sc = fscale
            ok = vb is not None and len(vb) == len(va)
            if ok:
                err = max([abs(x - y) if (x == x and y == y) else float('inf') for x, y in zip(va, vb)] + [0.0]) / sc
                worst[tag] = max(worst[tag], err); ok = err <= TOL[tag]
            if not ok:
                dis.append({'system': k, 'seed': seed, 'tag': tag, 'index': key[1], 'impl': va, 'model': vb, 'inputs': a['inputs']})
            if tag == 'IDFD' and not all(abs(x) <= 1e-8 * fscale for x in va):
                predfail.append({'system': k, 'seed': seed, 'residual_of_ID_of_FD': va, 'inputs': a['inputs']})
    # the same hypotheses for the implementation's own D and DI (internal cache), row/column order irrelevant for these two measures
    ih1 = 0.0; ih2 = 0.0
    for a in S1:
        for key, dm in a['outs'].items():
            if key[0] != 'DMAT' or a['lone']: continue
            di = a['outs'].get(('DIMAT', key[1])); n = int(round(len(dm) ** 0.5))
            if di is None or n * n != len(dm) or len(di) != len(dm): continue
            for r in range(n):
                for c in range(n):
                    ih1 = max(ih1, abs(sum(dm[r * n + k] * di[k * n + c] for k in range(n)) - (1.0 if r == c else 0.0)))
                    if abs(di[r * n + c]) > 1e-9 * abs(di[r * n + r]):
                        ih2 = max(ih2, abs(di[r * n + c] - di[c * n + r]) / max(abs(di[r * n + c]), abs(di[c * n + r])))
    ctx.extra['correspondence'] = {'implementation_D_DI': {'max|D*DI-1|': ih1, 'max rel asymmetry of DI': ih2}, 'systems': len(S1), 'skipped_by_generator': skipped, 'lone_particle_systems': nlone, 'zero_velocity_systems': nzero,
        'compared_per_tag': dict(ncmp), 'worst_relative_difference_per_tag': {t: float('%.3g' % w) for t, w in worst.items()},
        'tolerance_per_tag': TOL, 'mobilizer_histogram': dict(typehist), 'distinct_signatures': len(distinct), 'max_bodies': maxb,
        'theorem_hypotheses_on_float_runs': {'max|D*DI-1|': hyp1, 'max rel asymmetry of DI': hyp2, 'min |elimination pivot| over all D blocks': pivmin}}
    ctx.add_cases(len(S1), nontriv, [{'bodies': [l for l in S1[0]['inputs'] if l.startswith('BODY')][:2],
                                     'impl_RESID': S1[0]['outs'].get(('RESID', 0)), 'model_RESID': S2[0]['outs'].get(('RESID', 0)),
                                     'impl_FDUD': S1[0]['outs'].get(('FDUD', 0)), 'model_FDUD': S2[0]['outs'].get(('FDUD', 0))}])
    if dis:
        x = dis[0]
        ctx.broken.append(('correspondence:C02:' + x['tag'], 'model and implementation differ on system %d (seed %d) tag %s[%d]: impl=%s model=%s (%d disagreements, tags %s)' %
                           (x['system'], x['seed'], x['tag'], x['index'], x['impl'], x['model'], len(dis), sorted(set(y['tag'] for y in dis)))))
        ctx.extra['first_disagreement'] = x
    # the per-node hypotheses of fd_then_rnea_zero (D*DI = 1, DI symmetric) must hold for the computed inverses up to rounding
    if not (pivmin > 0):
        ctx.broken.append(('hypothesis:C02:pivots', 'an elimination pivot of a D block is zero or not finite on the generated cases (min |pivot| = %r): the any-dof theorems do not apply there' % pivmin))
    if hyp1 > 1e-8 or hyp2 > 1e-6 or ih1 > 1e-8 or ih2 > 1e-6:
        ctx.broken.append(('hypothesis:C02:sym_inverse', 'the computed inverse of D is not a symmetric inverse on the generated cases: model max|D*DI-1|=%g asym=%g; implementation %g %g' % (hyp1, hyp2, ih1, ih2)))
    for pf in predfail[:1]:
        ctx.report('impl:ID(FD(f))!=0', 'inverse dynamics of the forward-dynamics accelerations is not zero on the implementation', pf)

def search(ctx, n, maxb):
    exe = ctx.bdir('C02_search')
    if not ctx.cxx(os.path.join(VERIF, 'harness', 'C02_search.cpp'), exe):
        ctx.broken.append(('search:C02', 'search harness does not compile')); return
    rc, out, err = sh([exe, str(ctx.seed), str(n), str(maxb)], timeout=1800)
    fails = [l for l in out.split('\n') if l.startswith('FAIL C02')]
    done = [l for l in out.split('\n') if l.startswith('DONE')]
    ctx.extra['search'] = {'systems': n, 'predicate_evaluations': int(done[0].split()[1]) if done else 0, 'failures': len(fails)}
    for f in fails[:1]:
        ctx.report('impl:' + f.split()[2], 'implementation violates C02 predicate: ' + f,
                   {'replay_cmd': '%s %d %d %d' % (exe, ctx.seed, n, maxb), 'failing_input': f})

def run(ctx):
    ctx.build_repo()
    ctx.coq_props(PROPS)
    d = build(ctx)
    if d:
        nsys, maxb = (150, 10) if ctx.tier == 'quick' else (3000, 14)
        correspondence(ctx, d, nsys, maxb)
    ctx.cov['rule'] = ('random simbody trees (1..N bodies; chain/star/random branching; 17 mobilizer types x forward/reversed; quaternion or Euler; '
                       'every 4th system at u = 0; every 5th followed by a lone-particle system), random udot, applied mobility forces and body forces '
                       '(incl. on Ground); compared with the extracted model: inverse-dynamics residual and accelerations, forward-dynamics udot and A_GB '
                       '(operator and realize(Acceleration) with the forces applied by Force::DiscreteForces), multiplyByMInv, calcMInv*f, every articulated '
                       'body inertia, and the internal z, zPlus, epsilon of calcTreeAccelerations; non-trivial = at least 3 bodies incl. Ground, '
                       'distinct by (vector of (mobilizer type, reversed), zero-velocity flag, lone-particle flag)')
    ctx.assumptions += ['theorems over R; float runs only validate the model against the code',
                        'per-body hinge columns H_PB_G, shift vectors, spatial inertias, mobilizer Coriolis accelerations and gyroscopic forces are taken from the implementation (their relation to q,u is C03/C05)',
                        'fd_then_rnea_zero assumes per body that the computed inverse DI of D = ~H P H is a symmetric inverse (not proved for Gauss-Jordan / LAPACK; measured on every run: see theorem_hypotheses_on_float_runs)',
                        'no prescribed motion: all mobilizers free']
    if ctx.broken or ctx.tier == 'thorough':
        search(ctx, 300 if ctx.tier == 'quick' else 3000, 12)
    ctx.finish()
