"""C03 Velocity kinematics is the time derivative of position kinematics (DESIGN 5 C03).
Model: coq/C03/C03_Model.v (outward composition X_GB = X_GP X_PF X_FM(q) X_MB, V_GB = shifted V_GP + H_PB_G u, stations,
N / NInv / NDot and their transposes) over the mobilizer catalogue coq/C05/C05_Model.v.
Theorems: coq/Props/Properties_C03.v, Properties_C03_jets.v: per-mobilizer X_FM jets (from C05), product rule for Transform composition, compose_jet
for every tree (every body velocity is the jet of its pose, every station velocity the jet of its location), N NInv relations,
NDot the derivative of N, qdotdot decomposition, transposes as exact adjoints.
Tie: correspondence on random simbody trees (harness/C03_probe.cpp vs the extracted pipeline): getBodyTransform, getBodyVelocity,
findStationLocation/VelocityInGround, calcQDot, calcQDotDot, multiplyByN / NInv / NDot (both transposes).
Failing-input search on the implementation alone (always run): finite differences of reported poses / N along qdot = N u."""
import os, collections
from vlib import *

PROPS = ['Props/Properties_C03.v', 'Props/Properties_C03_jets.v']   # compiled in parallel
TYPES = ["Pin", "Slider", "Universal", "Cylinder", "BendStretch", "Planar", "Gimbal", "Bushing", "Ball", "Free",
         "Translation", "Screw", "Ellipsoid", "LineOrientation", "FreeLine", "SphericalCoords", "Weld"]
EXTRACT = '''From Coq Require Import Extraction ExtrOcamlBasic.
Require Import Num Vec C28_Defs rot_gen Tree C05_Model C03_Model.
Extraction Language OCaml.
Extraction "c03.ml" mk_jnode run_kin station_loc station_vel mob_N mob_NInv mob_NDot mob_NT mob_NInvT mob_NDotT mob_qdd mkSpec.
'''
VEC_TAGS = ('QDOT', 'QDD', 'NW', 'NTF', 'NINVF', 'NINVTW', 'NDOTW', 'NDOTTF')

def build(ctx):
    d = ctx.bdir('corr'); os.makedirs(d, exist_ok=True)
    ok, built, log = ctx.coq_make(['C03/C03_Model.vo'])
    if not ok:
        ctx.broken.append(('model:C03/C03_Model.v', first_error(log))); return None
    if not ctx.extract(EXTRACT, d):
        ctx.broken.append(('correspondence:C03', 'extraction failed')); return None
    drv = 'open C03\n' + open(os.path.join(VERIF, 'ocaml', 'fops.inc')).read() + '\n' + open(os.path.join(VERIF, 'ocaml', 'C03_drv.ml')).read()
    open(os.path.join(d, 'drv.ml'), 'w').write(drv)
    if not ctx.ocaml(d, ['c03.mli', 'c03.ml', 'drv.ml'], 'drv'):
        ctx.broken.append(('correspondence:C03', 'ocaml driver build failed')); return None
    if not ctx.cxx(os.path.join(VERIF, 'harness', 'C03_probe.cpp'), os.path.join(d, 'C03_probe')):
        ctx.broken.append(('correspondence:C03', 'C++ probe does not compile against current source')); return None
    return d

def parse(out):
    systems = []; cur = None
    for line in out.split('\n'):
        t = line.split()
        if not t: continue
        if t[0] == 'SYS': cur = {'inputs': [line], 'outs': collections.OrderedDict(), 'types': [], 'nb': int(t[1]), 'euler': int(t[4])}
        elif t[0] == 'END':
            if cur is not None: systems.append(cur); cur = None
        elif t[0] == 'SKIP': systems.append(None)
        elif cur is None: continue
        elif t[0] == 'OUT':
            if t[1] in ('X', 'V', 'ST'): cur['outs'][(t[1], int(t[2]))] = parse_floats(' '.join(t[3:]))
            else: cur['outs'][(t[1], 0)] = parse_floats(' '.join(t[2:]))
        else:
            cur['inputs'].append(line)
            if t[0] == 'BODY': cur['types'].append((TYPES[int(t[3])], int(t[4])))
    return systems

def run_corr(ctx, d, nsys, maxb, rtol=1e-9, atol=1e-11):
    rc1, o1, e1 = sh([os.path.join(d, 'C03_probe'), str(ctx.seed), str(nsys), str(maxb)], timeout=1800)
    if rc1 != 0:
        ctx.broken.append(('correspondence:C03', 'probe failed rc=%d %s' % (rc1, e1[-400:]))); return
    rc2, o2, e2 = sh([os.path.join(d, 'drv')], input=o1, timeout=1800)
    if rc2 != 0:
        ctx.broken.append(('correspondence:C03', 'model driver failed rc=%d %s' % (rc2, e2[-400:]))); return
    S1 = [s for s in parse(o1) if s is not None]; S2 = [s for s in parse(o2) if s is not None]
    if len(S1) != len(S2) or not S1:
        ctx.broken.append(('correspondence:C03', 'system count mismatch %d vs %d' % (len(S1), len(S2)))); return
    dis = []; ncmp = collections.Counter(); hist = collections.Counter(); distinct = set(); nontriv = 0
    for k, (a, b) in enumerate(zip(S1, S2)):
        for ty in a['types']: hist['%s%s%s' % (ty[0], '(rev)' if ty[1] else '', '/euler' if a['euler'] else '')] += 1
        sig = (tuple(a['types']), a['euler'])
        if a['nb'] >= 3 and sig not in distinct: nontriv += 1
        distinct.add(sig)
        for key, va in a['outs'].items():
            vb = b['outs'].get(key); ncmp[key[0]] += 1
            sc = max([1.0] + [abs(x) for x in va if x == x])
            if vb is None or len(vb) != len(va) or not all(close(x, y, rtol, atol, sc) for x, y in zip(va, vb)):
                dis.append({'system': k, 'tag': key[0], 'index': key[1], 'impl': va, 'model': vb, 'mobilizers': a['types'], 'euler': a['euler'], 'inputs': a['inputs']})
    ctx.extra['correspondence'] = {'systems': len(S1), 'compared_per_tag': dict(ncmp), 'mobilizer_histogram': dict(hist),
                                   'distinct_type_vectors': len(distinct), 'rtol': rtol, 'atol': atol, 'max_bodies': maxb}
    ctx.add_cases(len(S1), nontriv, [{'bodies': [l[:120] for l in S1[0]['inputs'] if l.startswith('BODY')][:2],
                                      'impl_V_last': list(S1[0]['outs'].items())[-10][1][:3] if len(S1[0]['outs']) > 10 else None}])
    if dis:
        x = dis[0]
        ctx.broken.append(('correspondence:C03:' + x['tag'], 'model and implementation differ on system %d tag %s[%d] (mobilizers %s, euler=%d): impl=%s model=%s' %
                           (x['system'], x['tag'], x['index'], x['mobilizers'], x['euler'], x['impl'], x['model'])))
        ctx.extra['first_disagreement'] = x; ctx.extra['disagreements'] = len(dis)

def search(ctx, n, maxb):
    """failing-input search on the implementation alone: finite differences along qdot = N u"""
    exe = ctx.bdir('C03_search')
    if not ctx.cxx(os.path.join(VERIF, 'harness', 'C03_search.cpp'), exe):
        ctx.broken.append(('search:C03', 'search harness does not compile')); return
    rc, out, err = sh([exe, str(ctx.seed), str(n), str(maxb)], timeout=2400)
    fails = [l for l in out.split('\n') if l.startswith('FAIL')]
    done = [l for l in out.split('\n') if l.startswith('DONE')]
    if not done: ctx.broken.append(('search:C03', 'search harness crashed rc=%d %s' % (rc, err[-300:])))
    ctx.extra['search'] = {'systems': n, 'predicate_evaluations': int(done[0].split()[1]) if done else 0, 'failures': len(fails)}
    seen = set()
    for f in fails:
        key = 'impl:' + f.split()[1]
        if key in seen: continue
        seen.add(key)
        ctx.report(key, 'implementation violates C03 predicate: ' + f, {'replay_cmd': '%s %d %d %d' % (exe, ctx.seed, n, maxb), 'failing_input': f})
    return len(fails)

def run(ctx):
    ctx.build_repo()
    ctx.translate('rot')
    ctx.coq_props(PROPS)
    d = build(ctx)
    if d:
        nsys, maxb = (120, 8) if ctx.tier == 'quick' else (2500, 12)
        run_corr(ctx, d, nsys, maxb)
    ctx.cov['rule'] = ('random simbody trees (1..N bodies; chain/star/random branching; 17 mobilizer types x forward/Reverse; quaternion or Euler; '
                       'general X_PF/X_BM); angles in +-[0.1,1.2] (|cos q1| > 0.36), unit quaternions; every body pose and velocity, station '
                       'locations/velocities, qdot, qdotdot, N/NInv/NDot products and transposes compared with the extracted pipeline (rel 1e-9); '
                       'non-trivial = at least 3 bodies incl. Ground, distinct by (vector of (type, reversed), mode)')
    ctx.assumptions += ['theorems are over the reals (ROps); binary64 rounding is covered only by the tolerance-based correspondence',
                        'the tree theorem is stated for poses as functions of time with the per-joint jet as hypothesis; the per-joint jets are the C05 theorems for the catalogue entries',
                        'CantileverFreeBeam, Custom and FunctionBased mobilizers are not in the catalogue (not exercised)']
    # the finite-difference predicates are cheap and independent of the model: always evaluated
    nf = search(ctx, 60 if ctx.tier == 'quick' else 1500, 6)
    # a proof obligation or the correspondence broke but the small search found no input: widen the search before giving up
    if ctx.broken and not nf and ctx.tier == 'quick':
        search(ctx, 1500, 6)
    ctx.finish()
