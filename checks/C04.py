"""C04 Jacobian operators map speeds to the velocities the state reports (DESIGN 5 C04).
Model: coq/Lib/MB.v (hand-written tree operators, generic spatial algebra); theorems for every tree.
Tie: correspondence on random simbody trees (all 17 built-in mobilizer types, forward/reversed,
quaternion/Euler): harness/mb_probe.cpp vs extracted model driven by the implementation's per-body
data (parent, shift vector, hinge columns getHCol, Coriolis accelerations)."""
import os
from vlib import *
import mbcorr

PROPS = ['Props/Properties_C04.v', 'Props/Properties_C04b.v']
TAGS = ('VEL', 'JW', 'JTF', 'BIAS', 'ACC', 'STJ', 'STJT', 'FRJ', 'FRJT', 'STB', 'FRB', 'JMATW')

def search(ctx, prop, n, maxb):
    exe = ctx.bdir('mb_search')
    if not ctx.cxx(os.path.join(VERIF, 'harness', 'mb_search.cpp'), exe):
        ctx.broken.append(('search:' + prop, 'search harness does not compile')); return
    rc, out, err = sh([exe, str(ctx.seed), str(n), str(maxb)], timeout=1800)
    fails = [l for l in out.split('\n') if l.startswith('FAIL ' + prop)]
    done = [l for l in out.split('\n') if l.startswith('DONE')]
    ctx.extra['search'] = {'systems': n, 'predicate_evaluations': int(done[0].split()[1]) if done else 0, 'failures': len(fails)}
    for f in fails[:1]:
        ctx.report('impl:' + f.split()[2], 'implementation violates %s predicate: %s' % (prop, f),
                   {'replay_cmd': '%s %d %d %d' % (exe, ctx.seed, n, maxb), 'failing_input': f})

def run(ctx):
    ctx.build_repo()
    ctx.coq_props(PROPS)
    d = mbcorr.build(ctx)
    if d:
        nsys, maxb = (150, 10) if ctx.tier == 'quick' else (3000, 14)
        n, dis, stats = mbcorr.run(ctx, d, nsys, maxb, TAGS)
        ctx.extra['correspondence'] = stats
        if dis:
            x = dis[0]
            ctx.broken.append(('correspondence:mb:' + x['tag'], 'model and implementation differ on system %d (seed %d) tag %s[%d]: impl=%s model=%s' %
                               (x['system'], x['seed'], x['tag'], x['index'], x['impl'], x['model'])))
            ctx.extra['first_disagreement'] = x
    ctx.cov['rule'] = ('random simbody trees (1..N bodies; chain/star/random branching; 17 mobilizer types x forward/reversed; quaternion or Euler); '
                       'every OUT tag of the probe compared with the extracted model (rel tol 1e-9); non-trivial = at least 3 bodies incl. Ground, '
                       'distinct by the vector of (mobilizer type, reversed)')
    ctx.assumptions += ['theorems over R; float runs only validate the model against the code',
                        'per-body hinge columns H_PB_G, shift vectors and Coriolis terms are taken from the implementation (their relation to q is C03/C05)']
    # the implementation-side predicates are cheap: evaluated on every run (they are what hands over a failing input)
    search(ctx, 'C04', 150 if ctx.tier == 'quick' else 3000, 12)
    ctx.finish()
