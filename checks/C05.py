"""C05 Built-in mobilizers realize their documented parameterisation (DESIGN 5 C05).
Model: coq/C05/C05_Model.v, the mobilizer catalogue written from the public headers MobilizedBody_*.h (generic in NumOps);
the Euler/quaternion N blocks are the Rotation.h helpers regenerated from source (translator group rot).
Theorems: coq/Props/Properties_C05*.v (rotation, documented forms, X_FM jets = meaning of the speeds, reversed = inverse,
fit round trips).  Tie: correspondence on single-mobilizer systems (harness/C05_probe.cpp vs the extracted catalogue):
getMobilizerTransform / getMobilizerVelocity / getH_FMCol for all 17 types x forward/Reverse x quaternion/Euler, and
setQToFitTransform / setUToFitVelocity round trips on the implementation; the four PARTIAL fits (setQToFitRotation,
setQToFitTranslation, setUToFitAngularVelocity, setUToFitLinearVelocity) from a second random coordinate/speed set against the
modelled per-mobilizer partial fitters and reversal wrappers (tags PFR PFT PFW PFL).  harness/C05_search.cpp (always run):
implementation-only predicates incl. partial-fit sequences."""
import os, collections, concurrent.futures
from vlib import *

PROPS = ['Props/Properties_C05.v', 'Props/Properties_C05_jets.v', 'Props/Properties_C05_wave2.v', 'Props/Properties_C05_fit.v',
         'Props/Properties_C05_partial.v']   # compiled in parallel
TYPES = ["Pin", "Slider", "Universal", "Cylinder", "BendStretch", "Planar", "Gimbal", "Bushing", "Ball", "Free",
         "Translation", "Screw", "Ellipsoid", "LineOrientation", "FreeLine", "SphericalCoords", "Weld"]
EXTRACT = '''From Coq Require Import Extraction ExtrOcamlBasic.
Require Import Num Vec C28_Defs rot_gen C05_Model.
Extraction Language OCaml.
Extraction "c05.ml" rep_X rep_H rep_V mob_X mob_H mob_N mob_NInv mob_NDot mob_fitQ mob_fitU rep_fitR rep_fitT rep_fitW rep_fitLV Hu mkSpec.
'''

def build(ctx, probe_ok=None):
    d = ctx.bdir('corr'); os.makedirs(d, exist_ok=True)
    ok, built, log = ctx.coq_make(['C05/C05_Model.vo'])
    if not ok:
        ctx.broken.append(('model:C05/C05_Model.v', first_error(log))); return None
    if not ctx.extract(EXTRACT, d):
        ctx.broken.append(('correspondence:C05', 'extraction failed')); return None
    drv = 'open C05\n' + open(os.path.join(VERIF, 'ocaml', 'fops.inc')).read() + '\n' + open(os.path.join(VERIF, 'ocaml', 'C05_drv.ml')).read()
    open(os.path.join(d, 'drv.ml'), 'w').write(drv)
    if not ctx.ocaml(d, ['c05.mli', 'c05.ml', 'drv.ml'], 'drv'):
        ctx.broken.append(('correspondence:C05', 'ocaml driver build failed')); return None
    if not (probe_ok.result() if probe_ok is not None else ctx.cxx(os.path.join(VERIF, 'harness', 'C05_probe.cpp'), os.path.join(d, 'C05_probe'))):
        ctx.broken.append(('correspondence:C05', 'C++ probe does not compile against current source')); return None
    return d

def parse(out):
    cases = []; cur = None
    for line in out.split('\n'):
        t = line.split()
        if not t: continue
        if t[0] == 'CASE':
            cur = {'case': line, 'type': int(t[1]), 'rev': int(t[2]), 'euler': int(t[3]), 'frames': int(t[4]),
                   'nq': int(t[5]), 'nu': int(t[6]), 'np': int(t[7]), 'nums': parse_floats(' '.join(t[8:])), 'outs': collections.OrderedDict()}
        elif t[0] == 'END':
            if cur is not None: cases.append(cur); cur = None
        elif cur is not None and t[0] == 'OUT':
            if t[1] == 'H': cur['outs'][('H', int(t[2]))] = parse_floats(' '.join(t[3:]))
            else: cur['outs'][(t[1], 0)] = parse_floats(' '.join(t[2:]))
    return cases

def vclose(a, b, rtol, atol):
    if a is None or b is None or len(a) != len(b): return False
    sc = max([1.0] + [abs(x) for x in a if x == x])
    return all(close(x, y, rtol, atol, sc) for x, y in zip(a, b))

def run_corr(ctx, d, n, rtol=1e-9, atol=1e-11):
    rc1, o1, e1 = sh([os.path.join(d, 'C05_probe'), str(ctx.seed), str(n)], timeout=1800)
    if rc1 != 0:
        ctx.broken.append(('correspondence:C05', 'probe failed rc=%d %s' % (rc1, e1[-400:]))); return
    rc2, o2, e2 = sh([os.path.join(d, 'drv')], input=o1, timeout=1800)
    if rc2 != 0:
        ctx.broken.append(('correspondence:C05', 'model driver failed rc=%d %s' % (rc2, e2[-400:]))); return
    A = parse(o1); B = parse(o2)
    if len(A) != len(B) or not A:
        ctx.broken.append(('correspondence:C05', 'case count mismatch %d vs %d' % (len(A), len(B)))); return
    hist = collections.Counter(); ncmp = collections.Counter(); dis = []; fitbad = collections.OrderedDict(); combos = set()
    for k, (a, b) in enumerate(zip(A, B)):
        name = TYPES[a['type']]; combo = (name, a['rev'], a['euler'])
        hist['%s%s%s' % (name, '(rev)' if a['rev'] else '', '/euler' if a['euler'] else '')] += 1
        combos.add(combo)
        u = a['nums'][a['np'] + a['nq']:a['np'] + a['nq'] + a['nu']]
        for key, va in a['outs'].items():
            if key[0] in ('X', 'V', 'H', 'PFR', 'PFT', 'PFW', 'PFL'):
                ncmp[key[0]] += 1
                vb = b['outs'].get(key)
                if key[0] in ('X', 'V', 'H'): ok = vclose(va, vb, rtol, atol)
                else: ok = vb is not None and vclose(va[:len(vb)], vb, 1e-8, 1e-9)     # partial fits; unused trailing q slot in Euler mode
                if not ok:
                    dis.append({'case': k, 'tag': key[0], 'index': key[1], 'impl': va, 'model': b['outs'].get(key), 'input': a['case'], 'mobilizer': name})
        # fit round trips on the implementation: pose and speeds reproduced (compared with the model's X and the input u)
        mX = b['outs'].get(('X', 0)); mV = b['outs'].get(('V', 0))
        par = a['nums'][:a['np']]; q = a['nums'][a['np']:a['np'] + a['nq']]
        ncmp['FITX'] += 1
        if not vclose(a['outs'].get(('FITX', 0)), mX, 1e-8, 1e-9):
            qual = '-negative-stretch' if (name == 'BendStretch' and q[1] < 0) else ''
            fitbad.setdefault(('fitQ', name + qual), {'case': k, 'input': a['case'], 'fit_pose': a['outs'].get(('FITX', 0)), 'pose': mX})
        ncmp['FITU'] += 1
        if not vclose(a['outs'].get(('FITU', 0)), u, 1e-8, 1e-9):
            qual = '-nonspherical' if (name == 'Ellipsoid' and not (par[0] == par[1] == par[2])) else ''
            fitbad.setdefault(('fitU', name + qual), {'case': k, 'input': a['case'], 'fit_u': a['outs'].get(('FITU', 0)), 'u': u})
        # the model's closed-form fitters against the implementation's fitted coordinates
        for tag in ('MFITQ', 'MFITU'):
            vb = b['outs'].get((tag, 0))
            if vb is not None:
                ncmp[tag] += 1
                va = (a['outs'].get(('FITQ' if tag == 'MFITQ' else 'FITU', 0)) or [])[:len(vb)]   # unused trailing q slot in Euler mode
                if not vclose(va, vb, 1e-8, 1e-9):
                    dis.append({'case': k, 'tag': tag, 'index': 0, 'impl': va, 'model': vb, 'input': a['case'], 'mobilizer': name})
    ctx.extra['correspondence'] = {'cases': len(A), 'compared_per_tag': dict(ncmp), 'histogram': dict(hist),
                                   'distinct_type_direction_mode': len(combos), 'rtol': rtol, 'atol': atol}
    ctx.add_cases(len(A), len(combos), [{'input': A[2]['case'][:160], 'impl_X': A[2]['outs'][('X', 0)][:4], 'model_X': B[2]['outs'][('X', 0)][:4]}])
    if dis:
        x = dis[0]
        ctx.broken.append(('correspondence:C05:' + x['tag'], 'model and implementation differ for %s (case %d) tag %s[%d]: impl=%s model=%s input=%s' %
                           (x['mobilizer'], x['case'], x['tag'], x['index'], x['impl'], x['model'], x['input'])))
        ctx.extra['first_disagreement'] = x; ctx.extra['disagreements'] = len(dis)
    for (what, name), info in fitbad.items():
        key = '%s-roundtrip-%s' % (what, name)
        ctx.report(key, '%s: fitting the mobilizer to its own %s does not reproduce it' % (name, 'pose' if what == 'fitQ' else 'velocity'),
                   dict(info, replay_cmd='%s %d %d' % (os.path.join(d, 'C05_probe'), ctx.seed, n)))

def search(ctx, n, search_ok=None):
    """failing-input search on the implementation alone"""
    exe = ctx.bdir('C05_search')
    if not (search_ok.result() if search_ok is not None else ctx.cxx(os.path.join(VERIF, 'harness', 'C05_search.cpp'), exe)):
        ctx.broken.append(('search:C05', 'search harness does not compile')); return
    rc, out, err = sh([exe, str(ctx.seed), str(n)], timeout=1800)
    fails = [l for l in out.split('\n') if l.startswith('FAIL')]
    done = [l for l in out.split('\n') if l.startswith('DONE')]
    ctx.extra['search'] = {'cases': n, 'predicate_evaluations': int(done[0].split()[1]) if done else 0, 'failures': len(fails)}
    seen = set()
    for f in fails:
        key = 'impl:' + f.split()[1]
        if key in seen: continue
        seen.add(key)
        ctx.report(key, 'implementation violates C05 predicate: ' + f, {'replay_cmd': '%s %d %d' % (exe, ctx.seed, n), 'failing_input': f})

def run(ctx):
    ctx.build_repo()
    # the two C++ harnesses are compiled in the background while the Coq obligations are checked
    pool = concurrent.futures.ThreadPoolExecutor(2)
    os.makedirs(ctx.bdir('corr'), exist_ok=True)
    probe_ok = pool.submit(ctx.cxx, os.path.join(VERIF, 'harness', 'C05_probe.cpp'), os.path.join(ctx.bdir('corr'), 'C05_probe'))
    search_ok = pool.submit(ctx.cxx, os.path.join(VERIF, 'harness', 'C05_search.cpp'), ctx.bdir('C05_search'))
    ctx.translate('rot')
    ctx.coq_props(PROPS)
    d = build(ctx, probe_ok)
    if d:
        run_corr(ctx, d, 17 * (24 if ctx.tier == 'quick' else 400))   # + 6 fixed regression cases run first by the probe
    ctx.cov['rule'] = ('single-mobilizer systems, type cycling over the 17 built-in mobilizers, random direction (forward/Reverse), random '
                       'quaternion/Euler option, identity or random X_PF/X_BM, random options (Screw pitch, Ellipsoid radii incl. spheres, '
                       'SphericalCoords offsets/signs/axis); angles in +-[0.1,1.2] (|cos q1| > 0.36), unit quaternions, u in [-1,1]; '
                       'compared: getMobilizerTransform, getMobilizerVelocity, every getH_FMCol (rel 1e-9), fit round trips and the four partial fits from a second random q2/u2 (1e-8); '
                       'non-trivial = distinct (type, direction, mode)')
    ctx.assumptions += ['theorems are over the reals (ROps); binary64 rounding is covered only by the tolerance-based correspondence',
                        'the catalogue is hand-written from the public documentation; Ellipsoid point rule (p = radii .* Mz) is taken from the implementation header since the public header only says "on the surface"',
                        'atan2-based fitters are modelled with Ratan2 (built from atan); theorems about them are restricted to the regular branch']
    # the implementation-side predicates (incl. the partial-fit sequences) are cheap and independent of the model: always evaluated
    search(ctx, 17 * (60 if ctx.tier == 'quick' else 600), search_ok)
    ctx.finish()
