#!/usr/bin/env python3
"""Developer tool (not run by the checks): regenerate the statement-only files coq/Props/Properties_C05*.v and
Properties_C03*.v from the proofs files with lib/mkprops.py.  The generated files are committed; they are split so that
checks/C05.py and checks/C03.py compile them in parallel (Print Assumptions dominates their cost)."""
import re, sys
sys.path.insert(0, '/verif/lib')
import mkprops
C = '/verif/coq/'
HDR5 = '''(** C05 property theorems%s: statements only, each closed by [exact]; proofs are in C05/C05_Proofs.v, C05/C05_Wave2.v,
    C05/C05_Fit.v, C05/C05_Partial.v (shared lemmas in C05/C05_Rot.v, C05/C05_Jet.v); the catalogue is C05/C05_Model.v, written from the public
    headers MobilizedBody_*.h; the Euler / quaternion N blocks come from Gen/rot_gen.v (regenerated from Rotation.h). *)
From Coq Require Import ZArith Reals List.
From Coquelicot Require Import Coquelicot.
Require Import Num Vec rot_gen C28_Defs C28_Proofs C05_Model C05_Rot C05_Jet C05_Proofs C05_Wave2 C05_Fit C05_Partial.
Local Open Scope R_scope.
'''
HDR3 = '''(** C03 property theorems%s: statements only, each closed by [exact]; proofs are in C03/C03_Proofs.v (tree level, N relations),
    C05/C05_Jet.v (product / inverse rule for moving transforms) and C05/C05_Proofs.v, C05/C05_Wave2.v (per-mobilizer X_FM jets);
    models: C03/C03_Model.v over the catalogue C05/C05_Model.v; N blocks from Gen/rot_gen.v (regenerated from Rotation.h). *)
From Coq Require Import ZArith Reals List.
From Coquelicot Require Import Coquelicot.
Require Import Num Vec rot_gen C28_Defs C28_Proofs Tree MB Spatial C05_Model C05_Rot C05_Jet C05_Proofs C05_Wave2 C03_Model C03_Proofs.
Local Open Scope R_scope.
'''
def blocks(pid, path, skip=(), keep=None):
    txt = mkprops.main(pid, path, '', skip)
    res = []
    for b in re.split(r'\n(?=Theorem )', txt):
        if b.startswith('Theorem ') and (keep is None or keep(b.split()[1])): res.append(b.strip() + '\n')
    return res
def write(name, hdr, bl):
    open(C + 'Props/' + name, 'w').write(hdr + '\n' + '\n'.join(bl) + '\n'); print(name, len(bl))
p = blocks('C05', C + 'C05/C05_Proofs.v', ('RotX_rot', 'RotY_rot'))
isA = lambda n: re.search(r'_rot(_[qe])?$', n) or '_doc' in n or 'quatR' in n or 'speeds_are' in n
write('Properties_C05.v', HDR5 % '', [b for b in p if isA(b.split()[1])])
write('Properties_C05_jets.v', HDR5 % ' (part jets)', [b for b in p if not isA(b.split()[1])])
write('Properties_C05_wave2.v', HDR5 % ' (part wave2)', blocks('C05', C + 'C05/C05_Wave2.v'))
write('Properties_C05_fit.v', HDR5 % ' (part fit)', blocks('C05', C + 'C05/C05_Fit.v', ('one_plus_sq', 'Ratan2_scale', 'zangle_RotZ', 'npi_is_PI')))
write('Properties_C05_partial.v', HDR5 % ' (part partial fits)', blocks('C05', C + 'C05/C05_Partial.v', ('half_sgn',)))
t = blocks('C03', C + 'C03/C03_Proofs.v', ('mulv_assoc', 'mulv_add', 'mulv_0', 'mulv_I', 'dV_affine'))
write('Properties_C03.v', HDR3 % '', [b.replace('C03_C03_joint_exists', 'C03_joint_exists_ex') for b in t])
isjet = lambda n: n.endswith('_jet') or '_jet_' in n
j = ['(** product / inverse rule for moving transforms (proved once, C05_Jet.v) *)']
j += blocks('C03', C + 'C05/C05_Jet.v', (), lambda n: n in ('C03_moves_compose', 'C03_moves_const', 'C03_moves_inv'))
j += ['(** per-catalogue-entry X_FM jets (the joint hypothesis of compose_jet), proved in C05 *)']
j += blocks('C03', C + 'C05/C05_Proofs.v', (), isjet) + blocks('C03', C + 'C05/C05_Wave2.v', (), isjet)
write('Properties_C03_jets.v', HDR3 % ' (part jets)', j)
