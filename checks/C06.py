"""C06 Physics is independent of the chosen representation (DESIGN 5 C06) -- PARTIAL.
Proved: for every tree, the model operators are equivariant/invariant under a proper rotation of all
Ground-frame per-body data (C06_Iso.v, C06_Rot.v).  Tie: on random simbody trees built twice (the second time
with every Ground-attached frame pre-multiplied by a rigid transform X and gravity rotated) the check verifies
(a) the HYPOTHESIS of the theorem on the implementation's per-body data (shift vectors, hinge columns, inertias are
related by the rotation) and (b) its CONCLUSION on the implementation's results (poses pre-multiplied by X,
velocities/accelerations rotated, udot, M and KE identical).  Quaternion<->Euler conversion pairs
(convertToEulerAngles/convertToQuaternions) are compared the same way (identical per-body data and results).
Custom/FunctionBased mirror pairs, conversion of the mirrors and reversed-vs-forward pairs are covered by the extension
checks/C06_mirror.py (theorems coq/C06/C06_mirror.v, probe harness/C06_mirror_probe.cpp), called from run() below."""
import os, math
from vlib import *
import C06_mirror

PROPS = ['Props/Properties_C06.v'] + C06_mirror.PROPS

def mat(v): return [v[0:3], v[3:6], v[6:9]]
def mv(M, x): return [sum(M[i][j] * x[j] for j in range(3)) for i in range(3)]
def mm(A, B): return [[sum(A[i][k] * B[k][j] for k in range(3)) for j in range(3)] for i in range(3)]
def tr(A): return [[A[j][i] for j in range(3)] for i in range(3)]
def symfull(d):  # xx yy zz xy xz yz
    xx, yy, zz, xy, xz, yz = d; return [[xx, xy, xz], [xy, yy, yz], [xz, yz, zz]]
def flat(A): return [x for r in A for x in r]
def vclose(a, b, tol=1e-8):
    sc = max([1.0] + [abs(x) for x in a] + [abs(x) for x in b])
    return len(a) == len(b) and all(abs(x - y) <= tol * sc for x, y in zip(a, b))

def parse_pairs(out):
    pairs = []; cur = None; member = None
    for line in out.split('\n'):
        t = line.split()
        if not t: continue
        if t[0] == 'PAIR': cur = {'kind': t[1], 'id': int(t[2]), 'A': {'body': {}, 'H': {}, 'res': {}}, 'B': {'body': {}, 'H': {}, 'res': {}}, 'X': None, 'lines': []}
        elif cur is None: continue
        elif t[0] == 'XR': cur['X'] = parse_floats(' '.join(t[1:]))
        elif t[0] == 'MEMBER': member = t[1]
        elif t[0] == 'BODY':
            f = parse_floats(' '.join(t[7:])); cur[member]['body'][int(t[1])] = {'parent': int(t[2]), 'type': t[5], 'rev': int(t[6]), 'l': f[0:3], 'm': f[3], 'p': f[4:7], 'I': f[7:13]}
            cur['lines'].append(line)
        elif t[0] == 'H': cur[member]['H'][(int(t[1]), int(t[2]))] = parse_floats(' '.join(t[3:]))
        elif t[0] in ('A', 'B'):
            if t[1] in ('POSE', 'VEL', 'ACC'): cur[t[0]]['res'][(t[1], int(t[2]))] = parse_floats(' '.join(t[3:]))
            else: cur[t[0]]['res'][(t[1], 0)] = parse_floats(' '.join(t[2:]))
        elif t[0] == 'ENDPAIR': pairs.append(cur); cur = None
    return pairs

def check_pair(p):
    """returns list of failed relations (strings)"""
    bad = []
    A, B = p['A'], p['B']
    if p['kind'] == 'RELOC':
        Q = mat(p['X'][0:9]); tX = p['X'][9:12]
    else:
        Q = [[1, 0, 0], [0, 1, 0], [0, 0, 1]]; tX = [0, 0, 0]
    rot6 = lambda v: mv(Q, v[0:3]) + mv(Q, v[3:6])
    # (a) hypothesis: per-body data related by the rotation
    for b, da in A['body'].items():
        db = B['body'].get(b)
        if db is None: bad.append('body %d missing' % b); continue
        lexp = mv(Q, da['l'])
        if da['parent'] == 0: lexp = [x + y for x, y in zip(lexp, tX)]
        if not vclose(lexp, db['l']): bad.append('shift vector of body %d not related by X' % b)
        if not vclose([da['m']], [db['m']]) or not vclose(mv(Q, da['p']), db['p']): bad.append('mass/com of body %d' % b)
        Iexp = mm(mm(Q, symfull(da['I'])), tr(Q))
        if not vclose(flat(Iexp), flat(symfull(db['I']))): bad.append('inertia of body %d not Q I Q^T' % b)
    for k, ha in A['H'].items():
        hb = B['H'].get(k)
        if hb is None or not vclose(rot6(ha), hb): bad.append('hinge column %s not rotated' % (k,))
    # (b) conclusion on results
    for k, ra in A['res'].items():
        rb = B['res'].get(k)
        if rb is None: bad.append('result %s missing' % (k,)); continue
        if k[0] == 'POSE' and k[1] == 0: continue      # Ground does not move
        if k[0] == 'POSE':
            Ra = mat(ra[0:9]); pa = ra[9:12]
            exp = flat(mm(Q, Ra)) + [x + y for x, y in zip(mv(Q, pa), tX)]
            if not vclose(exp, rb): bad.append('pose of body %d' % k[1])
        elif k[0] in ('VEL', 'ACC'):
            if not vclose(rot6(ra), rb, 1e-7): bad.append('%s of body %d' % (k[0], k[1]))
        elif k[0] == 'Q' and p['kind'] == 'CONV':
            continue                                        # coordinates legitimately differ between representations
        else:
            if not vclose(ra, rb, 1e-7): bad.append('%s differs' % k[0])
    return bad

def replay(ctx, path):
    C06_mirror.replay(ctx, path)   # handles every pair kind of this check (RELOC, CONV, MIRROR, MCONV, MSELF, REV)

def run(ctx):
    ctx.build_repo()
    C06_mirror.pre(ctx)            # translator group the C05 development (imported by the reversed theorems) depends on; starts the mirror probe build
    ctx.coq_props(PROPS)
    exe = ctx.bdir('C06_probe')
    if not ctx.cxx(os.path.join(VERIF, 'harness', 'C06_probe.cpp'), exe):
        ctx.broken.append(('correspondence:C06', 'probe does not compile against current source'))
    else:
        npairs, maxb = (60, 8) if ctx.tier == 'quick' else (1200, 12)
        rc, out, err = sh([exe, str(ctx.seed), str(npairs), str(maxb)], timeout=3000)
        if rc != 0: ctx.broken.append(('correspondence:C06', 'probe failed rc=%d %s' % (rc, err[-300:])))
        pairs = parse_pairs(out)
        kinds = {}; nontriv = set(); first = None; nbad = 0; types = {}
        for p in pairs:
            kinds[p['kind']] = kinds.get(p['kind'], 0) + 1
            sig = (p['kind'],) + tuple((d['type'], d['rev']) for _, d in sorted(p['A']['body'].items()))
            for _, d in p['A']['body'].items(): types[d['type']] = types.get(d['type'], 0) + 1
            if len(p['A']['body']) >= 2: nontriv.add(sig)
            bad = check_pair(p)
            if bad:
                nbad += 1
                if first is None: first = (p, bad)
        ctx.add_cases(len(pairs), len(nontriv), [{'kind': pairs[0]['kind'], 'bodies': pairs[0]['lines'][:2]}] if pairs else None)
        ctx.extra['correspondence'] = {'pairs': kinds, 'pairs_with_failed_relation': nbad, 'mobilizer_histogram': types, 'tolerance': 1e-8}
        if first:
            p, bad = first
            ctx.report('impl:%s-pair' % p['kind'].lower(), 'representation pair %s #%d (seed %d) violates: %s' % (p['kind'], p['id'], ctx.seed, '; '.join(bad[:4])),
                       {'replay_cmd': '%s %d %d %d' % (exe, ctx.seed, npairs, maxb), 'pair': p['id'], 'kind': p['kind'], 'failed': bad[:10], 'bodies': p['lines']})
    ctx.cov['rule'] = ('random simbody trees built twice (relocated by a random rigid transform; or state converted between quaternion and Euler coordinates); '
                       'per-body data relation (theorem hypothesis) and result relation (theorem conclusion) checked to 1e-8 relative; '
                       'non-trivial = at least 2 moving bodies; distinct by (pair kind, mobilizer type vector)')
    ctx.assumptions += [
                        'the model operators are tied to the code by C04/C01; this check ties the hypotheses/conclusions of the invariance theorem to the implementation data',
                        'translation of the whole model only changes the shift vectors of Ground-attached bodies, which multiply the zero Ground velocity (checked on data, not a separate theorem)']
    C06_mirror.run(ctx)            # mirror (Custom/FunctionBased), conversion-of-mirror and reversed pairs
    ctx.finish()
