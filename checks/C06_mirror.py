"""C06, mirror / conversion-of-mirror / reversed clauses (extension of checks/C06.py; called from its run()).
Proved (coq/C06/C06_mirror.v, statements in Props/Properties_C06_mirror.v):
  * extensionality: two per-body data assignments that agree on shift vector, hinge columns and spatial inertia at every
    node of a tree give identical kin / mulJ / accum / mulJt / mulM / ke2_terms -- for every tree;
  * reversed (formulation of Simbody/tests/TestReverseMobilizers.cpp), on top of C05's reversed_is_inverse / reversed_jet /
    rev_col_linear: the reversed declaration with swapped frames reproduces both bodies' poses for every q, and with the same
    u the reversed hinge columns generate the motion of the inverse pose.
Tie (harness/C06_mirror_probe.cpp): random trees built twice -- built-in vs Custom/FunctionBased mirrors (MIRROR), state
conversion of the twins (MCONV: built-in vs mirror after conversion; MSELF: mirror before vs after), forward vs reversed
(REV, all 16 built-in types with mobilities).  For every pair the HYPOTHESIS of the theorem is verified on the implementation's
per-body data (shift vectors, getHCol, inertias equal; for REV: inverse across-mobilizer transform, reversed hinge columns
getH_FMCol = rev_col of the forward ones, Ground-frame columns related by the shift) and the CONCLUSION on its results
(poses, velocities, accelerations, udot, qdot, qdotdot, mass matrix, kinetic energy; mobilizer reaction forces for the twins)
to 1e-9 relative."""
import os, sys, threading
from vlib import *

PROPS = ['Props/Properties_C06_mirror.v']
TOL = 1e-9
KINDS = ('MIRROR', 'MCONV', 'MSELF', 'REV')
CONV_CODE = {0: 'quaternion->Euler', 1: 'quaternion->Euler->quaternion (second step, Euler->quaternion)', 2: 'Euler->quaternion'}

def vclose(a, b, tol=TOL):
    if a is None or b is None or len(a) != len(b): return False
    sc = max([1.0] + [abs(x) for x in a] + [abs(x) for x in b])
    return all(abs(x - y) <= tol * sc for x, y in zip(a, b))      # NaN compares false -> not close
def verr(a, b):
    if a is None or b is None or len(a) != len(b): return float('inf')
    sc = max([1.0] + [abs(x) for x in a] + [abs(x) for x in b])
    e = 0.0
    for x, y in zip(a, b):
        d = abs(x - y) / sc
        if not (d <= e): e = d if d == d else float('inf')
    return e
def mat(v): return [v[0:3], v[3:6], v[6:9]]
def mv(M, x): return [sum(M[i][j] * x[j] for j in range(3)) for i in range(3)]
def mm(A, B): return [[sum(A[i][k] * B[k][j] for k in range(3)) for j in range(3)] for i in range(3)]
def cross(a, b): return [a[1] * b[2] - a[2] * b[1], a[2] * b[0] - a[0] * b[2], a[0] * b[1] - a[1] * b[0]]
def neg(a): return [-x for x in a]
def rev_col(Xr, h):
    """C05_Model.rev_col: w' = -(R w), v' = -(p x w') - R v with (R,p) = Xr"""
    R = mat(Xr[0:9]); p = Xr[9:12]
    w = neg(mv(R, h[0:3])); pw = cross(p, w); Rv = mv(R, h[3:6])
    return w + [-pw[i] - Rv[i] for i in range(3)]

INDEXED = ('POSE', 'VEL', 'ACC', 'HFM', 'REAC')
def parse_pairs(out):
    pairs = []; cur = None; member = None; skips = []
    for line in out.split('\n'):
        t = line.split()
        if not t: continue
        if t[0] == 'SKIP': skips.append(line); continue
        if t[0] == 'PAIR':
            cur = {'kind': t[1], 'id': int(t[2]), 'args': [int(x) for x in t[3:]], 'A': {'body': {}, 'H': {}, 'res': {}, 'routes': []},
                   'B': {'body': {}, 'H': {}, 'res': {}, 'routes': []}, 'lines': {'A': [], 'B': []}}
        elif cur is None: continue
        elif t[0] == 'MEMBER': member = t[1]
        elif t[0] == 'SYS': continue
        elif t[0] == 'ROUTES': cur[member]['routes'] = [int(x) for x in t[1:]]
        elif t[0] == 'BODY':
            f = parse_floats(' '.join(t[7:]))
            cur[member]['body'][int(t[1])] = {'parent': int(t[2]), 'nu': int(t[3]), 'type': t[5], 'rev': int(t[6]), 'l': f[0:3], 'm': f[3], 'p': f[4:7], 'I': f[7:13]}
            cur['lines'][member].append(' '.join(t[:7]))
        elif t[0] == 'H': cur[member]['H'][(int(t[1]), int(t[2]))] = parse_floats(' '.join(t[3:]))
        elif t[0] in ('A', 'B'):
            if t[1] in INDEXED: cur[t[0]]['res'][(t[1], int(t[2]))] = parse_floats(' '.join(t[3:]))
            else: cur[t[0]]['res'][(t[1], 0)] = parse_floats(' '.join(t[2:]))
        elif t[0] == 'ENDPAIR': pairs.append(cur); cur = None
    return pairs, skips

class Acc:
    """collects failed relations and the largest relative error seen per relation family"""
    def __init__(self): self.bad = []; self.maxerr = {}
    def eq(self, fam, what, a, b, tol=TOL):
        e = verr(a, b)
        if not (e <= self.maxerr.setdefault(fam, 0.0)): self.maxerr[fam] = e
        if not vclose(a, b, tol): self.bad.append('%s (rel.err %.3g)' % (what, e))

def same_body_data(acc, A, B, ids=None, hyp='hypothesis'):
    for b, da in A['body'].items():
        if ids is not None and b not in ids: continue
        db = B['body'].get(b)
        if db is None: acc.bad.append('body %d missing in member B' % b); continue
        if da['nu'] != db['nu']: acc.bad.append('body %d: number of mobilities differs' % b); continue
        acc.eq('hyp:shift', '%s: shift vector of body %d differs' % (hyp, b), da['l'], db['l'])
        acc.eq('hyp:inertia', '%s: mass/com/inertia of body %d differs' % (hyp, b), [da['m']] + da['p'] + da['I'], [db['m']] + db['p'] + db['I'])
        for k in range(da['nu']):
            acc.eq('hyp:H', '%s: hinge column (%d,%d) [getHCol] differs' % (hyp, b, k), A['H'].get((b, k)), B['H'].get((b, k)))

def check_twin_pair(p):
    """MIRROR / MCONV / MSELF: identical per-body data (hypothesis of the extensionality theorem), identical results"""
    acc = Acc(); A, B = p['A'], p['B']
    if set(A['body']) != set(B['body']): acc.bad.append('different body sets')
    same_body_data(acc, A, B)
    skipq = ('Q', 'QDOT', 'QDD') if p['kind'] == 'MSELF' else ()      # coordinates legitimately differ between representations
    for k, ra in A['res'].items():
        rb = B['res'].get(k)
        if k[0] in skipq: continue
        if rb is None: acc.bad.append('result %s missing' % (k,)); continue
        name = ('%s of body %d' % (k[0], k[1])) if k[0] in INDEXED else k[0]
        acc.eq('res:' + k[0], 'conclusion: %s differs' % name, ra, rb)
    return acc

def check_rev_pair(p):
    acc = Acc(); A, B = p['A'], p['B']          # A forward (A=1 base, B=2 under test), B reversed (B=2 base, A=1 under test)
    if set(A['body']) != set(B['body']): acc.bad.append('different body sets')
    # (a) extra children: identical per-body data (extensionality hypothesis); bodies A,B: identical inertias
    same_body_data(acc, A, B, ids=[b for b in A['body'] if b >= 3])
    for b in (1, 2):
        da, db = A['body'].get(b), B['body'].get(b)
        if da is None or db is None: acc.bad.append('body %d missing' % b); continue
        acc.eq('hyp:inertia', 'hypothesis: mass/com/inertia of body %d differs' % b, [da['m']] + da['p'] + da['I'], [db['m']] + db['p'] + db['I'])
    # (b) the reversed mobilizer: hypotheses of reversed_is_inverse / reversed_jet / rev_col_linear on getMobilizerTransform, getH_FMCol
    XA, XB = A['res'].get(('XFM', 0)), B['res'].get(('XFM', 0))
    if XA is None or XB is None: acc.bad.append('XFM missing')
    else:
        RA, RB = mat(XA[0:9]), mat(XB[0:9])
        comp = [x for r in mm(RB, RA) for x in r] + [x + y for x, y in zip(XB[9:12], mv(RB, XA[9:12]))]
        acc.eq('hyp:rev-inverse', 'hypothesis: reversed X_FM is not the inverse of the forward X_FM', comp, [1, 0, 0, 0, 1, 0, 0, 0, 1, 0, 0, 0])
        nuT = A['body'][2]['nu'] if 2 in A['body'] else 0
        if B['body'].get(1, {}).get('nu') != nuT: acc.bad.append('reversed mobilizer has a different number of mobilities')
        for k in range(nuT):
            ha, hb = A['res'].get(('HFM', k)), B['res'].get(('HFM', k))
            if ha is None or hb is None: acc.bad.append('HFM %d missing' % k); continue
            acc.eq('hyp:rev-H_FM', 'hypothesis: reversed H_FM column %d is not rev_col of the forward column' % k, rev_col(XB, ha), hb)
            # Ground-frame version on getHCol: H^R = -shift(l_R) H^F with l_R = p_A - p_B
            hga, hgb = A['H'].get((2, k)), B['H'].get((1, k)); lR = B['body'][1]['l']
            if hga is None or hgb is None: acc.bad.append('H column %d missing' % k); continue
            wl = cross(hga[0:3], lR)
            acc.eq('hyp:rev-H_G', 'hypothesis: reversed Ground-frame hinge column %d [getHCol] is not minus the shifted forward column' % k,
                   neg(hga[0:3]) + [-(hga[3 + i] + wl[i]) for i in range(3)], hgb)
        acc.eq('hyp:rev-shift', 'hypothesis: reversed shift vector is not minus the forward one', neg(A['body'][2]['l']), B['body'][1]['l'])
        va, vb = A['res'].get(('VFM', 0)), B['res'].get(('VFM', 0))
        acc.eq('hyp:rev-V_FM', 'reversed V_FM is not rev_col of the forward V_FM (same u)', rev_col(XB, va), vb)
    # (c) conclusion: same body motion and dynamics
    for k, ra in A['res'].items():
        if k[0] in ('XFM', 'VFM', 'HFM'): continue
        rb = B['res'].get(k)
        if rb is None: acc.bad.append('result %s missing' % (k,)); continue
        name = ('%s of body %d' % (k[0], k[1])) if k[0] in INDEXED else k[0]
        acc.eq('res:' + k[0], 'conclusion: %s differs' % name, ra, rb)
    return acc

def check_pair(p): return check_rev_pair(p) if p['kind'] == 'REV' else check_twin_pair(p)

def describe(p):
    if p['kind'] == 'REV': return 'type under test %s, %s mode' % (p['A']['body'].get(2, {}).get('type'), 'Euler' if p['args'][1] else 'quaternion')
    if p['kind'] == 'MIRROR': return '%s mode' % ('Euler' if p['args'][0] else 'quaternion')
    return CONV_CODE.get(p['args'][0], '?')

_build = {}
def pre(ctx):
    """Properties_C06_mirror.v imports the C05 development, which needs Gen/rot_gen.v regenerated from source.
    Also starts compiling the probe (a large translation unit) while the Coq obligations are being checked."""
    ctx.translate('rot')
    exe = ctx.bdir('C06_mirror_probe')
    def work(): _build['ok'] = ctx.cxx(os.path.join(VERIF, 'harness', 'C06_mirror_probe.cpp'), exe, opt='-O0')
    _build['thread'] = threading.Thread(target=work); _build['thread'].start()

def run(ctx):
    exe = ctx.bdir('C06_mirror_probe')
    if 'thread' not in _build: pre(ctx)
    _build['thread'].join()
    if not _build.get('ok'):
        ctx.broken.append(('correspondence:C06-mirror', 'mirror probe does not compile against current source')); return
    npairs, maxb = (160, 6) if ctx.tier == 'quick' else (1600, 9)
    rc, out, err = sh([exe, str(ctx.seed), str(npairs), str(maxb)], timeout=3000)
    if rc != 0: ctx.broken.append(('correspondence:C06-mirror', 'mirror probe failed rc=%d %s' % (rc, err[-300:])))
    pairs, skips = parse_pairs(out)
    kinds = {}; nontriv = set(); firsts = {}; nbad = {}; maxerr = {}; mirrored = {}; revtypes = {}; routes = {0: 0, 1: 0, 2: 0}
    for p in pairs:
        kinds[p['kind']] = kinds.get(p['kind'], 0) + 1
        sig = (p['kind'],) + tuple(p['args'][:2]) + tuple((d['type'], d['rev']) for _, d in sorted(p['A']['body'].items())) + tuple(p['B']['routes'])
        if len(p['A']['body']) >= 2 or p['kind'] != 'REV': nontriv.add(sig)
        if p['kind'] == 'REV':
            ty = p['A']['body'].get(2, {}).get('type'); revtypes[ty] = revtypes.get(ty, 0) + 1
        else:
            for (b, d), rt in zip(sorted(p['B']['body'].items()), p['B']['routes']):
                key = '%s:%s%s' % (d['type'], {1: 'Custom', 2: 'FunctionBased'}.get(rt, '?'), '/Reverse' if d['rev'] else '')
                mirrored[key] = mirrored.get(key, 0) + 1
        acc = check_pair(p)
        for fam, e in acc.maxerr.items():
            if not (e <= maxerr.setdefault(fam, 0.0)): maxerr[fam] = e
        if acc.bad:
            nbad[p['kind']] = nbad.get(p['kind'], 0) + 1
            if p['kind'] not in firsts: firsts[p['kind']] = (p, acc.bad)
    for k in KINDS:
        if kinds.get(k, 0) == 0: ctx.broken.append(('correspondence:C06-mirror', 'no %s pair was produced (%s)' % (k, '; '.join(skips[:2]))))
    ctx.add_cases(len(pairs), len(nontriv), [{'kind': p['kind'], 'what': describe(p), 'bodies': p['lines']['B'][:3]} for p in pairs[:2]])
    ctx.extra['correspondence_mirror'] = {'pairs': kinds, 'pairs_with_failed_relation': nbad, 'skipped': len(skips), 'tolerance_relative': TOL,
                                          'max_relative_error_seen': {k: float('%.3g' % v) for k, v in sorted(maxerr.items())},
                                          'mirrored_mobilizers': mirrored, 'reversed_types_under_test': revtypes}
    # a failed relation in any pair kind is reported once per kind with the first concrete pair
    for kind in KINDS:
        if kind not in firsts: continue
        p, bad = firsts[kind]
        ctx.report('impl:%s-pair' % kind.lower(),
                   'representation pair %s #%d (%s; seed %d) violates: %s' % (kind, p['id'], describe(p), ctx.seed, '; '.join(bad[:4])),
                   {'replay_cmd': '%s %d %d %d' % (exe, ctx.seed, npairs, maxb), 'pair': p['id'], 'kind': kind, 'args': p['args'], 'what': describe(p),
                    'failed': bad[:12], 'member_A_bodies': p['lines']['A'], 'member_B_bodies': p['lines']['B'], 'member_B_routes (1 Custom, 2 FunctionBased)': p['B']['routes']})
    ctx.cov['rule'] = (ctx.cov.get('rule') or '') + (' || mirror extension: random trees built twice (built-in vs Custom/FunctionBased mirror; twins through '
        'quaternion<->Euler conversion; forward vs Reverse-with-swapped-frames as in TestReverseMobilizers.cpp over all 16 types); per-body data relation '
        '(hypothesis) and result relation (conclusion) checked to 1e-9 relative; distinct by (kind, mode, mobilizer type/direction vector, mirror route vector)')
    ctx.assumptions += ['mirror clause: the Custom implementations are written in the harness (harness/C06_mirror_probe.cpp) from the documented parameterisation (the C05 catalogue); '
                        'Ellipsoid and SphericalCoords (default options) are mirrored by Custom only; LineOrientation, FreeLine and Weld have no mirror there (reversed pairs cover them)',
                        'reversed clause: Coq proves pose equality for every q (hence along trajectories) and the velocity-level statement; equality of the DYNAMICS of the forward and '
                        'reversed models (different trees) is tied by the metamorphic comparison only, not by a tree-level theorem']

def replay(ctx, path):
    """bin/check C06 --replay FILE: re-run the recorded probe command, re-check the recorded pair, print the verdict."""
    import json, shlex
    import C06
    obj = json.load(open(path))
    kind, pid = obj.get('kind'), obj.get('pair')
    if not obj.get('replay_cmd') or kind is None:
        print('replay: %s records no concrete pair (%s)' % (path, obj.get('what', obj.get('no_longer_checks')))); return
    ctx.build_repo()
    mirror = kind in KINDS
    src = os.path.join(VERIF, 'harness', 'C06_mirror_probe.cpp' if mirror else 'C06_probe.cpp')
    cmd = shlex.split(obj['replay_cmd'])
    if not ctx.cxx(src, cmd[0], opt='-O0' if mirror else '-O1'):
        print('replay: probe does not compile'); sys.exit(2)
    rc, out, err = sh(cmd, timeout=3000)
    pairs = parse_pairs(out)[0] if mirror else C06.parse_pairs(out)
    hits = [p for p in pairs if p['kind'] == kind and p['id'] == pid and (not mirror or p['args'] == obj.get('args', p['args']))]
    if not hits: print('replay: pair %s #%s not produced by %s' % (kind, pid, obj['replay_cmd'])); sys.exit(2)
    bad = check_pair(hits[0]).bad if mirror else C06.check_pair(hits[0])
    if bad:
        print('REPRODUCED property=C06 pair %s #%s still violates: %s' % (kind, pid, '; '.join(bad[:6]))); sys.exit(1)
    print('replay: pair %s #%s satisfies all relations now' % (kind, pid))
