"""C07 Constraint errors form a derivative hierarchy with adjoint forces (DESIGN 5 C07).

Model: coq/C07/C07_Model.v + C07_Contact.v (second wave: SphereOnPlaneContact, SphereOnSphereContact, PointOnPlaneContact) -- the constraint-equation kernels of Rod, Ball, Weld, PointInPlane, PointOnLine, ConstantAngle,
ConstantOrientation, NoSlip1D, ConstantCoordinate/Speed/Acceleration, linear Coordinate/SpeedCoupler and the Ancestor-frame
conversion, hand-written from ConstraintImpl.h / Constraint_RodImpl.h / Constraint_Rod.cpp / Constraint.cpp, generic in NumOps.
Theorems: coq/Props/Properties_C07.v (per type: verr is the jet of perr, aerr the jet of verr, forces are the exact transpose
of the velocity-error map and balanced; exact off-manifold relations for Ball/Weld; refutations for Ball/Weld off the manifold
and NoSlip1D; system level: G^T is the exact adjoint of G for every tree).
Tie: correspondence -- harness/C07_con.cpp builds random constrained systems and prints parameters, kinematics and what the
implementation reports; the extracted model (OCaml, float NumOps) recomputes perr/verr/aerr, constraint forces from multipliers,
every column of G, G*u and G^T*lambda from the same inputs.  Failing-input search: harness/C07_search.cpp (finite differences
and adjoint residuals on the implementation alone, over ALL constructible built-in constraint types incl. the unmodelled LineOnLineContact
and PrescribedMotion, both bodies moving and rotating)."""
import os, sys, math, collections
from vlib import *

PROPS = ['Props/Properties_C07.v', 'Props/Properties_C07b.v']
def is_body(k): return k <= 7 or 13 <= k <= 17
EXTRACT = '''From Coq Require Import Extraction ExtrOcamlBasic.
Require Import Num Vec C07_Model C07_Contact.
Extraction "c07model.ml" ev_perr ev_verr ev_aerr ev_force ev_forceG svdots cc_perr cs_verr cacc_aerr
  ccpl_perr ccpl_verr ccpl_aerr ccpl_force scpl_verr scpl_aerr scpl_force mkBk ev2_perr ev2_verr ev2_aerr ev2_force ev2_forceG.
'''
KNAMES = ['Rod', 'Ball', 'Weld', 'PointInPlane', 'PointOnLine', 'ConstantAngle', 'ConstantOrientation', 'NoSlip1D',
          'ConstantCoordinate', 'ConstantSpeed', 'ConstantAcceleration', 'CoordinateCoupler', 'SpeedCoupler',
          'SphereOnPlaneContact', 'SphereOnPlaneContact+rolling', 'SphereOnSphereContact', 'SphereOnSphereContact+rolling', 'PointOnPlaneContact',
          'LineOnLineContact', 'LineOnLineContact+rolling', 'PrescribedMotion']
NALL = len(KNAMES)      # kinds the finite-difference search iterates over (harness/C07_sys.h K_NALL)
PAIRS = ['branches(2,3)', 'anc/desc(1,4)', 'ground(0,4)', 'ground-rev(4,0)', 'desc/anc(4,1)', 'branches(3,2)', 'branches(3,4)', 'ground(0,3)']
RTOL, ATOL = 1e-9, 1e-10
KEY_BIAS = 'bias-operator-holonomic-q-constraints-ignores-NDot-u'

def fmt(xs):
    return ' '.join(hexf(x) if isinstance(x, float) else str(x) for x in xs)

# ------------------------------------------------------------------ parsing the probe output
def parse_cases(out):
    cases = []; cur = None; skipped = 0
    for line in out.split('\n'):
        t = line.split()
        if not t: continue
        if t[0] == 'CASE':
            cur = {'id': int(t[1]), 'kind': int(t[2]), 'pair': int(t[5]), 'onman': int(t[7]), 'euler': int(t[9]), 'nu': int(t[11]), 'nq': int(t[13]),
                   'm': (int(t[15]), int(t[16]), int(t[17])), 'types': [int(x) for x in t[19:23]], 'extra': int(t[24]), 'rowoffset': int(t[26]), 'bodies': [], 'jcol': {}, 'coords': [], 'ncol': {},
                   'out': collections.OrderedDict(), 'fa': [], 'gcol': {}, 'pqcol': {}, 'head': line}
        elif t[0] == 'SKIP': skipped += 1; cur = None
        elif cur is None: continue
        elif t[0] == 'END': cases.append(cur); cur = None
        elif t[0] == 'TINY': cur['tiny'] = parse_floats(t[1])[0]
        elif t[0] == 'PAR': cur['par'] = parse_floats(' '.join(t[1:]))
        elif t[0] == 'LAM': cur['lam'] = parse_floats(' '.join(t[1:]))
        elif t[0] == 'UU': cur['uu'] = parse_floats(' '.join(t[1:]))
        elif t[0] == 'UDOT': cur['udot'] = parse_floats(' '.join(t[1:]))
        elif t[0] == 'ANC': cur['anc'] = (int(t[1]), parse_floats(' '.join(t[2:])))
        elif t[0] == 'BODY': cur['bodies'].append((int(t[1]), parse_floats(' '.join(t[2:]))))
        elif t[0] == 'JCOL': cur['jcol'][int(t[1])] = parse_floats(' '.join(t[2:]))
        elif t[0] == 'JUU': cur['juu'] = parse_floats(' '.join(t[1:]))
        elif t[0] == 'COORD': cur['coords'].append([int(x) for x in t[1:5]] + parse_floats(' '.join(t[5:])))
        elif t[0] == 'NSPEEDS': cur['nspeeds'] = int(t[1])
        elif t[0] == 'NCOL': cur['ncol'][int(t[1])] = parse_floats(' '.join(t[2:]))
        elif t[0] == 'OUT':
            if t[1] == 'FA': cur['fa'].append((int(t[2]), parse_floats(' '.join(t[3:]))))
            elif t[1] == 'GCOL': cur['gcol'][int(t[2])] = parse_floats(' '.join(t[3:]))
            elif t[1] == 'PQCOL': cur['pqcol'][int(t[2])] = parse_floats(' '.join(t[3:]))
            else: cur['out'][t[1]] = parse_floats(' '.join(t[2:]))
    return cases, skipped

# ------------------------------------------------------------------ queries for the model driver
def bquery(c, fn, vels=None, lam=None):
    """body-constraint query; vels = per-record replacement of the velocity block (ancestor first), accelerations zeroed"""
    recs = [c['anc'][1]] + [b[1] for b in c['bodies']]
    if vels is not None:
        recs = [r[:12] + vels[6 * i:6 * i + 6] + [0.0] * 6 for i, r in enumerate(recs)]
    o = [c['kind'], c['tiny'], len(c['par'])] + c['par'] + [len(c['bodies'])]
    for r in recs: o += r
    lam = lam if lam is not None else []
    o += [len(lam)] + lam
    return 'B %s %s' % (fn, fmt(o))
def mquery(c, fn, a, b=(), cc=()):
    return 'M %s %s' % (fn, fmt([c['kind'], len(a)] + list(a) + [len(b)] + list(b) + [len(cc)] + list(cc)))

def queries(c):
    """-> list of (label, query, expected implementation vector or None)"""
    k = c['kind']; nu = c['nu']; mp, mv, ma = c['m']; o = c['out']; q = []
    if is_body(k):
        x = '2' if k >= 13 else ''
        if mp: q.append(('PERR', bquery(c, 'PERR' + x), o['PERR']))
        q.append(('VERR', bquery(c, 'VERR' + x), o['VERR']))
        q.append(('AERR', bquery(c, 'AERR' + x), o['AERR']))
        q.append(('FORCE', bquery(c, 'FORCE' + x, lam=c['lam']), None))
        q.append(('FORCEG', bquery(c, 'FORCEG' + x, lam=c['lam']), None))
        for j in range(nu): q.append(('GCOL%d' % j, bquery(c, 'VERR' + x, vels=c['jcol'][j]), c['gcol'][j]))
        q.append(('GU', bquery(c, 'VERR' + x, vels=c['juu']), o['GU']))
    else:
        co = c['coords']; par = c['par']; lam = c['lam']
        qs = [x[4] for x in co]; qd = [x[5] for x in co]; qdd = [x[6] for x in co]; us = [x[7] for x in co]; ud = [x[8] for x in co]
        if k == 8:
            q += [('PERR', mquery(c, 'PERR', qs, par), o['PERR']), ('VERR', mquery(c, 'VERR', qd), o['VERR']), ('AERR', mquery(c, 'AERR', qdd), o['AERR']),
                  ('FORCE', mquery(c, 'FORCE', lam), None)]
            for j in range(nu): q.append(('GCOL%d' % j, mquery(c, 'VERR', [c['ncol'][j][co[0][2]]]), c['gcol'][j]))
        elif k == 9:
            q += [('VERR', mquery(c, 'VERR', us, par), o['VERR']), ('AERR', mquery(c, 'AERR', ud), o['AERR']), ('FORCE', mquery(c, 'FORCE', lam), None)]
            for j in range(nu): q.append(('GCOL%d' % j, mquery(c, 'VERR', [1.0 if j == co[0][3] else 0.0], [0.0]), c['gcol'][j]))
        elif k == 10:
            q += [('AERR', mquery(c, 'AERR', ud, par), o['AERR']), ('FORCE', mquery(c, 'FORCE', lam), None)]
            for j in range(nu): q.append(('GCOL%d' % j, mquery(c, 'AERR', [1.0 if j == co[0][3] else 0.0], [0.0]), c['gcol'][j]))
        elif k == 11:
            q += [('PERR', mquery(c, 'PERR', par, qs), o['PERR']), ('VERR', mquery(c, 'VERR', par, qd), o['VERR']), ('AERR', mquery(c, 'AERR', par, qdd), o['AERR']),
                  ('FORCE', mquery(c, 'FORCE', par, lam, [len(co)]), None)]
            for j in range(nu): q.append(('GCOL%d' % j, mquery(c, 'VERR', par, [c['ncol'][j][x[2]] for x in co]), c['gcol'][j]))
        elif k == 12:
            ks = c['nspeeds']
            q += [('VERR', mquery(c, 'VERR', par, us[:ks], qs[ks:]), o['VERR']), ('AERR', mquery(c, 'AERR', par, ud[:ks], qd[ks:]), o['AERR']),
                  ('FORCE', mquery(c, 'FORCE', par, lam, [ks]), None)]
            zq = [0.0] * (len(co) - ks)
            for j in range(nu): q.append(('GCOL%d' % j, mquery(c, 'AERR', par, [1.0 if j == x[3] else 0.0 for x in co[:ks]], zq), c['gcol'][j]))
    return q

def agree(a, b, scale=None):
    if a is None or b is None or len(a) != len(b): return False
    sc = max([abs(x) for x in list(a) + list(b) if x == x] + [1.0]) if scale is None else scale
    return all(close(x, y, RTOL, ATOL, scale=sc) for x, y in zip(a, b))

def dot(a, b): return sum(x * y for x, y in zip(a, b))

def check_case(c, res):
    """res: label -> model vector.  -> list of (what, impl, model)"""
    bad = []; k = c['kind']; nu = c['nu']; o = c['out']; mp, mv, ma = c['m']
    for lab, (mod, exp) in res.items():
        if exp is not None and not agree(exp, mod): bad.append((lab, exp, mod))
    if is_body(k):
        # constraint forces from multipliers, per mobilized body, in the Ancestor frame
        roles = [b[0] for b in c['bodies']]
        mod = collections.defaultdict(lambda: [0.0] * 6); imp = collections.defaultdict(lambda: [0.0] * 6)
        F = res['FORCE'][0]
        for i, rb in enumerate(roles):
            for a in range(6): mod[rb][a] += F[6 * i + a]
        for mbx, f in c['fa']:
            for a in range(6): imp[mbx][a] += f[a]
        for mbx in set(list(mod) + list(imp)):
            if not agree(imp[mbx], mod[mbx]): bad.append(('FORCE(body %d)' % mbx, imp[mbx], mod[mbx]))
        # G^T lambda = J^T (R_GA F_A): model forces in Ground dotted with the implementation's Jacobian columns of the constrained bodies
        FG = res['FORCEG'][0]
        gtl = [sum(dot(FG[6 * i:6 * i + 6], c['jcol'][j][6 * (i + 1):6 * (i + 2)]) for i in range(len(roles))) for j in range(nu)]
        if not agree(o['GTL'], gtl): bad.append(('GTL', o['GTL'], gtl))
    else:
        co = c['coords']; F = res['FORCE'][0]; gtl = [0.0] * nu
        if k in (8, 11):      # q-forces, converted with N^T
            for j in range(nu): gtl[j] = sum(F[i] * c['ncol'][j][co[i][2]] for i in range(len(F)))
        else:
            for i, f in enumerate(F): gtl[co[i][3]] += f
        if not agree(o['GTL'], gtl): bad.append(('GTL', o['GTL'], gtl))
    return bad

def impl_consistency(c):
    """predicates on the implementation's own outputs (no model): operator forms agree with the explicit matrices"""
    bad = []; o = c['out']; nu = c['nu']; nq = c['nq']; mp, mv, ma = c['m']; m = mp + mv + ma
    G = [[c['gcol'][j][i] for j in range(nu)] for i in range(m)]
    gu = [dot(G[i], c['uu']) for i in range(m)]
    if not agree(o['GU'], gu): bad.append(('multiplyByG vs calcG', o['GU'], gu))
    gtl = [sum(G[i][j] * c['lam'][i] for i in range(m)) for j in range(nu)]
    if not agree(o['GTL'], gtl): bad.append(('multiplyByGTranspose vs calcG^T', o['GTL'], gtl))
    if not agree(o['GTMATL'], gtl): bad.append(('calcGTranspose vs calcG^T', o['GTMATL'], gtl))
    ae = [dot(G[i], c['udot']) + o['AERR0'][i] for i in range(m)]
    if not agree(o['AERR'], ae): bad.append(('pvaerr(udot) vs G*udot + pvaerr(0)', o['AERR'], ae))
    lhs = dot(c['lam'], o['GU']); rhs = dot(o['GTL'], c['uu'])
    if not close(lhs, rhs, RTOL, ATOL, scale=max(1.0, abs(lhs))): bad.append(('adjoint <lam,Gu> = <G^T lam,u>', [lhs], [rhs]))
    if mp:
        if not agree(o['PQQDOT'], o['VERR'][:mp]): bad.append(('Pq*qdot vs pverr', o['VERR'][:mp], o['PQQDOT']))
        Pq = [[c['pqcol'][j][i] for j in range(nq)] for i in range(mp)]
        # Pq is determined only on the tangent space of the quaternion constraints (Pq = P N^+), so its transpose operator is
        # compared after contraction with the tangent vector qdot = N u:  <Pq^T lam, qdot> = <lam, Pq qdot> = <calcPq^T lam, qdot>
        pt = [sum(Pq[i][j] * c['lam'][i] for i in range(mp)) for j in range(nq)]
        a1 = dot(o['PQTL'], o['QDOT']); a2 = dot(c['lam'][:mp], o['PQQDOT']); a3 = dot(pt, o['QDOT'])
        sc = max(1.0, abs(a1), abs(a2))
        if not (close(a1, a2, RTOL, ATOL, scale=sc) and close(a3, a2, RTOL, ATOL, scale=sc)):
            bad.append(('Pq adjoint <Pq^T lam,qdot> = <lam,Pq qdot> (operator, matrix)', [a1, a3], [a2]))
    return bad

# ------------------------------------------------------------------ building and running both sides
def build_sides(ctx):
    exe = ctx.bdir('C07_con')
    if not ctx.cxx(os.path.join(VERIF, 'harness', 'C07_con.cpp'), exe):
        ctx.broken.append(('harness:C07_con', 'harness does not compile against the current headers')); return None
    od = ctx.bdir('ml')
    if not ctx.extract(EXTRACT, od):
        ctx.broken.append(('extract:C07_Model', 'model extraction failed')); return None
    drv = open(os.path.join(VERIF, 'ocaml', 'C07_drv.ml')).read().replace('#include "fops.inc"', open(os.path.join(VERIF, 'ocaml', 'fops.inc')).read())
    open(os.path.join(od, 'drv.ml'), 'w').write(drv)
    if not ctx.ocaml(od, ['c07model.mli', 'c07model.ml', 'drv.ml'], 'drv'):
        ctx.broken.append(('ocaml:C07_drv', 'driver build failed')); return None
    return exe, os.path.join(od, 'drv')

def correspondence(ctx, exes, ncases, seed_offset=0):
    exe, drv = exes
    rc, out, err = sh([exe, str(ctx.seed + seed_offset), str(ncases)], timeout=1800)
    if rc != 0:
        ctx.broken.append(('harness:C07_con', 'probe failed rc=%d %s' % (rc, (out + err)[-400:]))); return
    cases, skipped = parse_cases(out)
    allq = []; index = []
    for ci, c in enumerate(cases):
        for lab, qline, exp in queries(c):
            allq.append(qline); index.append((ci, lab, exp))
    rc, mout, err = sh([drv], input='\n'.join(allq) + '\n', timeout=1800)
    mlines = mout.split('\n')
    if rc != 0 or len([l for l in mlines if l.strip() or True]) < len(allq):
        ctx.broken.append(('ocaml:C07_drv', 'driver failed rc=%d produced %d lines for %d queries %s' % (rc, len(mlines), len(allq), err[-300:]))); return
    results = [collections.OrderedDict() for _ in cases]
    for (ci, lab, exp), l in zip(index, mlines):
        results[ci][lab] = (parse_floats(l), exp)
    hist = collections.Counter(); nontriv = 0; dis = []; incons = []; ncmp = 0; biasbad = []
    for c, res in zip(cases, results):
        key = KNAMES[c['kind']] + (':' + PAIRS[c['pair']].split('(')[0] if is_body(c['kind']) else '') + (':onmanifold' if c['onman'] else '') + (':with-second-constraint' if c['extra'] else '')
        hist[key] += 1
        ncmp += len(res) + 2
        if any(abs(x) > 1e-6 for x in c['out'].get('VERR', []) + c['out'].get('AERR', [])): nontriv += 1
        for what, imp, mod in check_case(c, res): dis.append((c, what, imp, mod))
        for what, a, b in impl_consistency(c): incons.append((c, what, a, b))
        # the bias operator must be the acceleration error at udot = 0 (its documented meaning)
        if not agree(c['out']['AERR0'], c['out']['ABIAS']): biasbad.append(c)
    ctx.add_cases(len(cases), nontriv, [{'case': c['head'], 'impl_VERR': c['out'].get('VERR'), 'model_VERR': results[i].get('VERR', (None,))[0]} for i, c in enumerate(cases[:2])])
    ctx.extra.setdefault('correspondence', {'cases': 0, 'skipped_by_generator': 0, 'vectors_compared': 0, 'histogram': {}})
    e = ctx.extra['correspondence']; e['cases'] += len(cases); e['skipped_by_generator'] += skipped; e['vectors_compared'] += ncmp
    for k2, v in hist.items(): e['histogram'][k2] = e['histogram'].get(k2, 0) + v
    e['rtol'] = RTOL; e['atol'] = ATOL
    if skipped > 0.1 * ncases:      # generator rejections (failed projections of random sets) are rare; many of them means the probe itself is broken
        ctx.broken.append(('generator:C07', 'the probe skipped %d of %d cases' % (skipped, ncases)))
    if dis:
        c, what, imp, mod = dis[0]
        ctx.broken.append(('correspondence:%s:%s' % (KNAMES[c['kind']], what), 'model and implementation differ in %s (%d disagreements in %d cases): %s impl=%s model=%s; replay: %s %d %d' %
                           (what, len(dis), len(cases), c['head'], imp[:8], (mod or [])[:8], exe, ctx.seed + seed_offset, ncases)))
    if biasbad:
        c = biasbad[0]
        e['bias_operator_mismatches'] = e.get('bias_operator_mismatches', 0) + len(biasbad)
        if all(x['kind'] in (8, 11) for x in biasbad):
            ctx.report(KEY_BIAS, 'calcBiasForAccelerationConstraints (= calcConstraintAccelerationErrors with an empty udot) differs from '
                       'calcConstraintAccelerationErrors with udot = 0 for %s: %s vs %s on %s' % (KNAMES[c['kind']], c['out']['ABIAS'], c['out']['AERR0'], c['head']),
                       {'replay_cmd': '%s %d %d' % (exe, ctx.seed + seed_offset, ncases), 'case': c['head'], 'bias_operator': c['out']['ABIAS'], 'pvaerr_at_zero_udot': c['out']['AERR0']})
        else:
            c = [x for x in biasbad if x['kind'] not in (8, 11)][0]
            ctx.broken.append(('impl-consistency:bias:%s' % KNAMES[c['kind']], 'calcBiasForAccelerationConstraints differs from pvaerr(udot=0) on %s' % c['head']))
            ctx.report('impl:bias-mismatch:' + KNAMES[c['kind']], 'C07: bias operator differs from pvaerr(0) on %s' % c['head'],
                       {'replay_cmd': '%s %d %d' % (exe, ctx.seed + seed_offset, ncases), 'case': c['head']})
    if incons:
        c, what, a, b = incons[0]
        ctx.broken.append(('impl-consistency:%s' % KNAMES[c['kind']], 'implementation operators disagree with each other: %s: %s a=%s b=%s' % (what, c['head'], a[:8], b[:8])))
        ctx.report('impl:operator-mismatch:' + KNAMES[c['kind']], 'C07: %s on %s' % (what, c['head']),
                   {'replay_cmd': '%s %d %d' % (exe, ctx.seed + seed_offset, ncases), 'case': c['head'], 'a': a, 'b': b})

KEY_BALL = 'Ball-Weld-verr-aerr-use-coincident-material-point'
KEY_NOSLIP = 'NoSlip1D-aerr-omits-convective-terms'
KEY_SOS = 'SphereOnSphereContact-rolling-aerr-ignores-contact-frame-spin'
FD_TOL, EXACT_TOL = 1e-6, 1e-9

def build_search(ctx):
    exe = ctx.bdir('C07_search')
    if not ctx.cxx(os.path.join(VERIF, 'harness', 'C07_search.cpp'), exe):
        ctx.broken.append(('search:C07', 'search harness does not compile')); return None
    return exe

def witnesses(ctx, exe):
    """replay the Coq refutation witnesses (C07_Ball.v, C07_NoSlip.v) on the implementation"""
    rc, out, err = sh([exe, 'witness'], timeout=300)
    w = {}
    for l in out.split('\n'):
        t = l.split()
        if t and t[0] == 'WITNESS':
            d = {}; key = None
            for x in t[2:]:
                try: d[key].append(float(x))
                except (ValueError, KeyError): key = x; d[key] = []
            w[t[1]] = d
    ctx.extra['witness_replay'] = w
    want = {'ball_verr': ('verr', 'fd_perr', 1, -1.0, 0.0), 'ball_aerr': ('aerr', 'fd_verr', 1, 0.0, -1.0), 'noslip_aerr': ('aerr', 'fd_verr', 0, 0.0, -1.0)}
    for name, (a, b, i, va, vb) in want.items():
        d = w.get(name)
        if d is None:
            ctx.broken.append(('witness:' + name, 'witness replay produced no output: ' + (out + err)[-200:])); continue
        got_a, got_b = d[a][i], d[b][i]
        if abs(got_a - va) < 1e-6 and abs(got_b - vb) < 1e-6:
            key = KEY_NOSLIP if name == 'noslip_aerr' else KEY_BALL
            ctx.report(key, 'C07 witness %s of the Coq refutation reproduced on the implementation: reported %s[%d] = %g but the time derivative (central difference) is %g' % (name, a, i, got_a, got_b),
                       {'replay_cmd': exe + ' witness', 'witness': name, 'output': d})
        else:
            ctx.broken.append(('witness:' + name, 'the implementation no longer behaves as the refutation witness says (model %s=%g, derivative=%g; implementation %g, %g): the model is not faithful any more' % (a, va, vb, got_a, got_b)))

def search(ctx, exe, n):
    """failing-input search on the implementation alone: finite differences and adjoint residuals"""
    rc, out, err = sh([exe, 'search', str(ctx.seed), str(n)], timeout=3000)
    done = [l for l in out.split('\n') if l.startswith('DONE')]
    rows = []
    for l in out.split('\n'):
        t = l.split()
        if t and t[0] == 'S':
            d = {'kind': int(t[1]), 'pair': int(t[4]), 'onman': int(t[6]), 'line': l}
            for i in range(7, len(t) - 1, 2): d[t[i]] = float(t[i + 1])
            rows.append(d)
    worst = collections.defaultdict(float); nfail = 0; known = collections.Counter(); reported = set()
    for d in rows:
        k = d['kind']; offBW = k in (1, 2) and not d['onman']
        for name, tol in (('e_G', EXACT_TOL), ('e_adj', EXACT_TOL), ('e_mulG', EXACT_TOL), ('e_dq', FD_TOL), ('e_du', FD_TOL), ('e_Pq', FD_TOL), ('e_bias', EXACT_TOL)):
            v = d[name]
            if not (v > tol):
                worst[name] = max(worst[name], v); continue
            if name in ('e_dq', 'e_du', 'e_Pq') and offBW: key = KEY_BALL
            elif name == 'e_du' and k == 7: key = KEY_NOSLIP
            elif name == 'e_du' and k == 16 and not d['onman']: key = KEY_SOS
            elif name == 'e_bias' and k in (8, 11, 20): key = KEY_BIAS
            else: key = 'impl:%s:%s' % (name, KNAMES[k])
            if key in (KEY_BALL, KEY_NOSLIP, KEY_BIAS, KEY_SOS): known[key] += 1
            else: nfail += 1
            if key in reported: continue          # one replay per distinct failure kind (the first failing input)
            reported.add(key)
            ctx.report(key, 'C07 search: %s = %.3g exceeds %.1g on %s' % (name, v, tol, d['line']), {'replay_cmd': '%s search %d %d' % (exe, ctx.seed, n), 'failing_input': d['line']})
    cover = collections.Counter(KNAMES[d['kind']] + (':both-bodies-moving' if (d['kind'] <= 7 or 13 <= d['kind'] <= 19) and d['pair'] in (0, 5, 6) else '') for d in rows)
    ctx.extra['search_types_covered'] = dict(cover)
    missing = [KNAMES[k] for k in range(NALL) if not any(d['kind'] == k for d in rows)]
    if missing: ctx.broken.append(('search:C07', 'the finite-difference search produced no case for: ' + ', '.join(missing)))
    ctx.extra['search'] = {'systems': len(rows), 'predicate_evaluations': int(done[0].split()[1]) if done else 0, 'unexpected_failures': nfail,
                           'known_finding_hits': dict(known), 'worst_residual_among_passing': dict(worst), 'fd_tol': FD_TOL, 'exact_tol': EXACT_TOL}
    if not rows: ctx.broken.append(('search:C07', 'search produced no rows: ' + (out + err)[-300:]))

def run(ctx):
    ctx.build_repo()
    ctx.coq_props(PROPS)
    exes = build_sides(ctx)
    if exes:
        correspondence(ctx, exes, 650 if ctx.tier == 'quick' else 6500)
    sx = build_search(ctx)
    if sx:
        witnesses(ctx, sx)
        search(ctx, sx, (4200 if ctx.broken else 420) if ctx.tier == 'quick' else 8400)
    ctx.cov['rule'] = ('correspondence: random 5-body trees (Ground + 4; 10 mobilizer types; quaternion or Euler), one constraint of each of the 18 modelled kinds in turn (13 first-wave + SphereOnPlaneContact and SphereOnSphereContact with and without rolling, PointOnPlaneContact; the contact kinds preferably with both bodies moving and rotating in the Ancestor) on a random '
                       'body pair (different branches / ancestor-descendant / with Ground, both orders; NoSlip1D with a third case body), every other round a second one-row constraint in the same system so that the rows sit at an offset (row assembly of G), random violated state and every third round projected onto '
                       'the manifold, random udot and multipliers; perr, verr, aerr, forces from multipliers, every column of G, G*u, G^T*lambda compared (rel 1e-9 of the vector scale, abs 1e-10); '
                       'non-trivial = some velocity/acceleration error component above 1e-6; distinct by random draw')
    ctx.assumptions += ['theorems are over the reals (ROps); binary64 rounding is covered only by the tolerance-based correspondence',
                        'the kernels are hand-written from the C++ bodies (they use State accessors and member helpers outside the sk2coq subset); agreement with the compiled code is checked on generated cases only',
                        'derivative statements are along affine paths R(t) = (1 + t[w]x) R, p(t) = p + t v, w(t) = w + t b, v(t) = v + t a (DESIGN 2.2); by the chain rule this is the derivative along any rigid motion with these first-order data',
                        'Ground-frame kinematics of the bodies (X_GB, V_GB, A_GB), Jacobian columns and N are taken from the implementation (their correctness is C03/C04/C05)',
                        'PointOnLine: the plane normals x = z.perp(), y = z % x are computed by the harness with the same UnitVec3 calls as realizeTopologyVirtual']
    ctx.finish()
