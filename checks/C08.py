"""C08 Constrained forward dynamics satisfies constraints and Newton's law (DESIGN 5 C08) -- PARTIAL claim.

Theorems (coq/Props/Properties_C08.v): uniqueness of udot and of G^T lambda for the equations M udot + G^T lambda = rhs,
G udot = b with M positive definite, redundant (rank-deficient) G and an enable mask included; lambda itself is refuted to be
unique; workless power is zero; disabled rows have no effect.
Tie: CERTIFICATE correspondence -- harness/C08_fdyn.cpp realizes random constrained systems to Acceleration stage and prints the
equation data assembled from the implementation's own operators (calcM, calcG, bias, applied and inertial forces) together with
its (udot, lambda); the extracted certificate checker (coq/C08/C08_Model.v, OCaml float NumOps) evaluates the residuals of both
equation blocks and the constraint power; they must vanish within tolerance, and so must the implementation's own reports
(getUDotErr, calcResidualForce, calcConstraintPower for workless sets with uerr = 0); the masked system must equal the system
rebuilt without the disabled constraints.  Enable/disable is exercised as a HISTORY on one state (defaults incl. setDisabledByDefault,
0..6 interleaved enable/disable/setConstraintIsDisabled requests per constraint biased towards toggling back to the default, realizations
in between); the reported flags must equal the extracted model's disabled_after (= the last request) and all predicates are applied to the
final enabled set.
Per-constraint entry points (anchor "calcConstraintPower / Constraint::calcPower" and the accessors C07/C08 rely on), every run:
sum of Constraint::calcPower = calcConstraintPower = -(dot(F,V)+dot(f,u)) of findConstraintForces; each calcPower = power of the
constraint's own getConstrainedBodyForcesAsVector / getConstrainedMobilityForcesAsVector = -lambda_c.(G_c u) (model); workless kinds
report zero power at verr = 0; getMultipliers/Position/Velocity/AccelerationErrorsAsVector are the slices of the system vectors;
calcConstraintForcesFromMultipliers(own multipliers) reproduces the reported forces; calcPositionConstraintMatrixP/Pt,
calcVelocityConstraintMatrixVt, calcAccelerationConstraintMatrixAt (and V, A when they return) are the rows of calcG;
P*NInv*qdot = Pq*qdot = P*u."""
import os, sys, math, collections
from vlib import *

PROPS = ['Props/Properties_C08.v', 'Props/Properties_C08b.v']
EXTRACT = '''From Coq Require Import Extraction ExtrOcamlBasic.
Require Import Num C08_Model.
Extraction "c08model.ml" kkt_dyn_residual kkt_con_residual constraint_power disabled_after mask_after.
'''
TOL = 1e-8          # power / force / matrix predicates: relative to the size of the terms
# Residuals of the two equation blocks: the multiplier solve factors W = G M^-1 G^T (FactorQTZ, rcond = m*Eps^(3/4)), so the computed
# lambda and hence udot carry a relative error of order cond(W)*eps.  cond(W) is MEASURED per case by the probe (singular values of
# calcProjectedMInv, largest over smallest kept by that cut) and the tolerance is  (TOL_FLOOR + C_COND*eps*cond) * (size of the terms),
# the size of the terms being || |G| |udot| || + ||b||  resp.  || |M| |udot| || + || |G^T| |lambda| || + ||rhs||  (backward-error scale).
# Cases with cond above COND_MAX are counted as "ill-conditioned, residuals not judged" (flags and per-constraint identities still are).
TOL_FLOOR, C_COND, EPS, COND_MAX = 1e-9, 20.0, 2.220446049250313e-16, 1e10
CONSIST = 1e-9      # a case is judged only if its enabled acceleration equations are consistent to this (least squares)

FLAGCASES = []
def parse(out):
    cases = []; cur = None; skipped = 0; flags = []; pre = None
    for line in out.split('\n'):
        t = line.split()
        if not t: continue
        if t[0] == 'PRE': pre = t[1]; flags = []
        elif t[0] == 'FLAG':
            flags.append({'i': int(t[1]), 'default': int(t[2]), 'isDisabled': int(t[3]), 'isConstraintDisabled': int(t[4]), 'hist': [int(x) for x in t[6:]], 'line': line})
        elif t[0] == 'FLAGMISMATCH':
            FLAGCASES.append({'id': pre, 'flags': flags, 'mismatch': True, 'line': line}); flags = []
        if t[0] == 'CASE':
            FLAGCASES.append({'id': t[1], 'flags': flags, 'mismatch': False, 'line': line}); flags = []
            cur = {'id': t[1], 'onman': int(t[3]), 'nu': int(t[5]), 'mAll': int(t[7]), 'mA': int(t[9]), 'rank': int(t[11]), 'consistency': float(t[13]),
                   'workless': int(t[15]), 'nspecs': int(t[17]), 'cond': float(t[t.index('cond') + 1]), 'dropped': float(t[t.index('dropped') + 1]),
                   'kinds': t[t.index('kinds') + 1:], 'head': line, 'M': [], 'G': [], 'mask': [], 'out': {}, 'pcon': []}
        elif t[0] == 'SKIP': skipped += 1; cur = None
        elif cur is None: continue
        elif t[0] == 'END': cases.append(cur); cur = None
        elif t[0] == 'MROW': cur['M'].append(parse_floats(' '.join(t[2:])))
        elif t[0] == 'GROW': cur['G'].append(parse_floats(' '.join(t[3:]))); cur['mask'].append(int(t[2]))
        elif t[0] in ('RHS', 'B', 'UDOT', 'LAMFULL', 'U'): cur[t[0]] = parse_floats(' '.join(t[1:]))
        elif t[0] == 'OUT': cur['out'][t[1]] = parse_floats(' '.join(t[2:]))
        elif t[0] == 'PCON':
            cur['pcon'].append({'i': int(t[1]), 'kind': int(t[2]), 'name': t[3], 'm': (int(t[4]), int(t[5]), int(t[6])), 'off': (int(t[7]), int(t[8]), int(t[9])), 'mat': collections.defaultdict(dict)})
        elif t[0] == 'PC' and cur['pcon']:
            pc = cur['pcon'][-1]
            if t[1] in ('P', 'PT', 'PNINV', 'PQROW', 'VT', 'V', 'AT', 'A'): pc['mat'][t[1]][int(t[2])] = parse_floats(' '.join(t[3:]))
            elif t[1] == 'FULLROWS': pc['fullrows'] = [int(x) for x in t[2:]]
            elif t[1] in ('V_THROWS', 'A_THROWS'): pc[t[1]] = ' '.join(t[2:])
            else: pc[t[1]] = parse_floats(' '.join(t[2:]))
    return cases, skipped

def norm(v): return math.sqrt(sum(x * x for x in v)) if v else 0.0
def matvec(A, x): return [sum(a * b for a, b in zip(row, x)) for row in A]

def judge(c, model):
    """-> list of (what, value, scale)"""
    bad = []; n = c['nu']
    Mu = matvec(c['M'], c['UDOT']); lam = [l if m else 0.0 for l, m in zip(c['LAMFULL'], c['mask'])]
    Gtl = [sum(c['G'][k][i] * lam[k] for k in range(c['mAll'])) for i in range(n)]
    sc_dyn = 1.0 + norm(Mu) + norm(Gtl) + norm(c['RHS'])
    o = c['out']
    if c['cond'] <= COND_MAX:
        tolr = TOL_FLOOR + C_COND * EPS * c['cond']
        absmv = lambda A, x: [sum(abs(a * b) for a, b in zip(row, x)) for row in A]
        tc = 1.0 + norm([g for g, m in zip(absmv(c['G'], c['UDOT']), c['mask']) if m]) + norm([b for b, m in zip(c['B'], c['mask']) if m])
        Gt = [[c['G'][k][i] for k in range(c['mAll'])] for i in range(n)]
        td = 1.0 + norm(absmv(c['M'], c['UDOT'])) + norm(absmv(Gt, lam)) + norm(c['RHS'])
        if norm(model['DYN']) > tolr * td: bad.append(('newton-residual(model: M udot + G^T lambda - rhs)', norm(model['DYN']), td))
        if norm(model['CON']) > tolr * tc: bad.append(('constraint-residual(model: G udot - b on enabled rows)', norm(model['CON']), tc))
        if norm(o['UDOTERR']) > tolr * tc: bad.append(('getUDotErr', norm(o['UDOTERR']), tc))
        if norm(o['RESID']) > tolr * td: bad.append(('calcResidualForce', norm(o['RESID']), td))
    # the implementation's O(n) G^T lambda against the explicit matrix
    if norm([a - b for a, b in zip(o['GTL'], Gtl)]) > TOL * sc_dyn: bad.append(('multiplyByGTranspose(lambda) vs calcG^T lambda', norm([a - b for a, b in zip(o['GTL'], Gtl)]), sc_dyn))
    # power: model value must equal the reported one; zero for workless sets when uerr = 0
    pw = o['POWER'][0]; sc_p = 1.0 + norm(Gtl) * norm(c['U'])
    if abs(model['POWER'][0] - pw) > TOL * sc_p: bad.append(('calcConstraintPower vs -<G^T lambda,u>', abs(model['POWER'][0] - pw), sc_p))
    if c['workless'] and c['onman'] and norm(o['UERR']) < 1e-9 and abs(pw) > TOL * sc_p: bad.append(('workless-power-nonzero', abs(pw), sc_p))
    # disabled constraints: identical to the system without them
    if 'REDUCED_UDOT' in o:
        d = norm([a - b for a, b in zip(o['REDUCED_UDOT'], c['UDOT'])]); sc = 1.0 + norm(c['UDOT'])
        if d > (TOL + C_COND * EPS * c['cond']) * sc: bad.append(('disabled: udot differs from the system without the disabled constraints', d, sc))
        d = norm([a - b for a, b in zip(o['REDUCED_GTL'], o['GTL'])])
        if d > (TOL + C_COND * EPS * c['cond']) * sc_dyn: bad.append(('disabled: G^T lambda differs from the system without the disabled constraints', d, sc_dyn))
        if len(o['REDUCED_LAM']) != len(o['MASKED_LAM']): bad.append(('disabled: multiplier count differs', abs(len(o['REDUCED_LAM']) - len(o['MASKED_LAM'])), 1))
    return bad

KEY_VA = 'Constraint-calcVelocityConstraintMatrixV-calcAccelerationConstraintMatrixA-unimplemented'
WORKING_KINDS = (9, 10, 12)      # ConstantSpeed, ConstantAcceleration, SpeedCoupler: not workless unless their constants vanish

def judge_per_constraint(c):
    """Constraint::calcPower and the per-constraint accessors against the system-level quantities.  -> (bad list, findings list)"""
    bad = []; findings = []; o = c['out']; n = c['nu']
    enabledG = [row for row, mk in zip(c['G'], c['mask']) if mk]          # = calcG of the masked state, row by row
    sc_p = 1.0 + norm(o['GTL']) * norm(c['U'])
    tot = sum(pc['POWER'][0] for pc in c['pcon'])
    if abs(tot - o['POWER'][0]) > TOL * sc_p: bad.append(('sum of Constraint::calcPower vs calcConstraintPower', abs(tot - o['POWER'][0]), sc_p))
    if abs(o['POWER_FROM_FORCES'][0] - o['POWER'][0]) > TOL * sc_p: bad.append(('calcConstraintPower vs -(dot(F,V)+dot(f,u)) of findConstraintForces', abs(o['POWER_FROM_FORCES'][0] - o['POWER'][0]), sc_p))
    Gu_full = matvec(c['G'], c['U'])
    for pc in c['pcon']:
        mp, mv, ma = pc['m']; p0, v0, a0 = pc['off']; nm = pc['name']
        rows = [p0 + j for j in range(mp)] + [v0 + j for j in range(mv)] + [a0 + j for j in range(ma)]
        if abs(pc['POWER_FROM_OWN_FORCES'][0] - pc['POWER'][0]) > TOL * sc_p: bad.append(('%s: calcPower vs power of its own body/mobility forces' % nm, abs(pc['POWER_FROM_OWN_FORCES'][0] - pc['POWER'][0]), sc_p))
        # model: power_c = - lambda_c . (G_c u)
        pm = -sum(c['LAMFULL'][k] * Gu_full[k] for k in pc['fullrows'])
        if abs(pm - pc['POWER'][0]) > TOL * sc_p: bad.append(('%s: calcPower vs -lambda_c.(G_c u)' % nm, abs(pm - pc['POWER'][0]), sc_p))
        if pc['kind'] not in WORKING_KINDS and c['onman'] and norm(pc['VERR']) < 1e-9 and abs(pc['POWER'][0]) > TOL * sc_p:
            bad.append(('%s: workless constraint reports power at verr = 0' % nm, abs(pc['POWER'][0]), sc_p))
        if pc['FORCES_FROM_MULT_DIFF'][0] > TOL * pc['FORCES_FROM_MULT_DIFF'][1]: bad.append(('%s: calcConstraintForcesFromMultipliers(own multipliers) vs reported forces' % nm, pc['FORCES_FROM_MULT_DIFF'][0], pc['FORCES_FROM_MULT_DIFF'][1]))
        # accessors are slices of the system vectors
        for tag, sysv, idx in (('MULT', o['MULT'], rows), ('AERR', o['UDOTERR'], rows), ('VERR', o['UERR'], rows[:mp + mv]), ('PERR', o['QERR'], rows[:mp])):
            want = [sysv[k] for k in idx]
            if len(want) != len(pc[tag]) or any(a != b for a, b in zip(want, pc[tag])): bad.append(('%s: get%sAsVector is not the slice of the system vector' % (nm, tag), 1.0, 1.0))
        # matrices: P, V, A stacked are the rows of calcG; transposes agree
        for tag, base, cnt in (('P', p0, mp), ('PT', p0, mp), ('VT', v0, mv), ('V', v0, mv), ('AT', a0, ma), ('A', a0, ma)):
            for r in range(cnt):
                row = pc['mat'].get(tag, {}).get(r)
                if row is None: continue
                g = enabledG[base + r]; scg = 1.0 + norm(g); d = norm([x - y for x, y in zip(row, g)])
                if d > TOL * scg: bad.append(('%s: calc...Matrix%s row %d vs calcG row' % (nm, tag, r), d, scg))
        for r in range(mp):      # Pq = P N^+ is determined only on the tangent space of the quaternion norms (calcPq leaves a directly constrained
            # quaternion component unprojected, P*N^-1 projects it): compare P N^-1 qdot = Pq qdot = P u for the tangent qdot = N u
            a = sum(x * y for x, y in zip(pc['mat']['PNINV'][r], o['QDOT'])); b = sum(x * y for x, y in zip(pc['mat']['PQROW'][r], o['QDOT']))
            pu = sum(x * y for x, y in zip(pc['mat']['P'][r], c['U'])); scq = 1.0 + abs(pu) + norm(pc['mat']['PQROW'][r]) * norm(o['QDOT'])
            if abs(a - b) > TOL * scq or abs(a - pu) > TOL * scq: bad.append(('%s: P*NInv*qdot, Pq*qdot, P*u disagree (row %d)' % (nm, r), max(abs(a - b), abs(a - pu)), scq))
        for tag in ('V_THROWS', 'A_THROWS'):
            if tag in pc: findings.append((nm, tag, pc[tag]))
    return bad, findings

def build_sides(ctx):
    exe = ctx.bdir('C08_fdyn')
    if not ctx.cxx(os.path.join(VERIF, 'harness', 'C08_fdyn.cpp'), exe):
        ctx.broken.append(('harness:C08_fdyn', 'harness does not compile against the current headers')); return None
    od = ctx.bdir('ml')
    if not ctx.extract(EXTRACT, od):
        ctx.broken.append(('extract:C08_Model', 'model extraction failed')); return None
    drv = open(os.path.join(VERIF, 'ocaml', 'C08_drv.ml')).read().replace('#include "fops.inc"', open(os.path.join(VERIF, 'ocaml', 'fops.inc')).read())
    open(os.path.join(od, 'drv.ml'), 'w').write(drv)
    if not ctx.ocaml(od, ['c08model.mli', 'c08model.ml', 'drv.ml'], 'drv'):
        ctx.broken.append(('ocaml:C08_drv', 'driver build failed')); return None
    return exe, os.path.join(od, 'drv')

def certificate(ctx, exes, ncases, seed_offset=0):
    exe, drv = exes
    rc, out, err = sh([exe, str(ctx.seed + seed_offset), str(ncases)], timeout=3000)
    if rc != 0:
        ctx.broken.append(('harness:C08_fdyn', 'probe failed rc=%d %s' % (rc, (out + err)[-400:]))); return
    cases, skipped = parse(out)
    rc, mout, err = sh([drv], input=out, timeout=1800)
    models = {}
    for l in mout.split('\n'):
        t = l.split()
        if t and t[0] == 'MODEL':
            body = ' '.join(t[2:]); parts = [p.split() for p in body.split('|')]
            models[t[1]] = {p[0]: parse_floats(' '.join(p[1:])) for p in parts if p}
    # enable/disable histories: the flag the state reports must be the model's (= the last request), through both accessors
    mflag = {}
    for l in mout.split('\n'):
        t = l.split()
        if t and t[0] == 'MFLAG': mflag[(t[1], int(t[2]))] = int(t[3])
    nflag = 0; nhist = 0; flagbad = []
    for fc in FLAGCASES:
        for f in fc['flags']:
            nflag += 1; nhist += len(f['hist']) > 1
            want = mflag.get((fc['id'], f['i']))
            if want is None or f['isDisabled'] != want or f['isConstraintDisabled'] != want: flagbad.append((fc, f, want))
    del FLAGCASES[:]
    ef = ctx.extra.setdefault('enable_disable', {'flags_checked': 0, 'with_history_of_2_or_more_requests': 0, 'mismatches': 0})
    ef['flags_checked'] += nflag; ef['with_history_of_2_or_more_requests'] += nhist; ef['mismatches'] += len(flagbad)
    if flagbad:
        fc, f, want = flagbad[0]
        ctx.broken.append(('enable-disable:flag', 'isDisabled(state) is not the last request: case %s constraint %d default %d requests %s (1 = disable): reported %d/%d, model %s (%d mismatches)' %
                           (fc['id'], f['i'], f['default'], f['hist'], f['isDisabled'], f['isConstraintDisabled'], want, len(flagbad))))
        ctx.report('impl:enable-disable-history', 'C08: after the enable/disable requests %s (1 = disable) on one state, a constraint with isDisabledByDefault = %d reports isDisabled = %d; the last request says %s' %
                   (f['hist'], f['default'], f['isDisabled'], want), {'replay_cmd': '%s %d %d' % (exe, ctx.seed + seed_offset, ncases), 'case': fc['id'], 'flag_line': f['line']})
    if len(models) != len(cases):
        ctx.broken.append(('ocaml:C08_drv', 'driver produced %d results for %d cases %s' % (len(models), len(cases), err[-300:]))); return
    judged = 0; incons = 0; fails = []; hist = collections.Counter(); worst = collections.defaultdict(float); nred = 0; nmask = 0; va_findings = []; npc = 0; illcond = 0; condhist = collections.Counter(); maxcond = 0.0
    for c in cases:
        if c['consistency'] > CONSIST: incons += 1; continue
        judged += 1
        if c['cond'] > COND_MAX: illcond += 1
        condhist[min(12, int(math.log10(max(c['cond'], 1.0))))] += 1; maxcond = max(maxcond, c['cond'])
        if c['rank'] < c['mA']: nred += 1; hist['redundant'] += 1
        if 'REDUCED_UDOT' in c['out']: nmask += 1; hist['with-disabled'] += 1
        if c['onman']: hist['on-manifold'] += 1
        for kd in c['kinds']: hist[kd.split('(')[0]] += 1
        bad = judge(c, models[c['id']])
        b2, fnd = judge_per_constraint(c); bad += b2; va_findings += fnd; npc += len(c['pcon'])
        for what, v, sc in bad: fails.append((c, what, v, sc))
        m = models[c['id']]; n = c['nu']
        worst['newton'] = max(worst['newton'], norm(m['DYN'])); worst['constraint'] = max(worst['constraint'], norm(m['CON']))
    ctx.add_cases(judged, nred + nmask, [{'case': c['head'], 'model_newton_residual': norm(models[c['id']]['DYN']), 'model_constraint_residual': norm(models[c['id']]['CON']),
                                          'impl_udoterr': norm(c['out']['UDOTERR'])} for c in cases[:2]])
    e = ctx.extra.setdefault('certificate', {'cases_judged': 0, 'inconsistent_sets_not_judged': 0, 'skipped_by_generator': 0, 'redundant_sets': 0, 'sets_with_disabled': 0, 'histogram': {}})
    e['cases_judged'] += judged; e['inconsistent_sets_not_judged'] += incons; e['skipped_by_generator'] += skipped; e['redundant_sets'] += nred; e['sets_with_disabled'] += nmask
    for k2, v in hist.items(): e['histogram'][k2] = e['histogram'].get(k2, 0) + v
    e['worst_model_residuals'] = dict(worst); e['tol_relative'] = TOL
    e['residual_tolerance_rule'] = '(%.0e + %.0f*eps*cond(G M^-1 G^T)) * size of the terms; cond measured per case; cond > %.0e not judged' % (TOL_FLOOR, C_COND, COND_MAX)
    e['ill_conditioned_residuals_not_judged'] = e.get('ill_conditioned_residuals_not_judged', 0) + illcond
    e['max_cond'] = max(e.get('max_cond', 0.0), maxcond)
    ch = e.setdefault('cond_histogram_log10', {})
    for k2, v in condhist.items(): ch[str(k2)] = ch.get(str(k2), 0) + v
    if judged == 0 or incons + skipped > 0.25 * max(1, len(cases) + skipped):
        ctx.broken.append(('generator:C08', 'too few judged cases: judged %d, inconsistent %d, skipped %d' % (judged, incons, skipped)))
    e['per_constraint_blocks_checked'] = e.get('per_constraint_blocks_checked', 0) + npc
    if va_findings:
        e['V_or_A_matrix_throws'] = e.get('V_or_A_matrix_throws', 0) + len(va_findings)
        nm, tag, msg = va_findings[0]
        ctx.report(KEY_VA, 'Constraint::calc%sConstraintMatrix%s throws for %s: %s' % ('Velocity' if tag[0] == 'V' else 'Acceleration', tag[0], nm, msg),
                   {'replay_cmd': '%s %d %d' % (exe, ctx.seed + seed_offset, ncases), 'constraint': nm, 'message': msg})
    for c, what, v, sc in fails[:1]:
        ctx.broken.append(('certificate:' + what.split('(')[0], '%s = %.3g (scale %.3g) on %s (%d failing checks in %d cases)' % (what, v, sc, c['head'], len(fails), judged)))
        ctx.report('impl:' + what.split('(')[0].replace(' ', '-'), 'C08 certificate fails on the implementation: %s = %.3g (scale %.3g) on %s' % (what, v, sc, c['head']),
                   {'replay_cmd': '%s %d %d' % (exe, ctx.seed + seed_offset, ncases), 'case': c['head'], 'what': what, 'value': v, 'scale': sc})

def run(ctx):
    ctx.build_repo()
    ctx.coq_props(PROPS)
    exes = build_sides(ctx)
    if exes:
        certificate(ctx, exes, 500 if ctx.tier == 'quick' else 5000)
        if ctx.broken and ctx.tier == 'quick': certificate(ctx, exes, 2000, seed_offset=1)
    ctx.cov['rule'] = ('certificate correspondence: random 5-body trees of >=3-dof mobilizers (quaternion or Euler) with 1-6 constraints of the 13 first-wave kinds (base constraints on distinct body pairs, '
                       '<= 7 rows; exact duplicates and Ball-at-the-Weld-points as redundant members), random enable masks, gravity + constant body forces/torques + mobility forces, random states '
                       '(every other case projected: qerr = uerr = 0); only sets whose enabled acceleration equations are consistent (least-squares residual <= 1e-9) are judged; '
                       'non-trivial = redundant (rank-deficient G) or with disabled constraints; tolerance for the two residual blocks (1e-9 + 20*eps*cond(G M^-1 G^T)) * size of the terms with cond measured per case (cases with cond > 1e10 counted, residuals not judged); other predicates 1e-8 relative')
    ctx.assumptions += ['Pq is compared on the tangent space of the quaternion norm constraints only (calcPq leaves a directly constrained quaternion component unprojected, P*N^-1 projects it; both give the same Pq*qdot for qdot = N u)',
                        'PARTIAL: uniqueness theorem + certificate check; the pseudo-inverse\'s choice among equivalent lambda for redundant sets is not modelled (only udot and G^T lambda are determined; lambda is refuted to be unique)',
                        'theorems are over the reals; the certificate residuals are evaluated in binary64 with a relative tolerance',
                        'M, G, the bias b and rhs = f_applied - f_inertial are the implementation\'s own (calcM, calcG, calcConstraintAccelerationErrors(0), calcResidualForceIgnoringConstraints(0)); their correctness is C01/C02/C07',
                        'positive definiteness of M is C01; the theorem takes it as a hypothesis']
    ctx.finish()
