"""C09 Successful projection lands on the constraint manifold minimally (DESIGN 5 C09) -- PARTIAL claim.

Theorems (coq/Props/Properties_C09.v): about the executable model coq/C09/C09_Model.v of the CONTROL LOGIC of
SimbodyMatterSubsystemRep::projectQ / projectU (entry test, early return, quaternion-only branch, Newton-like loop with
LocalOnly back-out, revert-if-not-better, exit status and every ProjectResults field) for every oracle stream of
"norm after iteration k", and about the algebra of one weighted least-squares step (one row: full minimum-norm theorem,
uniqueness, prescribed slots; m rows: certificate form).
Tie, checked on every run (harness/C09_proj.cpp against the libraries rebuilt from the tree under test):
 (a) trace replay -- with the hooks of patches/C09_hook_SimbodyMatterSubsystemRep.diff in the tree, every recorded call
     (options, entry norms, norm after each iteration, back-out norm, answer of normalizeQuaternions) is run through the
     extracted model (float NumOps): status, iteration count, any-change flag, limit flag, norm on exit, throw, exit
     branch, revert and divergence decisions must agree exactly.  Without the hooks the replay is restricted to what is
     observable from outside (the entry decision: which calls iterate at all, and the complete result of those that do
     not) and the run says so;
 (b) independent of hooks: the property's own predicates on the implementation after every call (success => the
     implementation's own weighted qerr/uerr norms recomputed from the final State are within the accuracy, free
     quaternions unit, prescribed q/u bit-identical, the other level untouched; satisfied and not forced => State
     bit-identical; failure => not worse; iteration bounds), and for single linear constraints the implementation's
     correction against the extracted closed-form weighted minimum-norm step."""
import os, sys, math, collections
from vlib import *

PROPS = ['Props/Properties_C09.v']
EXTRACT = '''From Coq Require Import Extraction ExtrOcamlBasic.
Require Import Num C09_Model.
Extraction "c09model.ml" projectU projectQ stateChanged project wls_step wls_step_free q_step u_step wls_step_rows.
'''
# success is decided in the code on the norm BEFORE quaternion normalisation / from values it keeps; recomputing the
# weighted norm from the returned State repeats the same arithmetic on (for projectQ) a re-normalised quaternion, which
# moves a body-constraint error by a few ulp of the coordinates: allow 1e-6 relative + 1e-13 absolute.
RSLACK, ASLACK = 1e-6, 1e-13
KEY_QCC = 'quat-normalisation-changes-coordinate-constraint'
KEY_NAN = 'nan-norm-reported-as-success'

def fx(t):
    try: return float.fromhex(t)
    except ValueError: return float(t)
def hx(x):
    return 'nan' if x != x else ('inf' if x == float('inf') else ('-inf' if x == float('-inf') else float(x).hex()))
def same(a, b):
    return (a != a and b != b) or a == b

# ------------------------------------------------------------------------------------------------ harness output
def parse(out):
    cases = []; cur = None; call = None; const = {}
    for line in out.split('\n'):
        t = line.split()
        if not t: continue
        if t[0] == 'CONST': const = {'sig': fx(t[2]), 'hooks_compiled': int(t[4])}
        elif t[0] == 'CASE':
            cur = {'id': int(t[1]), 'mode': t[2], 'seed': t[4], 'head': line, 'calls': [], 'skip': None, 'qcc': 0}
            if 'qcc' in t: cur['qcc'] = int(t[t.index('qcc') + 1])
            cases.append(cur); call = None
        elif t[0] == 'SKIP':
            if cur is None or cur['id'] != int(t[1]): cur = {'id': int(t[1]), 'mode': '?', 'seed': '?', 'head': line, 'calls': [], 'skip': line, 'qcc': 0}; cases.append(cur)
            cur['skip'] = line
        elif t[0] == 'LIN':
            n = int(t[2]); v = t[3:]
            pend = {'kind': t[1], 'n': n, 'free': [int(x) for x in v[:n]], 'row': [fx(x) for x in v[n:2 * n]], 'uw': [fx(x) for x in v[2 * n:3 * n]],
                    'u0': [fx(x) for x in v[3 * n:4 * n]], 'e': fx(v[4 * n]), 'raw': v}
            cur['pending_lin'] = pend
        elif t[0] == 'CALL':
            call = {'kind': t[1], 'acc': fx(t[2]), 'ov': fx(t[3]), 'lim': fx(t[4]), 'bits': int(t[5]), 'mcons': int(t[6]), 'mquats': int(t[7]),
                    'nfree': int(t[8]), 'n': int(t[9]), 'trace': [], 'lin': cur.pop('pending_lin', None), 'delta': None, 'case': cur}
            cur['calls'].append(call)
        elif t[0] == 'ENTRY': call['pentry'] = fx(t[1]); call['qentry'] = fx(t[2])
        elif t[0] == 'TRACE': call['trace'].append((t[1], [fx(x) for x in t[2:]]))
        elif t[0] == 'RES':
            call['res'] = {'status': t[1], 'its': int(t[2]), 'anyChange': int(t[3]), 'limit': int(t[4]), 'normIn': fx(t[5]), 'normOut': fx(t[6]), 'threw': int(t[7])}
        elif t[0] == 'POST':
            call['post'] = {'pnorm': fx(t[1]), 'qnorm': fx(t[2]), 'chg': fx(t[3]), 'chgP': fx(t[4]), 'chgOther': fx(t[5]), 'quatDev': fx(t[6])}
        elif t[0] == 'DELTA' and call is not None: call['delta'] = [fx(x) for x in t[1:]]
    return const, cases

def run_harness(exe, seed, n, mode):
    rc, out, err = sh([exe, str(seed), str(n), mode], timeout=1500)
    if rc == 127:       # shared libraries being relinked by a concurrent build of the shared tree: wait for its lock, retry once
        sh([os.path.join(VERIF, 'bin', 'build_repo')], timeout=3600)
        rc, out, err = sh([exe, str(seed), str(n), mode], timeout=1500)
    const, cases = parse(out)
    return const, cases, rc, ('DONE' in out)

def describe(c):
    cs = c['case']
    return '%s call of case %d (mode %s, seed %s: %s): accuracy %s options %d limit %s' % (
        'projectQ' if c['kind'] == 'Q' else 'projectU', cs['id'], cs['mode'], cs['seed'], cs['head'][:160], hx(c['acc']), c['bits'], hx(c['lim']))
def replay_obj(exe, seed, n, c):
    cs = c['case']
    return {'replay_cmd': '%s %d %d %s %d' % (exe, seed, n, cs['mode'], cs['id']), 'case': cs['head'], 'call': c['kind'],
            'options': {'accuracy': hx(c['acc']), 'overshoot': hx(c['ov']), 'limit': hx(c['lim']), 'bits': c['bits']},
            'entry_norms': [hx(c['pentry']), hx(c['qentry'])], 'result': c.get('res'), 'post': {k: hx(v) for k, v in c.get('post', {}).items()},
            'trace': [[t] + [hx(x) for x in v] for t, v in c['trace']]}

# ------------------------------------------------------------------------------------------------ model replay
def model_cmd(c, sig, hooks):
    """command line for the extracted model and the list of things the implementation side says"""
    b = c['bits']; loc, dth, frc = b & 1, (b >> 1) & 1, (b >> 3) & 1
    tr = c['trace']
    iters = [v for t, v in tr if t.endswith('.iter')]; backs = [v for t, v in tr if t.endswith('.backout')]; quats = [v for t, v in tr if t.endswith('.quat')]
    if hooks:
        ent = [v for t, v in tr if t.endswith('.enter')][0]
        pentry = ent[0]; qentry = ent[1] if c['kind'] == 'Q' else 0.0
        qchg, qn = (int(quats[0][0]), quats[0][1]) if quats else (0, float('nan'))
    else:
        pentry, qentry = c['pentry'], c['qentry']
        # observable stand-in for the answer of normalizeQuaternions (used by the model only when it does not iterate)
        # (any-change is taken from the result itself: enforceQuaternionConstraints reports a change even when it rescales by exactly 1)
        qchg, qn = (1 if c['res']['anyChange'] == 1 else 0), c['post']['qnorm']
    orc = '%d %s %d %s' % (len(iters), ' '.join(hx(v[1]) for v in iters), len(backs), ' '.join('%d %s' % (int(v[0]), hx(v[1])) for v in backs))
    if c['kind'] == 'U':
        return 'U %s %s %s %s %d %d %d %s %s' % (hx(c['acc']), hx(c['ov']), hx(c['lim']), hx(sig), loc, frc, dth, hx(pentry), orc)
    return 'Q %s %s %s %s %d %d %d %d %s %s %d %s %s' % (hx(c['acc']), hx(c['ov']), hx(c['lim']), hx(sig), loc, frc, dth, 1 if c['mquats'] > 0 else 0,
                                                      hx(pentry), hx(qentry), qchg, hx(qn), orc)

def compare_model(c, tk, sig, hooks):
    """tk = tokens of the model's result line.  Returns None or a description of the first disagreement."""
    m = {'status': tk[0], 'ret': int(tk[1]), 'its': int(tk[2]), 'anyChange': int(tk[3]), 'limit': int(tk[4]),
         'normOut': float('nan') if tk[5] == 'none' else fx(tk[5]), 'reverted': int(tk[6]), 'diverged': int(tk[7]), 'throws': int(tk[8]),
         'where': tk[9], 'quatNormalized': int(tk[10]), 'pnorm': fx(tk[11]), 'qnorm': fx(tk[12]), 'branch': int(tk[13]), 'used': int(tk[14])}
    c['model'] = m
    r = c['res']; tr = c['trace']
    if hooks or m['its'] == 0 or r['its'] == 0:
        if not hooks and (m['its'] == 0) != (r['its'] == 0):
            return 'entry decision differs: the model %s, the implementation reports %d iterations' % ('returns without iterating' if m['its'] == 0 else 'iterates', r['its'])
        if hooks or m['its'] == 0:
            for k, what in (('status', 'exit status'), ('its', 'number of iterations'), ('anyChange', 'any-change flag'), ('limit', 'projection-limit flag')):
                if m[k] != r[k]: return '%s differs: model %s, implementation %s' % (what, m[k], r[k])
            if not same(m['normOut'], r['normOut']): return 'norm on exit differs: model %s, implementation %s' % (hx(m['normOut']), hx(r['normOut']))
            if m['throws'] != r['threw']: return 'throw decision differs: model %d, implementation %d' % (m['throws'], r['threw'])
    if hooks:
        ex = [v for t, v in tr if t.endswith('.exit')]
        if len(ex) != 1: return 'expected exactly one exit record, got %d' % len(ex)
        if int(ex[0][0]) != m['branch']: return 'exit branch differs: model %d, implementation %d' % (m['branch'], int(ex[0][0]))
        rev = 1 if any(t.endswith('.revert') for t, v in tr) else 0
        if rev != m['reverted']: return 'revert decision differs: model %d, implementation %d' % (m['reverted'], rev)
        dv = 1 if any(t.endswith('.backout') for t, v in tr) else 0
        if dv != m['diverged']: return 'divergence back-out differs: model %d, implementation %d' % (m['diverged'], dv)
        if len(ex[0]) > 1 and int(ex[0][1]) != m['diverged']: return 'diverged flag at exit differs'
        niter = len([1 for t, v in tr if t.endswith('.iter')])
        if niter != m['used'] and not (niter == 0 and m['used'] == 0): return 'the implementation recorded %d iterations, the model consulted the oracle up to iteration %d' % (niter, m['used'])
        lp = [v for t, v in tr if t.endswith('.loop')]
        if lp:
            tf = max(c['ov'] * c['acc'], sig)
            if lp[0][0] != tf: return 'accuracy to try for differs: implementation %s, max(overshoot*accuracy, SignificantReal) = %s' % (hx(lp[0][0]), hx(tf))
            if int(lp[0][1]) != (20 if c['kind'] == 'Q' else 7): return 'MaxIterations differs: implementation %d, model %d' % (int(lp[0][1]), 20 if c['kind'] == 'Q' else 7)
        ent = [v for t, v in tr if t.endswith('.enter')][0]
        # the documented weighted norm (computed by the harness from the State) must be what the code uses on entry
        if not same(ent[0], c['pentry']) or (c['kind'] == 'Q' and not same(ent[1], c['qentry'])):
            return 'entry norm used by the code (%s, %s) is not the documented weighted norm of the State (%s, %s)' % (hx(ent[0]), hx(ent[1]) if c['kind'] == 'Q' else '-', hx(c['pentry']), hx(c['qentry']))
    # reported norm on entrance
    exp_in = c['pentry'] if (c['kind'] == 'U' or c['pentry'] >= c['qentry']) else c['qentry']
    if not same(exp_in, r['normIn']): return 'norm on entrance reported %s, expected %s' % (hx(r['normIn']), hx(exp_in))
    return None

# ------------------------------------------------------------------------------------------------ property predicates
def predicates(c):
    """the property's own predicates on one call of the implementation -> list of (key, description)"""
    out = []; r = c['res']; p = c['post']; acc = c['acc']; frc = (c['bits'] >> 3) & 1
    nan_in = (c['pentry'] != c['pentry']) or (c['qentry'] != c['qentry'])
    lim_ok = not (max(c['pentry'], c['qentry']) > c['lim']) if not nan_in else True
    tol = acc * (1 + RSLACK) + ASLACK
    if r['status'] == 'Succeeded':
        if nan_in or p['pnorm'] != p['pnorm'] or p['qnorm'] != p['qnorm']:
            out.append((KEY_NAN, 'success reported for a state whose constraint-error norm is NaN (entry norm %s, norm after %s, reported norm on exit %s)' % (
                hx(c['pentry']), hx(p['pnorm']), hx(r['normOut']))))
        else:
            if not (p['pnorm'] <= tol):
                key = KEY_QCC if (c['kind'] == 'Q' and c['case'].get('qcc') and c['mquats'] > 0) else 'impl:success-but-%s-norm-exceeds-accuracy' % ('qerr' if c['kind'] == 'Q' else 'uerr')
                out.append((key, 'success reported (norm on exit %s) but the weighted %s norm of the returned state is %s > accuracy %s (ratio %.3g)' % (
                    hx(r['normOut']), 'position-error' if c['kind'] == 'Q' else 'velocity-error', hx(p['pnorm']), hx(acc), p['pnorm'] / acc)))
            # "unit length" is judged in the norm the caller selected (RMS by default, infinity norm on request), as the position errors are
            if c['kind'] == 'Q' and not (p['qnorm'] <= tol):
                out.append(('impl:success-but-quaternion-not-unit', 'success reported but the norm of the quaternion length errors is %s > accuracy %s (largest | |q|-1 | = %s)' % (
                    hx(p['qnorm']), hx(acc), hx(p['quatDev']))))
    elif not nan_in:
        # failure never leaves the constraint errors worse (than on entry, or than the accuracy when only the quaternions failed)
        bound = max(c['pentry'], acc) * (1 + RSLACK) + ASLACK
        if not (p['pnorm'] <= bound):
            out.append(('impl:failure-leaves-worse-state', 'failure (%s) leaves the weighted error norm at %s, it was %s on entry' % (r['status'], hx(p['pnorm']), hx(c['pentry']))))
    if nan_in: return out          # nothing else is meaningful for a NaN state
    if not (p['chgP'] == 0):
        out.append(('impl:prescribed-%s-changed' % c['kind'].lower(), 'a prescribed %s changed by %s' % ('q' if c['kind'] == 'Q' else 'u', hx(p['chgP']))))
    if not (p['chgOther'] == 0):
        out.append(('impl:other-level-changed', 'project%s changed %s by %s' % (c['kind'], 'u' if c['kind'] == 'Q' else 'q', hx(p['chgOther']))))
    if not nan_in and c['pentry'] <= acc and c['qentry'] <= acc and not frc:
        if not (p['chg'] == 0 and r['its'] == 0 and r['anyChange'] == 0 and (r['status'] == 'Succeeded' or not lim_ok)):
            out.append(('impl:satisfied-state-touched', 'constraints satisfied on entry (%s, %s <= %s) and not forced, yet status %s, %d iterations, largest change %s' % (
                hx(c['pentry']), hx(c['qentry']), hx(acc), r['status'], r['its'], hx(p['chg']))))
    if frc and c['pentry'] != 0 and lim_ok and r['its'] < 1:
        out.append(('impl:forced-projection-did-not-iterate', 'ForceProjection set, entry norm %s non-zero and within the projection limit, but %d iterations were made' % (hx(c['pentry']), r['its'])))
    if r['its'] > (20 if c['kind'] == 'Q' else 7) or r['its'] < 0:
        out.append(('impl:iteration-bound', '%d iterations reported' % r['its']))
    if c['kind'] == 'U' and r['status'] == 'Succeeded' and not nan_in and not same(r['normOut'], p['pnorm']):
        out.append(('impl:projectU-norm-on-exit-not-of-returned-state', 'norm on exit %s but the returned state has %s' % (hx(r['normOut']), hx(p['pnorm']))))
    m = c.get('model')
    if m and m.get('hooks') and m['reverted'] and not (p['chg'] == 0):
        out.append(('impl:revert-not-exact', 'the entry state was to be restored but differs by %s' % hx(p['chg'])))
    return out

def lin_commands(c):
    l = c['lin']; n = l['n']
    base = '%d %s %s %s' % (n, ' '.join(str(x) for x in l['free']), ' '.join(hx(x) for x in l['row']), ' '.join(hx(x) for x in l['uw']))
    if c['kind'] == 'Q': return 'G %s %s' % (base, hx(l['e']))
    return 'H %s %s %s' % (base, ' '.join(hx(x) for x in l['u0']), hx(l['e']))

# ------------------------------------------------------------------------------------------------ tools
def build_tools(ctx):
    d = ctx.bdir('ex')
    if not ctx.extract(EXTRACT, d):
        ctx.broken.append(('correspondence:extract', 'extraction of the C09 model failed')); return None
    src = open(os.path.join(VERIF, 'ocaml', 'C09_drv.ml')).read().replace('(*FOPS*)', open(os.path.join(VERIF, 'ocaml', 'fops.inc')).read())
    open(os.path.join(d, 'drv.ml'), 'w').write(src)
    if not ctx.ocaml(d, ['c09model.mli', 'c09model.ml', 'drv.ml'], 'drv'):
        ctx.broken.append(('correspondence:ocaml', 'OCaml driver for the extracted C09 model does not build')); return None
    exe = ctx.bdir('C09_proj')
    if not ctx.cxx(os.path.join(VERIF, 'harness', 'C09_proj.cpp'), exe):
        ctx.broken.append(('correspondence:harness', 'C09_proj.cpp does not compile against the tree under test')); return None
    return os.path.join(d, 'drv'), exe

def process(ctx, drv, exe, seed, n, mode, st):
    const, cases, rc, done = run_harness(exe, seed, n, mode)
    if not done or not cases:
        ctx.broken.append(('correspondence:harness-run', 'C09_proj %d %d %s exited with %d before finishing' % (seed, n, mode, rc))); return
    sig = const['sig']
    calls = [c for cs in cases for c in cs['calls'] if 'res' in c and 'post' in c]
    st['skipped'] += len([1 for cs in cases if cs['skip']])
    for cs in cases:
        if cs['skip'] and len(st['skips']) < 3: st['skips'].append(cs['skip'][:200])
    hooks = any(c['trace'] for c in calls); st['hooks'] = st['hooks'] or hooks
    # ---- model replay
    lines = [model_cmd(c, sig, hooks and bool(c['trace'])) for c in calls]
    rc2, out, err = sh([drv], input='\n'.join(lines) + '\n', timeout=600)
    res = [l.split() for l in out.split('\n') if l.strip()]
    if len(res) != len(calls):
        ctx.broken.append(('correspondence:driver', 'model driver produced %d lines for %d calls %s' % (len(res), len(calls), (out + err)[-300:]))); return
    for c, tk in zip(calls, res):
        h = hooks and bool(c['trace'])
        mm = compare_model(c, tk, sig, h); c['model']['hooks'] = h
        st['replayed_full' if h else ('replayed_entry' if (c['model']['its'] == 0 or c['res']['its'] == 0) else 'not_replayable')] += 1
        st['branches'][(c['kind'], c['model']['branch'] if h else ('no-iteration' if c['res']['its'] == 0 else 'iterated'))] += 1
        st['its_hist'][(c['kind'], c['res']['its'])] += 1
        if mm and not any(b[0] == 'correspondence:control-logic' for b in ctx.broken):
            ctx.broken.append(('correspondence:control-logic', '%s -- %s' % (mm, describe(c))))
            st['first_mismatch'] = replay_obj(exe, seed, n, c)
        if h and c['kind'] == 'Q' and c['model']['branch'] == 3 and c['pentry'] > c['res']['normOut']: st['normexit_underreports'] += 1
    # ---- predicates
    for c in calls:
        st['pred'] += 1
        for key, desc in predicates(c):
            st['pred_fail'][key] += 1
            if st['pred_fail'][key] == 1:          # one replay per kind of failure
                ctx.report(key, desc + ' -- ' + describe(c), replay_obj(exe, seed, n, c))
        if c['res']['status'] == 'Succeeded': st['success'] += 1
        if c['res']['threw']: st['threw'] += 1
    # ---- closed form for single linear constraints
    lc = [c for c in calls if c['lin'] is not None and c['delta'] is not None]
    if lc:
        rc3, out, err = sh([drv], input='\n'.join(lin_commands(c) for c in lc) + '\n', timeout=600)
        rl = [l.split() for l in out.split('\n') if l.strip()]
        if len(rl) != len(lc):
            ctx.broken.append(('correspondence:driver', 'model driver produced %d lines for %d closed-form steps' % (len(rl), len(lc)))); return
        for c, tk in zip(lc, rl):
            l = c['lin']; d = [fx(x) for x in tk]; dl = c['delta']
            den = sum(1 for f, p in zip(l['free'], l['row']) if f and p != 0)
            if den == 0:
                st['lin_unreachable'] += 1      # the row touches prescribed coordinates only: nothing can be corrected
                if c['res']['status'] == 'Succeeded' and c['pentry'] > c['acc']:
                    ctx.report('impl:success-with-unreachable-constraint', 'success although the only constraint row touches prescribed coordinates only -- ' + describe(c), replay_obj(exe, seed, n, c))
                continue
            if c['res']['status'] != 'Succeeded' or c['res']['its'] == 0:
                st['lin_notcompared'] += 1; continue
            st['lin_compared'] += 1
            scale = max(abs(x) for x in d) if d else 0.0
            bad = [i for i in range(len(d)) if not (abs(d[i] - dl[i]) <= 1e-9 * scale + 1e-13)]
            if bad and not any(b[0] == 'correspondence:wls-step' for b in ctx.broken):
                i = bad[0]
                ctx.broken.append(('correspondence:wls-step', 'single linear constraint: implementation changed %s[%d] by %s, closed-form weighted minimum-norm step %s -- %s' % (
                    'q' if c['kind'] == 'Q' else 'u', i, hx(dl[i]), hx(d[i]), describe(c))))
                # failing input for the property: the correction is not the weighted minimum-norm one
                ctx.report('impl:correction-not-weighted-minimum-norm', 'for one linear constraint the correction differs from the weighted minimum-norm step in component %d: %s vs %s -- %s' % (
                    i, hx(dl[i]), hx(d[i]), describe(c)), dict(replay_obj(exe, seed, n, c), row=[hx(x) for x in l['row']], free=l['free'], uweights=[hx(x) for x in l['uw']], delta=[hx(x) for x in dl], closed_form=[hx(x) for x in d]))
    return cases

def search_on_break(ctx, drv, exe, st):
    """failing-input search: the predicates on many more generated calls (other seeds)"""
    n0 = st['pred']
    for k in range(1, 4):
        process(ctx, drv, exe, ctx.seed + 1000 * k, 300, 'gen', st)
        process(ctx, drv, exe, ctx.seed + 1000 * k, 120, 'lin', st)
        if any(v[2] for v in ctx.violations): break
    ctx.extra['search_predicate_evaluations'] = st['pred'] - n0

def run(ctx):
    ctx.build_repo()
    ctx.coq_props(PROPS)
    tools = build_tools(ctx)
    if tools is None: ctx.finish()
    drv, exe = tools
    st = {'skipped': 0, 'skips': [], 'hooks': False, 'replayed_full': 0, 'replayed_entry': 0, 'not_replayable': 0, 'branches': collections.Counter(),
          'its_hist': collections.Counter(), 'pred': 0, 'pred_fail': collections.Counter(), 'success': 0, 'threw': 0, 'lin_compared': 0, 'lin_unreachable': 0,
          'lin_notcompared': 0, 'normexit_underreports': 0, 'first_mismatch': None}
    quick = ctx.tier == 'quick'
    seeds = [ctx.seed] if quick else [ctx.seed + k for k in range(5)]
    for sd in seeds:
        process(ctx, drv, exe, sd, 18 if quick else 36, 'spec', st)
        process(ctx, drv, exe, sd, 250 if quick else 600, 'gen', st)
        process(ctx, drv, exe, sd, 120 if quick else 300, 'lin', st)
    if ctx.broken:
        search_on_break(ctx, drv, exe, st)
        if st['first_mismatch'] and not any(v[2] for v in ctx.violations):
            # model and code disagree but the property's predicates hold on every searched input: reported as such by finish()
            ctx.extra['first_mismatch'] = st['first_mismatch']
    ncalls = st['replayed_full'] + st['replayed_entry'] + st['not_replayable']
    ctx.add_cases(ncalls + st['lin_compared'], len(st['branches']),
                  ['%s exit %s: %d calls' % (k[0], k[1], v) for k, v in sorted(st['branches'].items(), key=lambda kv: str(kv[0]))])
    ctx.cov['rule'] = ('one evaluation = one call of System::projectQ or projectU on a generated constrained system (random 4-body trees of the C07 generator, 1-3 constraints, '
                       'optional prescribed mobilizer, random weights, perturbation 0 / 1e-12 / 1e-6..1e-1 with unnormalised quaternions, accuracy 1e-8..1e-2, random option flags, '
                       'overshoot and projection limit; plus hand-made situations for the rare exits) replayed through the extracted control-logic model and judged by the '
                       'property predicates, plus one per single-linear-constraint correction compared with the closed-form step; distinct_nontrivial = distinct (function, exit branch)')
    ctx.extra['hooks_present'] = st['hooks']
    ctx.extra['trace_replay'] = ('done: every call replayed through the model with the recorded per-iteration norms' if st['hooks'] else
                                 'SKIPPED: no trace records arrived (patches/C09_hook_SimbodyMatterSubsystemRep.diff is not applied in the tree under test); '
                                 'only the entry decision and the complete result of non-iterating calls were compared with the model')
    for k in ('replayed_full', 'replayed_entry', 'not_replayable', 'pred', 'success', 'threw', 'lin_compared', 'lin_unreachable', 'lin_notcompared', 'skipped', 'normexit_underreports'):
        ctx.extra['calls_' + k if k.startswith(('replayed', 'not_')) else k] = st[k]
    ctx.extra['iterations_histogram'] = {'%s:%d' % k: v for k, v in sorted(st['its_hist'].items())}
    ctx.extra['predicate_failures_by_key'] = dict(st['pred_fail'])
    if st['skips']: ctx.extra['skipped_examples'] = st['skips']
    ctx.log('calls %d (full replay %d, entry-only %d, not replayable %d), closed-form steps %d, hooks %s' % (
        ncalls, st['replayed_full'], st['replayed_entry'], st['not_replayable'], st['lin_compared'], st['hooks']))
    if not st['hooks']: ctx.log('trace replay SKIPPED: hooks not in the tree under test')
    ctx.assumptions += [
        'theorems are over the reals (ROps); the replay runs the same model on binary64 with the recorded norms, where only comparisons and one max/product are evaluated',
        'ORACLES (not decided): the norm found after each iteration = QTZ least-squares solve (LAPACK) + state update + re-realization; convergence of the Newton iteration; '
        'the answer of normalizeQuaternions; that the step FactorQTZ returns is of the form W^-1 A^T y (m-row minimum-norm theorem is in certificate form)',
        'the control logic tests the position-error norm computed BEFORE normalizeQuaternions; that normalisation leaves it unchanged is the code\'s stated design assumption and is '
        'false for constraints written on quaternion coordinates (known finding ' + KEY_QCC + ')',
        'closed-form comparison only for mobilizers with qdot = u (N = I) and one linear constraint row; projectU weights are the code\'s relative scaling max(|u_i|, 1/w_i), not 1/w_i']
    ctx.finish()
