"""C10 Prescribed motion and locks are honoured exactly (DESIGN 5 C10).
Theorems: coq/Props/Properties_C10.v -- the levels of Motion::Sinusoid / Motion::Steady are mutually consistent (Coquelicot
is_derive), prescribe takes exactly the prescribed values and is idempotent, the lock state machine (lock / lockAt at the three
levels, a lock overrides the Motion, unlock / disable restore free behaviour) for every operation sequence, and the abstract
linear-algebra statement that the reported motion forces reproduce the accelerations in the unprescribed system, uniquely for a
positive definite mass matrix.
Tie: correspondence.  (1) 8 kinds of prescription (Sinusoid at the three levels, Steady, lockAt Position, lock Velocity, lockAt
Acceleration, lock over a Motion) x with/without a Rod constraint x random 4-body trees: after prescribe + realize(Acceleration)
the prescribed q / u / udot are compared with the extracted model evaluated in double precision (1e-14), calcMotionErrors must
vanish, the certificate (same system without prescription under f - tau) must reproduce udot (1e-9; with f + tau it must NOT),
and after unlock / disable the accelerations must equal those of a State with nothing prescribed.  (3) a Motion on a Ball / Free / Gimbal / Bushing / Ellipsoid: getQDot / getQDotDot / u / udot
must equal the Motion's values, and u, udot the extracted qdot = N(q) u model (position level).  (2) the lock state machine:
random sequences of lock / lockAt / unlock / setQ / setU / enable-disable Motion / prescribe on a Pin, compared after every
operation with the model (lock level and recorded value exactly; q, u, prescribed udot to 1e-14)."""
import os, re, json
from vlib import *

PROPS = ['Props/Properties_C10.v', 'Props/Properties_C10_mult.v']
EXTRACT = '''From Coq Require Import Extraction ExtrOcamlBasic.
Require Import Num Vec rot_gen C10_Model C10_PrescModel C10_MultModel.
Extraction "c10.ml" step run presc presc_udot lock_value motion_values presc_all mob_default pres_slots total_nu unpack pack motion_power dot.
'''

def build(ctx):
    ex = ctx.bdir('ex')
    if not ctx.extract(EXTRACT, ex): return None
    drv = open(os.path.join(VERIF, 'ocaml', 'C10_drv.ml')).read().replace('#include "fops.inc"', open(os.path.join(VERIF, 'ocaml', 'fops.inc')).read())
    open(os.path.join(ex, 'C10_drv_full.ml'), 'w').write(drv)
    if not ctx.ocaml(ex, ['c10.mli', 'c10.ml', 'C10_drv_full.ml'], 'drv'): return None
    exe = ctx.bdir('C10_motion')
    if not ctx.cxx(os.path.join(VERIF, 'harness', 'C10_motion.cpp'), exe): return None
    return exe, os.path.join(ex, 'drv')

def fh(x): return None if x == '-' else float.fromhex(x)
def near(a, b, tol=1e-14):
    if a is None or b is None: return a is None and b is None
    return abs(a - b) <= tol * max(1.0, abs(a), abs(b))

def gen_lock_seq(rng, n):
    ops = []
    v = lambda: repr(round(rng.uniform(-1, 1), 3))
    for _ in range(n):
        r = rng.random()
        if r < 0.18: ops.append('LK %d' % rng.choice([0, 1, 2]))
        elif r < 0.36: ops.append('LA %d %s' % (rng.choice([0, 1, 2]), v()))
        elif r < 0.48: ops.append('UL')
        elif r < 0.60: ops.append('Q ' + v())
        elif r < 0.72: ops.append('U ' + v())
        elif r < 0.80: ops.append('ME %d' % rng.randrange(2))
        elif r < 0.86: ops.append('RS')
        else: ops.append('PR ' + repr(round(rng.uniform(0, 3), 3)))
    return ops

def run(ctx):
    ctx.build_repo()
    ok = ctx.coq_props(PROPS)
    b = build(ctx)
    if b is None:
        ctx.broken.append(('correspondence:build', 'extraction / driver / harness does not build')); ctx.finish()
    exe, drv = b; rng = ctx.rng
    # ---------------- (1) systems with prescribed motion
    nseed = 15 if ctx.tier == 'quick' else 150
    cases = [(rng.randrange(1, 10**6), k, c) for k in range(10) for c in (0, 1) for _ in range(nseed if k < 8 else max(nseed // 2, 5))]
    rc, out, err = sh([exe], input=''.join('SYS %d %d %d\n' % x for x in cases), timeout=3000)
    pm = [l.split() for l in out.split('\n') if l.startswith('PM ')]; thr = [l for l in out.split('\n') if l.startswith('PMTHROW')]
    if rc != 0 or len(pm) + len(thr) != len(cases): ctx.broken.append(('correspondence:harness', 'harness rc=%d, %d of %d systems reported; %s' % (rc, len(pm), len(cases), err[-300:])))
    rc2, mout, merr = sh([drv], input=''.join('PM %s %s %s %s %s\n' % (p[2], p[4], p[5], p[6], p[7]) for p in pm), timeout=600)
    ex = [l.split() for l in mout.split('\n') if l.startswith('E ')]
    first = None; neval = 0; worst = {'value': 0.0, 'motion_error': 0.0, 'certificate': 0.0, 'free': 0.0, 'wrong_sign_min': 1e9}; kinds = {}
    if len(ex) != len(pm): ctx.broken.append(('correspondence:driver', 'model answered %d of %d systems' % (len(ex), len(pm))))
    else:
        for p, e in zip(pm, ex):
            seed, kind = int(p[1]), int(p[2]); kinds[kind] = kinds.get(kind, 0) + 1
            q, u, ud = fh(p[8]), fh(p[9]), fh(p[10]); eq, eu, eud = fh(e[1]), fh(e[2]), fh(e[3])
            e0, e1, e2, cert, certw, free = [float(x) for x in p[11:17]]
            prob = None
            for nm, got, exp in (('q', q, eq), ('u', u, eu), ('udot', ud, eud)):
                if exp is not None:
                    neval += 1; worst['value'] = max(worst['value'], abs(got - exp))
                    if not near(got, exp, 1e-14 if nm != 'udot' else 1e-13): prob = prob or 'prescribed %s = %r, model %r' % (nm, got, exp)
            worst['motion_error'] = max(worst['motion_error'], e0, e1, e2); worst['certificate'] = max(worst['certificate'], cert)
            worst['free'] = max(worst['free'], free); worst['wrong_sign_min'] = min(worst['wrong_sign_min'], certw)
            neval += 3
            if max(e0, e1, e2) > 1e-13: prob = prob or 'calcMotionErrors after prescribe: %g %g %g' % (e0, e1, e2)
            if cert > 1e-9: prob = prob or 'motion forces do not reproduce udot in the unprescribed system: relative error %g' % cert
            if certw < 1e-6: prob = prob or 'the opposite sign of the motion forces also reproduces udot (%g): certificate not discriminating' % certw
            if free > 1e-12: prob = prob or 'after unlock / disable the accelerations differ from the unprescribed ones: %g' % free
            if prob and first is None: first = ('SYS %d %d %s' % (seed, kind, ' '.join(p[3:4])), prob, ' '.join(p))
    for t in thr[:1]: ctx.broken.append(('correspondence:throw', t))
    # ---------------- (1b) multipliers, motion forces, motion power, power balance on the same systems
    import math
    mp = [l for l in out.split('\n') if l.startswith('MP ')]
    mpfirst = None; mpworst = {'power_vs_model': 0.0, 'power_vs_minus_dot': 0.0, 'power_balance': 0.0}; nmp = 0; nslots = {}
    minp = []
    parsed = []
    for l in mp:
        parts = [x.split() for x in l.split('|')]
        seed, kind = int(parts[0][1]), int(parts[0][2]); mobs = parts[1]; tau = parts[2]; fm = parts[3]; uu = parts[4]
        pmot, papp, pcons, dke = [float.fromhex(x) for x in parts[5]]
        parsed.append((seed, kind, mobs, tau, fm, uu, pmot, papp, pcons, dke))
        minp.append('MP %d %s %d %s %d %s' % (len(mobs) // 2, ' '.join(mobs), len(tau), ' '.join(tau), len(uu), ' '.join(uu)))
    if len(mp) != len(pm): ctx.broken.append(('correspondence:harness-mp', 'MP lines %d, PM lines %d' % (len(mp), len(pm))))
    r5, o5, e5 = sh([drv], input='\n'.join(minp) + '\n', timeout=600)
    ml = [l for l in o5.split('\n') if l.startswith('M ')]
    if len(ml) != len(parsed): ctx.broken.append(('correspondence:driver-mp', 'model answered %d of %d: %s' % (len(ml), len(parsed), e5[-200:])))
    else:
        for (seed, kind, mobs, tau, fm, uu, pmot, papp, pcons, dke), l in zip(parsed, ml):
            a_, b_, c_ = l[2:].split('|'); slots = [int(x) for x in a_.split()]; mfm = [float.fromhex(x) for x in b_.split()]; mpow = float.fromhex(c_.strip())
            gfm = [float.fromhex(x) for x in fm]; gu = [float.fromhex(x) for x in uu]; gtau = [float.fromhex(x) for x in tau]
            nslots[len(slots)] = nslots.get(len(slots), 0) + 1; prob = None; nmp += len(gfm) + 3
            # findMotionForces = the multipliers unpacked into the model's slots, zeros elsewhere (exact: the values are copies)
            if len(gtau) != len(slots): prob = 'getMotionMultipliers has %d entries, the prescribed mobilities are %s' % (len(gtau), slots)
            elif gfm != mfm: prob = 'findMotionForces %s is not getMotionMultipliers %s unpacked into the u slots %s (model: %s)' % (gfm, gtau, slots, mfm)
            # calcMotionPower vs the model's accumulation, and vs the documented formula -dot(motion forces, u)
            terms = [a * b for a, b in zip(gfm, gu)]; sc = math.fsum(abs(t) for t in terms) + 1e-300
            d1 = abs(pmot - mpow) / sc; d2 = abs(pmot + math.fsum(terms)) / sc
            mpworst['power_vs_model'] = max(mpworst['power_vs_model'], d1); mpworst['power_vs_minus_dot'] = max(mpworst['power_vs_minus_dot'], d2)
            if d1 > 1e-13: prob = prob or 'calcMotionPower = %r, model (power -= tau[i]*u[slot i]) %r' % (pmot, mpow)
            if d2 > 1e-13: prob = prob or 'calcMotionPower = %r but -dot(findMotionForces, u) = %r (documented: power = -dot(tau, u))' % (pmot, -math.fsum(terms))
            # power balance (implementation-side only): motion + applied + constraint power = d/dt KE (central difference, h = 1e-4)
            bal = abs(pmot + papp + pcons - dke) / max(1.0, abs(pmot), abs(papp), abs(pcons), abs(dke)); mpworst['power_balance'] = max(mpworst['power_balance'], bal)
            if bal > 1e-4: prob = prob or 'power balance: motion %r + applied %r + constraint %r = %r but d/dt KE = %r' % (pmot, papp, pcons, pmot + papp + pcons, dke)
            if prob and mpfirst is None: mpfirst = ('SYS %d %d %d' % (seed, kind, [c for c in cases if c[0] == seed and c[1] == kind][0][2]), prob)
    neval += nmp
    ctx.extra['multipliers'] = {'systems': len(mp), 'worst_relative': mpworst, 'number_of_prescribed_slots_histogram': nslots}
    if mpfirst:
        ctx.broken.append(('correspondence:motion-multipliers', '%s: %s' % mpfirst))
        ctx.report('impl:multipliers:' + mpfirst[0].replace(' ', '_'), 'implementation violates the C10 predicate (motion multipliers / forces / power): ' + mpfirst[1],
                   {'failing_input': mpfirst[0], 'replay_cmd': 'echo "%s" | build/C10/C10_motion' % mpfirst[0]})
    # ---------------- (2) lock state machine
    nseq = 300 if ctx.tier == 'quick' else 5000
    seqs = [('s%d' % i, gen_lock_seq(rng, rng.randrange(3, 26))) for i in range(nseq)]
    hdr = {i: (rng.choice([-1, -1, 0, 1, 2, 2]), repr(round(rng.uniform(-1, 1), 3))) for i, _ in seqs}     # lockByDefault level, default angle
    txt = ''.join('LOCK %s %d %s\n%s\nEND\n' % (i, hdr[i][0], hdr[i][1], '\n'.join(o)) for i, o in seqs)
    r1, a, e1_ = sh([exe], input=txt, timeout=3000); r2, m, e2_ = sh([drv], input=txt, timeout=600)
    la = [l for l in a.split('\n') if l[:2] in ('L ', 'LO', 'EN', 'TH', 'BA')]; lm = [l for l in m.split('\n') if l[:2] in ('L ', 'LO', 'EN')]
    nlock = 0; lockfirst = None; levels = {}
    if len(la) != len(lm): ctx.broken.append(('correspondence:lock', 'line counts differ: harness %d model %d (%s)' % (len(la), len(lm), (e1_ + e2_)[-200:])))
    else:
        cur = None; k = 0
        for x, y in zip(la, lm):
            if x.startswith('LOCK'): cur = x.split()[1]; k = 0; continue
            if x.startswith('END'): continue
            px, py = x.split(), y.split(); nlock += 1; k += 1
            if px[0] != 'L':
                if lockfirst is None: lockfirst = (cur, k, x, y)
                continue
            levels[px[1]] = levels.get(px[1], 0) + 1
            same = px[1] == py[1] and ((px[2] == '-') == (py[2] == '-')) and (px[2] == '-' or fh(px[2]) == fh(py[2])) \
                and near(fh(px[3]), fh(py[3])) and near(fh(px[4]), fh(py[4])) and ((px[5] == '-') == (py[5] == '-')) and (px[5] == '-' or near(fh(px[5]), fh(py[5]), 1e-13))
            if not same and lockfirst is None: lockfirst = (cur, k, x, y)
    # ---------------- (3) Motion on multi-coordinate mobilizers (Ball, Free, Gimbal, Bushing, Ellipsoid): implementation-side predicate
    # (the outcome is known by construction: the Motion's value and its time derivatives) + the extracted qdot = N(q) u model
    nmb = 4 if ctx.tier == 'quick' else 40
    mbc = []
    for mt in range(5):
        for mk in range(4):
            for eu in (1, 0):
                if mk == 0 and not eu and mt in (0, 1, 4): continue      # position-level Sinusoid on a quaternion: q is not a free 4-vector
                for _ in range(nmb if not (mk == 0 and mt in (0, 1, 4)) else 3 * nmb): mbc.append((rng.randrange(1, 10**6), mt, mk, eu))
    r3, o3, e3 = sh([exe], input=''.join('MB %d %d %d %d\n' % x for x in mbc), timeout=3000)
    mb = [l for l in o3.split('\n') if l.startswith('MB ')]; mbthr = [l for l in o3.split('\n') if l.startswith('MBTHROW')]
    if r3 != 0 or len(mb) + len(mbthr) != len(mbc): ctx.broken.append(('correspondence:harness-mb', 'harness rc=%d, %d of %d systems reported; %s' % (r3, len(mb), len(mbc), e3[-300:])))
    for t_ in mbthr[:1]: ctx.broken.append(('correspondence:throw-mb', t_))
    mbfirst = None; nmbeval = 0; mbworst = {'qdot': 0.0, 'qdotdot': 0.0, 'u': 0.0, 'udot': 0.0, 'motion_error': 0.0, 'model_u': 0.0, 'model_udot': 0.0}
    mbdist = {}; pbq = []
    for l in mb:
        parts = [x.split() for x in l.split('|')]
        hd = parts[0]; seed, mt, mk, eu = int(hd[1]), int(hd[2]), int(hd[3]), int(hd[4]); A, w, ph, t = [float.fromhex(x) for x in hd[5:9]]
        q, qd, qdd, u, ud = [[float.fromhex(x) for x in pp] for pp in parts[1:6]]; errs = [float(x) for x in parts[6]]
        mbdist[(mt, mk, eu)] = mbdist.get((mt, mk, eu), 0) + 1
        sv, cv = A * math.sin(w * t + ph), A * w * math.cos(w * t + ph); dv = -A * w * w * math.sin(w * t + ph)
        prob = None
        def chk(nm, got, exp, tol):
            nonlocal prob, nmbeval
            for i, g in enumerate(got):
                nmbeval += 1; d = abs(g - exp); mbworst[nm] = max(mbworst[nm], d)
                if d > tol * max(1.0, abs(exp)): prob = prob or '%s[%d] = %r, the Motion prescribes %r' % (nm, i, g, exp)
        if mk == 0: chk('qdot', qd, cv, 1e-12); chk('qdotdot', qdd, dv, 1e-11); chk('u', [], 0, 0)
        if mk == 0 and not prob:
            for i, g in enumerate(q):
                if abs(g - sv) > 1e-13: prob = prob or 'q[%d] = %r, the Motion prescribes %r' % (i, g, sv)
        if mk == 1: chk('u', u, sv, 1e-13); chk('udot', ud, cv, 1e-12)
        if mk == 2: chk('udot', ud, sv, 1e-12)
        if mk == 3: chk('u', u, A, 1e-14); chk('udot', ud, 0.0, 1e-13)       # A holds the rate
        mbworst['motion_error'] = max(mbworst['motion_error'], *errs)
        if max(errs) > 1e-12: prob = prob or 'calcMotionErrors after prescribe: %g %g %g' % tuple(errs)
        if mk == 0 and eu and mt in (0, 1, 4): pbq.append((l, q[:3], cv, dv, u[:3], ud[:3]))
        if prob and mbfirst is None: mbfirst = ('MB %d %d %d %d' % (seed, mt, mk, eu), prob)
    if pbq:
        r4, o4, e4 = sh([drv], input=''.join('PB %s %s %s %s %s\n' % (hexf(x[1][0]), hexf(x[1][1]), hexf(x[1][2]), hexf(x[2]), hexf(x[3])) for x in pbq), timeout=600)
        bl = [l.split() for l in o4.split('\n') if l.startswith('B ')]
        if len(bl) != len(pbq): ctx.broken.append(('correspondence:driver-pb', 'model answered %d of %d: %s' % (len(bl), len(pbq), e4[-200:])))
        else:
            for x, b_ in zip(pbq, bl):
                mu = [float.fromhex(v) for v in b_[1:4]]; mud = [float.fromhex(v) for v in b_[4:7]]
                for i in range(3):
                    nmbeval += 2; du = abs(mu[i] - x[4][i]); dud = abs(mud[i] - x[5][i]); mbworst['model_u'] = max(mbworst['model_u'], du); mbworst['model_udot'] = max(mbworst['model_udot'], dud)
                    if (du > 1e-12 * max(1, abs(mu[i])) or dud > 1e-11 * max(1, abs(mud[i]))) and mbfirst is None:
                        hd = x[0].split('|')[0].split()
                        mbfirst = ('MB %s %s %s %s' % tuple(hd[1:5]), 'prescribed u/udot of the mobilizer differ from the qdot = N(q) u model: u[%d] %r vs %r, udot[%d] %r vs %r' % (i, x[4][i], mu[i], i, x[5][i], mud[i]))
    ctx.extra['multi_coordinate'] = {'systems': len(mb), 'worst': mbworst, 'by_mobilizer_motion_euler': {'%d/%d/%d' % k: v for k, v in sorted(mbdist.items())}, 'model_compared': len(pbq)}
    if mbfirst:
        ctx.broken.append(('correspondence:multi-coordinate-motion', '%s: %s' % mbfirst))
        ctx.report('impl:' + mbfirst[0].replace(' ', '_'), 'implementation violates the C10 predicate (Motion on a multi-coordinate mobilizer): ' + mbfirst[1],
                   {'failing_input': mbfirst[0], 'replay_cmd': 'echo "%s" | build/C10/C10_motion' % mbfirst[0]})
    neval += nmbeval
    ctx.add_cases(neval + nlock, sum(1 for s in seqs if any(o.startswith('PR') for o in s[1]) and any(o.startswith(('LK', 'LA')) for o in s[1])),
                  ['SYS kind=%d cons=%d' % (c[1], c[2]) for c in cases[:2]] + [' ; '.join(seqs[0][1])])
    ctx.cov['rule'] = ('correspondence: %d random systems (8 kinds of prescription x with/without a Rod constraint): prescribed q/u/udot vs the extracted model (1e-14), '
                       'calcMotionErrors = 0 (1e-13), certificate re-run without prescription under f - tau (1e-9; f + tau must fail), free behaviour after unlock/disable (1e-12); '
                       '%d lock-state-machine sequences (<= 25 operations) compared after every operation (%d operations); %d systems with a Motion on a Ball / Free / Gimbal / '
                       'Bushing / Ellipsoid (Sinusoid at the three levels, Steady; Euler and quaternion mode): getQDot / getQDotDot / u / udot vs the Motion (1e-12 .. 1e-11) and, for '
                       'position-level Motions on Ball / Free / Ellipsoid, u and udot vs the extracted qdot = N(q) u model; evaluations = quantities compared; '
                       'non-trivial = lock sequences containing both a lock and a prescribe' % (len(pm), nseq, nlock, len(mb)))
    ctx.extra['worst'] = worst; ctx.extra['distribution'] = {'kinds': kinds, 'lock_levels_seen': levels, 'lock_sequences': nseq}
    if first:
        ctx.broken.append(('correspondence:prescribed-motion', '%s: %s' % (first[0], first[1])))
        ctx.report('impl:' + first[0].replace(' ', '_'), 'implementation violates the C10 predicate: ' + first[1], {'failing_input': first[0], 'harness_line': first[2],
                   'replay_cmd': 'echo "%s" | build/C10/C10_motion' % first[0]})
    if lockfirst:
        sid, k, x, y = lockfirst; ops = dict(seqs)[sid]
        # shrink: the shortest prefix showing the difference is the first k-1 operations (line 1 is the status of the default State)
        small = ['LOCK x %d %s (lockByDefault level, default angle)' % hdr[sid]] + ops[:max(k - 1, 0)]
        ctx.broken.append(('correspondence:lock-machine', 'sequence %s after operation %d: implementation "%s" model "%s"; operations: %s' % (sid, k, x, y, ' ; '.join(small))))
        ctx.report('impl:lock:' + sid, 'lock state machine: implementation "%s" vs model "%s"' % (x, y), {'failing_input': ' ; '.join(small)})
    ctx.assumptions += [
        'theorems are over the reals / over an abstract NumOps; the correspondence evaluates the extracted formulas in binary64 (same libm as the implementation)',
        'the lock state machine is modelled for a mobilizer with one coordinate and qdot = u (Pin, Slider); position-level prescription on a mobilizer with qdot = N(q) u '
        '(Ball, Free, Ellipsoid, Euler-angle mode) is modelled with the translated Rotation.h helpers (C10_PrescModel.v); a position-level Motion on quaternion coordinates and '
        'Motion::Custom are not modelled (velocity / acceleration level Motions in quaternion mode are checked on the implementation only)',
        'motion_forces_reproduce is abstract linear algebra (hypotheses: vector-space laws, positive definite mass operator); that simbody\'s M is that operator is C01',
        'certificate tolerance 1e-9 relative (two forward-dynamics solves), motion errors 1e-13, prescribed values 1e-14']
    ctx.finish()
