"""C11 Simulations conserve energy and momentum when physics says so (DESIGN 5 C11) -- THIN PARTIAL claim:
continuous-time invariants proved + observed quantities tied.  No theorem bounds the drift of any integrator.

Theorems (coq/Props/Properties_C11.v, Coquelicot): free-body energy rate d/dt KE = F.v + tau.w from Newton-Euler, its
balance with a conservative part and a dissipative rest, system momentum rate = total applied spatial force about the
origin and conservation under internal forces, d/dt (u'Mu/2) = u'M udot for constant symmetric M, non-positive total
power of dampers (C12's sign lemmas).
Tie: the quantities the property observes -- calcKineticEnergy, calcPotentialEnergy, calcEnergy, u.(M u)/2,
calcSystemMass / MassCenterLocationInGround / MomentumAboutGroundOrigin / CentralMomentum -- against the extracted
per-body sums of coq/C11/C11_Model.v at random states of random trees (harness/C11_energy.cpp).
MEASUREMENTS ONLY (no verdict): energy and momentum drift of every error-controlled integrator on short trajectories."""
import os, sys, math, collections
from vlib import *

PROPS = ['Props/Properties_C11.v']
EXTRACT = '''From Coq Require Import Extraction ExtrOcamlBasic.
Require Import Num Vec C11_Model.
Extraction "c11model.ml" ke_sys mom_sys mass_sys com_sys central_mom_sys force_about_origin bil.
'''
RTOL = 1e-9

def fx(t):
    try: return float.fromhex(t)
    except ValueError: return float(t)

def build_tools(ctx):
    d = ctx.bdir('ex')
    if not ctx.extract(EXTRACT, d):
        ctx.broken.append(('correspondence:extract', 'extraction of the C11 model failed')); return None
    src = open(os.path.join(VERIF, 'ocaml', 'C11_drv.ml')).read().replace('(*FOPS*)', open(os.path.join(VERIF, 'ocaml', 'fops.inc')).read())
    open(os.path.join(d, 'drv.ml'), 'w').write(src)
    if not ctx.ocaml(d, ['c11model.mli', 'c11model.ml', 'drv.ml'], 'drv'):
        ctx.broken.append(('correspondence:ocaml', 'OCaml driver for the extracted C11 model does not build')); return None
    exe = ctx.bdir('C11_energy')
    if not ctx.cxx(os.path.join(VERIF, 'harness', 'C11_energy.cpp'), exe):
        ctx.broken.append(('correspondence:harness', 'C11_energy.cpp does not compile against the tree under test')); return None
    return os.path.join(d, 'drv'), exe

def run_exe(exe, seed, n, mode):
    rc, out, err = sh([exe, str(seed), str(n), mode], timeout=1500)
    if rc == 127:
        sh([os.path.join(VERIF, 'bin', 'build_repo')], timeout=3600); rc, out, err = sh([exe, str(seed), str(n), mode], timeout=1500)
    return rc, out

def state_cases(ctx, drv, exe, seed, n, st):
    rc, out = run_exe(exe, seed, n, 'state')
    if 'DONE' not in out:
        ctx.broken.append(('correspondence:harness-run', 'C11_energy %d %d state exited with %d' % (seed, n, rc))); return
    cases = []; cur = None
    for line in out.split('\n'):
        t = line.split()
        if not t: continue
        if t[0] == 'CASE': cur = {'head': line, 'bodies': [], 'impl': None}; cases.append(cur)
        elif t[0] == 'BODY': cur['bodies'].append(t[1:])
        elif t[0] == 'IMPL': cur['impl'] = [fx(x) for x in t[1:]]
        elif t[0] == 'SKIP': st['skipped'] += 1
    cases = [c for c in cases if c['impl']]
    inp = ''.join(''.join('B ' + ' '.join(b) + '\n' for b in c['bodies']) + 'E\n' for c in cases)
    rc2, mout, err = sh([drv], input=inp, timeout=600)
    res = [[fx(x) for x in l.split()] for l in mout.split('\n') if l.strip()]
    if len(res) != len(cases):
        ctx.broken.append(('correspondence:driver', 'model driver produced %d lines for %d systems' % (len(res), len(cases)))); return
    for c, m in zip(cases, res):
        im = c['impl']; st['n'] += 1
        ke, pe, e, umu, pesum, mass = im[0:6]; com = im[6:9]; P = im[9:15]; Pc = im[15:21]; kem = im[21]
        mke, mmass = m[0], m[1]; mcom = m[2:5]; mP = m[5:11]; mPc = m[11:17]
        escale = abs(ke) + abs(pe) + 1e-6
        pscale = max(abs(x) for x in P + mP) + 1e-9
        checks = [('calcKineticEnergy vs sum of body kinetic energies', ke, mke, abs(ke) + 1e-9),
                  ('u.(M u)/2 (multiplyByM) vs calcKineticEnergy', umu, ke, abs(ke) + 1e-9),
                  ('SimbodyMatterSubsystem::calcKineticEnergy vs MultibodySystem::calcKineticEnergy', kem, ke, abs(ke) + 1e-9),
                  ('calcEnergy vs calcKineticEnergy + calcPotentialEnergy', e, ke + pe, escale),
                  ('calcPotentialEnergy vs sum of the force elements\' contributions', pe, pesum, abs(pe) + 1e-9),
                  ('calcSystemMass', mass, mmass, mass)]
        checks += [('calcSystemMassCenterLocationInGround[%d]' % i, com[i], mcom[i], max(abs(x) for x in com + mcom) + 1e-9) for i in range(3)]
        checks += [('calcSystemMomentumAboutGroundOrigin[%d]' % i, P[i], mP[i], pscale) for i in range(6)]
        checks += [('calcSystemCentralMomentum[%d]' % i, Pc[i], mPc[i], pscale) for i in range(6)]
        for what, a, b, scale in checks:
            st['cmp'] += 1
            if not (abs(a - b) <= RTOL * scale + 1e-12):
                if not any(x[0] == 'correspondence:' + what.split('[')[0] for x in ctx.broken):
                    ctx.broken.append(('correspondence:' + what.split('[')[0], '%s: implementation %.17g, model %.17g -- %s' % (what, a, b, c['head'])))
                    # this IS a failing input for the property's observed quantities
                    ctx.report('impl:' + what.split('[')[0].replace(' ', '-'), '%s: %.17g vs %.17g' % (what, a, b),
                               {'replay_cmd': '%s %d %d state' % (exe, seed, n), 'case': c['head'], 'implementation': a, 'model': b})
        st['types'].update(c['head'].split('types')[1].split())

def measurements(ctx, exe, seed, n):
    rc, out = run_exe(exe, seed, n, 'traj')
    rows = []
    for line in out.split('\n'):
        t = line.split()
        if t and t[0] == 'MEAS' and 'FAILED' not in line:
            d = dict(zip(t[1::2], t[2::2])); rows.append(d)
    worst = collections.defaultdict(lambda: collections.defaultdict(float))
    for d in rows:
        key = d['integrator']; m = d['model']
        if m == 'conservative': worst[key]['conservative: energy drift / accuracy (worst)'] = max(worst[key]['conservative: energy drift / accuracy (worst)'], float(d['energy_drift_over_accuracy']))
        if m == 'free-floating-internal':
            worst[key]['free-floating: energy drift / accuracy (worst)'] = max(worst[key]['free-floating: energy drift / accuracy (worst)'], float(d['energy_drift_over_accuracy']))
            worst[key]['free-floating: momentum drift (relative) / accuracy (worst)'] = max(worst[key]['free-floating: momentum drift (relative) / accuracy (worst)'], float(d['momentum_drift_rel']) / float(d['accuracy']))
        if m == 'bushing-only-dissipation': worst[key]['bushing: (energy + reported dissipated energy) drift / accuracy (worst)'] = max(worst[key]['bushing: (energy + reported dissipated energy) drift / accuracy (worst)'], float(d['energy_plus_bushing_dissipated_drift_rel']) / float(d['accuracy']))
        if m in ('dampers', 'bushing-only-dissipation'): worst[key]['dissipative: largest energy increase between reports / accuracy (worst)'] = max(worst[key]['dissipative: largest energy increase between reports / accuracy (worst)'], float(d['max_energy_increase_rel']) / float(d['accuracy']))
    ctx.extra['MEASUREMENTS_ONLY_not_decided'] = {k: {a: float('%.3g' % b) for a, b in v.items()} for k, v in worst.items()}
    ctx.extra['measurement_runs'] = len(rows)
    ctx.extra['measurement_failures'] = out.count('FAILED')

def run(ctx):
    ctx.build_repo()
    ctx.coq_props(PROPS)
    tools = build_tools(ctx)
    if tools is None: ctx.finish()
    drv, exe = tools
    st = {'n': 0, 'cmp': 0, 'skipped': 0, 'types': collections.Counter()}
    quick = ctx.tier == 'quick'
    for sd in ([ctx.seed] if quick else [ctx.seed + k for k in range(5)]):
        state_cases(ctx, drv, exe, sd, 150 if quick else 400, st)
    if ctx.broken:       # failing-input search = the same predicate on more systems
        for k in range(1, 4):
            state_cases(ctx, drv, exe, ctx.seed + 1000 * k, 300, st)
            if any(v[2] for v in ctx.violations): break
    measurements(ctx, exe, ctx.seed, 1 if quick else 2)
    ctx.add_cases(st['cmp'], st['n'], ['%d systems, mobilizer types seen: %s' % (st['n'], ' '.join('%s:%d' % kv for kv in sorted(st['types'].items())))])
    ctx.cov['rule'] = ('one evaluation = one scalar comparison (relative 1e-9) between an energy / momentum calculator of the implementation and the extracted per-body sum at a random '
                       'state of a random tree (1-6 bodies, all 17 mobilizer types, reversed, quaternion/Euler, free-floating or Ground-attached base, gravity + two-point and '
                       'mobility springs); distinct_nontrivial = systems')
    ctx.extra['systems'] = st['n']; ctx.extra['skipped'] = st['skipped']
    ctx.assumptions += [
        'NOT DECIDED: the property\'s first sentence (energy drift of every error-controlled integrator bounded by a multiple of the requested accuracy). No theorem here bounds '
        'integrator drift; the drift figures in MEASUREMENTS_ONLY_not_decided are observations of this run, not verdicts',
        'theorems are continuous-time statements over the reals along first-order jets; the rotational part of the free-body theorem is in body-frame components with a constant inertia',
        'the tree-level power balance (d/dt KE = u.f_applied for an articulated tree) is not proved here: only the free body, the constant-M quadratic form and the momentum of a set of bodies obeying Newton-Euler',
        'per-body data (mass-centre velocity, angular velocity, pose) are taken from the implementation (their dependence on q,u is C03/C05/C15)']
    ctx.finish()
