"""C12 Force elements' power matches their potential energy (DESIGN 5 C12).

Model: coq/C13/C13_Model.v (shared with C13/C38).  Theorems: coq/Props/Properties_C12.v - along every rigid motion
(first-order pose jets, Coquelicot is_derive) d/dt PE = -(power) + dissipation, dissipation <= 0 and = 0 without damping,
for TwoPointLinearSpring (hyp. distance != 0), TwoPointLinearDamper, UniformGravity, Gravity, GlobalDamper,
MobilityLinearSpring/Damper (coordinates with qdot = u), MobilityLinearStop (away from the two switching points);
refuted with witnesses for TwoPointConstantForce, ConstantForce, ConstantTorque, MobilityConstantForce (PE = 0, energy sources).
Tie: correspondence (extracted model vs compiled elements, forces and PE).
Failing-input search / predicate on the implementation: power from the returned forces vs central difference of the
reported PE along the motion."""
import os, sys, math
from vlib import *
import C13

PROPS = ['Props/Properties_C12.v']
DISSIPATIVE = {'TPD', 'GD', 'MLD', 'MST', 'LB'}
SOURCES = {'TPC', 'CF', 'CT', 'MCF'}          # report PE = 0, documented energy sources (DESIGN 7.17)
WAVE = ['TPS', 'TPD', 'TPC', 'CF', 'CT', 'GD', 'UG', 'GR', 'LB', 'MLS', 'MLD', 'MCF', 'MST']
FD_TOL = 1e-6                                  # h = 1e-6 central difference, relative to 1+|P|+|dPE| (DESIGN App. A)

def fd_applicable(kind, ep, di):
    """stay away from the singularities the theorems exclude: coincident stations, the stop's switching points"""
    if kind in ('TPS',):
        b1, b2 = ep[0], ep[1]
        X1, X2 = di['X'][b1], di['X'][b2]
        def pt(X, st): return [X[9 + i] + sum(X[3 * i + j] * st[j] for j in range(3)) for i in range(3)]
        return math.dist(pt(X1, ep[2:5]), pt(X2, ep[5:8])) > 0.2
    if kind == 'MST':
        q = di['q'][di['jq']]; return abs(q - ep[4]) > 1e-3 and abs(q - ep[5]) > 1e-3
    return True

def predicate(kind, ep, di):
    """-> (status, diss) ; diss = P + dPE/dt must be <= 0, and = 0 for elements without damping"""
    P, dPE = di['P'], di['dPE']; diss = P + dPE; tol = FD_TOL * (1 + abs(P) + abs(dPE))
    undamped = kind not in DISSIPATIVE or (kind == 'TPD' and ep[8] == 0) or (kind == 'GD' and ep[0] == 0) or \
               (kind == 'MLD' and ep[2] == 0) or (kind == 'MST' and ep[3] == 0) or (kind == 'LB' and max(ep[20:26]) == 0)
    if diss > tol: return 'positive', diss
    if undamped and abs(diss) > tol: return 'nonzero', diss
    return 'ok', diss

def witness(ctx, exe):
    """replay the Coq witnesses of the *_dissipation_sign_refuted theorems on the real elements"""
    rc, out, err = sh([exe], input='WIT\n', timeout=120)
    line = [l for l in out.split('\n') if l.startswith('OK')]
    if not line:
        ctx.broken.append(('witness', 'witness replay did not run: ' + (out + err)[-200:])); return
    secs = C13.sections(line[0][2:])[1:]
    names = ['TwoPointConstantForce', 'ConstantForce', 'ConstantTorque', 'MobilityConstantForce']
    rep = {}
    for nm, s in zip(names, secs):
        P, pe0, pe1 = s[0], s[1], s[2]; rep[nm] = {'power': P, 'PE': pe0, 'PE_after_motion': pe1}
        if P > 0 and pe0 == 0 and pe1 == 0:
            ctx.report('energy-source:' + nm, '%s delivers power %g while its reported potential energy stays 0 (dissipation term +%g > 0)' % (nm, P, P),
                       {'witness': 'Coq theorem C12_%s_dissipation_sign_refuted' % {'TwoPointConstantForce': 'tpconst', 'ConstantForce': 'constforce', 'ConstantTorque': 'consttorque', 'MobilityConstantForce': 'mconst'}[nm],
                        'replay_cmd': 'echo WIT | %s' % exe, 'observed': rep[nm]})
        else:
            ctx.broken.append(('witness:' + nm, 'the refuted-theorem witness no longer reproduces on the implementation: power %g PE %g -> %g' % (P, pe0, pe1)))
    ctx.extra['witness_replay'] = rep

def run_predicate(ctx, res, report=True):
    worst = {}; nfail = 0; nskip = 0; src_pos = {}
    for kind, hl, ep, di, dm, ml in res:
        if 'P' not in di: continue
        if not fd_applicable(kind, ep, di): nskip += 1; continue
        st, diss = predicate(kind, ep, di)
        nm = C13.NAMES[kind]
        rel = abs(diss) / (1 + abs(di['P']) + abs(di['dPE']))
        if kind in SOURCES:
            if st != 'ok': src_pos[nm] = src_pos.get(nm, 0) + 1
            continue
        if kind not in DISSIPATIVE or st == 'nonzero': worst[nm] = max(worst.get(nm, 0.0), rel)
        if st != 'ok':
            nfail += 1
            if report and nfail == 1:
                ctx.report('impl:power-balance:' + nm, 'implementation violates C12: %s power %.9g, d/dt PE (central difference) %.9g, dissipation term %.3g (%s)'
                           % (nm, di['P'], di['dPE'], diss, st), {'kind': kind, 'harness_input': kind + ' ' + C13.fmt(hl), 'P': di['P'], 'dPE': di['dPE']})
                ctx.broken.append(('predicate:power-balance', '%s dissipation %.3g (%s)' % (nm, diss, st)))
    return worst, nfail, nskip, src_pos

def search(ctx, exes, n):
    r = ctx.rng; cases = []
    for i in range(n):
        k = WAVE[i % len(WAVE)]; hl, ep = C13.gen_case(r, k); cases.append((k, hl, ep))
    res = C13.run_cases(ctx, exes, cases)
    worst, nfail, nskip, src = run_predicate(ctx, res)
    ctx.extra['search'] = {'predicate_evaluations': len(res) - nskip, 'failures': nfail, 'worst_relative_imbalance': worst}

def replay(ctx, path):
    C13.replay_case(ctx, path)

def run(ctx):
    ctx.build_repo()
    ctx.coq_props(PROPS)
    exes = C13.build_sides(ctx)
    per = 25 if ctx.tier == 'quick' else 300
    if exes:
        r = ctx.rng; cases = C13.load_corpus('C12', WAVE); ctx.extra['corpus_cases'] = len(cases)
        for k in WAVE:
            for i in range(per):
                hl, ep = C13.gen_case(r, k); cases.append((k, hl, ep))
        res = C13.run_cases(ctx, exes, cases)
        dis = C13.compare(res)
        hist = {}
        for kind, hl, ep, di, dm, ml in res: hist[C13.NAMES[kind]] = hist.get(C13.NAMES[kind], 0) + 1
        nontriv = sum(1 for kind, hl, ep, di, dm, ml in res if any(x != 0.0 for x in di.get('bf', []) + di['mf']) or di['pe'] != 0.0)
        ctx.add_cases(len(res), nontriv, [c[5][:160] for c in res[:2]])
        ctx.extra['case_histogram'] = hist
        ctx.cov['rule'] = ('correspondence: every element of the wave built in a real system (Ground + 3 Free bodies in a tree for body elements; '
                           'Pin/Slider/Cylinder/Planar/Translation chain for mobility elements, all coordinates with qdot = u), random poses, velocities, '
                           'parameters incl. zero stiffness/damping and engaged/disengaged stops; body forces, mobility forces and PE compared (rel 1e-9); '
                           'non-trivial = some force component or the PE non-zero; distinct by random draw')
        if dis:
            kind, what, di, dm, (hl, ep, ml) = dis[0]
            ctx.broken.append(('correspondence:' + C13.NAMES[kind], 'model and implementation differ in %s (%d of %d cases): harness input "%s"' %
                               (what, len(dis), len(res), (kind + ' ' + C13.fmt(hl))[:1500])))
        # the property's predicate on the implementation's own numbers (power vs central difference of PE)
        worst, nfail, nskip, src = run_predicate(ctx, res)
        ctx.extra['power_balance_worst_relative_imbalance_impl'] = worst
        ctx.extra['power_balance_cases_skipped_near_singularity'] = nskip
        ctx.extra['energy_source_cases_with_nonzero_dissipation_term'] = src
        witness(ctx, exes[0])
    ctx.assumptions += ['theorems are over the reals (ROps); binary64 rounding is covered only by the tolerance-based correspondence',
                        'rigid motion enters as first-order pose jets R + t [w]x R, p + t v (is_derive at t = 0); by the chain rule this is the derivative along any motion with that velocity',
                        'Mobility* elements only on coordinates with qdot = u (their documented domain); generators and theorems carry that restriction',
                        'TwoPointLinearSpring theorem assumes the stations do not coincide; MobilityLinearStop theorem excludes the two switching points q = qLow, q = qHigh',
                        'the model is hand-written; its agreement with the compiled code is checked on generated cases only',
                        'LinearBushing: only the algebraic power identity (power = f.qdot in the inferred coordinates) is a theorem; that qdot is the rate of the inferred q is covered by the finite-difference predicate and correspondence only']
    if exes and (ctx.broken or ctx.tier == 'thorough'):
        search(ctx, exes, 1300 if ctx.tier == 'quick' else 13000)
    ctx.finish()
