"""C13 Interaction forces obey Newton's third law (DESIGN 5 C13).

Model: coq/C13/C13_Model.v (hand-written from Force.cpp / Force_LinearBushing.cpp, generic in NumOps).
Theorems: coq/Props/Properties_C13.v (net force and net moment about any point are zero for
TwoPointLinearSpring/Damper/ConstantForce and LinearBushing acting on any two bodies of any system,
including the same body twice and Ground).
Tie: correspondence - the extracted model (OCaml, float NumOps) against the compiled elements called through
Force::calcForceContribution / calcPotentialEnergyContribution on the same poses, velocities and parameters.

This module also holds the case generators / runners shared with C12 and C38 (same kernels)."""
import os, sys, math
from vlib import *

PROPS = ['Props/Properties_C13.v']
EXTRACT = '''From Coq Require Import Extraction ExtrOcamlBasic.
Require Import Num Vec C13_Model.
Extraction "c13model.ml" ev_spring ev_damper ev_tpconst ev_constforce ev_consttorque ev_globaldamper
  ev_uniformgravity ev_gravity ev_bushing ev_mspring ev_mdamper ev_mconst ev_mstop net power dot_s bush_qr bush_q bush_qdot.
'''
BODY_KINDS = ['TPS', 'TPD', 'TPC', 'CF', 'CT', 'GD', 'UG', 'GR', 'LB']
MOB_KINDS = ['MLS', 'MLD', 'MCF', 'MST']
INTERACTION = ['TPS', 'TPD', 'TPC', 'LB']
NAMES = {'TPS': 'TwoPointLinearSpring', 'TPD': 'TwoPointLinearDamper', 'TPC': 'TwoPointConstantForce', 'CF': 'ConstantForce',
         'CT': 'ConstantTorque', 'GD': 'GlobalDamper', 'UG': 'UniformGravity', 'GR': 'Gravity', 'LB': 'LinearBushing',
         'MLS': 'MobilityLinearSpring', 'MLD': 'MobilityLinearDamper', 'MCF': 'MobilityConstantForce', 'MST': 'MobilityLinearStop'}
# coordinates per body of system B (Pin, Slider, Cylinder, Planar, Translation)
SYSB_NQ = {1: 1, 2: 1, 3: 2, 4: 3, 5: 3}

# ------------------------------------------------------------------ generators
def U(r, a, b=None):
    return r.uniform(-a, a) if b is None else r.uniform(a, b)
def vec(r, n, a=1.0):
    return [U(r, a) for _ in range(n)]
def unit(r, n):
    while True:
        v = [r.gauss(0, 1) for _ in range(n)]; s = math.sqrt(sum(x * x for x in v))
        if s > 0.3: return [x / s for x in v]

def gen_sysA(r):
    """three Free bodies: mass, com(3), q = unit quaternion(4) + p(3), u(6)"""
    o = []
    for i in range(3):
        o += [U(r, 0.3, 3.0)] + vec(r, 3, 0.5) + unit(r, 4) + vec(r, 3, 1.5) + vec(r, 6, 2.0)
    return o

def pick_pair(r):
    """attachment bodies: distinct, one of them Ground, or the same body twice"""
    m = r.random()
    if m < 0.5:
        b1 = r.randrange(0, 4); b2 = r.choice([b for b in range(4) if b != b1])
    elif m < 0.75:
        b1, b2 = (0, r.randrange(1, 4)) if r.random() < 0.5 else (r.randrange(1, 4), 0)
    else:
        b1 = b2 = r.randrange(0, 4)
    return b1, b2

def gen_case(r, kind):
    """returns (harness_line_numbers, elem_params) ; the element parameters are the tail of the harness line"""
    if kind in BODY_KINDS:
        pre = gen_sysA(r)
        if kind in ('TPS', 'TPD', 'TPC'):
            b1, b2 = pick_pair(r)
            st = vec(r, 6, 1.0)
            if b1 == b2:     # keep the two stations apart (the elements divide by their distance)
                while math.dist(st[:3], st[3:]) < 0.3: st = vec(r, 6, 1.0)
            if kind == 'TPS': par = [U(r, 0.0, 50.0) if r.random() > 0.1 else 0.0, U(r, 0.0, 2.0)]
            elif kind == 'TPD': par = [U(r, 0.0, 10.0) if r.random() > 0.1 else 0.0]
            else: par = [U(r, 20.0)]
            ep = [b1, b2] + st + par
        elif kind == 'CF': ep = [r.randrange(0, 4)] + vec(r, 3, 1.0) + vec(r, 3, 10.0)
        elif kind == 'CT': ep = [r.randrange(0, 4)] + vec(r, 3, 10.0)
        elif kind == 'GD': ep = [U(r, 0.0, 5.0)]
        elif kind == 'UG': ep = vec(r, 3, 10.0) + [U(r, 2.0)]
        elif kind == 'GR':
            g = 0.0 if r.random() < 0.1 else U(r, 0.0, 20.0)
            ep = unit(r, 3) + [g, U(r, 2.0)] + [1 if r.random() < 0.3 else 0 for _ in range(3)]
        elif kind == 'LB':
            b1, b2 = pick_pair(r)
            def frame(): return [U(r, 3.0), U(r, 1.2), U(r, 3.0)] + vec(r, 3, 0.8)
            k = [U(r, 0.0, 30.0) for _ in range(6)]
            c = [0.0] * 6 if r.random() < 0.25 else [U(r, 0.0, 5.0) for _ in range(6)]
            ep = [b1, b2] + frame() + frame() + k + c
        return pre + ep, ep
    else:
        pre = vec(r, 10, 1.5) + vec(r, 10, 2.0)
        b = r.randrange(1, 6); w = r.randrange(0, SYSB_NQ[b])
        if kind == 'MLS': par = [U(r, 0.0, 50.0), U(r, 1.0)]
        elif kind == 'MLD': par = [U(r, 0.0, 10.0)]
        elif kind == 'MCF': par = [U(r, 20.0)]
        else:
            lo = U(r, 1.2); hi = lo + (U(r, 0.0, 1.5) if r.random() > 0.1 else 0.0)
            k = 0.0 if r.random() < 0.08 else U(r, 0.0, 80.0)
            d = 0.0 if r.random() < 0.25 else U(r, 0.0, 2.0)
            par = [k, d, lo, hi]
        ep = [b, w] + par
        return pre + ep, ep

def load_corpus(pid, kinds=None):
    """regression cases kept in corpus/<pid>/cases.txt: '<kind> <harness numbers>' per line -> [(kind, hl, ep)]"""
    out = []
    p = os.path.join(VERIF, 'corpus', pid, 'cases.txt')
    if os.path.exists(p):
        for line in open(p):
            t = line.split()
            if not t or t[0].startswith('#') or (kinds and t[0] not in kinds): continue
            hl = parse_floats(' '.join(t[1:])); npre = 51 if t[0] in BODY_KINDS else 20
            ep = hl[npre:]
            nint = 2 if t[0] in ('TPS', 'TPD', 'TPC', 'LB') + tuple(MOB_KINDS) else 1 if t[0] in ('CF', 'CT') else 0
            for i in range(nint): ep[i] = int(ep[i]); hl[npre + i] = int(hl[npre + i])
            out.append((t[0], hl, ep))
    return out

def fmt(xs):
    return ' '.join(hexf(x) if isinstance(x, float) else str(x) for x in xs)

# ------------------------------------------------------------------ running both sides
def sections(line):
    return [parse_floats(s) for s in line.split('|')]

def parse_impl(kind, line):
    """harness output line -> dict"""
    d = {'raw': line}
    if kind == 'LB':
        head, line = line.split(';', 1)
        hs = sections(head[2:])
        d['XB1F'] = hs[0][:12]; d['XB2M'] = hs[0][12:24]; d['q_impl'] = hs[1][:6]; d['qdot_impl'] = hs[1][6:12]
    if not line.strip().startswith('OK'):
        d['error'] = line.strip(); return d
    s = sections(line.strip()[2:])[1:]
    nb, nu = int(s[0][0]), int(s[0][1]); d['nb'] = nb; d['nu'] = nu
    if kind in BODY_KINDS:
        d['XV'] = s[1]; d['bf'] = s[2]; d['mf'] = s[3]; d['pe'] = s[4][0]; d['u'] = s[5]; d['npf'] = s[6][0]
        d['X'] = [s[1][18 * i:18 * i + 12] for i in range(nb)]; d['V'] = [s[1][18 * i + 12:18 * i + 18] for i in range(nb)]
        if len(s) > 7: d['P'], d['dPE'] = s[7][0], s[7][1]
    else:
        d['q'] = s[1]; d['u'] = s[2]; d['qdot'] = s[3]; d['j'] = int(s[4][0]); d['jq'] = int(s[4][1])
        d['mf'] = s[5]; d['bfsum'] = s[6][0]; d['pe'] = s[7][0]
        if len(s) > 8: d['P'], d['dPE'] = s[8][0], s[8][1]
    return d

def model_line(kind, hl, ep, d):
    """input line of the OCaml driver, from the element parameters and the poses/velocities the implementation reported"""
    if kind in BODY_KINDS:
        o = [d['nb'], d['nu']] + d['XV']
        if kind == 'GD': o += ep + d['u']
        elif kind in ('UG', 'GR'):
            npar = 4 if kind == 'UG' else 5
            o += ep[:npar]
            for i in range(3):
                o += hl[17 * i:17 * i + 4] + [(ep[npar + i] if kind == 'GR' else 0)]
        elif kind == 'LB': o += ep[:2] + d['XB1F'] + d['XB2M'] + ep[14:]
        else: o += ep
        return kind + ' ' + fmt(o)
    o = [d['nb'], d['nu'], d['j']] + ep[2:]
    if kind in ('MLS', 'MST'): o.append(d['q'][d['jq']])
    if kind == 'MLD': o.append(d['u'][d['j']])
    if kind == 'MST': o.append(d['qdot'][d['jq']])
    return kind + ' ' + fmt(o)

def parse_model(kind, line):
    s = sections(line)
    d = {'bf': s[0], 'mf': s[1], 'pe': s[2][0]}
    if kind == 'LB' and len(s) > 3: d['q'] = s[3][:6]; d['qdot'] = s[3][6:12]
    return d

def agree(a, b, rtol=1e-9, atol=1e-12):
    """componentwise comparison with one scale per vector (sums of cancelling terms are compared against the vector's size)"""
    if len(a) != len(b): return False
    sc = max([abs(x) for x in a + b if x == x] + [0.0])
    return all(close(x, y, rtol, atol, scale=sc) for x, y in zip(a, b))

def build_sides(ctx):
    """compile harness, extract + build the OCaml driver; returns (harness_exe, driver_exe) or None"""
    exe = ctx.bdir('C13_elem')
    if not ctx.cxx(os.path.join(VERIF, 'harness', 'C13_elem.cpp'), exe):
        ctx.broken.append(('harness:C13_elem', 'harness does not compile against the current headers')); return None
    od = ctx.bdir('ml')
    if not ctx.extract(EXTRACT, od):
        ctx.broken.append(('extract:C13_Model', 'model extraction failed')); return None
    drv = open(os.path.join(VERIF, 'ocaml', 'C13_drv.ml')).read().replace('#include "fops.inc"', open(os.path.join(VERIF, 'ocaml', 'fops.inc')).read())
    open(os.path.join(od, 'drv.ml'), 'w').write(drv)
    if not ctx.ocaml(od, ['c13model.mli', 'c13model.ml', 'drv.ml'], 'drv'):
        ctx.broken.append(('ocaml:C13_drv', 'driver build failed')); return None
    return exe, os.path.join(od, 'drv')

def run_cases(ctx, exes, cases):
    """cases: list of (kind, harness_numbers, elem_params).  Returns list of (kind, hl, ep, impl_dict, model_dict)."""
    exe, drv = exes
    rc, out, err = sh([exe], input='\n'.join(k + ' ' + fmt(hl) for k, hl, ep in cases) + '\n', timeout=1200)
    lines = [l for l in out.split('\n') if l.strip()]
    if len(lines) != len(cases):
        ctx.broken.append(('harness:C13_elem', 'harness produced %d lines for %d cases: %s' % (len(lines), len(cases), (out + err)[-300:]))); return []
    impl = [parse_impl(c[0], l) for c, l in zip(cases, lines)]
    ok = [i for i, d in enumerate(impl) if 'error' not in d]
    for i, d in enumerate(impl):
        if 'error' in d:
            ctx.broken.append(('harness:case', 'implementation raised on generated case %s: %s' % (cases[i][0], d['error'][:200]))); break
    mlines = [model_line(cases[i][0], cases[i][1], cases[i][2], impl[i]) for i in ok]
    rc, out, err = sh([drv], input='\n'.join(mlines) + '\n', timeout=1200)
    mo = [l for l in out.split('\n') if l.strip()]
    if len(mo) != len(ok):
        ctx.broken.append(('ocaml:C13_drv', 'driver produced %d lines for %d cases: %s' % (len(mo), len(ok), (out + err)[-300:]))); return []
    res = []
    for i, l, ml in zip(ok, mo, mlines):
        res.append((cases[i][0], cases[i][1], cases[i][2], impl[i], parse_model(cases[i][0], l), ml))
    return res

def compare(res):
    """-> list of disagreements (kind, what, impl, model, case)"""
    dis = []
    for kind, hl, ep, di, dm, ml in res:
        what = None
        if kind in BODY_KINDS:
            if not agree(di['bf'], dm['bf']): what = 'body forces'
            elif not agree(di['mf'], dm['mf']): what = 'mobility forces'
            elif di['npf'] != 0: what = 'particle forces present'
        else:
            if not agree(di['mf'], dm['mf']): what = 'mobility forces'
            elif di['bfsum'] != 0.0 or any(x != 0.0 for x in dm['bf']): what = 'body forces not zero'
        if what is None and not close(di['pe'], dm['pe'], 1e-9, 1e-12): what = 'potential energy'
        if what is None and kind == 'LB' and not (agree(di['q_impl'], dm['q'], 1e-9, 1e-11) and agree(di['qdot_impl'], dm['qdot'], 1e-9, 1e-11)):
            what = 'bushing coordinates q/qdot'
        if what: dis.append((kind, what, di, dm, (hl, ep, ml)))
    return dis

# ------------------------------------------------------------------ the property's own predicate, on the implementation
def force_scale(kind, ep):
    """rough size of the forces/moments the element can produce on the generated domain (|positions|,|velocities| of order 1..5);
    needed because with both attachments on one body the array only shows the already cancelled sum"""
    if kind == 'TPS': return 5.0 * ep[8] * (5.0 + ep[9])
    if kind == 'TPD': return 5.0 * ep[8] * 10.0
    if kind == 'TPC': return 5.0 * abs(ep[8])
    if kind == 'LB': return 5.0 * (max(ep[14:20]) * 5.0 + max(ep[20:26]) * 10.0)
    return 1.0

def third_law_residual(di, kind, ep):
    """total force and total moment about the origin of Ground of the body forces the implementation returned,
    relative to the size of the individual terms (or the element's force scale when that is larger)"""
    nb = di['nb']; f = [0.0] * 3; m = [0.0] * 3; sc = 0.0
    for i in range(nb):
        F = di['bf'][6 * i:6 * i + 6]; p = di['X'][i][9:12]
        t, ff = F[:3], F[3:]
        cr = [p[1] * ff[2] - p[2] * ff[1], p[2] * ff[0] - p[0] * ff[2], p[0] * ff[1] - p[1] * ff[0]]
        for a in range(3):
            f[a] += ff[a]; m[a] += t[a] + cr[a]
            sc = max(sc, abs(ff[a]), abs(t[a]), abs(cr[a]))
    sc = max(sc, force_scale(kind, ep), 1e-300)
    return max(abs(x) for x in f + m) / sc, sc

def search(ctx, exes, n):
    """failing-input search on the implementation: net force / net moment of every interaction element"""
    r = ctx.rng
    cases = []
    for i in range(n):
        k = INTERACTION[i % len(INTERACTION)]
        hl, ep = gen_case(r, k); cases.append((k, hl, ep))
    exe, drv = exes
    rc, out, err = sh([exe], input='\n'.join(k + ' ' + fmt(hl) for k, hl, ep in cases) + '\n', timeout=1200)
    lines = [l for l in out.split('\n') if l.strip()]
    worst = 0.0; nfail = 0
    for (k, hl, ep), l in zip(cases, lines):
        d = parse_impl(k, l)
        if 'error' in d: continue
        res, sc = third_law_residual(d, k, ep)
        worst = max(worst, res)
        if res > 1e-9:
            nfail += 1
            if nfail == 1:
                ctx.report('impl:third-law:' + NAMES[k], 'implementation violates Newton\'s third law: %s on bodies %s,%s: |net force/moment| = %.3g of the applied force scale'
                           % (NAMES[k], ep[0], ep[1], res), {'kind': k, 'harness_input': k + ' ' + fmt(hl), 'replay_cmd': 'echo "<harness_input>" | %s' % exe, 'residual': res})
    ctx.extra['search'] = {'predicate_evaluations': len(lines), 'failures': nfail, 'worst_relative_residual': worst}

def replay_case(ctx, path):
    """bin/check <ID> --replay FILE: re-run one recorded case on the implementation and on the model, print both sides"""
    import json
    d = json.load(open(path)); hi = d.get('harness_input')
    if not hi: print('replay file has no harness_input (it records: %s)' % d.get('what', d.get('no_longer_checks'))); return
    ctx.build_repo(); exes = build_sides(ctx)
    if not exes: print('could not build both sides:', ctx.broken); return
    t = hi.split(); kind = t[0]; hl = parse_floats(' '.join(t[1:])); npre = 51 if kind in BODY_KINDS else 20; ep = hl[npre:]
    nint = 2 if kind in ('TPS', 'TPD', 'TPC', 'LB') + tuple(MOB_KINDS) else 1 if kind in ('CF', 'CT') else 0
    for i in range(nint): ep[i] = int(ep[i]); hl[npre + i] = int(hl[npre + i])
    res = run_cases(ctx, exes, [(kind, hl, ep)])
    for kind, hl, ep, di, dm, ml in res:
        print('element', NAMES[kind], 'parameters', ep)
        print('implementation: body forces', di.get('bf'), 'mobility forces', di['mf'], 'PE', di['pe'], 'power', di.get('P'), 'dPE/dt (central difference)', di.get('dPE'))
        print('model         : body forces', dm['bf'], 'mobility forces', dm['mf'], 'PE', dm['pe'])
        if kind in INTERACTION: print('third-law residual of the implementation (relative):', third_law_residual(di, kind, ep)[0])
        print('agreement:', 'yes' if not compare(res) else 'NO - ' + compare(res)[0][1])

def replay(ctx, path):
    replay_case(ctx, path)

def run(ctx):
    ctx.build_repo()
    ctx.coq_props(PROPS)
    exes = build_sides(ctx)
    per = 40 if ctx.tier == 'quick' else 400
    if exes:
        r = ctx.rng
        cases = load_corpus('C13', INTERACTION + ['CF', 'CT']); ctx.extra['corpus_cases'] = len(cases)
        for k in INTERACTION + ['CF', 'CT']:
            for i in range(per):
                hl, ep = gen_case(r, k); cases.append((k, hl, ep))
        res = run_cases(ctx, exes, cases)
        dis = compare(res)
        hist = {}
        for kind, hl, ep, di, dm, ml in res:
            key = NAMES[kind] + (':same-body' if kind in INTERACTION and ep[0] == ep[1] else ':ground' if kind in INTERACTION and 0 in ep[:2] else '')
            hist[key] = hist.get(key, 0) + 1
        nontriv = sum(1 for kind, hl, ep, di, dm, ml in res if any(x != 0.0 for x in di['bf']))
        ctx.add_cases(len(res), nontriv, [c[5][:160] for c in res[:3]])
        ctx.extra['case_histogram'] = hist
        ctx.cov['rule'] = ('correspondence: each element built in a 4-body system (Ground + 3 Free bodies in a tree), random unit-quaternion poses, '
                           'velocities, stations/frames and parameters, attachment pairs distinct / with Ground / same body twice; '
                           'all body forces, mobility forces and PE compared (rel 1e-9 of the vector scale); non-trivial = some body force component non-zero; '
                           'distinct by random draw (no repeats)')
        # the property's predicate on the implementation's own output (cheap, always)
        worst = 0.0
        for kind, hl, ep, di, dm, ml in res:
            if kind in INTERACTION:
                rr, sc = third_law_residual(di, kind, ep); worst = max(worst, rr)
                if rr > 1e-9:
                    ctx.report('impl:third-law:' + NAMES[kind], 'implementation violates Newton\'s third law: %s bodies %s,%s residual %.3g' % (NAMES[kind], ep[0], ep[1], rr),
                               {'kind': kind, 'harness_input': kind + ' ' + fmt(hl), 'residual': rr})
                    ctx.broken.append(('predicate:third-law', '%s residual %.3g' % (NAMES[kind], rr))); break
        ctx.extra['third_law_worst_relative_residual_impl'] = worst
        if dis:
            kind, what, di, dm, (hl, ep, ml) = dis[0]
            ctx.broken.append(('correspondence:' + NAMES[kind], 'model and implementation differ in %s (%d of %d cases): harness input "%s"' %
                               (what, len(dis), len(res), (kind + ' ' + fmt(hl))[:1500])))
    ctx.assumptions += ['theorems are over the reals (ROps); binary64 rounding is covered only by the tolerance-based correspondence',
                        'the model is hand-written from the calcForce/calcPotentialEnergy bodies; its agreement with the compiled code is checked on generated cases only',
                        'LinearBushing: the Euler-angle extraction is modelled on its regular branch (|cos q2| > 4 eps); the third-law theorem holds for any angles',
                        'poses and velocities are taken as the implementation reports them (MobilizedBody::getBodyTransform/getBodyVelocity)']
    if exes and (ctx.broken or ctx.tier == 'thorough'):
        search(ctx, exes, 2000 if ctx.tier == 'quick' else 20000)
    ctx.finish()
