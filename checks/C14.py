"""C14 Mobilizer reaction forces satisfy Newton-Euler for every body (DESIGN 5 C14).
Model: coq/C14/C14_Model.v (hand-written, on the tree library: MB.accum over Spatial.svK): the free-body inward recursion of
calcMobilizerReactionForcesUsingFreebodyMethod and the frame shifts of the four MobilizedBody::findMobilizerReaction* accessors.
Theorems for every tree: coq/C14/C14_Proofs.v.
Tie: correspondence on random simbody trees (17 mobilizer types incl. Weld, forward/reversed, quaternion/Euler, massless
non-terminal bodies, gravity + random body and mobility forces, optional Rod/Ball constraint, prescribed and locked mobilizers),
realized to Acceleration: the model is evaluated on the A_GB, V_GB, mass properties, applied and constraint body forces the
implementation reports, and compared with calcMobilizerReactionForces (articulated-body route), the free-body route, the four
find* accessors and getGyroscopicForce of every body (Ground included)."""
import os
from vlib import *
import C15, C02

PROPS = ['Props/Properties_C14.v', 'Props/Properties_C14b.v']
# tags of the C02 forward-dynamics model that carry the articulated route P+ (~phi A_parent) + z+ of calcMobilizerReactionForces
ROUTE_TAGS = ('REACT', 'REACTFB', 'ZP', 'PPLUS', 'FDACC')
INDEXED = ('GYRO', 'FM', 'FMFB', 'ATM', 'ATO', 'PATO', 'PATF')
EXTRACT = '''From Coq Require Import Extraction ExtrOcamlBasic.
Require Import Num Vec Tree MB Spatial C15_Model C14_Model.
Extraction Language OCaml.
Extraction "c14model.ml" mkTree out_reactions mkRb.
'''

LONE_KEY = 'loneparticle-com-offset-reaction-torque'
def route_lone(sysm, key):
    """RBNodeLoneParticle (forward Translation on Ground, identity frames, no children) drops the m p x a moment: in a system that contains
    such a body, disagreements of the articulated-body route at that body and at Ground (which accumulates it) belong to the known finding"""
    if sysm['lone'] and key[0] in ('FM', 'ATM', 'ATO', 'PATO', 'PATF') and (key[1] in sysm['lone'] or key[1] == 0): return LONE_KEY
    return None

def witness(ctx, d):
    rc, out, err = sh([os.path.join(d, 'probe'), 'witness'], timeout=300)
    w = [l for l in out.split('\n') if l.startswith('WITNESS ' + LONE_KEY)]
    ctx.extra['witness_loneparticle'] = [l for l in out.split('\n') if l.startswith('WITNESS')] or 'witness did not run: rc=%d %s' % (rc, err[-200:])
    if w and ' bad=1 ' in w[0]:
        ctx.report(LONE_KEY, 'calcMobilizerReactionForces / findMobilizerReaction*: lone Translation body on Ground with identity frames (RBNodeLoneParticle) and '
                   'mass centre (0.3,-0.2,0.5): reported reaction torque differs from the free-body (Newton-Euler) value: ' + w[0],
                   {'replay_cmd': '%s witness' % os.path.join(d, 'probe'), 'failing_input': w[0]})

def run(ctx):
    ctx.build_repo()
    ctx.coq_props(PROPS)
    d = C15.build(ctx, 'C14', 'C14/C14_Model.vo', EXTRACT, 'c14model', 'C14_drv.ml', 'C14_probe.cpp')
    if d:
        nsys, maxb = (1000, 10) if ctx.tier == 'quick' else (8000, 14)
        # tolerance: the implementation's main route goes through the articulated-body quantities (P+, z+) of the forward-dynamics
        # solution; it agrees with the free-body recursion to rounding amplified by the conditioning of the hinge inertias
        # (massless bodies, long chains), measured worst case 2e-12 on 600 systems; 1e-8 of the largest reaction component is used
        n, dis, stats = C15.compare(ctx, 'C14', d, 'corr', nsys, maxb, INDEXED, 1e-8, 1e-10, route=route_lone)
        ctx.extra['correspondence'] = stats
        if dis:
            x = dis[0]
            ctx.broken.append(('correspondence:C14:' + x['tag'], 'model and implementation differ on system %d (seed %d) tag %s[%d]: impl=%s model=%s (%d disagreements)' %
                               (x['system'], x['seed'], x['tag'], x['index'], x['impl'], x['model'], len(dis))))
            ctx.extra['first_disagreement'] = x
    # the route the implementation takes (P+ A+ + z+): modelled on top of the C02 forward-dynamics model (react_art / react_fb in
    # coq/C02/C02_Model.v), proved equal to the free-body route for every tree (Properties_C14b.v) and compared here with
    # findMobilizerReactionOnBodyAtOriginInGround and the free-body method on random trees (forces applied by Force::DiscreteForces)
    d2 = C02.build(ctx)
    if d2:
        saved = C02.TOL; keep = ctx.extra.get('correspondence')
        C02.TOL = {t: v for t, v in saved.items() if t in ROUTE_TAGS}
        try:
            C02.correspondence(ctx, d2, *((150, 10) if ctx.tier == 'quick' else (3000, 14)))
            ctx.extra['correspondence_articulated_route_model'] = ctx.extra.pop('correspondence', None)
        finally:
            C02.TOL = saved
            if keep is not None: ctx.extra['correspondence'] = keep
    ctx.cov['rule'] = ('random simbody trees realized to Acceleration (1..N bodies; chain/star/random branching; 17 mobilizer types x forward/reversed, Weld '
                       'over-represented; quaternion or Euler; gravity, random body forces on any body incl. Ground, random mobility forces; 1/3 with a Rod or '
                       'Ball constraint (flag bit 0), 1/4 with a Sinusoid-prescribed mobilizer (bit 1), 1/5 with a locked mobilizer (bit 2); 1/4 with massless '
                       'non-terminal bodies, systems with a singular mass matrix skipped; 1/6 with an extra RBNodeLoneParticle body = forward Translation on Ground with '
                       'identity frames, no children, off-origin mass centre); per body incl. Ground the model is compared (rel tol 1e-8 of the largest component) with '
                       'calcMobilizerReactionForces, calcMobilizerReactionForcesUsingFreebodyMethod, findMobilizerReactionOnBodyAtMInGround / AtOriginInGround, '
                       'findMobilizerReactionOnParentAtOriginInGround / AtFInGround and getGyroscopicForce; systems whose accelerations or multipliers are '
                       'non-finite or above 1e5 (singular) are skipped and counted; non-trivial = at least 3 bodies incl. Ground, distinct by '
                       '(vector of (mobilizer type, reversed), massless flag)')
    ctx.assumptions += ['theorems over R; float runs only validate the model against the code',
                        'Properties_C14.v is about the free-body recursion; the implementation\'s main route (P+ A+ + z+ from the articulated-body pass) is modelled on the C02 '
                        'forward-dynamics model (no constraints, no prescribed motion there) and proved equal to the free-body route for every tree in Properties_C14b.v under '
                        'non-zero elimination pivots of each D block; with constraints / prescribed motion it is tied only by the correspondence run and the implementation-side predicates',
                        'per-body inputs (A_GB, V_GB, mass properties, applied body forces, constraint body forces from the multipliers, frame offsets) are the values '
                        'the implementation reports; that A_GB solves the equations of motion is C02/C08, not C14']
    # the property's own predicate on the implementation alone is cheap: run it always (it is the only tie of the P+ A+ + z+ route besides the correspondence)
    if d:
        witness(ctx, d)
        for key, entries in getattr(ctx, 'routed', {}).items():
            x = entries[0]
            ctx.report(key, 'model and implementation differ at a RBNodeLoneParticle body / Ground: system %d (seed %d) tag %s[%d]: impl=%s model=%s (%d such disagreements)' %
                       (x['system'], x['seed'], x['tag'], x['index'], x['impl'], x['model'], len(entries)), {'first_disagreement': x})
    C15.search(ctx, 'C14', d, 400 if ctx.tier == 'quick' else 6000, 12, keymap={LONE_KEY: LONE_KEY})
    ctx.finish()
