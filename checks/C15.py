"""C15 System mass, momentum and composite inertias equal per-body sums (DESIGN 5 C15).
Model: coq/C15/C15_Model.v (hand-written): the calcSystem* calculators of SimbodyMatterSubsystem.cpp, calcKineticEnergy and
the composite-body-inertia inward recursion in the code's compact (mass, com, unit inertia) form.  Theorems for every list
of bodies / every tree: coq/C15/C15_Proofs.v, C15_CBI.v.
Tie: correspondence on random simbody trees (17 mobilizer types, forward/reversed, quaternion/Euler, massless intermediate
bodies, all-massless systems): harness/C15_probe.cpp prints the per-body data the implementation reports and its aggregate
results; ocaml/C15_drv.ml recomputes every result with the extracted model from the per-body data only."""
import os, collections
from vlib import *

PROPS = ['Props/Properties_C15.v']
INDEXED = ('CBI', 'CBIC', 'BTMP', 'BMOM')
EXTRACT = '''From Coq Require Import Extraction ExtrOcamlBasic.
Require Import Num Vec Tree C15_Model.
Extraction Language OCaml.
Extraction "c15model.ml" calcSystemMass calcSystemMassCenterLocationInGround calcSystemMassCenterVelocityInGround
  calcSystemMassCenterAccelerationInGround sysMassPropsInertia calcSystemCentralInertiaInGround
  calcSystemMomentumAboutGroundOrigin calcSystemCentralMomentum calcKineticEnergy out_cbi out_cbiG mkBody mkCbx
  mkBodyB mkCbxB toG transformedMassPropsB bodyCentralMomentumB.
'''

def build(ctx, pid, model_vo, extract_text, mlname, drv_src, probe_src):
    """extract the model, build the OCaml driver and the C++ probe; returns the build dir or None"""
    d = ctx.bdir('corr'); os.makedirs(d, exist_ok=True)
    ok, built, log = ctx.coq_make([model_vo])
    if not ok:
        ctx.broken.append(('model:' + model_vo, first_error(log))); return None
    if not ctx.extract(extract_text, d):
        ctx.broken.append(('correspondence:' + pid, 'extraction failed')); return None
    drv = 'open %s\n' % mlname.capitalize() + open(os.path.join(VERIF, 'ocaml', 'fops.inc')).read() + '\n' + open(os.path.join(VERIF, 'ocaml', drv_src)).read()
    open(os.path.join(d, 'drv.ml'), 'w').write(drv)
    if not ctx.ocaml(d, [mlname + '.mli', mlname + '.ml', 'drv.ml'], 'drv'):
        ctx.broken.append(('correspondence:' + pid, 'ocaml driver build failed')); return None
    if not ctx.cxx(os.path.join(VERIF, 'harness', probe_src), os.path.join(d, 'probe')):
        ctx.broken.append(('correspondence:' + pid, 'C++ probe does not compile against current source')); return None
    return d

def parse(out, indexed):
    systems = []; cur = None
    for line in out.split('\n'):
        t = line.split()
        if not t: continue
        if t[0] == 'SYS': cur = {'inputs': [line], 'outs': collections.OrderedDict(), 'types': [], 'nb': int(t[1]), 'mode': int(t[2]), 'flag': int(t[3]), 'massless': 0, 'lone': []}
        elif t[0] == 'END':
            if cur is not None: systems.append(cur); cur = None
        elif t[0] == 'SKIP': systems.append(None)
        elif cur is None: continue
        elif t[0] == 'OUT':
            if t[1] in indexed: cur['outs'][(t[1], int(t[2]))] = parse_floats(' '.join(t[3:]))
            else: cur['outs'][(t[1], 0)] = parse_floats(' '.join(t[2:]))
        else:
            cur['inputs'].append(line)
            if t[0] == 'BODY':
                cur['types'].append((t[3], int(t[4])))
                if t[3].startswith('Lone'): cur['lone'].append(int(t[1]))
                if t[1] != '0' and float.fromhex(t[8]) == 0.0: cur['massless'] += 1
    return systems

def compare(ctx, pid, d, mode, nsys, maxb, indexed, rtol, atol, seed_offset=0, skip=None, route=None, drv_args=()):
    """run probe and model driver on the same systems, compare every OUT line; returns (n, disagreements, stats)"""
    seed = ctx.seed + seed_offset
    rc1, o1, e1 = sh([os.path.join(d, 'probe'), mode, str(seed), str(nsys), str(maxb)], timeout=1800)
    if rc1 != 0:
        ctx.broken.append(('correspondence:' + pid, 'probe failed rc=%d %s' % (rc1, e1[-400:]))); return 0, [], {}
    rc2, o2, e2 = sh([os.path.join(d, 'drv')] + list(drv_args), input=o1, timeout=1800)
    if rc2 != 0:
        ctx.broken.append(('correspondence:' + pid, 'model driver failed rc=%d %s' % (rc2, e2[-400:]))); return 0, [], {}
    P1 = parse(o1, indexed); skipped = sum(1 for s in P1 if s is None)
    S1 = [s for s in P1 if s is not None]; S2 = [s for s in parse(o2, indexed) if s is not None]
    if len(S1) != len(S2) or not S1:
        ctx.broken.append(('correspondence:' + pid, 'system count mismatch %d vs %d' % (len(S1), len(S2)))); return 0, [], {}
    dis = []; ncmp = collections.Counter(); typehist = collections.Counter(); modehist = collections.Counter(); distinct = set(); nontriv = 0; nmassless = 0; flaghist = collections.Counter(); nskip = collections.Counter(); routed = {}
    for k, (a, b) in enumerate(zip(S1, S2)):
        for ty in a['types']: typehist['%s%s' % (ty[0], '(rev)' if ty[1] else '')] += 1
        modehist[a['mode']] += 1; nmassless += a['massless']; flaghist[a['flag']] += 1
        sig = (tuple(a['types']), a['mode'])
        if a['nb'] >= 3 and sig not in distinct: nontriv += 1
        distinct.add(sig)
        # scale per system: the largest magnitude among the compared outputs of the same tag family
        for key, va in a['outs'].items():
            vb = b['outs'].get(key)
            if skip and skip(a, key): nskip[key[0]] += 1; continue
            ncmp[key[0]] += 1
            sc = max([1.0] + [abs(x) for x in va if x == x and abs(x) != float('inf')])
            if vb is None or len(vb) != len(va) or not all(close(x, y, rtol, atol, sc) for x, y in zip(va, vb)):
                entry = {'system': k, 'seed': seed, 'tag': key[0], 'index': key[1], 'impl': va, 'model': vb, 'inputs': a['inputs']}
                rk = route(a, key) if route else None
                if rk: routed.setdefault(rk, []).append(entry)
                else: dis.append(entry)
        for key in b['outs']:
            if key not in a['outs']:
                dis.append({'system': k, 'seed': seed, 'tag': key[0], 'index': key[1], 'impl': None, 'model': b['outs'][key], 'inputs': a['inputs']})
    stats = {'systems': len(S1), 'skipped_by_generator': skipped, 'compared_per_tag': dict(ncmp), 'not_compared_outside_theorem_domain': dict(nskip), 'mobilizer_histogram': dict(typehist),
             'mass_mode_histogram': {str(k): v for k, v in modehist.items()}, 'massless_bodies': nmassless, 'flag_histogram': {str(k): v for k, v in sorted(flaghist.items())},
             'distinct_type_vectors': len(distinct), 'rtol': rtol, 'atol': atol, 'max_bodies': maxb,
             'disagreements_routed_to_known_findings': {k: len(v) for k, v in routed.items()}}
    ctx.routed = routed
    first = S1[0]
    sample = {'bodies': [l[:160] for l in first['inputs'] if l.startswith('BODY')][:2],
              'impl': {('%s' % k[0]): v for k, v in list(first['outs'].items())[:3]}, 'model': {('%s' % k[0]): v for k, v in list(S2[0]['outs'].items())[:3]}}
    ctx.add_cases(len(S1), nontriv, [sample])
    return len(S1), dis, stats

def search(ctx, pid, d, n, maxb, keymap=None):
    exe = os.path.join(d, 'probe') if d else ctx.bdir('probe_search')
    if not d and not ctx.cxx(os.path.join(VERIF, 'harness', '%s_probe.cpp' % pid), exe):
        ctx.broken.append(('search:' + pid, 'search harness does not compile')); return
    rc, out, err = sh([exe, 'search', str(ctx.seed + 7), str(n), str(maxb)], timeout=1800)
    fails = [l for l in out.split('\n') if l.startswith('FAIL ' + pid)]
    done = [l for l in out.split('\n') if l.startswith('DONE')]
    ctx.extra['search'] = {'systems': n, 'predicate_evaluations': int(done[0].split()[1]) if done else 0, 'failures': len(fails)}
    if rc != 0 and not done:
        ctx.broken.append(('search:' + pid, 'search harness failed rc=%d %s' % (rc, err[-300:])))
    seen = set()
    for f in fails:
        name = f.split()[2]
        if name in seen: continue
        seen.add(name)
        key = (keymap or {}).get(name, 'impl:' + name)
        ctx.report(key, 'implementation violates %s predicate: %s' % (pid, f),
                   {'replay_cmd': '%s search %d %d %d' % (exe, ctx.seed + 7, n, maxb), 'failing_input': f})
    ctx.extra['search']['failing_predicates'] = sorted(seen)

def witness(ctx, d):
    """replay of the floating-point defect outside the theorems' domain: a chain of two massless welded frames on a massive body"""
    rc, out, err = sh([os.path.join(d, 'probe'), 'witness'], timeout=300)
    w = [l for l in out.split('\n') if l.startswith('WITNESS cbi-nan-massless-chain')]
    ctx.extra['witness_cbi_nan_massless_chain'] = w[0] if w else 'witness did not run: rc=%d %s' % (rc, err[-200:])
    if not w:
        ctx.broken.append(('witness:C15', 'witness did not run')); return False
    if ' nan=0 ' in w[0]: return True
    if ' nan=1 ' in w[0]:
        ctx.report('cbi-nan-massless-chain',
                   'calcCompositeBodyInertias: Ground-Pin->B1(mass 2)-Weld->B2(massless)-Weld->B3(massless) gives a NaN composite inertia for B1 '
                   '(SpatialInertia::operator+= divides by the combined mass 0+0 of B2 and B3); the sum over the subtree is the inertia of B1: ' + w[0],
                   {'replay_cmd': '%s witness' % os.path.join(d, 'probe'), 'failing_input': w[0]})
    return False

def run(ctx):
    ctx.build_repo()
    ctx.coq_props(PROPS)
    d = build(ctx, 'C15', 'C15/C15_Model.vo', EXTRACT, 'c15model', 'C15_drv.ml', 'C15_probe.cpp')
    if d:
        nsys, maxb = (1000, 10) if ctx.tier == 'quick' else (8000, 14)
        # which composite-inertia recursion does the code under test run?  The witness (chain of two massless welded frames) decides:
        #  NaN  -> the current code: faithful model [cbi]; compared on its theorem's domain (every subtree has non-zero mass), i.e. not in
        #          the all-massless systems (mode 2) where the code divides 0/0 (known finding cbi-nan-massless-chain, reported by witness())
        #  finite -> the code carries the repair of patches/C15_cbi_massless_chain.diff: model [cbiG] (theorem cbiG_is_direct_sum), all systems
        repaired = witness(ctx, d)
        ctx.extra['composite_inertia_model'] = 'cbiG (zero-mass child composites skipped)' if repaired else 'cbi (current code)'
        n, dis, stats = compare(ctx, 'C15', d, 'corr', nsys, maxb, INDEXED, 1e-9, 1e-11,
                                skip=None if repaired else (lambda sysm, key: key[0] in ('CBI', 'CBIC') and sysm['mode'] == 2),
                                drv_args=['guarded'] if repaired else [])
        ctx.extra['correspondence'] = stats
        if dis:
            x = dis[0]
            ctx.broken.append(('correspondence:C15:' + x['tag'], 'model and implementation differ on system %d (seed %d) tag %s[%d]: impl=%s model=%s (%d disagreements)' %
                               (x['system'], x['seed'], x['tag'], x['index'], x['impl'], x['model'], len(dis))))
            ctx.extra['first_disagreement'] = x
    ctx.cov['rule'] = ('random simbody trees (1..N bodies; chain/star/random branching; 17 mobilizer types x forward/reversed; quaternion or Euler; gravity; '
                       'mass modes: all massive / some non-terminal bodies massless / all massless welded); compared with the extracted model (rel tol 1e-9 of the '
                       'largest component): calcSystemMass, MassCenterLocation/Velocity/Acceleration, calcSystemMassPropertiesInGround, CentralInertia, '
                       'MomentumAboutGroundOrigin, CentralMomentum, calcKineticEnergy, calcCompositeBodyInertias and getCompositeBodyInertia for every body, and per body '
                       'MassProperties::calcTransformedMassProps(~X_GB) and calcBodyMomentumAboutBodyMassCenterInGround; '
                       'non-trivial = at least 3 bodies incl. Ground, distinct by (vector of (mobilizer type, reversed), mass mode)')
    ctx.assumptions += ['theorems over R; float runs only validate the model against the code',
                        'per-body inputs (X_GB, V_GB, A_GB, mass, mass centre and unit inertia in B) are the raw values the implementation reports; the model '
                        're-expresses them in Ground itself (toG); that this equals the code\'s shift-in-B-then-re-express order is proved for orthonormal R_GB, '
                        'orthonormality of simbody\'s Rotation being C27\'s subject',
                        'composite inertia theorems need every partial combined mass non-zero (holds when no mass is negative and no terminal body is massless); '
                        'aggregate theorems that divide need total mass non-zero']
    if ctx.broken or ctx.tier == 'thorough':
        search(ctx, 'C15', d, 600 if ctx.tier == 'quick' else 6000, 12)
    ctx.finish()
