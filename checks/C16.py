"""C16 Realization results depend only on current state values (DESIGN 5 C16).
Theorems: coq/Props/Properties_C16.v -- history_independence / cached_values_fresh for EVERY history over the staged cache
machine of coq/C16/C16_Model.v under the decidable soundness condition of its dependency table; table_soundness of the
table scanned from the source on every run (translate/C16_table.py -> coq/Gen/C16_table_gen.v) by vm_compute; the old
MobilityLinearSpring entry refuted with the witness [setQ; realize Dynamics; setStiffness; realize Dynamics].
Tie: (1) the per-class facts of the table are regenerated from the source text every run; (2) correspondence: random
histories (<= 30 operations, 10 small systems = C16_Systems.models, printed by the extracted driver and built identically by
harness/C16_hist.cpp) are run on the real System and on the extracted model; after EVERY operation the discrete cache status
(system stage; validity of position/velocity kinematics, composite/articulated inertias, articulated velocities;
Force::Gravity cache validity and evaluation count; call counters of position-only and velocity-dependent Custom elements)
is compared exactly; at CMP operations everything computed from the State is compared with a freshly created State given
the same values (the model predicts "nothing stale" -- implementation must equal the fresh state).  Three regression
witnesses are replayed first and must pass: MobilityLinearSpring setStiffness (1efa2aab), zdot of a disabled LinearBushing
(c50039ce), constraint multipliers with every mobility prescribed (1ce33455)."""
import os, re, json, hashlib
from vlib import *

PROPS = ['Props/Properties_C16.v']
EXTRACT = '''From Coq Require Import Extraction ExtrOcamlBasic.
Require Import C16_Model C16_Systems C16_table_gen.
Extraction "c16.ml" build build_z run step init slot stale_results wf_table sound unsound_pairs nvars nres models code_now code_old witness
  v_lock v_cons v_en v_par v_gexcl v_gmag v_gdir v_gzh r_elem r_grav r_total r_accel cls m0.
'''
# which discrete variable of the element a parameter setter j writes (per class)
DV = {3: {0: 0, 1: 0}, 4: {0: 0}, 5: {0: 0}, 6: {0: 0, 1: 0}, 7: {0: 0}, 8: {0: 0, 1: 1}, 13: {0: 0, 1: 0}}
WITNESS = [('Q', 0, 1), ('R', 7), ('CMP',), ('P', 0, 0, 2), ('R', 7), ('CMP',)]
# witness of C16_zdot_of_disabled_element_refuted on system 5 (LinearBushing is element 0 there)
ZWITNESS = [('U', 0, 1), ('R', 8), ('E', 0, 0), ('R', 8), ('CMP',)]
ZKEY = 'disabled-force-element-stale-zdot'
MKEY = 'multipliers-unwritten-when-all-mobilities-prescribed'

def scan_table(ctx):
    """regenerate coq/Gen/C16_table_gen.v from the tree under test (written only if changed, so unchanged trees do not re-prove)"""
    rc, out, err = sh([sys.executable, os.path.join(VERIF, 'translate', 'C16_table.py')], timeout=300)
    meta = json.load(open(os.path.join(COQ, 'Gen', 'C16_table.json')))
    ctx.trusted.add('table scanner translate/C16_table.py (textual scan of ForceImpl.h, Force.cpp, Force_Gravity.cpp, Force_LinearBushing.cpp, '
                    'GeneralForceSubsystem.cpp, SimbodyMatterSubsystemRep.cpp, StateImpl.h; %d element classes regenerated from %s)' % (len(meta['classes']), meta['source']))
    for name, why in meta['failed']:
        ctx.broken.append(('table-scan:' + name, why))
    if rc not in (0, 3): ctx.fatal('table scanner crashed: ' + err[-1500:])
    ctx.log('table scanned: %d classes, %d failures' % (len(meta['classes']), len(meta['failed'])))
    return meta

def build(ctx):
    ex = ctx.bdir('ex')
    if not ctx.extract(EXTRACT, ex): return None
    sh('cp %s %s' % (os.path.join(VERIF, 'ocaml', 'C16_drv.ml'), ex))
    if not ctx.ocaml(ex, ['c16.mli', 'c16.ml', 'C16_drv.ml'], 'drv'): return None
    exe = ctx.bdir('C16_hist')
    if not ctx.cxx(os.path.join(VERIF, 'harness', 'C16_hist.cpp'), exe): return None
    return exe, os.path.join(ex, 'drv')

def parse_layout(drv):
    rc, out, err = sh([drv, 'layout'], timeout=120)
    L = []
    ints = lambda s: [int(x) for x in s.split(',') if x != '']
    for line in out.split('\n'):
        if not line.startswith('idx='): continue
        d = dict(kv.split('=', 1) for kv in line.split())
        L.append(dict(idx=int(d['idx']), nb=int(d['nb']), grav=int(d['grav']), nlock=int(d['nlock']), ncons=int(d['ncons']), elems=ints(d['elems']),
                      nvars=int(d['nvars']), nres=int(d['nres']), v_lock=ints(d['v_lock']), v_cons=ints(d['v_cons']), v_en=ints(d['v_en']),
                      v_par=[ints(x) for x in d['v_par'].split(';')], v_gexcl=ints(d['v_gexcl']), v_gmag=int(d['v_gmag']), v_gdir=int(d['v_gdir']),
                      v_gzh=int(d['v_gzh']), r_grav=int(d['r_grav']), r_total=int(d['r_total']), r_accel=int(d['r_accel']),
                      wf=d['wf'] == 'true', sound=d['sound'] == 'true', unsound=d.get('unsound', '')))
    return L

def sys_line(m):
    return 'SYS %d %d %d %d %d %d %s\n' % (m['idx'], m['nb'], m['grav'], m['nlock'], m['ncons'], len(m['elems']), ' '.join(map(str, m['elems'])))

# ---------------------------------------------------------------- C++-level operation -> model operations
class Tr:
    """translates one history's C++-level operations into model operations; tracks what the translation needs (lock levels)"""
    def __init__(self, m):
        self.m = m; self.lock = {}; self.fresh = 10
    def nid(self):
        self.fresh += 1; return self.fresh
    def ops(self, o):
        m = self.m; k = o[0]; V = lambda v, x: 'v %d %d' % (v, x)
        if k == 'T': return [V(1, self.nid())]
        if k == 'Q': return [V(2, self.nid())]
        if k == 'U': return [V(3, self.nid())]
        if k == 'Z': return [V(4, self.nid())] if 13 in m['elems'] else []
        if k == 'P':
            e, j = o[1], o[2]; return [V(m['v_par'][e][DV[m['elems'][e]][j]], self.nid())]
        if k == 'E': return [V(m['v_en'][o[1]], o[2])]
        if k == 'C': return [V(m['v_cons'][o[1]], o[2])]
        if k in ('LA', 'LK'):
            i, lev = o[1], o[2]; self.lock[i] = lev
            r = [V(m['v_lock'][i - 1], self.nid())]
            if lev == 2: r.append(V(3, self.nid()))
            if lev == 2 and k == 'LA': r.append(V(2, self.nid()))
            return r
        if k == 'UL':
            self.lock.pop(o[1], None); return [V(m['v_lock'][o[1] - 1], 0)]
        if k == 'O': return [V(0, o[1])]
        if k == 'GX': return [V(m['v_gexcl'][o[1] - 1], o[2])]
        if k == 'GM': return [V(m['v_gmag'], o[1])]
        if k == 'GD': return [V(m['v_gdir'], o[1] % 4)]
        if k == 'GZ': return [V(m['v_gzh'], o[1])]
        if k == 'R': return ['r %d' % o[1]]
        if k == 'X': return ['q %d' % (o[1] if o[1] < 5 else m['r_grav'])] if (o[1] < 5 or m['grav']) else []
        if k == 'PR':
            r = ['r 4']
            if any(l == 2 for l in self.lock.values()): r.append(V(2, self.nid()))
            r.append('r 5')
            if any(l in (1, 2) for l in self.lock.values()): r.append(V(3, self.nid()))
            return r
        if k == 'CMP': return ['q %d' % m['r_grav']] if m['grav'] else []
        if k == 'CP': return ['c']
        raise ValueError(o)

def texts(m, hists):
    """(harness input, model input) for a list of (id, ops) histories on system m"""
    a = [sys_line(m)]; b = ['M %d\n' % m['idx']]
    for hid, ops in hists:
        a.append('H %s\n' % hid); b.append('H %s\n' % hid); tr = Tr(m)
        for o in ops:
            a.append(' '.join(map(str, o)) + '\n')
            b.append(''.join(x + '\n' for x in tr.ops(o)) + '.\n')
        a.append('END\n'); b.append('END\n')
    return ''.join(a), ''.join(b)

# ---------------------------------------------------------------- generator
def gen_history(rng, m, maxops=30, cmp_every=False):
    ops = []; ne = len(m['elems']); par = [e for e in range(ne) if m['elems'][e] in DV]
    def modification():
        c = []
        c += [('T', rng.randrange(8))] * 2 + [('Q', rng.randrange(8), rng.randrange(8))] * 3 + [('U', rng.randrange(8), rng.randrange(8))] * 3
        if 13 in m['elems']: c += [('Z', 0, rng.randrange(8))] * 2
        for e in par:
            cl = m['elems'][e]; c += [('P', e, rng.choice(sorted(DV[cl])), rng.randrange(1, 8))] * 3
        if ne: c += [('E', rng.randrange(ne), rng.randrange(2))] * 2
        if m['ncons']: c += [('C', rng.randrange(m['ncons']), rng.randrange(2))] * 2
        if m['nlock']:
            i = rng.randrange(1, m['nlock'] + 1)
            c += [('LA', i, rng.randrange(3), rng.randrange(6)), ('LK', i, rng.randrange(3)), ('UL', i), ('PR',), ('PR',)]
        if m['nb'] >= 2: c += [('O', rng.randrange(2))]
        if m['grav']:
            c += [('GX', rng.randrange(1, m['nb'] + 1), rng.randrange(2))] * 2 + [('GM', rng.choice([0, 0, 1, 2, 3]))] * 3 + [('GD', rng.randrange(4))] * 2 + [('GZ', rng.randrange(4))] * 3
        return rng.choice(c)
    n = rng.randrange(6, maxops + 1)
    while len(ops) < n - 2:
        r = rng.random()
        if r < 0.03: ops.append(('CP',))
        elif r < 0.30: ops.append(('R', rng.choice([3, 4, 5, 5, 6, 7, 7, 7, 8, 8])))
        elif r < 0.45: ops.append(('X', rng.randrange(6)))
        elif r < 0.55 or cmp_every: ops.append(('CMP',));
        if r >= 0.45 or cmp_every: ops.append(modification())
    ops = ops[:n - 2]
    ops += [('R', rng.choice([5, 6, 7, 7, 8, 8, 8])), ('CMP',)]
    return ops

def directed(rng, m, var):
    """histories aimed at a (result, variable) pair the model calls unsound: compute, change the variable, recompute, compare"""
    op = None
    for e, vs in enumerate(m['v_par']):
        if var in vs:
            cl = m['elems'][e]; op = ('P', e, [j for j, d in DV[cl].items() if d == vs.index(var)][0], rng.randrange(1, 8))
    if var in m['v_gexcl'] and m['grav']: op = ('GX', m['v_gexcl'].index(var) + 1, 1)
    if var == m['v_gmag'] and m['grav']: op = ('GM', rng.choice([2, 3]))
    if var == m['v_gdir'] and m['grav']: op = ('GD', rng.randrange(1, 4))
    if var == m['v_gzh'] and m['grav']: op = ('GZ', rng.randrange(1, 4))
    if var in m['v_en']: op = ('E', m['v_en'].index(var), 0)
    if var in m['v_lock']: op = ('LK', m['v_lock'].index(var) + 1, rng.randrange(3))
    if var in m['v_cons']: op = ('C', m['v_cons'].index(var), 0)
    if var == 1: op = ('T', 5)
    if var == 2: op = ('Q', rng.randrange(4), 5)
    if var == 3: op = ('U', rng.randrange(4), 5)
    if var == 4: op = ('Z', 0, 5)
    if var == 0: op = ('O', 1)
    if op is None: return None
    pre = [('Q', rng.randrange(4), rng.randrange(8)), ('U', rng.randrange(4), rng.randrange(8))]
    return pre + [('R', rng.choice([5, 7, 8])), ('X', rng.randrange(6)), ('CMP',), op, ('R', rng.choice([5, 7, 8])), ('CMP',), ('R', 8), ('CMP',)]

# ---------------------------------------------------------------- running and comparing
def split_blocks(out):
    """{history id: [lines]} from harness or driver output"""
    B = {}; cur = None
    for l in out.split('\n'):
        if l.startswith('H '): cur = l[2:].strip(); B[cur] = []
        elif l.startswith('END'): cur = None
        elif cur is not None and l: B[cur].append(l)
    return B

def run_both(exe, drv, m, hists, old=False, env=None):
    a, b = texts(m, hists)
    r1, o1, e1 = sh([exe], input=a, timeout=1800, env=env)
    r2, o2, e2 = sh([drv, 'run'] + (['old'] if old else []), input=b, timeout=1800)
    return r1, split_blocks(o1), r2, split_blocks(o2), e1

def judge(m, ops, A, M):
    """compare the harness lines A and model lines M of one history; returns (n status lines compared, n CMP, first problem or None, stats)"""
    sa = [l for l in A if l.startswith('S ')]; sm = [l for l in M if l.startswith('S ')]
    st = [l for l in M if l.startswith('ST')]
    cmps = [l for l in A if l.startswith('CMP')]; thr = [l for l in A if l.startswith('THROW') or l.startswith('BADOP')]
    stats = {'cmp_values': 0, 'cmp_bitwise': 0, 'zdot_known': 0}
    if thr: return len(sa), len(cmps), ('harness: ' + thr[0], 'throw'), stats
    if len(sa) != len(ops) or len(sm) != len(ops):
        return len(sa), len(cmps), ('status line count: harness %d model %d ops %d' % (len(sa), len(sm), len(ops)), 'status'), stats
    prob = None
    # is some force element that owns a z-derivative (class 13) disabled when the k-th CMP is executed?
    zdis = []; dis = set()
    for o in ops:
        if o[0] == 'E' and m['elems'][o[1]] == 13: (dis.discard if o[2] else dis.add)(o[1])
        if o[0] == 'CMP': zdis.append(bool(dis))
    stats['zdot_known'] = 0
    for i in range(len(ops)):
        if sa[i] != sm[i] and prob is None:
            prob = ('after op %d %s: implementation "%s" model "%s"' % (i, ' '.join(map(str, ops[i])), sa[i], sm[i]), 'status')
    for l in st:
        if l.strip() != 'ST' and prob is None: prob = ('model predicts stale results (table unsound): ' + l, 'model-stale')
    for k, l in enumerate(cmps):
        mm = re.match(r'CMP stage=(\d+) n=(\d+) bitwise=(\d+) ndiff=(\d+) maxrel=(\S+) names=(\S+) first=(\S+) ', l)
        stats['cmp_values'] += int(mm.group(2)); stats['cmp_bitwise'] += int(mm.group(3))
        if int(mm.group(4)) > 0:
            if mm.group(6) == 'zdot' and k < len(zdis) and zdis[k]:
                stats['zdot_known'] += 1; stats['zdot_line'] = l      # z-derivative of a disabled element (C16_zdot_of_disabled_element_refuted_old_table; fixed by c50039ce)
            if prob is None or prob[1] != 'impl-stale':
                prob = ('implementation differs from a fresh State with the same values: ' + l, 'impl-stale')
    return len(sa), len(cmps), prob, stats

def shrink(exe, drv, m, ops, kind):
    def bad(o):
        r1, A, r2, M, _ = run_both(exe, drv, m, [('x', o)])
        if 'x' not in A or 'x' not in M: return r1 != 0
        p = judge(m, o, A['x'], M['x'])[2]
        return p is not None and p[1] == kind
    i = 0
    while i < len(ops) and len(ops) > 1:
        c = ops[:i] + ops[i + 1:]
        if bad(c): ops = c
        else: i += 1
    return ops

def fmt(ops): return ' ; '.join(' '.join(map(str, o)) for o in ops)

def witness(ctx, exe, drv, L):
    """the regression witness of DESIGN 7.3: the old table predicts stale, the current table fresh, the implementation must be fresh"""
    m = L[0]
    r1, A, r2, M, _ = run_both(exe, drv, m, [('w', WITNESS)])
    r3, A2, r4, Mold, _ = run_both(exe, drv, m, [('w', WITNESS)], old=True)
    n, nc, prob, st = judge(m, WITNESS, A.get('w', []), M.get('w', []))
    old_stale = [l for l in Mold.get('w', []) if l.startswith('ST') and l.strip() != 'ST']
    cm = [l for l in A.get('w', []) if l.startswith('CMP')]
    ctx.extra['regression_witness'] = {'history': fmt(WITNESS), 'implementation': cm[-1] if cm else '<none>', 'model_now_problem': prob[0] if prob else None,
                                       'model_old_table_stale_lines': old_stale[-1:] }
    if not old_stale:
        ctx.broken.append(('witness:old-table', 'the model with the pre-fix MobilityLinearSpring entry no longer predicts a stale force on the witness history'))
    if prob:
        if prob[1] == 'impl-stale':
            ctx.report('impl:mobilitylinearspring-stale-after-setStiffness', 'regression: ' + prob[0],
                       {'failing_input': fmt(WITNESS), 'system': sys_line(m).strip(), 'replay_cmd': 'bin/check C16 --replay <this file>'})
        ctx.broken.append(('witness:now', prob[0]))
    # the z-derivative witness (regression, fixed in /repo by c50039ce): must agree with the fresh State
    mz = [x for x in L if 13 in x['elems']]
    if mz:
        mz = mz[0]; zw = [('U', 0, 1), ('R', 8), ('E', mz['elems'].index(13), 0), ('R', 8), ('CMP',)]
        r1, A, r2, M, _ = run_both(exe, drv, mz, [('z', zw)])
        n2, nc2, prob2, st2 = judge(mz, zw, A.get('z', []), M.get('z', []))
        ctx.extra['zdot_witness'] = {'history': fmt(zw), 'system': sys_line(mz).strip(), 'reproduces': bool(st2['zdot_known']),
                                     'implementation': ([l for l in A.get('z', []) if l.startswith('CMP')] or ['<none>'])[-1]}
        if st2['zdot_known']:
            ctx.report('impl:' + ZKEY, 'regression: zdot of a disabled LinearBushing keeps the value computed while it was enabled: ' + st2['zdot_line'],
                       {'failing_input': fmt(zw), 'system': sys_line(mz).strip(), 'theorem': 'C16_zdot_of_disabled_element_refuted_old_table'})
        if prob2: ctx.broken.append(('witness:zdot', prob2[0]))
    # multipliers with every mobility prescribed and a constraint enabled (regression, fixed in /repo by 1ce33455): FactorQTZ::solve of
    # the zero matrix left them unwritten; they must be exactly 0
    mm_ = [x for x in L if x['ncons'] and x['nlock'] == x['nb']]
    if mm_:
        mm_ = mm_[0]
        mw = [('LA', i, 1, i) for i in range(1, mm_['nb'] + 1)] + [('R', 8), ('CMP',)]
        # glibc's MALLOC_PERTURB_ fills every malloc'ed block with a fixed byte pattern: unwritten results become visible deterministically
        r1, A, r2, M, _ = run_both(exe, drv, mm_, [('m', mw)], env={'MALLOC_PERTURB_': '165'})
        n3, nc3, prob3, st3 = judge(mm_, mw, A.get('m', []), M.get('m', []))
        cm = ([l for l in A.get('m', []) if l.startswith('CMP')] or ['<none>'])[-1]
        g = re.search(r'mulgarbage=(\S+)', cm); g = float(g.group(1)) if g else 0.0
        ctx.extra['multipliers_witness'] = {'history': fmt(mw), 'system': sys_line(mm_).strip(), 'max_abs_multiplier': g, 'reproduces': g != 0.0}
        if g != 0.0:
            ctx.broken.append(('witness:multipliers', 'getMultipliers() with all mobilities prescribed is not 0: %r' % g))
            ctx.report('impl:' + MKEY, 'regression: all mobilities locked, Rod constraint enabled: getMultipliers() returns unwritten memory (|lambda| = %r; the rank-0 least-squares solution is 0)' % g,
                       {'failing_input': fmt(mw), 'system': sys_line(mm_).strip()})
        if prob3: ctx.broken.append(('witness:multipliers', prob3[0]))
    return n, nc

def correspondence(ctx, exe, drv, L, nper, maxops=30, cmp_every=False, tag='h'):
    tot = {'status': 0, 'cmp': 0, 'cmp_values': 0, 'cmp_bitwise': 0, 'histories': 0, 'ops': {}, 'nontrivial': 0, 'zdot_known': 0}
    first = None
    for m in L:
        hists = []
        cdir = os.path.join(VERIF, 'corpus', 'C16')
        if os.path.isdir(cdir):
            for f in sorted(os.listdir(cdir)):
                obj = json.load(open(os.path.join(cdir, f)))
                if obj['system'] == m['idx']: hists.append(('c_' + f, [tuple(o) for o in obj['ops']]))
        for i in range(nper):
            hists.append(('%s%d_%d' % (tag, m['idx'], i), gen_history(ctx.rng, m, maxops, cmp_every)))
        r1, A, r2, M, e1 = run_both(exe, drv, m, hists)
        for hid, ops in hists:
            tot['histories'] += 1
            for o in ops: tot['ops'][o[0]] = tot['ops'].get(o[0], 0) + 1
            if hid not in A or hid not in M:
                if first is None: first = (m, ops, ('history missing from output (harness rc=%d, driver rc=%d) %s' % (r1, r2, e1[-300:]), 'crash'))
                continue
            n, nc, prob, st = judge(m, ops, A[hid], M[hid])
            tot['status'] += n; tot['cmp'] += nc; tot['cmp_values'] += st['cmp_values']; tot['cmp_bitwise'] += st['cmp_bitwise']; tot['zdot_known'] += st['zdot_known']
            # non-trivial: some cached value was reused across a modification (a Custom position-only counter stayed behind the velocity-dependent one)
            last = [l for l in A[hid] if l.startswith('S ')][-1].split()
            if len(last) >= 6 and len(set(last[5:])) > 1 or (m['grav'] and int(last[4]) >= 2): tot['nontrivial'] += 1
            if prob and first is None: first = (m, ops, prob)
    return tot, first

def search(ctx, exe, drv, L, n):
    """failing-input search on the implementation: the property's own predicate (history state vs fresh state, CMP after every
    modification), random histories plus histories aimed at the (result, variable) pairs the scanned table calls unsound"""
    found = None; nh = 0
    for m in L:
        hists = []
        for pair in [p for p in m['unsound'].split(';') if p]:
            r, v = map(int, pair.split(':'))
            for k in range(20):
                h = directed(ctx.rng, m, v)
                if h: hists.append(('d%d_%d_%d' % (m['idx'], v, k), h))
        for i in range(n): hists.append(('s%d_%d' % (m['idx'], i), gen_history(ctx.rng, m, 30, True)))
        r1, A, r2, M, e1 = run_both(exe, drv, m, hists)
        for hid, ops in hists:
            nh += 1
            bad = judge(m, ops, A.get(hid, []), M.get(hid, []))[2]
            bad = bad is not None and bad[1] == 'impl-stale'
            if bad and found is None:
                small = shrink(exe, drv, m, ops, 'impl-stale')
                r1, A2, r2, M2, _ = run_both(exe, drv, m, [('x', small)])
                found = (m, small, [l for l in A2.get('x', []) if l.startswith('CMP') and ' ndiff=0 ' not in l])
        if found: break
    ctx.extra['search'] = {'histories': nh, 'failures': 0 if found is None else 1}
    if found:
        m, small, lines = found
        ctx.report('impl:stale-result:' + hashlib.sha1(fmt(small).encode()).hexdigest()[:8],
                   'implementation: results after a history differ from a freshly created State given the same values: ' + (lines[0] if lines else ''),
                   {'failing_input': fmt(small), 'system': sys_line(m).strip(), 'replay_cmd': 'bin/check C16 --replay <this file>'})

def run(ctx):
    ctx.build_repo()
    meta = scan_table(ctx)
    ok = ctx.coq_props(PROPS)
    b = build(ctx)
    if b is None:
        ctx.broken.append(('correspondence:build', 'extraction / driver / harness does not build')); ctx.finish()
    exe, drv = b
    L = parse_layout(drv)
    if len(L) < 10: ctx.broken.append(('correspondence:layout', 'driver printed %d systems' % len(L)))
    for m in L:
        if not (m['wf'] and m['sound']):
            ctx.broken.append(('table:unsound:system%d' % m['idx'], 'scanned dependency table not sound for system %d: (result:variable) pairs %s' % (m['idx'], m['unsound'])))
    wn, wc = witness(ctx, exe, drv, L)
    nper = 100 if ctx.tier == 'quick' else 1000
    tot, first = correspondence(ctx, exe, drv, L, nper)
    ctx.add_cases(tot['status'] + wn, tot['nontrivial'], None)
    ctx.cov['rule'] = ('correspondence: %d histories (<= 30 operations; %d systems of C16_Systems.models; regression witness first) on the real System and on the '
                       'extracted model; evaluations = operations after which the discrete cache status (stage, 5 matter-cache validity flags, Gravity cache '
                       'validity and evaluation count, Custom-element call counters) was compared exactly; in addition %d CMP operations compared %d computed '
                       'values of the history State with a freshly created State given the same values (%d bitwise equal, the rest within 1e-11 relative); '
                       'non-trivial = histories in which a cached value survived a modification (call counters of position-only and velocity-dependent '
                       'Custom elements differ, or Gravity evaluated at least twice)' % (tot['histories'], len(L), tot['cmp'], tot['cmp_values'], tot['cmp_bitwise']))
    ctx.cov['samples'] = [fmt(gen_history(random.Random(ctx.seed), L[1], 12))] if len(L) > 1 else []
    ctx.extra['distribution'] = {'operations': tot['ops'], 'histories': tot['histories'], 'cmp_operations': tot['cmp'], 'values_compared_with_fresh_state': tot['cmp_values'],
                                 'bitwise_equal': tot['cmp_bitwise'], 'systems': [m['elems'] for m in L],
                                 'cmp_where_zdot_of_a_disabled_element_differed': tot['zdot_known']}
    ctx.extra['scanned_table'] = {k: meta[k] for k in ('classes', 'gravity', 'fsub', 'matter', 'state')}
    if first:
        m, ops, prob = first
        small = shrink(exe, drv, m, ops, prob[1]) if prob[1] != 'crash' else ops
        r1, A, r2, M, _ = run_both(exe, drv, m, [('x', small)])
        p2 = judge(m, small, A.get('x', []), M.get('x', []))[2] or prob
        ctx.broken.append(('correspondence:%s' % prob[1], 'system %d (%s): %s; shrunk history: %s' % (m['idx'], sys_line(m).strip(), p2[0], fmt(small))))
        if prob[1] == 'impl-stale':
            ctx.report('impl:stale-result:' + hashlib.sha1(fmt(small).encode()).hexdigest()[:8],
                       'implementation: results after a history differ from a freshly created State given the same values: ' + p2[0],
                       {'failing_input': fmt(small), 'system': sys_line(m).strip(), 'replay_cmd': 'bin/check C16 --replay <this file>'})
    ctx.assumptions += [
        'values are abstract in the model: a computed result is the list of values it read, i.e. every computation is assumed to be a function of the state '
        'quantities the table says it reads (for built-in force elements the reads are scanned from calcForce; a Custom element is assumed to honour its '
        'dependsOnlyOnPositions() declaration)',
        'the table lists the result classes named in DESIGN 5 C16 (kinematics caches, composite/articulated inertias, per-element force contributions, Gravity cache, '
        'force totals, accelerations); potential energy of non-caching elements is recomputed on every request and not in the model; contact, cable and '
        'thermostat elements, Motion objects and event witnesses are not in the model; State copy construction is (operation CP: the history continues on the copy), copy assignment into a used State is not',
        'Force::Gravity is never disabled in generated histories (a disabled Gravity is not evaluated at Dynamics, which the eager-by-Dynamics entry does not model)',
        'single-threaded force evaluation (setNumberOfThreads(1)); threading is C17',
        'comparison with the fresh State: bitwise for %d of %d values, the rest within 1e-11 relative (summation order only)' % (tot['cmp_bitwise'], tot['cmp_values'])]
    if ctx.broken or ctx.tier == 'thorough':
        search(ctx, exe, drv, L, 60 if ctx.tier == 'quick' else 400)
    ctx.finish()

def replay(ctx, path):
    obj = json.load(open(path)); ctx.build_repo(); scan_table(ctx); b = build(ctx); exe, drv = b; L = parse_layout(drv)
    ops = [tuple(int(x) if re.match(r'-?\d+$', x) else x for x in o.split()) for o in obj['failing_input'].split(' ; ')]
    idx = int(obj['system'].split()[1]); m = L[idx]
    a, bb = texts(m, [('replay', ops)])
    print('--- implementation'); print(sh([exe], input=a)[1])
    print('--- model'); print(sh([drv, 'run'], input=bb)[1])
