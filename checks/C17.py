"""C17 Force totals are independent of threading and scheduling (DESIGN 5 C17).
Theorems: coq/Props/Properties_C17.v -- for every thread count, element mix and interleaving of a round of the executor
(reusing the C33 ParallelExecutor protocol model: every completed round executes exactly the stripes, finish() calls are
mutually exclusive) the shared force arrays receive the same multiset of contributions, hence equal sums over R; no two
workers touch the same array concurrently (race freedom from the access table); refuted: the pre-fix table (task 0 wrote
the shared arrays during execute), and the non-parallel task driven by a multi-threaded executor (both fixed in /repo; regression witnesses).
Tie: (1) the access tables are regenerated from Simbody/src/GeneralForceSubsystem.cpp on every run
(translate/C17_access.py -> coq/Gen/C17_access_gen.v) and access_table_ok re-proved; (2) correspondence: random mixes of
parallel / non-parallel / position-only elements, thread counts 1..16, four Dynamics realizations each (cache-invalid and
cache-valid): the C++ totals are compared with the order-free sum of the per-element contributions over the multiset the
extracted model puts into the shared arrays (random valid interleavings), the calcForce calls of the Custom elements
(which elements, and whether they were handed the system's shared array) with the model's access table exactly;
(3) a schedule-controlled overlap probe (hooks of ParallelExecutor.cpp) replays the two refutation witnesses."""
import os, re, json, math
from vlib import *

PROPS = ['Props/Properties_C17.v']
EXTRACT = '''From Coq Require Import Extraction ExtrOcamlBasic.
Require Import C17_Model C17_access_gen.
Extraction "c17.ml" interp valid_round_b fstate0 ntasks target wf_task exec_local_only expected code_parallel code_nonparallel parallel_prefix
  code_nonparallel_forced_single code_set_threads_can_override.
'''
NKEY = 'nonparallel-task-run-by-multithreaded-executor'

def scan_table(ctx):
    rc, out, err = sh([sys.executable, os.path.join(VERIF, 'translate', 'C17_access.py')], timeout=300)
    meta = json.load(open(os.path.join(COQ, 'Gen', 'C17_access.json')))
    ctx.trusted.add('access-table scanner translate/C17_access.py (textual scan of CalcForcesParallelTask / CalcForcesNonParallelTask execute, finish, '
                    'initialize, realizeSubsystemTopologyImpl, setNumberOfThreads in %s)' % meta['source'])
    for name, why in meta['failed']: ctx.broken.append(('access-scan:' + name, why))
    if rc not in (0, 3): ctx.fatal('access table scanner crashed: ' + err[-1500:])
    ctx.log('access table scanned: %d failures' % len(meta['failed']))
    return meta

def build(ctx):
    ex = ctx.bdir('ex')
    if not ctx.extract(EXTRACT, ex): return None
    sh('cp %s %s' % (os.path.join(VERIF, 'ocaml', 'C17_drv.ml'), ex))
    if not ctx.ocaml(ex, ['c17.mli', 'c17.ml', 'C17_drv.ml'], 'drv'): return None
    exe = ctx.bdir('C17_threads')
    if not ctx.cxx(os.path.join(VERIF, 'harness', 'C17_threads.cpp'), exe): return None
    return exe, os.path.join(ex, 'drv')

# ---------------------------------------------------------------- mixes and schedules
def gen_mix(rng, i):
    """a random mix of force elements: (kind, par, pos, coef); built-ins are non-parallel; every mix class is hit by the first few"""
    n = rng.randrange(1, 11); els = []
    for k in range(n):
        kind = rng.choice('CCCCCSDKG')
        if kind == 'C': els.append(('C', rng.randrange(2), rng.randrange(2), round(rng.uniform(0.3, 3.0), 3)))
        else: els.append((kind, 0, 1 if kind in 'SK' else 0, round(rng.uniform(0.3, 3.0), 3)))
    if i == 0: els = [('C', 0, 0, 1.0), ('D', 0, 0, 1.5)]                                   # no parallel, no position-only: non-parallel task, mode All
    if i == 1: els = [('C', 0, 1, 1.0), ('C', 0, 0, 2.0), ('S', 0, 1, 1.0)]                 # non-parallel task with caching
    if i == 2: els = [('C', 1, 0, 1.0), ('C', 1, 0, 2.0), ('C', 0, 0, 0.5)]                 # parallel task, mode All
    if i == 3: els = [('C', 1, 1, 1.0), ('C', 1, 0, 2.0), ('C', 0, 1, 0.5), ('D', 0, 0, 1.0), ('C', 1, 1, 0.7)]   # parallel task with caching
    return els

def stripe(w, T, n): return list(range(w, n, T))
def random_round(rng, T, n):
    seqs = [['%d.I' % w] + ['%d.E%d' % (w, i) for i in stripe(w, T, n)] + ['%d.F' % w] for w in range(T)]
    out = []
    while any(seqs):
        w = rng.choice([k for k in range(T) if seqs[k]]); out.append(seqs[w].pop(0))
    return ' '.join(out)

def hexs(line): return [float.fromhex(x) for x in line]

def run(ctx):
    ctx.build_repo()
    meta = scan_table(ctx)
    ok = ctx.coq_props(PROPS)
    b = build(ctx)
    if b is None:
        ctx.broken.append(('correspondence:build', 'extraction / driver / harness does not build')); ctx.finish()
    exe, drv = b
    rng = ctx.rng
    nmix = 14 if ctx.tier == 'quick' else 80
    threads = list(range(1, 17))
    mixes = [gen_mix(rng, i) for i in range(nmix)]
    # ---- implementation
    inp = []
    for i, els in enumerate(mixes):
        inp.append('MIX %d %d %s' % (i, len(els), ' '.join('%s %d %d %r' % e for e in els)))
        inp.append('CON %d' % i)
        haspar = any(e[1] for e in els)
        for k in threads:
            inp.append('RUN %d %d 0' % (i, k))
            if k in (2, 5, 16): inp.append('RUN %d %d 1' % (i, k))     # thread count changed after realizeTopology (the non-parallel task must stay single-threaded)
    rc, out, err = sh([exe], input='\n'.join(inp) + '\n', timeout=3000)
    if rc != 0: ctx.broken.append(('correspondence:harness', 'harness exit %d: %s' % (rc, err[-400:])))
    TOT = {}; CALL = {}; CON = {}; THR = {}
    for l in out.split('\n'):
        p = l.split()
        if not p: continue
        if p[0] == 'TOT': TOT[(int(p[1]), int(p[2]), int(p[3]), int(p[4]))] = hexs(p[5:])
        elif p[0] == 'CALL': CALL.setdefault((int(p[1]), int(p[2]), int(p[3]), int(p[4])), []).append((int(p[5]), int(p[6])))
        elif p[0] == 'CON': CON[(int(p[1]), int(p[2]), int(p[3]))] = hexs(p[4:])
        elif p[0] == 'THREADS': THR[(int(p[1]), int(p[2]), int(p[3]))] = int(p[4])
    # ---- model
    minp = ['TABLE']; plan = []
    for i, els in enumerate(mixes):
        haspar = any(e[1] for e in els); haspos = any(e[2] for e in els)
        task = 'P' if haspar else 'N'; n = 1 + sum(1 for e in els if e[1])
        modes = ['C', 'N', 'C', 'N'] if haspos else ['A'] * 4
        minp.append('MIX %d %d %s' % (i, len(els), ' '.join('%d %d' % (e[1], e[2]) for e in els)))
        minp.append('TARGETS %d %s' % (i, task))
        for (mi, k, when) in sorted(set(x[:3] for x in TOT if x[0] == i)):
            T = 1 if (task == 'N' or k == 1) else k     # realizeTopology forces one thread for the non-parallel task; one thread = sequential path
            minp.append('SEQ %d %s %d %s | %s' % (i, task, T, ' '.join(modes), ' | '.join(random_round(rng, T, n) for _ in range(4))))
            plan.append((i, k, when, T, modes))
    rc2, mout, merr = sh([drv], input='\n'.join(minp) + '\n', timeout=3000)
    if rc2 != 0: ctx.broken.append(('correspondence:driver', 'driver exit %d: %s' % (rc2, merr[-400:])))
    tables = {}; targets = {}; rounds = []; cur = None
    for l in mout.split('\n'):
        p = l.split()
        if not p: continue
        if p[0] == 'TABLE': tables[p[1]] = dict(kv.split('=') for kv in p[2:])
        elif p[0] == 'MIX': cur = int(p[1])
        elif p[0] == 'T': targets[(cur, p[1], int(p[2]))] = p[3]
        elif p[0] == 'ROUND':
            d = dict(kv.split('=') for kv in p[2:]); ints = lambda s: [int(x) for x in s.split(',') if x]
            rounds.append((int(p[1]), d['valid'] == '1', ints(d['F']), ints(d['C'])))
    ctx.extra['scanned_tables'] = {'parallel': meta.get('parallel'), 'nonparallel': meta.get('nonparallel'), 'subsystem': meta.get('subsystem'), 'checks': tables}
    # ---- compare
    impl_first = None
    first = None; neval = 0; ncalls = 0; worst = 0.0; nontrivial = 0; dist = {'mixes': nmix, 'thread_counts': threads, 'by_task': {'P': 0, 'N': 0}, 'modes': {}}
    if len(rounds) != 4 * len(plan):
        ctx.broken.append(('correspondence:driver', 'model printed %d rounds for %d planned sequences' % (len(rounds), len(plan))))
    else:
        for j, (i, k, when, T, modes) in enumerate(plan):
            els = mixes[i]; task = 'P' if any(e[1] for e in els) else 'N'; dist['by_task'][task] += 1
            for r in range(4):
                rr, valid, F, C = rounds[4 * j + r]; mode = modes[r]; dist['modes'][mode] = dist['modes'].get(mode, 0) + 1
                key = (i, k, when, r)
                if key not in TOT:
                    if first is None: first = ('totals missing from the harness output for mix %d threads %d round %d' % (i, k, r), i, k, when, r); continue
                tot = TOT[key]; contributing = sorted(F + C)
                # (a) the model's multiset: every element exactly once (the theorem's [expected], evaluated on this interleaving)
                if not valid or contributing != list(range(len(els))):
                    if first is None: first = ('model: round not valid or multiset %s is not every element once' % contributing, i, k, when, r)
                # (b0) the property's own predicate on the implementation, independent of the model: the totals are the sum of the
                # contributions of ALL enabled elements, whatever they declare and however many threads there are
                if impl_first is None:
                    for c in range(len(tot)):
                        terms = [CON[(i, r, e)][c] for e in range(len(els))]; ref = math.fsum(terms); scale = math.fsum(abs(t) for t in terms)
                        if abs(tot[c] - ref) > 64 * 2.2e-16 * scale + 1e-300:
                            impl_first = (i, k, when, r, c, tot[c], ref); break
                # (b) implementation totals = order-free sum of the per-element contributions over that multiset
                ncomp = len(tot)
                for c in range(ncomp):
                    terms = [CON[(i, r, e)][c] for e in contributing]
                    ref = math.fsum(terms); scale = math.fsum(abs(t) for t in terms)
                    tol = 64 * 2.2e-16 * scale + 1e-300
                    d = abs(tot[c] - ref); neval += 1
                    if scale > 0: worst = max(worst, d / scale)
                    if d > tol and first is None:
                        first = ('implementation total differs from the order-free sum: component %d total=%r sum=%r (|diff|=%.3g, tol=%.3g)' % (c, tot[c], ref, d, tol), i, k, when, r)
                # (c) calcForce calls of the Custom elements: who was called, and whether with the system's shared array
                exp_calls = sorted((e, 1 if targets[(i, mode, e)] == 'SharedF' else 0) for e in range(len(els)) if els[e][0] == 'C' and targets[(i, mode, e)] != 'None')
                got = sorted(CALL.get(key, [])); ncalls += len(got)
                if got != exp_calls and first is None:
                    first = ('calcForce calls of Custom elements (element, got system array): implementation %s, access table %s' % (got, exp_calls), i, k, when, r)
            if k > 1 and T > 1 and any(e[2] for e in els): nontrivial += 1
    ctx.add_cases(neval, nontrivial, ['mix %d: %s' % (1, ' '.join('%s%d%d' % e[:3] for e in mixes[1]))])
    ctx.cov['rule'] = ('correspondence: %d element mixes x thread counts 1..16 (x setNumberOfThreads before/after realizeTopology for mixes with parallel elements) x 4 '
                       'Dynamics realizations; evaluations = components of the C++ force totals compared with the order-free (math.fsum) sum of the per-element '
                       'contributions over the multiset the extracted model puts into the shared arrays on a random valid interleaving (tolerance 64 eps * sum|terms|; '
                       'worst observed %.2g of sum|terms|); %d calcForce calls of Custom elements compared exactly with the access table (element called or not, handed '
                       'the system array or not); non-trivial = sequences with more than one worker thread and a position-only element (both caching modes exercised)' % (nmix, worst, ncalls))
    ctx.extra['distribution'] = dist; ctx.extra['worst_relative_difference'] = worst
    if first:
        why, i, k, when, r = first
        ctx.broken.append(('correspondence:totals', 'mix %d (%s) threads %d when %d realization %d: %s' % (i, ' '.join('%s%d%d' % e[:3] for e in mixes[i]), k, when, r, why)))
    if impl_first:
        i, k, when, r, c, got, ref = impl_first; REAL = ['fresh state (cache invalid)', 'only u changed (cache valid)', 'q changed (cache invalid)', 'only u changed (cache valid)']
        desc = ' '.join('%s(par=%d,pos=%d,coef=%r)' % e for e in mixes[i])
        if not first: ctx.broken.append(('correspondence:totals', 'implementation totals differ from the sum of all element contributions'))
        ctx.report('impl:totals-not-sum-of-contributions', 'force totals differ from the sum of the contributions of all enabled elements: mix [%s], %d threads, realization %d (%s), '
                   'component %d: total %r, sum %r' % (desc, k, r, REAL[r], c, got, ref),
                   {'failing_input': 'MIX 0 %d %s ; RUN 0 %d %d ; realization %d' % (len(mixes[i]), ' '.join('%s %d %d %r' % e for e in mixes[i]), k, when, r),
                    'replay_cmd': "printf 'MIX 0 %d %s\\nCON 0\\nRUN 0 %d %d\\n' | build/C17/C17_threads" % (len(mixes[i]), ' '.join('%s %d %d %r' % e for e in mixes[i]), k, when)})
    probes(ctx, exe, tables)
    ctx.assumptions += [
        'contributions are abstract in the model (an array is the list of element ids added to it); floating-point accumulation order differs between schedules, '
        'which the comparison allows for with a tolerance of 64 eps relative to the sum of the magnitudes of the terms',
        'the executor is the protocol model of C33 (C33_PE.v): condition variables with spurious wake-ups, the unlocked reads of the finished flag as atomic reads; '
        'the C++ memory model below monitors and thread_local storage are not modelled; the hooks of ParallelExecutor.cpp are where DESIGN 2.6 says',
        'an element is assumed to touch only the arrays it is handed (a Custom element writing elsewhere is outside the table)',
        'ThreadSanitizer replay is not part of this check (the deterministic overlap probe through the executor hooks is used instead)']
    if ctx.broken or ctx.tier == 'thorough': search(ctx, exe)
    ctx.finish()

def probe(exe, th, when, withpos, withpar):
    rc, out, err = sh([exe], input='PROBE %d %d %d %d\n' % (th, when, withpos, withpar), timeout=300)
    m = re.search(r'PROBE (.*)', out)
    return dict(kv.split('=') for kv in m.group(1).split()) if m else {'overlap': '?', 'raw': (out + err)[-300:]}

def probes(ctx, exe, tables):
    """replay of the two refutation witnesses with a controlled schedule"""
    res = {}
    # (1) regression witness of DESIGN 7.6: parallel task, caching modes, task 0 inside execute while another worker finishes: must not overlap
    for (th, wp) in ((2, 1), (4, 1), (3, 0)):
        p = probe(exe, th, 0, wp, 1); res['parallel threads=%d withpos=%d' % (th, wp)] = p
        if p.get('overlap') != '0':
            ctx.broken.append(('probe:parallel-task', 'task 0 of the parallel task shares an array with a concurrently finishing worker: %s' % p))
            ctx.report('impl:task0-overlaps-finish', 'overlap probe: worker 0 inside execute(0) and another worker inside finish() touch the same array: %s' % p,
                       {'failing_input': 'PROBE %d 0 %d 1' % (th, wp), 'theorem': 'C17_prefix_table_race_refuted'})
    # (2) the non-parallel task with setNumberOfThreads after realizeTopology (C17_nonparallel_multithreaded_*_refuted)
    rep = []
    for wp in (0, 1):
        p = probe(exe, 2, 1, wp, 0); res['nonparallel threads=2 after-topology withpos=%d' % wp] = p
        if p.get('overlap') == '1': rep.append(p)
    p0 = probe(exe, 2, 0, 0, 0); res['nonparallel threads=2 before-topology'] = p0
    if p0.get('overlap') != '0' or p0.get('actualthreads') != '1':
        ctx.broken.append(('probe:nonparallel-forced-single', 'realizeTopology no longer forces one thread for the non-parallel task: %s' % p0))
    ctx.extra['overlap_probes'] = res
    if rep:   # regression (fixed in /repo by 648c314e): must not reproduce
        ctx.broken.append(('probe:nonparallel-task', 'the non-parallel task is run by several workers after setNumberOfThreads: %s' % rep[0]))
        ctx.report('impl:' + NKEY, 'regression: setNumberOfThreads(2) after realizeTopology on a subsystem without parallel elements: the non-thread-safe '
                   'CalcForcesNonParallelTask is run by 2 workers; overlap probe: %s' % rep[0], {'failing_input': 'PROBE 2 1 0 0', 'theorem': 'C17_nonparallel_multithreaded_race_refuted'})
    if tables.get('subsystem', {}).get('set_threads_can_override') == '1':
        ctx.broken.append(('access-table:set-threads', 'setNumberOfThreads can replace the single-threaded executor of the non-parallel task (scanner)'))

def search(ctx, exe):
    """failing-input search on the implementation, the property's own predicates: (a) for EVERY mix of parallel / position-only flags on the
    same elements and thread counts 1..16 the force totals of four realizations (fresh; only u changed = cache valid; q changed; only u changed)
    equal those of the all-flags-off single-thread reference; (b) the overlap probe over thread counts and modes"""
    import itertools
    found = None; n = 0; ncmp = 0
    combos = list(itertools.product((0, 1), repeat=2))          # (par, pos)
    mixes = []
    for fa in combos:
        for fb in combos:
            for fc in ((0, 0), (1, 1)):
                # physics: element 0 and 1 position laws if declared pos else velocity laws; the declared flags never change the law
                mixes.append([('C', fa[0], fa[1], 1.0), ('C', fb[0], fb[1], 2.0), ('D', 0, 0, 1.5), ('C', fc[0], fc[1], 0.7), ('K', 0, 1, 1.0)])
    inp = []
    for i, els in enumerate(mixes):
        inp.append('MIX %d %d %s' % (i, len(els), ' '.join('%s %d %d %r' % e for e in els))); inp.append('REF %d' % i)
        for k in (1, 2, 3, 4, 8, 16): inp.append('RUN %d %d 0' % (i, k))
    rc, out, err = sh([exe], input='\n'.join(inp) + '\n', timeout=3000)
    REF = {}; TOT = {}
    for l in out.split('\n'):
        p = l.split()
        if p and p[0] == 'REF': REF[(int(p[1]), int(p[2]))] = hexs(p[3:])
        elif p and p[0] == 'TOT': TOT[(int(p[1]), int(p[2]), int(p[4]))] = hexs(p[5:])
    REAL = ['fresh state (cache invalid)', 'only u changed (cache valid)', 'q changed (cache invalid)', 'only u changed (cache valid)']
    for (i, k, r) in sorted(TOT):
        ref = REF.get((i, r)); tot = TOT[(i, k, r)]
        if ref is None or len(ref) != len(tot): continue
        scale = max(1.0, max(abs(x) for x in ref))
        for c in range(len(tot)):
            ncmp += 1
            if abs(tot[c] - ref[c]) > 1e-12 * scale and found is None:
                els = mixes[i]
                found = ('MIX 0 %d %s ; RUN 0 %d 0 ; realization %d' % (len(els), ' '.join('%s %d %d %r' % e for e in els), k, r),
                         'force totals of mix [%s] with %d threads differ from the all-flags-off single-thread reference at realization %d (%s): component %d = %r, reference %r'
                         % (' '.join('%s(par=%d,pos=%d)' % e[:3] for e in els), k, r, REAL[r], c, tot[c], ref[c]),
                         "printf 'MIX 0 %d %s\\nREF 0\\nRUN 0 %d 0\\n' | build/C17/C17_threads" % (len(els), ' '.join('%s %d %d %r' % e for e in els), k))
    pfound = None
    for th in (2, 3, 4, 8, 16):
        for wp in (0, 1):
            for when in (0, 1):
                p = probe(exe, th, when, wp, 1); n += 1
                if p.get('overlap') == '1' and pfound is None: pfound = ('PROBE %d %d %d 1' % (th, when, wp), p)
    ctx.extra['search'] = {'flag_mixes': len(mixes), 'thread_counts': [1, 2, 3, 4, 8, 16], 'total_components_compared_with_reference': ncmp, 'probes': n,
                           'failures': (0 if found is None else 1) + (0 if pfound is None else 1), 'harness_rc': rc}
    if rc != 0: ctx.broken.append(('search:harness', 'harness exit %d: %s' % (rc, err[-300:])))
    if found:
        ctx.report('impl:totals-depend-on-flags', found[1], {'failing_input': found[0], 'replay_cmd': found[2]})
    if pfound:
        ctx.report('impl:race:' + pfound[0].replace(' ', '_'), 'overlap probe: two workers touch the same force array concurrently: %s' % pfound[1],
                   {'failing_input': pfound[0], 'replay_cmd': 'echo "%s" | build/C17/C17_threads' % pfound[0]})
