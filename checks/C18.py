"""C18 State stage and cache semantics follow the documented model (DESIGN 5 C18, Appendix B).
Theorems: coq/Props/Properties_C18.v over the hand-written model coq/C18/C18_Model.v and the ghost spec C18_Spec.v.
Tie: correspondence -- random operation sequences (checks/C18_gen.py) are run on real SimTK::State objects
(harness/C18_state.cpp, public API only) and on the extracted model (ocaml/C18_drv.ml); after every operation
thrown-or-not and a full dump (stages, stage versions, value versions, dependents lists, validity, values) are
compared exactly.  The model has two switches (cfg) for the two repairs proposed in patches/C18_*.diff; which
variant the tree under test implements is decided by replaying the witnesses, so the check is green before and
after the repairs, and the defects are reported (KNOWN-FINDING) only while they reproduce."""
import os, re, hashlib
from vlib import *
import C18_gen

PROPS = ['Props/Properties_C18.v']
EXTRACT = '''From Coq Require Import Extraction ExtrOcamlBasic.
Require Import C18_Model C18_Spec.
Extraction "c18.ml" wstep st0 isUpToDate abs gstep g_copy gvalid legal copy_ok wf_check dyn_check covered.
'''
ADV = lambda sl, ss, a, b: ''.join('On %d ADVS %d %d\nOn %d ADVY %d\n' % (sl, ss, g, sl, g) for g in range(a, b + 1))
# witness sequences (one State slot 0, one subsystem unless said otherwise); the last dump decides
W_AUTO = ('SEQ w_auto 1 1\nOn 0 AADV 0 9 5 4\n' + ADV(0, 0, 1, 1) + 'On 0 ACEP 0 4 10 0 0 0 1 0 0 0\n' + ADV(0, 0, 2, 4) +
          'On 0 SCE 0 1 10\nOn 0 MK 0 1\nOn 0 SDU 0 0 7\nOn 0 MKU 0 0\nOn 0 AUTO\nEND\n')
W_MARK = ('SEQ w_markahead 1 1\nOn 0 AZ 0 1\nOn 0 ACE 0 7 10\n' + ADV(0, 0, 1, 6) + 'On 0 MK 0 0\nOn 0 UPD 2\n' + ADV(0, 0, 7, 7) + 'END\n')
W_COPY = ('SEQ w_copyver 2 1\nOn 0 AQ 0 1\nOn 0 ACE 0 5 10\n' + ADV(0, 0, 1, 5) + 'On 0 SCE 0 0 10\nOn 0 MK 0 0\nOn 0 UPD 0\nCP 1 0\n' +
          ADV(1, 0, 4, 5) + 'END\n')

def blocks(txt):
    out = {}
    for b in txt.split('SEQ ')[1:]:
        out[b.split('\n', 1)[0].strip()] = b
    return out

def final_ok(block, slot, sub, ce):
    """validity flag of cache entry (sub,ce) of State `slot` in the last dump of a block"""
    cur = None; val = None; cs = None
    for l in block.split('\n'):
        if l.startswith('S'): cs = int(l[1:l.index(' ')])
        elif l.startswith(' B'): cur = int(l[2:l.index(' ', 2)])
        elif l.startswith('  C') and cs == slot and cur == sub and int(l[3:l.index(' ', 3)]) == ce:
            val = int(re.search(r'ok=(\d)', l).group(1))
    return val

def build(ctx):
    ex = ctx.bdir('ex')
    if not ctx.extract(EXTRACT, ex): return None
    sh('cp %s %s' % (os.path.join(VERIF, 'ocaml', 'C18_drv.ml'), ex))
    if not ctx.ocaml(ex, ['c18.mli', 'c18.ml', 'C18_drv.ml'], 'drv'): return None
    exe = ctx.bdir('C18_state')
    # NDEBUG: the same (Release) semantics of the header-inline StateImpl methods as in the rebuilt libraries
    if not ctx.cxx(os.path.join(VERIF, 'harness', 'C18_state.cpp'), exe, flags=['-DNDEBUG']): return None
    return exe, os.path.join(ex, 'drv')

def run_impl(exe, txt):
    rc, out, err = sh([exe], input=txt, timeout=1800)
    return rc, out
def run_model(drv, cf, txt, spec=False):
    rc, out, err = sh([drv, str(cf[0]), str(cf[1])] + (['spec'] if spec else []), input=txt, timeout=1800)
    return rc, out

def first_diff(a, b):
    la = a.split('\n'); lb = b.split('\n')
    for i in range(max(len(la), len(lb))):
        x = la[i] if i < len(la) else '<eof>'; y = lb[i] if i < len(lb) else '<eof>'
        if x != y: return i, x, y
    return None

def shrink(exe, drv, cf, seq):
    """delete-one-operation shrinking of a sequence on which implementation and model disagree"""
    lines = seq.strip().split('\n'); head, ops = lines[0], lines[1:-1]
    def bad(o):
        t = '\n'.join([head] + o + ['END']) + '\n'
        r1, a = run_impl(exe, t); r2, b = run_model(drv, cf, t)
        return r1 != 0 or a != b
    i = 0
    while i < len(ops) and len(ops) > 1:
        c = ops[:i] + ops[i + 1:]
        if bad(c): ops = c
        else: i += 1
    return '\n'.join([head] + ops + ['END']) + '\n'

REDUCE = re.compile(r'^(S\d+ sys=\d+)|^( B\d+ st=\d+)|^(  C\d+) .*( ok=\d)|^(  D\d+)|^(T \d)|^(SEQ .*)|^(END)', re.M)
def reduce_dump(txt):
    out = []
    for l in txt.split('\n'):
        m = REDUCE.match(l)
        if m: out.append(''.join(g for g in m.groups() if g))
    return out

def search(ctx, exe, drv, cf, n):
    """failing-input search: the specification (C18_Spec.v gstep, extracted) evaluated next to the implementation
    trace; a failing input is a sequence whose stages / validity flags / thrown-or-not differ from the
    specification before any deviation event (legal prefix)."""
    rng = ctx.rng; seqs = []
    for i in range(n):
        t, g = C18_gen.gen_seq(rng, 'q%d' % i); seqs.append(t)
    txt = ''.join(seqs)
    r1, a = run_impl(exe, txt); r2, b = run_model(drv, cf, txt, spec=True)
    A = blocks(a); B = blocks(b); S = {s.split('\n', 1)[0].split()[1]: s for s in seqs}
    nev = 0; found = None
    for sid, sb in B.items():
        if sid not in A: continue
        ra = reduce_dump('SEQ ' + A[sid]); rb_all = ('SEQ ' + sb).split('\n')
        # specification output carries an "L 0/1" line after every T line: cut at the first illegal operation
        rb = []; legal = True; cut = None
        for l in rb_all:
            if l.startswith('L '):
                if l == 'L 0' and legal: legal = False; cut = len(rb)
                continue
            rb.append(l)
        rb = [l for l in rb if l != '']
        if cut is not None:
            # keep whole operations only: cut at the T line of the illegal operation
            k = cut
            while k > 0 and not rb[k - 1].startswith('T '): k -= 1
            rb = rb[:max(k - 1, 0)]; ra = ra[:len(rb)]
        nev += sum(1 for l in rb if l.startswith('T '))
        if ra != rb and found is None:
            d = next((i for i in range(min(len(ra), len(rb))) if ra[i] != rb[i]), min(len(ra), len(rb)))
            found = (sid, d, ra[d] if d < len(ra) else '<eof>', rb[d] if d < len(rb) else '<eof>')
    ctx.extra['search'] = {'sequences': n, 'spec_predicate_evaluations': nev, 'failures': 0 if found is None else 1}
    if found:
        sid, d, x, y = found
        # delete-one-operation shrinking while the implementation still departs from the specification on a legal prefix
        def departs(seq):
            r1, a1 = run_impl(exe, seq); r2, b1 = run_model(drv, cf, seq, spec=True)
            ra = reduce_dump(a1); rb = []; cut = None
            for l in b1.split('\n'):
                if l.startswith('L '):
                    if l == 'L 0' and cut is None: cut = len(rb)
                    continue
                if l != '': rb.append(l)
            if cut is not None:
                k = cut
                while k > 0 and not rb[k - 1].startswith('T '): k -= 1
                rb = rb[:max(k - 1, 0)]; ra = ra[:len(rb)]
            else:
                pass
            if r1 == 0 and ra == rb: return None
            dd = next((i for i in range(min(len(ra), len(rb))) if ra[i] != rb[i]), min(len(ra), len(rb)))
            return (dd, ra[dd] if dd < len(ra) else '<eof>', rb[dd] if dd < len(rb) else '<eof>')
        lines = S[sid].strip().split('\n'); head, ops = lines[0], lines[1:-1]
        i = 0
        while i < len(ops) and len(ops) > 1:
            c = ops[:i] + ops[i + 1:]
            if departs('\n'.join([head] + c + ['END']) + '\n') is not None: ops = c
            else: i += 1
        S[sid] = '\n'.join([head] + ops + ['END']) + '\n'
        dd = departs(S[sid])
        if dd is not None: d, x, y = dd
        ctx.report('impl:spec-mismatch', 'implementation trace departs from the specification on a legal prefix: impl "%s" spec "%s"' % (x, y),
                   {'failing_input': S[sid], 'first_difference': {'line': d, 'implementation': x, 'specification': y},
                    'replay_cmd': 'bin/check C18 --replay <this file>'})

def witnesses(ctx, exe):
    """replay the three witnesses on the implementation; returns cfg (fix_auto, fix_copyver) of the tree under test"""
    rc, out = run_impl(exe, W_AUTO + W_MARK + W_COPY); B = blocks(out)
    auto_stale = final_ok(B['w_auto'], 0, 0, 1) == 1       # dependent of the swapped variable still reads valid
    mark_stale = final_ok(B['w_markahead'], 0, 0, 0) == 1  # entry marked one stage early survived the change of z
    copy_stale = final_ok(B['w_copyver'], 1, 0, 0) == 1    # copied entry reads valid after re-realization without recomputation
    ctx.extra['witnesses'] = {'autoupdate_dependent_stale': auto_stale, 'markahead_stale': mark_stale, 'copy_stage_version_stale': copy_stale}
    if auto_stale:
        ctx.report('autoupdate-no-version-bump-no-notify',
                   'autoUpdateDiscreteVariables swapped dv 5->7 while the cache entry listing dv as explicit prerequisite still reads valid (value version unchanged)',
                   {'failing_input': W_AUTO, 'theorem': 'C18_valid_iff_spec_refuted_autoupdate'})
    if mark_stale:
        ctx.report('markahead-survives-invalidation',
                   'cache entry marked at stage dependsOn-1 (accepted by markCacheValueRealized) reads valid after its depends-on stage variable changed',
                   {'failing_input': W_MARK, 'theorem': 'C18_valid_iff_spec_refuted_markahead'})
    if copy_stale:
        ctx.report('copy-resets-unrealized-stage-versions',
                   'State copy resets subsystem stage versions above the source stage to 1: a stale copied cache entry reads valid after re-realization',
                   {'failing_input': W_COPY, 'theorem': 'C18_valid_iff_spec_refuted_copy'})
    return (0 if auto_stale else 1, 0 if copy_stale else 1)

def run(ctx):
    ctx.build_repo()
    ok = ctx.coq_props(PROPS)
    b = build(ctx)
    if b is None:
        ctx.broken.append(('correspondence:build', 'extraction / driver / harness does not build')); ctx.finish()
    exe, drv = b
    cf = witnesses(ctx, exe)
    ctx.log('tree under test implements cfg fix_auto=%d fix_copyver=%d' % cf)
    nseq = 3000 if ctx.tier == "quick" else 30000
    seqs = []; feats = {}; nsubh = {}
    cdir = os.path.join(VERIF, 'corpus', 'C18')
    if os.path.isdir(cdir):
        for f in sorted(os.listdir(cdir)): seqs.append(open(os.path.join(cdir, f)).read())
    seqs += [W_AUTO, W_MARK, W_COPY]
    ncorpus = len(seqs)
    for i in range(nseq):
        t, g = C18_gen.gen_seq(ctx.rng, 's%d' % i); seqs.append(t)
        for f in g.feat: feats[f] = feats.get(f, 0) + 1
        nsubh[g.nsub] = nsubh.get(g.nsub, 0) + 1
    dis = None; nops = 0; nthrow = 0; nontriv = set(); opsh = {}; inv = {'states': 0, 'wf_fail': 0, 'dyn_fail': 0, 'first': '', 'ops': 0, 'ops_inside_refinement_theorem': 0}
    CH = 5000
    for c0 in range(0, len(seqs), CH):
        txt = ''.join(seqs[c0:c0 + CH])
        r1, a = run_impl(exe, txt); r2, m = run_model(drv, cf, txt)
        nops += a.count('\nT '); nthrow += a.count('\nT 1')
        if r1 != 0 or r2 != 0 or a != m:
            A = blocks(a); M = blocks(m)
            for s in seqs[c0:c0 + CH]:
                sid = s.split('\n', 1)[0].split()[1]
                if A.get(sid) != M.get(sid):
                    dis = (s, first_diff(A.get(sid, '<missing: harness crashed>'), M.get(sid, '<missing>'))); break
            if dis is None: dis = (seqs[c0], (0, 'rc=%d' % r1, 'rc=%d' % r2))
            break
        for sid, blk in blocks(a).items():
            if 'ok=1' in blk and 'ok=0' in blk and 'vv=2' in blk: nontriv.add(hashlib.sha1(blk.encode()).hexdigest())
        # invariants of the refinement proof (wf_check / dyn_check of C18_Spec.v) on every state the model reaches
        rc3, iv, _e3 = sh([drv, str(cf[0]), str(cf[1]), "inv"], input=txt, timeout=1800)
        m3 = re.search(r'INV states=(\d+) wf_fail=(\d+) dyn_fail=(\d+) ops=(\d+) thm=(\d+) first=(.*)', iv)
        if m3:
            inv['states'] += int(m3.group(1)); inv['wf_fail'] += int(m3.group(2)); inv['dyn_fail'] += int(m3.group(3))
            inv['ops'] += int(m3.group(4)); inv['ops_inside_refinement_theorem'] += int(m3.group(5))
            if m3.group(6).strip() and not inv['first']: inv['first'] = m3.group(6).strip()
    for s in seqs:
        for l in s.split('\n'):
            p = l.split()
            if p and p[0] != 'SEQ' and p[0] != 'END': k = p[2] if p[0] == 'On' else p[0]; opsh[k] = opsh.get(k, 0) + 1
    ctx.add_cases(nops, len(nontriv), [' ; '.join(seqs[ncorpus].split('\n')[:12])] if len(seqs) > ncorpus else None)
    ctx.cov['rule'] = ('correspondence: %d operation sequences (<= 60 ops, 1-4 subsystems, 2-3 State objects; %d corpus/witness sequences first) run on SimTK::State '
                       'and on the extracted model, compared exactly after every operation; evaluations = operations compared; non-trivial = distinct '
                       'sequences whose trace contains a valid and an invalid cache entry and a bumped value version' % (len(seqs), ncorpus))
    ctx.extra['distribution'] = {'operations': opsh, 'templates': feats, 'subsystems': nsubh, 'thrown': nthrow, 'sequences': len(seqs)}
    ctx.extra['cfg_of_tree'] = {'fix_auto': cf[0], 'fix_copyver': cf[1]}
    ctx.extra['invariants_on_reached_states'] = inv
    if inv['wf_fail'] or inv['dyn_fail']:
        ctx.broken.append(('invariant:reached-state', 'wf_check/dyn_check (hypotheses of C18_valid_iff_spec_partial) fail on a state reached by the model: ' + inv['first']))
    if dis:
        s, d = dis
        small = shrink(exe, drv, cf, s)
        p = os.path.join(VERIF, 'build', 'C18', 'first_disagreement.txt'); open(p, 'w').write(small)
        ctx.broken.append(('correspondence:state', 'model and implementation differ (line %s): impl "%s" model "%s"; shrunk sequence: %s' %
                           (d[0], d[1], d[2], small.replace('\n', ' ; '))))
        # the property's clause "value versions change whenever the corresponding values may have changed", evaluated on the shrunk
        # history: the model bumps a q/u/z value version exactly when an operation rewrites or discards those values (theorems
        # C18_value_versions_*, C18_versions_bump_*); an implementation whose version stays behind the model's at the first difference
        # left a version unchanged although the values may have changed
        r1, a1 = run_impl(exe, small); r2, m1 = run_model(drv, cf, small)
        fd = first_diff(a1, m1) if a1 != m1 else None
        if fd:
            ma = re.search(r' v=(\d+),(\d+),(\d+)', str(fd[1])); mm = re.search(r' v=(\d+),(\d+),(\d+)', str(fd[2]))
            if ma and mm:
                va = [int(x) for x in ma.groups()]; vm = [int(x) for x in mm.groups()]
                rest_a = re.sub(r' v=\d+,\d+,\d+', '', str(fd[1])); rest_m = re.sub(r' v=\d+,\d+,\d+', '', str(fd[2]))
                if rest_a == rest_m and any(x < y for x, y in zip(va, vm)):
                    ctx.report('impl:value-version-not-bumped', 'a q/u/z value version is left unchanged by an operation after which the values may have changed '
                               '(they are rewritten or discarded): implementation versions %s, documented model %s after the last operation of the history' % (va, vm),
                               {'failing_input': small, 'first_difference': {'line': fd[0], 'implementation': fd[1], 'model': fd[2]},
                                'replay_cmd': 'bin/check C18 --replay <this file>'})
    ctx.assumptions += [
        'Release (NDEBUG) semantics: only the _ALWAYS checks of StateImpl.h throw; the harness is compiled with -DNDEBUG like the libraries',
        'guard: operations violating an assert()/index precondition of the code (advance not by exactly one stage, unknown keys, duplicate or '
        'shorter-lived prerequisites, invalidated stage <= allocation stage) are answered "throws" by model and harness without calling the implementation',
        'numeric contents of y, time, weights, constraint-error and event-trigger pools are not modelled',
        'fuel of the dependents recursion = number of cache entries + 1 (enough for acyclic prerequisite graphs, which the allocation order enforces)']
    if ctx.broken or ctx.tier == 'thorough':
        search(ctx, exe, drv, cf, 2000 if ctx.tier == 'quick' else 20000)
    ctx.finish()

def replay(ctx, path):
    import json
    obj = json.load(open(path)); seq = obj.get('failing_input')
    if not seq: print('no failing_input in replay file'); return
    ctx.build_repo(); b = build(ctx); exe, drv = b
    cf = witnesses(ctx, exe)
    print('--- implementation'); print(run_impl(exe, seq)[1])
    print('--- model (cfg %s)' % (cf,)); print(run_model(drv, cf, seq)[1])
    print('--- specification'); print(run_model(drv, cf, seq, spec=True)[1])
