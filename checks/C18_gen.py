"""C18 operation-sequence generator (used by checks/C18.py for the model<->code correspondence and the search).
Text format, one operation per line, read by harness/C18_state.cpp and ocaml/C18_drv.ml:
  SEQ <id> <nslots> <nsub> / On <slot> <OP> args / CP d s (copy-construct) / AS d s (assign) / MV d s (move-assign) / END
A light-weight tracker of stages and allocation stacks keeps most operations legal (allocations before the
stage they belong to is realized, advance by one stage, marks near the depends-on stage); a fraction is left
illegal on purpose (range errors, late allocations, stale getCacheEntry) to compare thrown-or-not.
Aimed at the proof's case splits: dependsOn = computedBy, lazy entries, prerequisite chains and diamonds
(q/u/z, discrete variables, upstream entries, across subsystems), mark one stage early, copy/assign between
mark and upd, copy after an invalidation followed by re-realization, auto-update variables with and
without dependents."""
import copy as _copy

def _pop(stack, gp):
    while stack and stack[-1]['alloc'] > gp: stack.pop()

class Tr:
    def __init__(self, nsub):
        self.sys = 0; self.subs = [{'stage': 0, 'dvs': [], 'ces': []} for _ in range(nsub)]
    def inval(self, g):
        if g < 1: return
        self.sys = min(self.sys, g - 1)
        for b in self.subs:
            if b['stage'] > g - 1:
                _pop(b['dvs'], g - 1); _pop(b['ces'], g - 1); b['stage'] = g - 1
    def copied(self):
        t = _copy.deepcopy(self); t.sys = min(t.sys, 3)
        for b in t.subs:
            tg = min(b['stage'], 3); _pop(b['dvs'], tg); _pop(b['ces'], tg); b['stage'] = tg
        return t

WST = [5, 6, 7, 5, 4, 9, 7, 5, 6]

class Gen:
    def __init__(self, rng, sid, maxops=60, nsub=None, nslot=None):
        self.r = rng; self.maxops = maxops
        self.nsub = nsub or rng.choice([1, 1, 2, 2, 3, 4]); self.nslot = nslot or rng.choice([2, 2, 3])
        self.T = [Tr(self.nsub) for _ in range(self.nslot)]
        self.ops = []; self.head = 'SEQ %s %d %d' % (sid, self.nslot, self.nsub)
        self.feat = set()
    def full(self): return len(self.ops) >= self.maxops
    def e(self, s):
        if not self.full(): self.ops.append(s); return True
        return False
    # ------------------------------------------------------------ primitive emitters (update the tracker)
    def advsub(self, sl, ss):
        b = self.T[sl].subs[ss]
        if b['stage'] < 9 and self.e('On %d ADVS %d %d' % (sl, ss, b['stage'] + 1)): b['stage'] += 1
    def advsys(self, sl):
        t = self.T[sl]
        if t.sys < 9 and all(b['stage'] > t.sys for b in t.subs) and self.e('On %d ADVY %d' % (sl, t.sys + 1)): t.sys += 1
    def advall(self, sl, upto=None):
        t = self.T[sl]; g = t.sys + 1
        if g > 9 or (upto is not None and g > upto): return False
        for i, b in enumerate(t.subs):
            while b['stage'] < g and not self.full(): self.advsub(sl, i)
        self.advsys(sl); return True
    def realize(self, sl, g):
        while self.T[sl].sys < g and not self.full():
            if not self.advall(sl, g): break
    def upd(self, sl, w):
        if self.e('On %d UPD %d' % (sl, w)): self.T[sl].inval(WST[w])
    def upds(self, sl, w, ss):
        """per-subsystem write accessor updQ(subsys) ... updUErrWeights(subsys); updZWeights(subsys) invalidates Report"""
        if self.e('On %d UPDS %d %d' % (sl, w, ss)) and ss < self.nsub and w not in (3, 4): self.T[sl].inval(9 if w == 6 else WST[w])
    def allocdv(self, sl, ss, inval, v, auto_dep=None):
        b = self.T[sl].subs[ss]; st = b['stage']
        legal = 1 <= inval <= 9 and st <= (0 if inval <= 2 else 1) and inval > st + 1
        if auto_dep is None:
            if self.e('On %d ADV %d %d %d' % (sl, ss, inval, v)) and legal:
                b['dvs'].append({'alloc': st + 1, 'inval': inval, 'auto': None})
        else:
            if self.e('On %d AADV %d %d %d %d' % (sl, ss, inval, v, auto_dep)) and legal:
                if 1 <= auto_dep <= 9:
                    b['dvs'].append({'alloc': st + 1, 'inval': inval, 'auto': len(b['ces'])})
                    b['ces'].append({'alloc': st + 1, 'dep': auto_dep, 'by': 10, 'pre': False, 'upd': True})
                else:
                    b['dvs'].append({'alloc': st + 1, 'inval': inval, 'auto': None})
    def allocce(self, sl, ss, dep, by, q=0, u=0, z=0, dvs=None, ces=None):
        t = self.T[sl]; b = t.subs[ss]; st = b['stage']
        legal = 1 <= dep <= 9 and dep <= by <= 10 and st < 3
        if dvs is None and ces is None and not (q or u or z):
            s = 'On %d ACE %d %d %d' % (sl, ss, dep, by); pre = False
        else:
            dvs = dvs or []; ces = ces or []; pre = True
            s = 'On %d ACEP %d %d %d %d %d %d %d %s %d %s' % (sl, ss, dep, by, q, u, z, len(dvs), ' '.join('%d %d' % k for k in dvs),
                                                           len(ces), ' '.join('%d %d' % k for k in ces))
            for (a, i) in dvs:
                if not (a < self.nsub and i < len(t.subs[a]['dvs'])): legal = False
                elif not (a == ss or (t.subs[a]['dvs'][i]['alloc'] <= min(t.subs[a]['stage'], st))): legal = False
            for (a, i) in ces:
                if not (a < self.nsub and i < len(t.subs[a]['ces'])): legal = False
                elif not (a == ss or (t.subs[a]['ces'][i]['alloc'] <= min(t.subs[a]['stage'], st))): legal = False
                elif t.subs[a]['ces'][i]['dep'] > dep: legal = False
            if len(set(dvs)) != len(dvs) or len(set(ces)) != len(ces): legal = False
        if self.e(' '.join(s.split())) and legal:
            b['ces'].append({'alloc': st + 1, 'dep': dep, 'by': by, 'pre': pre, 'upd': False}); return (ss, len(b['ces']) - 1)
        return None
    # ------------------------------------------------------------ random pieces
    def rand_alloc(self, sl):
        r = self.r; t = self.T[sl]; ss = r.randrange(self.nsub); b = t.subs[ss]; st = b['stage']
        k = r.random()
        if k < 0.12: self.e('On %d %s %d %d' % (sl, r.choice(['AQ', 'AU', 'AZ']), ss, r.randint(0, 3)))
        elif k < 0.27:
            inval = r.randint(2, 9) if st == 0 else r.randint(3, 9)
            if r.random() < 0.08: inval = r.choice([0, 1, 2, 10])
            self.allocdv(sl, ss, inval, r.randint(1, 9))
        elif k < 0.40:
            inval = r.randint(4, 9); dep = r.randint(4, 9)
            if r.random() < 0.05: dep = r.choice([0, 10])
            self.allocdv(sl, ss, inval, r.randint(1, 9), dep)
        elif k < 0.62:
            dep = r.randint(1, 9) if r.random() < 0.3 else r.randint(4, 9)
            x = r.random(); by = dep if x < 0.4 else 10 if x < 0.7 else r.randint(dep, 9) if x < 0.95 else max(0, dep - 1)
            self.allocce(sl, ss, dep, by)
        else:
            dep = r.randint(3, 9); x = r.random(); by = dep if x < 0.25 else 10 if x < 0.75 else r.randint(dep, 10)
            dvs = []; ces = []
            alld = [(a, i) for a in range(self.nsub) for i in range(len(t.subs[a]['dvs']))]
            allc = [(a, i) for a in range(self.nsub) for i in range(len(t.subs[a]['ces']))]
            for kk in r.sample(alld, min(len(alld), r.choice([0, 0, 1, 1, 2]))):
                if kk[0] == ss or r.random() < 0.5: dvs.append(kk)
            for kk in r.sample(allc, min(len(allc), r.choice([0, 1, 1, 2, 3]))):
                c = t.subs[kk[0]]['ces'][kk[1]]
                if (c['dep'] <= dep or r.random() < 0.1) and (kk[0] == ss or r.random() < 0.6): ces.append(kk)
            if r.random() < 0.03 and ces: ces.append(ces[0])
            q, u, z = [int(r.random() < 0.3) for _ in range(3)]
            self.allocce(sl, ss, dep, by, q, u, z, dvs, ces)
    def rand_ce(self, sl, near=True):
        t = self.T[sl]; c = [(a, i) for a in range(self.nsub) for i in range(len(t.subs[a]['ces']))]
        if not c: return None
        if near and self.r.random() < 0.8:
            n = [(a, i) for (a, i) in c if t.subs[a]['stage'] >= t.subs[a]['ces'][i]['dep'] - (1 if self.r.random() < 0.25 else 0)]
            if n: return self.r.choice(n)
        return self.r.choice(c)
    def rand_dv(self, sl, auto=None):
        t = self.T[sl]; d = [(a, i) for a in range(self.nsub) for i in range(len(t.subs[a]['dvs']))
                             if auto is None or (t.subs[a]['dvs'][i]['auto'] is not None) == auto]
        return self.r.choice(d) if d else None
    def rand_op(self, sl):
        r = self.r; t = self.T[sl]; x = r.random()
        if x < 0.20: self.advall(sl)
        elif x < 0.26: self.advsub(sl, r.randrange(self.nsub))
        elif x < 0.29: self.advsys(sl)
        elif x < 0.41:
            k = self.rand_ce(sl)
            if k: self.e('On %d MK %d %d' % (sl, k[0], k[1])); self.feat.add('mark')
        elif x < 0.45:
            k = self.rand_ce(sl, False)
            if k: self.e('On %d UMK %d %d' % (sl, k[0], k[1]))
        elif x < 0.49:
            k = self.rand_ce(sl, False)
            if k: self.e('On %d SCE %d %d %d' % (sl, k[0], k[1], r.randint(1, 99)))
        elif x < 0.53:
            k = self.rand_ce(sl, False)
            if k: self.e('On %d GET %d %d' % (sl, k[0], k[1]))
        elif x < 0.63:
            if r.random() < 0.45:
                w = r.choice([0, 0, 1, 1, 2, 2, 2, 5, 6, 7, 8] + ([3, 4] if r.random() < 0.1 else []))
                self.upds(sl, w, r.randrange(self.nsub + (1 if r.random() < 0.03 else 0))); self.feat.add('updsub')
            else:
                w = r.choice([0, 0, 1, 1, 2, 2, 3, 4, 4, 5, 6, 7, 8]); self.upd(sl, w); self.feat.add('upd')
        elif x < 0.71:
            k = self.rand_dv(sl)
            if k and self.e('On %d SDV %d %d %d' % (sl, k[0], k[1], r.randint(1, 99))): t.inval(t.subs[k[0]]['dvs'][k[1]]['inval']); self.feat.add('setdv')
        elif x < 0.77:
            k = self.rand_dv(sl, True)
            if k:
                self.e('On %d SDU %d %d %d' % (sl, k[0], k[1], r.randint(1, 99)))
                if r.random() < 0.8: self.e('On %d MKU %d %d' % (sl, k[0], k[1]))
        elif x < 0.82:
            self.e('On %d AUTO' % sl); self.feat.add('auto')
        elif x < 0.86:
            g = r.randint(1, 10)
            if r.random() < 0.5 and self.e('On %d INV %d' % (sl, g)): t.inval(g)
            elif self.e('On %d INVC %d' % (sl, g)) and g >= 3: t.inval(g)
        elif x < 0.90: self.rand_alloc(sl)
        elif x < 0.93:
            k = r.choice([('MKU', self.rand_dv(sl, False)), ('GET', (r.randrange(self.nsub + 1), r.randint(0, 6))), ('MK', (0, 9)), ('SDV', (self.nsub, 0))])
            if k[1]: self.e('On %d %s %d %d%s' % (sl, k[0], k[1][0], k[1][1], ' 3' if k[0] == 'SDV' else ''))
        else: self.copyop(r.randrange(self.nslot), sl)
    def copyop(self, d, s):
        kind = self.r.choice(['CP', 'CP', 'AS', 'AS', 'MV'])
        if not self.e('%s %d %d' % (kind, d, s)): return
        self.feat.add(kind)
        if kind == 'MV': self.T[d], self.T[s] = self.T[s], self.T[d]
        elif d != s: self.T[d] = self.T[s].copied()
    # ------------------------------------------------------------ templates
    def t_chain(self, sl):
        """q/dv <- A <- B <- C and a diamond D(A,B), possibly across subsystems"""
        r = self.r; ss = 0; self.feat.add('chain')
        self.e('On %d AQ %d 1' % (sl, ss)); self.allocdv(sl, ss, r.randint(4, 9), 5)
        d = r.randint(4, 7)
        a = self.allocce(sl, ss, d, 10, q=1, dvs=[(ss, len(self.T[sl].subs[ss]['dvs']) - 1)] if self.T[sl].subs[ss]['dvs'] else [])
        if a is None: return
        if self.nsub > 1 and r.random() < 0.6:
            self.realize(sl, 1); s2 = 1
        else: s2 = ss
        b = self.allocce(sl, s2, r.randint(d, 9), 10, ces=[a])
        if b is None: return
        c = self.allocce(sl, s2, 9 if r.random() < 0.5 else self.T[sl].subs[s2]['ces'][b[1]]['dep'], r.choice([9, 10]), ces=[b])
        self.allocce(sl, s2, 9, 10, ces=[a, b] if c is None else [a, b, c][:r.choice([2, 3])])
    def t_auto(self, sl):
        r = self.r; ss = r.randrange(self.nsub); self.feat.add('autodep')
        self.allocdv(sl, ss, r.randint(5, 9), 5, r.randint(4, 5))
        b = self.T[sl].subs[ss]
        if not b['dvs']: return
        dk = (ss, len(b['dvs']) - 1)
        if r.random() < 0.7: self.realize(sl, 1)
        x = r.random()
        if x < 0.6: self.allocce(sl, ss, 4, 10, dvs=[dk])
        elif x < 0.8: self.allocce(sl, ss, 5, 10, ces=[(ss, b['dvs'][dk[1]]['auto'])])
        self.realize(sl, r.randint(4, 6))
        for k in [(ss, i) for i in range(len(b['ces'])) if not b['ces'][i].get('upd')]: self.e('On %d MK %d %d' % (sl, k[0], k[1]))
        self.e('On %d SDU %d %d 7' % (sl, dk[0], dk[1])); self.e('On %d MKU %d %d' % (sl, dk[0], dk[1]))
        if r.random() < 0.3: self.copyop((sl + 1) % self.nslot, sl)
        self.e('On %d AUTO' % sl)
    def t_markahead(self, sl):
        r = self.r; ss = r.randrange(self.nsub); d = r.randint(4, 9); self.feat.add('markahead')
        self.e('On %d A%s %d 1' % (sl, r.choice('QUZ'), ss))
        k = self.allocce(sl, ss, d, r.choice([d, 10, 10]))
        self.realize(sl, d - 1)
        if k: self.e('On %d MK %d %d' % (sl, k[0], k[1]))
        (self.upds(sl, r.choice([0, 1, 2]), ss) if r.random() < 0.5 else self.upd(sl, r.choice([0, 1, 2, 4]))); self.realize(sl, d)
    def t_copyreal(self, sl):
        r = self.r; ss = r.randrange(self.nsub); d = r.randint(4, 8); self.feat.add('copyreal')
        self.e('On %d AQ %d 1' % (sl, ss)); k = self.allocce(sl, ss, d, r.choice([d + 1, 10, 10]))
        self.realize(sl, r.randint(d, 9))
        if k: self.e('On %d SCE %d %d 10' % (sl, k[0], k[1])); self.e('On %d MK %d %d' % (sl, k[0], k[1]))
        if r.random() < 0.5:
            self.upd(sl, r.choice([0, 1, 4]))
            if r.random() < 0.5: self.realize(sl, d); (k and self.e('On %d MK %d %d' % (sl, k[0], k[1]))); self.upd(sl, r.choice([0, 4]))
        d2 = (sl + 1) % self.nslot; self.copyop(d2, sl)
        if r.random() < 0.7: self.realize(d2, d)
        if r.random() < 0.5: self.upd(d2, r.choice([0, 4])); self.realize(d2, d)
    def build(self):
        r = self.r; sl = 0
        # allocations before realizeTopology / realizeModel / realizeInstance
        tpl = r.random()
        if tpl < 0.18: self.t_chain(sl)
        elif tpl < 0.34: self.t_auto(sl)
        elif tpl < 0.44: self.t_markahead(sl)
        elif tpl < 0.56: self.t_copyreal(sl)
        for g in (1, 2, 3):
            if self.T[sl].sys >= g: continue
            for _ in range(r.choice([0, 1, 2, 3, 4]) if g < 3 else r.choice([0, 0, 1, 2])): self.rand_alloc(sl)
            if r.random() < 0.9: self.advall(sl)
            else: self.advsub(sl, r.randrange(self.nsub))
        budget = self.maxops if r.random() < 0.7 else r.randint(len(self.ops), self.maxops)
        while len(self.ops) < budget:
            n = len(self.ops)
            live = [i for i in range(self.nslot) if self.T[i].sys > 0 or any(b['ces'] or b['dvs'] for b in self.T[i].subs)] or [0]
            self.rand_op(r.choice(live) if r.random() < 0.9 else r.randrange(self.nslot))
            if len(self.ops) == n and r.random() < 0.05: break
        return '\n'.join([self.head] + self.ops + ['END']) + '\n'

def gen_seq(rng, sid, maxops=60):
    g = Gen(rng, sid, maxops); txt = g.build()
    return txt, g
