"""C19 Integrators honour the step/report/final-time contract (DESIGN 5 C19, 7.11, 7.18, Appendix B).

Theorems: coq/Props/Properties_C19.v about the executable models coq/C19/C19_Model.v (AbstractIntegratorRep::stepTo)
and coq/C19/C19_CPodes.v (CPodesIntegratorRep::stepTo).
Tie (checked on every run): the hooks in AbstractIntegratorRep.cpp / CPodesIntegrator.cpp record every takeOneStep /
CPodes::step outcome and the integrator's communication state at entry and exit of every stepTo of the real
integrators; the extracted model is replayed with oracle := recorded outcomes and must reproduce status, returned time,
advanced time, communication status, interpolation flag and event window exactly, and must have asked the oracle with
exactly the recorded (t0, tMax, tReport).  Independently the six predicates of the property are evaluated on the
implementation's own return sequence (failing-input search); this part also runs when the hooks are not applied."""
import os, sys, math, json
from vlib import *

PROPS = ['Props/Properties_C19.v']
KINDS = ['ExplicitEuler', 'RungeKutta2', 'RungeKutta3', 'RungeKuttaFeldberg', 'RungeKuttaMerson', 'Verlet',
         'SemiExplicitEuler', 'SemiExplicitEuler2', 'CPodes']
INF = float('inf')

EXTRACT_V = '''From Coq Require Import Extraction ExtrOcamlBasic.
Require Import C19_Model C19_CPodes C21_Model.
Extraction "C19m.ml" stepTo reinit init_state oracle_okb select_t1 tState stepToC reinitC init_stateC cp_okb tStateC adjust attempts.
'''

def fx(s):
    return float.fromhex(s) if s not in ('nan', '-nan', 'inf', '-inf') else float(s)

def hx(x):
    if x != x: return 'nan'
    if x == INF: return 'inf'
    if x == -INF: return '-inf'
    return float(x).hex()

# ------------------------------------------------------------------------------------------------ harness
def build_tools(ctx):
    """extract the models, build the OCaml driver and the C++ driver; returns (drv, exe) or None"""
    d = ctx.bdir('ex')
    if not ctx.extract(EXTRACT_V, d):
        ctx.broken.append(('correspondence:extract', 'extraction of the C19 models failed')); return None
    src = open(os.path.join(VERIF, 'ocaml', 'C19_drv.ml')).read()
    src = src.replace('(*FOPS*)', open(os.path.join(VERIF, 'ocaml', 'fops.inc')).read())
    src = src.replace('(*CPODES*)', open(os.path.join(VERIF, 'ocaml', 'C19_cpodes.inc')).read())
    open(os.path.join(d, 'drv.ml'), 'w').write(src)
    if not ctx.ocaml(d, ['C19m.mli', 'C19m.ml', 'drv.ml'], 'drv'):
        ctx.broken.append(('correspondence:ocaml', 'OCaml driver for the extracted C19 model does not build')); return None
    exe = ctx.bdir('C19_drive')
    if not ctx.cxx(os.path.join(VERIF, 'harness', 'C19_drive.cpp'), exe):
        ctx.broken.append(('correspondence:harness', 'C19_drive.cpp does not compile against the tree under test')); return None
    return os.path.join(d, 'drv'), exe

def run_harness(exe, seed, n, mode):
    rc, out, err = sh([exe, str(seed), str(n), mode], timeout=1500)
    if rc == 127:
        # the shared libraries were being relinked by a concurrent build of the shared tree: wait for its lock, retry once
        sh([os.path.join(VERIF, 'bin', 'build_repo')], timeout=3600)
        rc, out, err = sh([exe, str(seed), str(n), mode], timeout=1500)
    return parse_harness(out), rc

def parse_harness(out):
    scripts = []; cur = None; call = None
    for line in out.split('\n'):
        if not line: continue
        tk = line.split()
        if tk[0] == 'SCRIPT':
            cur = {'id': int(tk[1]), 'name': tk[2], 'ev': [], 'initfail': False}
            for kv in tk[3:]:
                k, v = kv.split('=')
                cur[k] = v
            for k in ('kind', 'sys', 'nw', 'allowInterp', 'everyStep', 'limit', 'projInterp', 'useInf', 'loose'):
                if k in cur: cur[k] = int(cur[k])
            for k in ('final', 'tStart', 'acc', 'ctol'):
                if k in cur: cur[k] = fx(cur[k])
            scripts.append(cur)
        elif tk[0] == 'INITFAIL': cur['initfail'] = True
        elif tk[0] == 'CALL':
            call = {'type': 'call', 'report': fx(tk[1]), 'sched': fx(tk[2]), 'recs': [], 'ret': None, 'throw': None}
            cur['ev'].append(call)
        elif tk[0] == 'T':
            call['recs'].append((tk[1], [fx(x) for x in tk[2:]]))
        elif tk[0] == 'RET':
            call['ret'] = {'status': tk[1], 't': fx(tk[2]), 'adv': fx(tk[3]), 'over': int(tk[4]), 'w0': fx(tk[5]), 'w1': fx(tk[6]),
                           'qerr': fx(tk[7]), 'uerr': fx(tk[8]), 'tol': fx(tk[9]), 'interp': int(tk[10]),
                           'aqerr': fx(tk[11]) if len(tk) > 12 else 0.0, 'auerr': fx(tk[12]) if len(tk) > 12 else 0.0}
            if len(tk) > 16:    # infinity norms of the same four error vectors
                call['ret'].update({'qerr_inf': fx(tk[13]), 'uerr_inf': fx(tk[14]), 'aqerr_inf': fx(tk[15]), 'auerr_inf': fx(tk[16])})
        elif tk[0] == 'THROW': call['throw'] = tk[1]
        elif tk[0] == 'REINIT':
            cur['ev'].append({'type': 'reinit', 'low': int(tk[1]), 'term': int(tk[2])})
    return scripts

# ------------------------------------------------------------------------------------------------ predicates
def predicates(sc, hyp_sched_ok=True):
    """the six clauses of C19 on the implementation's own return sequence of one script.
    Returns list of (clause, description, call index)."""
    fails = []
    fin = sc['final'] if sc['final'] > 0 else INF
    tprev = sc['tStart']; nend = 0; over = False
    for i, e in enumerate(sc['ev']):
        if e['type'] != 'call': continue
        rep, sch = e['report'], e['sched']
        if over:
            if e['throw'] != 'refused':
                fails.append(('end_of_simulation_once_then_refused', 'stepTo after EndOfSimulation was not refused', i))
            continue
        if e['throw']:
            if e['throw'] == 'refused':
                fails.append(('end_of_simulation_once_then_refused', 'stepTo refused although EndOfSimulation had not been returned', i))
            break        # other exceptions (numerical step failure) end the script; counted by the caller
        r = e['ret']
        if r is None: break
        t, adv, st = r['t'], r['adv'], r['status']
        earliest = min(rep, sch, fin)
        if t > earliest:
            fails.append(('returned_time_le_earliest_pending', '%s returned t=%s > earliest pending %s (report %s sched %s final %s)' % (st, hx(t), hx(earliest), hx(rep), hx(sch), hx(fin)), i))
        if t < tprev:
            fails.append(('time_monotone', 'returned time decreased %s -> %s (%s)' % (hx(tprev), hx(t), st), i))
        if adv > min(sch, fin):
            fails.append(('advanced_never_passes_sched_or_final', 'advanced time %s passed min(sched,final)=%s (%s)' % (hx(adv), hx(min(sch, fin)), st), i))
        if st == 'ReachedReportTime' and not (t == rep or t == fin):
            fails.append(('report_sched_final_stops_exact', 'ReachedReportTime at %s, report=%s final=%s' % (hx(t), hx(rep), hx(fin)), i))
        if st == 'ReachedScheduledEvent' and t != sch:
            fails.append(('report_sched_final_stops_exact', 'ReachedScheduledEvent at %s, sched=%s' % (hx(t), hx(sch)), i))
        if st == 'EndOfSimulation':
            nend += 1; over = True
            if t != fin: fails.append(('report_sched_final_stops_exact', 'EndOfSimulation at %s, final=%s' % (hx(t), hx(fin)), i))
            if nend > 1: fails.append(('end_of_simulation_once_then_refused', 'EndOfSimulation returned twice', i))
        if bool(r['over']) != over:
            fails.append(('end_of_simulation_once_then_refused', 'isSimulationOver()=%d after %s' % (r['over'], st), i))
        if st == 'ReachedEventTrigger':
            w0, w1 = r['w0'], r['w1']
            if not (w0 < w1 and t == w0):
                fails.append(('no_pending_time_inside_event_window', 'event window (%s,%s], returned t=%s' % (hx(w0), hx(w1), hx(t)), i))
            for nm, x in (('report', rep), ('sched', sch), ('final', fin)):
                if w0 < x < w1:
                    fails.append(('no_pending_time_inside_event_window', '%s time %s strictly inside reported window (%s,%s)' % (nm, hx(x), hx(w0), hx(w1)), i))
        tprev = t
    return fails

def script_summary(sc, upto=None):
    """compact, replayable description of a script (requests and returns)"""
    out = {'integrator': sc['name'], 'system_kind': sc['sys'], 'witness_functions': sc['nw'], 'final': hx(sc['final']),
           'allowInterp': sc['allowInterp'], 'everyStep': sc['everyStep'], 'limit': sc['limit'], 'projInterp': sc['projInterp'],
           'tStart': hx(sc['tStart']), 'calls': []}
    for i, e in enumerate(sc['ev']):
        if upto is not None and i > upto: break
        if e['type'] == 'reinit': out['calls'].append('reinitialize(low=%d, terminate=%d)' % (e['low'], e['term']))
        else:
            r = e['ret']
            out['calls'].append('stepTo(%s, %s) -> %s' % (hx(e['report']), hx(e['sched']),
                                ('THROW ' + e['throw']) if e['throw'] else ('%s t=%s adv=%s' % (r['status'], hx(r['t']), hx(r['adv'])) if r else '?')))
    return out

# ------------------------------------------------------------------------------------------------ replay through the model
def rec_of(call, tag):
    return [v for t, v in call['recs'] if t == tag]

def cfg_line(sc):
    return 'A %s %d %d %s %d' % (hx(sc['final']) if sc['final'] != -1.0 else 'none', sc['allowInterp'], sc['everyStep'],
                                 str(sc['limit']) if sc['limit'] > 0 else 'none', sc['projInterp'])

def proj_flag(call, t1):
    """did the accepted attempt ending at t1 leave attemptDAEStep through the projecting exit?  Known only for the
    integrators using the default attemptDAEStep (records C21.dae present); otherwise assumed (1)."""
    if not rec_of(call, 'C21.dae'): return 1
    return 1 if any(v[0] == t1 for v in rec_of(call, 'C21.daeproj')) else 0

def replay_abstract(sc, drv, percall=None):
    """returns (n_calls_compared, n_uses, mismatch or None, paths set)"""
    lines = [cfg_line(sc)]; expect = []
    first = True
    for e in sc['ev']:
        if e['type'] == 'reinit':
            lines.append('I %d %d' % (e['low'], e['term'])); continue
        ent = rec_of(e, 'C19.enter')
        if not ent: return 0, 0, None, set()      # hooks absent
        ent = ent[0]
        if first:
            comm, ts, ta, ip, ci = int(ent[0]), ent[1], ent[2], int(ent[3]), int(ent[4])
            lines.append('S %d %s %s %d %s %s %d 1 0' % (comm, hx(ta), hx(ts), ip, hx(ent[12]), hx(ent[13]), ci))
            first = False
        lines.append('P'); expect.append(('pre', e, ent))
        for v in rec_of(e, 'C19.step'):
            lines.append('O %s %d %s %s %d %s' % (hx(v[7]), int(v[4]), hx(v[5]), hx(v[6]), proj_flag(e, v[3]), hx(v[3])))
        lines.append('R %s %s' % (hx(e['report']), hx(e['sched']))); expect.append(('ret', e, None))
        if e['throw'] and e['throw'] != 'refused': break
    rc, out, err = sh([drv], input='\n'.join(lines) + '\n', timeout=300)
    res = [l for l in out.split('\n') if l.strip()]
    ncalls = nuses = 0; paths = set()
    if len(res) != len(expect):
        return 0, 0, 'model driver produced %d lines for %d commands: %s' % (len(res), len(expect), (out + err)[-300:]), paths
    for (kind, e, ent), l in zip(expect, res):
        tk = l.split()
        where = 'script %d (%s) stepTo(%s,%s): ' % (sc['id'], sc['name'], hx(e['report']), hx(e['sched']))
        if kind == 'pre':
            if tk[0] != 'STATE': return ncalls, nuses, where + 'bad driver line ' + l, paths
            m = (int(tk[1]), fx(tk[2]), fx(tk[3]), int(tk[4]), int(tk[7]))
            im = (int(ent[0]), ent[1], ent[2], int(ent[3]), int(ent[4]))
            if m != im:
                return ncalls, nuses, where + 'state at entry differs: model (comm,t,adv,interp,startCI)=%s implementation=%s' % (m, im), paths
            # the options the integrator actually uses are the ones the model was configured with
            opts = (ent[7], int(ent[8]) != 0, int(ent[9]) == 1, int(ent[10]) if int(ent[10]) > 0 else -1, int(ent[11]) != 0)
            decl = (sc['final'], bool(sc['allowInterp']), bool(sc['everyStep']), sc['limit'] if sc['limit'] > 0 else -1, bool(sc['projInterp']))
            if opts != decl: return ncalls, nuses, where + 'options differ: integrator %s, declared %s' % (opts, decl), paths
            continue
        ncalls += 1
        if e['throw']:
            want = {'refused': 'REFUSED', 'noadvance': 'STEPFAILED'}.get(e['throw'])
            if want is None:
                paths.add('exception:other'); continue
            if tk[0] != want: return ncalls, nuses, where + 'implementation threw (%s), model says %s' % (e['throw'], l[:80]), paths
            paths.add(want); continue
        r = e['ret']; ex = rec_of(e, 'C19.exit')[-1]
        if tk[0] != 'OK': return ncalls, nuses, where + 'implementation returned %s, model says %s' % (r['status'], l[:60]), paths
        mst, mcomm, mt, madv, mip, mlo, mhi = tk[1], int(tk[2]), fx(tk[3]), fx(tk[4]), int(tk[5]), fx(tk[6]), fx(tk[7])
        if mst != r['status']: return ncalls, nuses, where + 'status: implementation %s, model %s' % (r['status'], mst), paths
        if mt != r['t'] or madv != r['adv']:
            return ncalls, nuses, where + '%s: implementation t=%s adv=%s, model t=%s adv=%s' % (mst, hx(r['t']), hx(r['adv']), hx(mt), hx(madv)), paths
        if (mcomm, mip) != (int(ex[0]), int(ex[3])) or mt != ex[1] or madv != ex[2]:
            return ncalls, nuses, where + 'state at exit differs: model (comm,interp)=%s implementation=%s' % ((mcomm, mip), (int(ex[0]), int(ex[3]))), paths
        if mcomm in (1, 3) and (mlo, mhi) != (ex[5], ex[6]):
            return ncalls, nuses, where + 'event window: model (%s,%s) implementation (%s,%s)' % (hx(mlo), hx(mhi), hx(ex[5]), hx(ex[6])), paths
        if mst == 'ReachedEventTrigger' and (mlo, mhi) != (r['w0'], r['w1']):
            return ncalls, nuses, where + 'getEventWindow() differs from the model window', paths
        unused = int(tk[11].split('=')[1]); nu = int(tk[12].split('=')[1])
        steps = rec_of(e, 'C19.step')
        if unused != 0 or nu != len(steps):
            return ncalls, nuses, where + 'model consumed %d of %d recorded takeOneStep outcomes' % (nu, len(steps)), paths
        rest = l.split('|')[1:]
        for u, v in zip(rest, steps):
            ut = u.split()
            if (fx(ut[0]), fx(ut[1]), fx(ut[2])) != (v[0], v[1], v[2]):
                return ncalls, nuses, where + 'takeOneStep arguments: model (t0,tMax,tReport)=(%s,%s,%s) implementation (%s,%s,%s)' % (
                    ut[0], ut[1], ut[2], hx(v[0]), hx(v[1]), hx(v[2])), paths
            if ut[3] != '1':
                return ncalls, nuses, where + 'recorded takeOneStep outcome violates the oracle contract: t0=%s tMax=%s tReport=%s t1=%s ev=%d window=(%s,%s)' % (
                    hx(v[0]), hx(v[1]), hx(v[2]), hx(v[7]), int(v[4]), hx(v[5]), hx(v[6])), paths
            nuses += 1
        if percall is not None: percall.append((e, tk))
        paths.add('%s/comm%d/interp%d/steps%s' % (mst, mcomm, mip, '0' if nu == 0 else ('1' if nu == 1 else 'n')))
    return ncalls, nuses, None, paths

def replay_t1(scripts, drv):
    """t1 selection arithmetic of takeOneStep: the float instance of select_t1 against the recorded (t0,tMax,h,t1,limited)"""
    recs = []
    for sc in scripts:
        for e in sc['ev']:
            if e['type'] == 'call': recs += rec_of(e, 'C19.t1sel')
    if not recs: return 0, None
    rc, out, err = sh([drv], input=''.join('T %s %s %s\n' % (hx(v[0]), hx(v[1]), hx(v[2])) for v in recs), timeout=300)
    res = [l.split() for l in out.split('\n') if l.startswith('T1')]
    if len(res) != len(recs): return 0, 'driver produced %d lines for %d t1 selections' % (len(res), len(recs))
    for v, l in zip(recs, res):
        if fx(l[1]) != v[3] or int(l[2]) != int(v[4]):
            return len(recs), 'select_t1(t0=%s,tMax=%s,h=%s): implementation t1=%s limited=%d, model t1=%s limited=%s' % (
                hx(v[0]), hx(v[1]), hx(v[2]), hx(v[3]), int(v[4]), l[1], l[2])
    return len(recs), None

from C19_cpodes import replay_cpodes     # second model (CPodesIntegratorRep::stepTo)

# ------------------------------------------------------------------------------------------------ known-finding witnesses
def witness_711(ctx, exe):
    """DESIGN 7.11: scheduled-event time lowered below the time already advanced to (documented precondition holds)."""
    scripts, rc = run_harness(exe, ctx.seed, 3, 'w711')
    hits = 0
    for sc in scripts:
        calls = [e for e in sc['ev'] if e['type'] == 'call' and e['ret']]
        if len(calls) < 3: continue
        c2, c3 = calls[1], calls[2]
        # precondition as documented: report and scheduled time not earlier than the current (returned) time
        if c3['report'] >= c2['ret']['t'] and c3['sched'] >= c2['ret']['t'] and c3['ret']['t'] > c3['sched']:
            hits += 1
            ctx.report('sched-lowered-below-advanced-time',
                       'stepTo(report=%s, sched=%s) returned %s at t=%s later than the pending scheduled event, advanced state at %s (%s, previous call left the advanced state at %s)' % (
                           hx(c3['report']), hx(c3['sched']), c3['ret']['status'], hx(c3['ret']['t']), hx(c3['ret']['adv']), sc['name'], hx(c2['ret']['adv'])),
                       {'script': script_summary(sc), 'theorem': 'C19_returned_time_le_earliest_pending_refuted'})
    ctx.extra['witness_7_11_reproduced'] = hits
    return hits

def witness_window(ctx, exe):
    """a new report time placed strictly inside an event window localized (but not yet reported) by an earlier call"""
    scripts, rc = run_harness(exe, ctx.seed, 5, 'wwin')
    hits = 0; late = 0
    for sc in scripts:
        fails = predicates(sc)
        inside = [f for f in fails if f[0] == 'no_pending_time_inside_event_window']
        other = [f for f in fails if f[0] in ('returned_time_le_earliest_pending', 'time_monotone')]
        if inside:
            hits += 1
            if other: late += 1
            ctx.report('report-inside-earlier-localized-window',
                       '%s: %s%s' % (sc['name'], inside[0][1], ('; afterwards ' + other[0][1]) if other else ''),
                       {'script': script_summary(sc), 'theorem': 'C19_no_pending_time_inside_event_window_refuted'})
    ctx.extra['witness_window_reproduced'] = hits
    ctx.extra['witness_window_followed_by_late_return'] = late
    return hits

def witness_cpodes(ctx, exe):
    """DESIGN 7.18 (b): the CPodes wrapper leaves the advanced state beyond a pending scheduled event"""
    scripts, rc = run_harness(exe, ctx.seed, 3, 'wcp')
    hits = 0
    for sc in scripts:
        fails = [f for f in predicates(sc) if f[0] == 'advanced_never_passes_sched_or_final']
        others = [f for f in predicates(sc) if f[0] != 'advanced_never_passes_sched_or_final']
        if fails:
            hits += 1
            ctx.report('cpodes-advanced-passes-sched', 'CPodes: ' + fails[0][1],
                       {'script': script_summary(sc, fails[0][2]), 'theorem': 'C19_cp_advanced_never_passes_sched_refuted'})
        for f in others[:1]:
            ctx.report('impl:%s:CPodes' % f[0], 'CPodes violates C19 clause %s: %s' % (f[0], f[1]), {'script': script_summary(sc, f[2]), 'clause': f[0]})
    ctx.extra['witness_cpodes_7_18b_reproduced'] = hits
    return hits

# ------------------------------------------------------------------------------------------------ main
def correspondence(ctx, tools, nscripts, seeds):
    drv, exe = tools
    tot_calls = tot_uses = tot_t1 = 0; paths = set(); samples = []; hooks = False
    per_kind = {k: 0 for k in KINDS}; exc_other = 0; pred_evals = 0; pred_fail = []
    all_scripts = []; impl_paths = set()
    for sd in seeds:
        scripts, rc = run_harness(exe, sd, nscripts, 'rand')
        if rc != 0 or not scripts:
            ctx.broken.append(('correspondence:harness-run', 'C19_drive exited with %d' % rc)); return None
        all_scripts += scripts
        for sc in scripts:
            if sc['initfail']: continue
            ncall = len([e for e in sc['ev'] if e['type'] == 'call'])
            for e in sc['ev']:
                if e['type'] == 'call':
                    impl_paths.add((sc['name'], e['ret']['status'] if e['ret'] else 'THROW:' + str(e['throw']), e['ret']['interp'] if e['ret'] else 0))
            per_kind[sc['name']] += ncall
            exc_other += len([e for e in sc['ev'] if e['type'] == 'call' and e['throw'] == 'other'])
            # the property's predicates on the implementation's own returns
            fails = predicates(sc); pred_evals += ncall
            for f in fails: pred_fail.append((sc, f))
            has = any(e['type'] == 'call' and any(t in ('C19.enter', 'C19c.enter') for t, v in e['recs']) for e in sc['ev'])
            hooks = hooks or has
            if not has: continue
            if sc['kind'] == 8: n, u, mm, ps = replay_cpodes(sc, drv)
            else: n, u, mm, ps = replay_abstract(sc, drv)
            tot_calls += n; tot_uses += u; paths |= ps
            if mm and not any(b[0].startswith('correspondence:') for b in ctx.broken):
                ctx.broken.append(('correspondence:' + ('CPodes' if sc['kind'] == 8 else 'stepTo'), mm))
                ctx.extra['first_disagreement_script'] = script_summary(sc)
            if len(samples) < 4 and n:
                samples.append('%s final=%s interp=%d everyStep=%d limit=%d: %d calls replayed' % (sc['name'], hx(sc['final']), sc['allowInterp'], sc['everyStep'], sc['limit'], n))
        n1, mm = replay_t1(scripts, drv)
        tot_t1 += n1
        if mm: ctx.broken.append(('correspondence:select_t1', mm))
    return dict(hooks=hooks, calls=tot_calls, uses=tot_uses, t1=tot_t1, paths=paths, samples=samples, per_kind=per_kind,
                exc_other=exc_other, pred_evals=pred_evals, pred_fail=pred_fail, scripts=all_scripts, impl_paths=impl_paths)

CP_KNOWN = {'advanced_never_passes_sched_or_final': 'cpodes-advanced-passes-sched'}

def report_pred_failures(ctx, pred_fail):
    seen = set()
    for sc, (clause, desc, i) in pred_fail:
        key = 'impl:%s:%s' % (clause, sc['name'])
        if sc['kind'] == 8 and clause in CP_KNOWN: key = CP_KNOWN[clause]
        if clause == 'no_pending_time_inside_event_window' and 'report time' in desc and sc['kind'] != 8:
            # the window was localized by an EARLIER call (this call took no step that found an event): the request violated
            # the hypothesis req_ok -- that is the known finding, not the clause proved under req_ok
            e = sc['ev'][i]
            if any(t == 'C19.enter' for t, v in e['recs']) and not any(t == 'C19.step' and int(v[4]) == 1 for t, v in e['recs']):
                key = 'report-inside-earlier-localized-window'
        if key in seen: continue
        seen.add(key)
        ctx.report(key, '%s violates C19 clause %s: %s' % (sc['name'], clause, desc),
                   {'script': script_summary(sc, i), 'clause': clause})

def run(ctx):
    ctx.build_repo()
    ctx.coq_props(PROPS)
    tools = build_tools(ctx)
    if tools is None:
        ctx.finish()
    nscripts = 270 if ctx.tier == 'quick' else 540
    seeds = [ctx.seed] if ctx.tier == 'quick' else [ctx.seed + k for k in range(5)]
    res = correspondence(ctx, tools, nscripts, seeds)
    if res is not None:
        ctx.add_cases(res['pred_evals'] + res['calls'], len(res['impl_paths']), res['samples'] or ['%s %s interpolated=%d' % p for p in sorted(res['impl_paths'])[:6]])
        ctx.cov['rule'] = ('one evaluation = one stepTo call of a real integrator (9 integrators x random systems/options/request scripts, '
                           'all choices from the seed): the six C19 predicates are evaluated on its return, and (hooks present) the call is '
                           'replayed through the extracted model with the recorded takeOneStep outcomes as oracle, compared exactly. '
                           'distinct_nontrivial = distinct (integrator, returned status or exception, interpolated?) combinations observed; '
                           'paths_reached lists the (status, communication status, interpolated?, oracle answers used 0/1/n) combinations of replayed calls')
        ctx.extra['hooks_present'] = res['hooks']
        ctx.extra['replayed_calls'] = res['calls']
        ctx.extra['oracle_uses_checked_against_contract'] = res['uses']
        ctx.extra['t1_selections_compared'] = res['t1']
        ctx.extra['predicate_evaluated_calls'] = res['pred_evals']
        ctx.extra['calls_per_integrator'] = res['per_kind']
        ctx.extra['paths_reached'] = sorted(res['paths'])
        ctx.extra['numerical_exceptions_not_modelled'] = res['exc_other']
        if not res['hooks']:
            ctx.notes.append('hooks absent'); ctx.extra['trace_replay'] = 'SKIPPED: no trace records arrived (hooks C19_hook_*.diff not applied in the tree under test); only the predicate run was done'
        else:
            ctx.extra['trace_replay'] = 'done'
        report_pred_failures(ctx, res['pred_fail'])
    # known findings: replay the refutation witnesses on the implementation
    witness_711(ctx, tools[1])
    witness_window(ctx, tools[1])
    witness_cpodes(ctx, tools[1])
    ctx.assumptions += [
        'takeOneStep and CPodes::step are oracles; the theorems assume the contract oracle_ok / cp_ok at each use (the replay evaluates the contract on every recorded outcome)',
        'times are modelled in Q: doubles and +Infinity embed order-preservingly, only min and comparisons are applied to them',
        'request sequences: report >= current time, scheduled-event and final time never earlier than the time already advanced to (DESIGN 7.11), no new report time strictly inside an event window localized by an earlier call',
        'hooks are placed where patches/C19_hook_*.diff say (trusted)']
    ctx.finish()
