"""C19: replay of CPodesIntegratorRep::stepTo traces through the second model (coq/C19/C19_CPodes.v)."""
def replay_cpodes(sc, drv):
    return 0, 0, None, set()
