"""C19: replay of CPodesIntegratorRep::stepTo traces through the second model (coq/C19/C19_CPodes.v).
Oracle := recorded CPodes::step outcomes (hook C19c.step / C19c.root); the model must reproduce status, returned and
advanced time, communication status, interpolation flag, pendingReturnCode, previousTimeReturned, savedY flag and the
event window exactly, and must have called CPodes::step with exactly the recorded (t0, tMax, mode)."""
from vlib import sh

def fx(s):
    return float.fromhex(s) if s not in ('nan', '-nan', 'inf', '-inf', 'none') else (float('nan') if s == 'none' else float(s))
def hx(x):
    if x != x: return 'nan'
    if x == float('inf'): return 'inf'
    if x == -float('inf'): return '-inf'
    return float(x).hex()
def rec_of(call, tag):
    return [v for t, v in call['recs'] if t == tag]

def replay_cpodes(sc, drv):
    """returns (n_calls_compared, n_uses, mismatch or None, paths set)"""
    lines = ['A %s %d %d %s %d' % (hx(sc['final']) if sc['final'] != -1.0 else 'none', sc['allowInterp'], sc['everyStep'],
                                   str(sc['limit']) if sc['limit'] > 0 else 'none', sc['projInterp'])]
    expect = []; first = True
    for e in sc['ev']:
        if e['type'] == 'reinit':
            lines.append('J %d %d' % (e['low'], e['term'])); continue
        ent = rec_of(e, 'C19c.enter')
        if not ent: return 0, 0, None, set()
        ent = ent[0]
        if first:
            pr = ent[13] if (ent[13] == ent[13] and abs(ent[13]) < 1e300) else 0.0
            lines.append('Z %d %s %s %d %d %d %s %d 0 0 0 0 0 %s' % (int(ent[0]), hx(ent[2]), hx(ent[1]), int(ent[3]), int(ent[4]),
                         int(ent[12]), hx(pr), int(ent[14]), hx(sc['final']) if sc['final'] != -1.0 else 'none'))
            first = False
        lines.append('Y'); expect.append(('pre', e, ent))
        outs = []
        for t, v in e['recs']:
            if t == 'C19c.step': outs.append([int(v[3]), v[4], 0.0, 0.0])
            elif t == 'C19c.root' and int(v[3]) == 0 and outs: outs[-1][2], outs[-1][3] = v[0], v[1]
        for o in outs: lines.append('Q %d %s %s %s' % (o[0], hx(o[1]), hx(o[2]), hx(o[3])))
        lines.append('X %s %s' % (hx(e['report']), hx(e['sched']))); expect.append(('ret', e, None))
        if e['throw'] and e['throw'] != 'refused': break
    rc, out, err = sh([drv], input='\n'.join(lines) + '\n', timeout=300)
    res = [l for l in out.split('\n') if l.strip()]
    ncalls = nuses = 0; paths = set()
    if len(res) != len(expect):
        return 0, 0, 'model driver produced %d lines for %d commands: %s' % (len(res), len(expect), (out + err)[-300:]), paths
    for (kind, e, ent), l in zip(expect, res):
        tk = l.split()
        where = 'script %d (CPodes) stepTo(%s,%s): ' % (sc['id'], hx(e['report']), hx(e['sched']))
        if kind == 'pre':
            m = (int(tk[1]), fx(tk[2]), fx(tk[3]), int(tk[4]), int(tk[5]), int(tk[6]), int(tk[8]))
            im = (int(ent[0]), ent[1], ent[2], int(ent[3]), int(ent[4]), int(ent[12]), int(ent[14]))
            if m != im:
                return ncalls, nuses, where + 'state at entry differs: model (comm,t,adv,interp,startCI,pending,saved)=%s implementation=%s' % (m, im), paths
            if m[5] != -1 and fx(tk[7]) != ent[13]:
                return ncalls, nuses, where + 'previousTimeReturned at entry: model %s implementation %s' % (tk[7], hx(ent[13])), paths
            continue
        ncalls += 1
        if e['throw']:
            if e['throw'] == 'refused':
                if tk[0] != 'REFUSED': return ncalls, nuses, where + 'implementation refused, model says ' + l[:80], paths
                paths.add('REFUSED')
            else:
                if tk[0] != 'STEPFAILED': return ncalls, nuses, where + 'implementation threw (%s), model says %s' % (e['throw'], l[:80]), paths
                paths.add('STEPFAILED')
            continue
        r = e['ret']; ex = rec_of(e, 'C19c.exit')[-1]
        if tk[0] != 'OK': return ncalls, nuses, where + 'implementation returned %s, model says %s' % (r['status'], l[:60]), paths
        mst = tk[1]
        m = (int(tk[2]), fx(tk[3]), fx(tk[4]), int(tk[5]), int(tk[6]), int(tk[7]), int(tk[9]))
        im = (int(ex[0]), ex[1], ex[2], int(ex[3]), int(ex[4]), int(ex[5]), int(ex[7]))
        if mst != r['status']: return ncalls, nuses, where + 'status: implementation %s, model %s' % (r['status'], mst), paths
        if (m[1], m[2]) != (r['t'], r['adv']):
            return ncalls, nuses, where + '%s: implementation t=%s adv=%s, model t=%s adv=%s' % (mst, hx(r['t']), hx(r['adv']), hx(m[1]), hx(m[2])), paths
        if m != im:
            return ncalls, nuses, where + 'state at exit differs: model (comm,t,adv,interp,startCI,pending,saved)=%s implementation=%s' % (m, im), paths
        if m[5] != -1 and fx(tk[8]) != ex[6]:
            return ncalls, nuses, where + 'previousTimeReturned at exit: model %s implementation %s' % (tk[8], hx(ex[6])), paths
        if mst == 'ReachedEventTrigger' and (fx(tk[10]), fx(tk[11])) != (r['w0'], r['w1']):
            return ncalls, nuses, where + 'event window: model (%s,%s) implementation (%s,%s)' % (tk[10], tk[11], hx(r['w0']), hx(r['w1'])), paths
        unused = int(tk[14].split('=')[1]); nu = int(tk[15].split('=')[1])
        steps = rec_of(e, 'C19c.step')
        if unused != 0 or nu != len(steps):
            return ncalls, nuses, where + 'model consumed %d of %d recorded CPodes::step outcomes' % (nu, len(steps)), paths
        bad = 0
        for u, v in zip(l.split('|')[1:], steps):
            ut = u.split()
            if (fx(ut[0]), fx(ut[1]), int(ut[2])) != (v[0], v[1], int(v[2])):
                return ncalls, nuses, where + 'CPodes::step arguments: model (t0,tMax,mode)=(%s,%s,%s) implementation (%s,%s,%d)' % (
                    ut[0], ut[1], ut[2], hx(v[0]), hx(v[1]), int(v[2])), paths
            if ut[4] != '1':
                return ncalls, nuses, where + 'recorded CPodes::step outcome violates the assumed contract cp_ok: t0=%s tMax=%s mode=%d tstop=%s res=%d tret=%s' % (
                    hx(v[0]), hx(v[1]), int(v[2]), ut[3], int(v[3]), hx(v[4])), paths
            nuses += 1
        paths.add('CPodes:%s/comm%d/interp%d/pending%d/saved%d/steps%s' % (mst, m[0], m[3], m[5], m[6], '0' if nu == 0 else ('1' if nu == 1 else 'n')))
    return ncalls, nuses, None, paths
