"""C20 Error-controlled integrators deliver the requested accuracy (DESIGN 5 C20) -- PARTIAL.

Theorems: coq/Props/Properties_C20.v about coq/C20/C20_Model.v (hand transcription of the attemptODEStep /
attemptDAEStep bodies of the eight AbstractIntegratorRep integrators, interpolateOrder3, calcErrorNorm (RMS),
adjustStepSize and the retry loop of takeOneStep).
Tie (checked on every run): the model is extracted to OCaml (float instance) and run against the compiled
integrators on the same generated cases:
  STEP  attemptDAEStep of the real integrator called once from a given (t0,y0) on a random affine/polynomial or
        nonlinear ODE: end state, error-estimate vector, errOrder, convergence flag, iteration count, error norm;
  TAKE  one internal step through the public API (initialize; stepTo with ReturnEveryInternalStep): time reached,
        end state, predicted next step size, number of rejected attempts = take_step of the model;
  ADJ   adjustStepSize called directly in sequences (NaN/Inf/0 errors, user limits, artificially limited steps);
  HERM  interpolateOrder3.
Independently the statements of the theorems are evaluated on the implementation (failing-input search, always run):
exactness on polynomials of degree <= the documented order, stability polynomial, error-estimate scaling, Hermite
exactness on cubics, the adjustStepSize contract.
NOT decided by this check (see manifest level_note): global error <= c*accuracy, monotone improvement with
tighter accuracy, convergence order on general right-hand sides, CPodes."""
import os, sys, math, json
from fractions import Fraction as Fr
from vlib import *

PROPS = ['Props/Properties_C20.v']
KINDS = ['ExplicitEuler', 'RungeKutta2', 'RungeKutta3', 'RungeKuttaFeldberg', 'RungeKuttaMerson', 'Verlet',
         'SemiExplicitEuler', 'SemiExplicitEuler2']
DOC_ORDER = {0: 1, 1: 2, 2: 3, 3: 5, 4: 4}          # as the public headers document them
INF = float('inf')

EXTRACT_V = '''From Coq Require Import Extraction ExtrOcamlBasic.
Require Import Num C20_Model.
Extraction "C20m.ml" rk2_step rk3_step rkm_step rkf_step euler_step hermite sxe_step sxe2_step verlet_step adjust err_norm err_norm_inf err_norm_sel rel_scale take_step VL.
'''

def hx(x):
    if x != x: return 'nan'
    if x == INF: return 'inf'
    if x == -INF: return '-inf'
    return float(x).hex()
def fx(s):
    return float(s) if s in ('nan', '-nan', 'inf', '-inf') else float.fromhex(s)
def hl(v): return ' '.join(hx(x) for x in v)

# ------------------------------------------------------------------------------------------------ tools
def build_tools(ctx):
    d = ctx.bdir('ex')
    if not ctx.extract(EXTRACT_V, d):
        ctx.broken.append(('correspondence:extract', 'extraction of the C20 model failed')); return None
    src = open(os.path.join(VERIF, 'ocaml', 'C20_drv.ml')).read().replace('(*FOPS*)', open(os.path.join(VERIF, 'ocaml', 'fops.inc')).read())
    open(os.path.join(d, 'drv.ml'), 'w').write(src)
    if not ctx.ocaml(d, ['C20m.mli', 'C20m.ml', 'drv.ml'], 'drv'):
        ctx.broken.append(('correspondence:ocaml', 'OCaml driver for the extracted C20 model does not build')); return None
    exe = ctx.bdir('C20_step')
    if not ctx.cxx(os.path.join(VERIF, 'harness', 'C20_step.cpp'), exe):
        ctx.broken.append(('correspondence:harness', 'C20_step.cpp does not compile against the tree under test')); return None
    return os.path.join(d, 'drv'), exe

def run_lines(prog, lines):
    rc, out, err = sh([prog], input='\n'.join(lines) + '\n', timeout=1200)
    return [l for l in out.split('\n') if l.strip()], rc, err

# ------------------------------------------------------------------------------------------------ generators
def rnd(rng, lo, hi): return rng.uniform(lo, hi)

def gen_ode(rng, kind, fam, style, quz=False):
    """random small ODE; returns (n2, nz, nd, y0, M, C)"""
    if quz: n2, nz = rng.choice([(1, 1), (2, 1), (1, 2)])
    elif kind in (5, 6, 7): n2, nz = rng.choice([(1, 0), (1, 1), (2, 1), (2, 0), (0, 2)])
    else: n2, nz = rng.choice([(0, 1), (0, 2), (0, 3), (1, 1), (1, 0)])
    n = 2 * n2 + nz; m = n2 + nz
    nd = [rng.choice([1.0, rnd(rng, 0.5, 2.0)]) for _ in range(n2)]
    y0 = [rnd(rng, -2, 2) for _ in range(n)]
    if style == 'big': y0 = [v * 50 for v in y0]            # exercises the relative scaling branch of calcRelativeScaling
    M = [0.0 if style == 'poly' else rnd(rng, -3, 3) for _ in range(m * n)]
    C = [0.0] * (m * 5)
    for i in range(m):
        if fam == 0:
            deg = 0 if style == 'lin' else rng.randint(1, 5)
            for k in range(deg): C[i * 5 + k] = rnd(rng, -2, 2)
        else:
            C[i * 5] = rnd(rng, -2, 2); C[i * 5 + 1] = rnd(rng, 0.5, 4)
    return n2, nz, nd, y0, M, C

def ode_tail(nd, y0, M, C): return '| %s | %s | %s | %s' % (hl(nd), hl(y0), hl(M), hl(C))

def aimed_err(rng, acc, order):
    """error norm for which the controller's first guess 0.9 h (acc/err)^(1/order) is g*h, with g drawn around the
    case-split boundaries of adjustStepSize (MinShrink 0.1, HysteresisLow 0.9, 1, HysteresisHigh 1.2, MaxGrow 5)"""
    g = rng.choice([0.1, 0.9, 1.0, 1.2, 5.0]) * rng.choice([0.8, 0.93, 0.97, 1.03, 1.07, 1.2])
    return acc * (0.9 / g) ** order

def gen_cases(ctx, nstep, ntake, nadj, nherm):
    rng = ctx.rng; cases = []
    for i in range(nstep):
        kind = i % 8; fam = rng.choice([0, 0, 1]); style = rng.choice(['mixed', 'mixed', 'poly', 'lin', 'big']) if fam == 0 else 'mixed'
        n2, nz, nd, y0, M, C = gen_ode(rng, kind, fam, style)
        t0 = rnd(rng, -1, 1); h = rng.choice([rnd(rng, 0.01, 0.1), rnd(rng, 0.1, 0.5)]); acc = 10 ** rnd(rng, -6, -2)
        cases.append(('STEP', kind, 'STEP %d %d %d %d %s %s %s %s' % (kind, n2, nz, fam, hx(t0), hx(h), hx(acc), ode_tail(nd, y0, M, C))))
    tk = [0, 1, 2, 3, 4, 5, 7]
    for i in range(ntake):
        kind = tk[i % 7]; fam = rng.choice([0, 1]); n2, nz, nd, y0, M, C = gen_ode(rng, kind, fam, 'mixed')
        t0 = rnd(rng, -1, 1); h = rnd(rng, 0.02, 0.4); acc = 10 ** rnd(rng, -5, -1)
        lim = rng.choice(['none', 'none', 'none', 'min', 'max', 'both', 'fixed'])
        umin = {'none': -1, 'min': h * rnd(rng, 0.3, 1.0), 'max': -1, 'both': h * rnd(rng, 0.2, 0.9), 'fixed': h}[lim]
        umax = {'none': -1, 'min': -1, 'max': h * rnd(rng, 1.0, 3.0), 'both': h * rnd(rng, 1.1, 4.0), 'fixed': h}[lim]
        tm = rng.choice(['inf', 'inf', 'half', 'near', 'far'])
        tMax = {'inf': INF, 'half': t0 + h * rnd(rng, 0.2, 0.9), 'near': t0 + h * rnd(rng, 0.96, 1.0009), 'far': t0 + h * rnd(rng, 1.5, 3)}[tm]
        cases.append(('TAKE', kind, 'TAKE %d %d %d %d %s %s %s %s %s %s %s' % (kind, n2, nz, fam, hx(t0), hx(h), hx(acc), hx(umin), hx(umax), hx(tMax), ode_tail(nd, y0, M, C))))
    # the same two case kinds under setUseInfinityNorm(true), on systems that have q, u AND z states
    for i in range(max(8, nstep // 4)):
        kind = i % 8; fam = rng.choice([0, 0, 1]); n2, nz, nd, y0, M, C = gen_ode(rng, kind, fam, rng.choice(['mixed', 'big']) if fam == 0 else 'mixed', quz=True)
        t0 = rnd(rng, -1, 1); h = rng.choice([rnd(rng, 0.01, 0.1), rnd(rng, 0.1, 0.5)]); acc = 10 ** rnd(rng, -6, -2)
        cases.append(('STEPI', kind, 'STEPI %d %d %d %d %s %s %s %s' % (kind, n2, nz, fam, hx(t0), hx(h), hx(acc), ode_tail(nd, y0, M, C))))
    for i in range(max(7, ntake // 3)):
        kind = tk[i % 7]; fam = rng.choice([0, 1]); n2, nz, nd, y0, M, C = gen_ode(rng, kind, fam, 'mixed', quz=True)
        if rng.random() < 0.5:        # fast z dynamics next to slow q,u: the z error should decide about the step
            n = 2 * n2 + nz
            for r in range(n2, n2 + nz):
                for c in range(n): M[r * n + c] *= (8.0 if c >= 2 * n2 else 1.0)
            for r in range(n2):
                for c in range(n): M[r * n + c] *= 0.05
        t0 = rnd(rng, -1, 1); h = rnd(rng, 0.02, 0.4); acc = 10 ** rnd(rng, -5, -1)
        tMax = rng.choice([INF, INF, t0 + h * rnd(rng, 1.5, 3)])
        cases.append(('TAKEI', kind, 'TAKEI %d %d %d %d %s %s %s %s %s %s %s' % (kind, n2, nz, fam, hx(t0), hx(h), hx(acc), hx(-1), hx(-1), hx(tMax), ode_tail(nd, y0, M, C))))
    # calcErrorNorm called directly, both norms, one block dominating in turn
    for i in range(max(24, nstep // 4)):
        n2, nz = rng.choice([(1, 1), (2, 1), (1, 2), (2, 3), (0, 2), (2, 0), (3, 2)])
        nd = [rng.choice([1.0, rnd(rng, 0.5, 2.0)]) for _ in range(n2)]
        y0 = [rnd(rng, -2, 2) * rng.choice([1, 1, 30]) for _ in range(2 * n2 + nz)]
        ye = [rnd(rng, -1, 1) * 10 ** rnd(rng, -6, -3) for _ in range(2 * n2 + nz)]
        dom = i % 4                     # 0: none, 1: q, 2: u, 3: z block holds the single bad component
        blocks = {1: range(0, n2), 2: range(n2, 2 * n2), 3: range(2 * n2, 2 * n2 + nz)}
        if dom and len(blocks[dom]): ye[rng.choice(list(blocks[dom]))] = rng.choice([-1, 1]) * 10 ** rnd(rng, -2, 1)
        cases.append(('NORM', -1, 'NORM %d %d %d | %s | %s | %s' % (i // 4 % 2, n2, nz, hl(nd), hl(y0), hl(ye))))
    for i in range(nadj):
        acc = 10 ** rnd(rng, -8, -1); h0 = 10 ** rnd(rng, -4, 0)
        lim = rng.choice(['none', 'none', 'min', 'max', 'both'])
        umin = h0 * rnd(rng, 0.05, 1.0) if lim in ('min', 'both') else -1
        umax = h0 * rnd(rng, 1.0, 30.0) if lim in ('max', 'both') else -1
        calls = []
        for k in range(6):
            r = rng.random()
            if r < 0.08: err = float('nan')
            elif r < 0.14: err = INF
            elif r < 0.22: err = 0.0
            elif r < 0.3: err = acc                        # boundary err == accuracy
            elif r < 0.5: err = acc * 10 ** rnd(rng, -6, 4)
            else: err = None                               # aimed at a branch boundary of adjustStepSize, see aimed_err
            od = rng.choice([1, 2, 3, 4, 5])
            if err is None: err = aimed_err(rng, acc, od)
            calls.append('| %s %d %d' % (hx(err), od, rng.choice([0, 0, 1])))
        cases.append(('ADJ', -1, 'ADJ %s %s %s %s %d %s' % (hx(acc), hx(h0), hx(umin), hx(umax), len(calls), ' '.join(calls))))
    for i in range(nherm):
        n = rng.randint(1, 4); t0 = rnd(rng, -2, 2); t1 = t0 + rnd(rng, 0.01, 1.0)
        t = rng.choice([t0, t1, t0 + (t1 - t0) * rng.random()])
        vs = [[rnd(rng, -3, 3) for _ in range(n)] for _ in range(4)]
        cases.append(('HERM', -1, 'HERM %d %s %s %s | %s | %s | %s | %s' % (n, hx(t0), hx(t1), hx(t), hl(vs[0]), hl(vs[1]), hl(vs[2]), hl(vs[3]))))
    return cases

# ------------------------------------------------------------------------------------------------ comparison
def secs(line):
    return [[x for x in s.split()] for s in line.split('|')]

def vec_close(a, b, scale, rtol=1e-10):
    if len(a) != len(b): return False
    return all(close(x, y, rtol=rtol, atol=1e-12 * scale) for x, y in zip(a, b))

def y_scale(line):
    """magnitude of the data of a STEP/TAKE case: max(1, |y0|_inf)"""
    s = secs(line)
    return max([1.0] + [abs(fx(x)) for x in s[2]])

def compare_step(case, a, b):
    sa, sb = secs(a), secs(b)
    if sa[0][0] != 'R' or sb[0][0] != 'R': return 'no result: impl "%s" model "%s"' % (a[:80], b[:80])
    if sa[0][1:4] != sb[0][1:4]: return 'converged/errOrder/iterations: impl %s model %s' % (sa[0][1:4], sb[0][1:4])
    sc = y_scale(case)
    ya, yb = [fx(x) for x in sa[1]], [fx(x) for x in sb[1]]
    if not vec_close(ya, yb, sc): return 'end state differs: impl %s model %s' % (sa[1], sb[1])
    ea, eb = [fx(x) for x in sa[2]], [fx(x) for x in sb[2]]
    if not vec_close(ea, eb, sc): return 'error estimate differs: impl %s model %s' % (sa[2], sb[2])
    na, nb = fx(sa[0][4]), fx(sb[0][4])
    if sa[0][1] == '1' and not close(na, nb, rtol=1e-9, atol=1e-11 * sc): return 'error norm differs: impl %s model %s' % (sa[0][4], sb[0][4])
    return None

def compare_take(case, a, b):
    sa, sb = secs(a), secs(b)
    if sa[0][0] != 'T' or sb[0][0] != 'T' or len(sb[0]) < 8: return 'no result: impl "%s" model "%s"' % (a[:80], b[:80])
    if sa[0][1] not in ('TimeHasAdvanced', 'ReachedScheduledEvent'): return 'unexpected status ' + sa[0][1]
    sc = y_scale(case)
    ta, tb = fx(sa[0][2]), fx(sb[0][2])
    if (sa[0][5], sa[0][6], sa[0][7]) != (sb[0][5], sb[0][6], sb[0][7]):
        return 'rejected/attempted/non-converged attempts: impl %s model %s' % (sa[0][5:8], sb[0][5:8])
    if not close(ta, tb, rtol=1e-12, atol=1e-13): return 'time reached: impl %s model %s' % (sa[0][2], sb[0][2])
    if not close(fx(sa[0][3]), fx(sb[0][3]), rtol=1e-9, atol=1e-13): return 'step size taken: impl %s model %s' % (sa[0][3], sb[0][3])
    if not close(fx(sa[0][4]), fx(sb[0][4]), rtol=1e-6, atol=1e-13): return 'predicted next step: impl %s model %s' % (sa[0][4], sb[0][4])
    if not vec_close([fx(x) for x in sa[1]], [fx(x) for x in sb[1]], sc): return 'end state differs: impl %s model %s' % (sa[1], sb[1])
    return None

def compare_adj(case, a, b):
    ta, tb = a.split(), b.split()
    if ta[0] != 'A' or tb[0] != 'A' or len(ta) != len(tb): return 'no result: impl "%s" model "%s"' % (a[:80], b[:80])
    if fx(ta[1]) != fx(tb[1]): return 'initial step: impl %s model %s' % (ta[1], tb[1])
    for i in range(3, len(ta), 2):
        if ta[i] != tb[i]: return 'call %d: success impl %s model %s' % ((i - 3) // 2, ta[i], tb[i])
        if not close(fx(ta[i + 1]), fx(tb[i + 1]), rtol=1e-12, atol=0): return 'call %d: new step impl %s model %s' % ((i - 3) // 2, ta[i + 1], tb[i + 1])
    return None

def compare_herm(case, a, b):
    ta, tb = a.split(), b.split()
    if ta[0] != 'H' or tb[0] != 'H': return 'no result: impl "%s" model "%s"' % (a[:80], b[:80])
    if not vec_close([fx(x) for x in ta[1:]], [fx(x) for x in tb[1:]], 10.0): return 'interpolated state: impl %s model %s' % (ta[1:], tb[1:])
    return None

def compare_norm(case, a, b):
    ta, tb = a.split(), b.split()
    if ta[0] != 'N' or tb[0] != 'N': return 'no result: impl "%s" model "%s"' % (a[:80], b[:80])
    if not close(fx(ta[1]), fx(tb[1]), rtol=1e-10, atol=1e-300): return 'calcErrorNorm: impl %s model %s' % (ta[1], tb[1])
    return None

def norm_predicate(case, a):
    """the theorems about calcErrorNorm on the implementation's own answer: the infinity norm is the maximum over ALL weighted
    components of q, u, z (weights: 1 for q through N Wu pinv(N), calcRelativeScaling of the start state for u and z) and the
    reported worst component attains it; the RMS norm is the largest block RMS.  Returns (key, description) or None."""
    tk = case.split(); useInf, n2, nz = int(tk[1]), int(tk[2]), int(tk[3])
    s = secs(case); y0 = [fx(x) for x in s[2]]; ye = [fx(x) for x in s[3]]
    ta = a.split()
    if ta[0] != 'N': return None
    norm, worst = fx(ta[1]), int(ta[2])
    sc = lambda v: (1.0 / abs(v)) if abs(v) > 1.0 else 1.0
    w = [1.0] * n2 + [sc(v) for v in y0[n2:]]
    comp = [abs(wi * e) for wi, e in zip(w, ye)]
    name = lambda i: ('q%d' % i) if i < n2 else ('u%d' % (i - n2)) if i < 2 * n2 else ('z%d' % (i - 2 * n2))
    if useInf:
        for i, c in enumerate(comp):
            if c > norm * (1 + 1e-9) + 1e-300:
                return ('err_norm_inf_ge_every_component', 'infinity norm %s is below the weighted error component |w*e| = %s of %s (setUseInfinityNorm(true), n2=%d nz=%d)' % (hx(norm), hx(c), name(i), n2, nz))
        if comp and not close(norm, max(comp), rtol=1e-9, atol=1e-300):
            return ('err_norm_inf_is_max', 'infinity norm %s is not the largest weighted component %s' % (hx(norm), hx(max(comp))))
        if comp and 0 <= worst < len(comp) and not close(comp[worst], norm, rtol=1e-9, atol=1e-300):
            return ('err_norm_inf_is_max', 'reported worst component %s has |w*e| = %s, the norm is %s' % (name(worst), hx(comp[worst]), hx(norm)))
    else:
        rms = lambda l: math.sqrt(sum(x * x for x in l) / len(l)) if l else 0.0
        b = [rms(comp[:n2]), rms(comp[n2:2 * n2]), rms(comp[2 * n2:])]
        if not close(norm, max(b), rtol=1e-9, atol=1e-300):
            return ('err_norm_rms_is_max_of_blocks', 'RMS norm %s is not the largest block RMS of (q,u,z) = %s' % (hx(norm), [hx(x) for x in b]))
    return None

def take_is_fragile(ctx, drv, exe, case_line):
    """a TAKE case is discontinuous in its data at the branch boundaries of adjustStepSize / t1 selection.  A case counts
    as fragile (not compared) when the MODEL's own outcome changes under a 1e-9 relative perturbation of the accuracy."""
    tk = case_line.split()
    acc = fx(tk[7]); outs = []
    for f in (1 - 1e-9, 1 + 1e-9):
        t2 = list(tk); t2[7] = hx(acc * f)
        out, rc, err = run_lines(drv, [' '.join(t2)])
        outs.append(out[0].split()[5:8] if out else None)
    base, rc, err = run_lines(drv, [case_line])
    b = base[0].split()[5:8] if base else None
    return not (outs[0] == outs[1] == b)

def correspondence(ctx, tools, cases):
    drv, exe = tools
    lines = [c[2] for c in cases]
    out_i, rc_i, err_i = run_lines(exe, lines)
    out_m, rc_m, err_m = run_lines(drv, lines)
    if rc_i != 0 or len(out_i) != len(lines):
        ctx.broken.append(('correspondence:harness-run', 'C20_step produced %d lines for %d cases (rc %d) %s' % (len(out_i), len(lines), rc_i, err_i[-300:]))); return None
    if rc_m != 0 or len(out_m) != len(lines):
        ctx.broken.append(('correspondence:model-run', 'model driver produced %d lines for %d cases (rc %d) %s' % (len(out_m), len(lines), rc_m, err_m[-300:]))); return None
    cmpf = {'STEP': compare_step, 'TAKE': compare_take, 'ADJ': compare_adj, 'HERM': compare_herm, 'STEPI': compare_step, 'TAKEI': compare_take, 'NORM': compare_norm}
    stats = {'compared': 0, 'per_kind': {k: 0 for k in KINDS}, 'per_cmd': {}, 'fragile_skipped': 0, 'paths': set(), 'exceptions': 0, 'norm_fails': [], 'norm_pred': 0}
    dis = []
    for (cmd, kind, line), a, b in zip(cases, out_i, out_m):
        if a.startswith('EXC'):
            stats['exceptions'] += 1
            if not b.startswith('T none'): dis.append((cmd, kind, line, 'implementation threw: ' + a[:200] + ' ; model: ' + b[:80]))
            continue
        mm = cmpf[cmd](line, a, b)
        if cmd == 'NORM':
            stats['norm_pred'] += 1; nf = norm_predicate(line, a)
            if nf: stats['norm_fails'].append((nf[0], nf[1], line))
            stats['paths'].add('norm inf=%s dominated by %s' % (line.split()[1], a.split()[2] if len(a.split()) > 2 else '?'))
        if mm and cmd in ('TAKE', 'TAKEI') and take_is_fragile(ctx, drv, exe, line):
            stats['fragile_skipped'] += 1; continue
        stats['compared'] += 1; stats['per_cmd'][cmd] = stats['per_cmd'].get(cmd, 0) + 1
        if kind >= 0: stats['per_kind'][KINDS[kind]] += 1
        if cmd in ('STEP', 'STEPI'): stats['paths'].add(cmd + ' ' + '%s conv=%s nit=%s' % (KINDS[kind], a.split()[1], a.split()[3]))
        if cmd in ('TAKE', 'TAKEI'): stats['paths'].add(cmd + ' ' + '%s take rejected=%s status=%s' % (KINDS[kind], a.split()[5], a.split()[1]))
        if cmd == 'ADJ':
            t = a.split()
            for i in range(3, len(t), 2): stats['paths'].add('adjust ok=%s' % t[i])
        if mm: dis.append((cmd, kind, line, mm))
    return stats, dis

# ------------------------------------------------------------------------------------------------ the theorems' predicates on the implementation
def exact_poly_value(t0, h, y0, cs):
    t0, h, y0 = Fr(t0), Fr(h), Fr(y0); t1 = t0 + h
    return y0 + sum(Fr(c) * (t1 ** (k + 1) - t0 ** (k + 1)) / (k + 1) for k, c in enumerate(cs))

def scalar_step_line(kind, t0, h, y0, lam, cs, acc=1e-3):
    C = list(cs) + [0.0] * (5 - len(cs))
    return 'STEP %d 0 1 0 %s %s %s | | %s | %s | %s' % (kind, hx(t0), hx(h), hx(acc), hx(y0), hx(lam), hl(C))

STAB = {0: [1, 1], 1: [1, 1, Fr(1, 2)], 2: [1, 1, Fr(1, 2), Fr(1, 6)],
        3: [1, 1, Fr(1, 2), Fr(1, 6), Fr(1, 24), Fr(1, 104)], 4: [1, 1, Fr(1, 2), Fr(1, 6), Fr(1, 24), Fr(1, 144)]}
# |error estimate| = K |a| h^e on y' = ... + a t^(e-1)   (theorems *_error_estimate_order); RKF per its theorem: degree 4, h^5/2080
ERRK = {0: (2, Fr(1, 2)), 1: (2, Fr(1, 2)), 2: (3, Fr(1, 12)), 4: (4, Fr(1, 90)), 3: (5, Fr(1, 2080))}

def predicates(ctx, exe, n):
    """returns (evaluations, failures [(key, desc, replay)])"""
    rng = ctx.rng; lines = []; meta = []
    for i in range(n):
        for kind in (0, 1, 2, 3, 4):
            t0 = rnd(rng, -1, 1); h = rnd(rng, 0.1, 1.0); y0 = rnd(rng, -2, 2)
            for p, tag in ((DOC_ORDER[kind], 'doc'),) + (((4, 'p4'),) if kind == 3 else ()):
                cs = [rnd(rng, -2, 2) for _ in range(p)]
                lines.append(scalar_step_line(kind, t0, h, y0, 0.0, cs)); meta.append(('poly', kind, tag, t0, h, y0, cs))
            lam = rnd(rng, -3, 1); lines.append(scalar_step_line(kind, t0, h, y0, lam, [])); meta.append(('stab', kind, '', t0, h, y0, lam))
            e, K = ERRK[kind]; cs = [rnd(rng, -2, 2) for _ in range(e)]
            lines.append(scalar_step_line(kind, t0, h, y0, 0.0, cs)); meta.append(('errest', kind, '', t0, h, y0, cs))
        # Hermite on a cubic
        a = [rnd(rng, -2, 2) for _ in range(4)]; t0 = rnd(rng, -1, 1); t1 = t0 + rnd(rng, 0.05, 1); t = t0 + (t1 - t0) * rng.random()
        P = lambda x: a[0] + a[1] * x + a[2] * x * x + a[3] * x ** 3
        D = lambda x: a[1] + 2 * a[2] * x + 3 * a[3] * x * x
        lines.append('HERM 1 %s %s %s | %s | %s | %s | %s' % (hx(t0), hx(t1), hx(t), hx(P(t0)), hx(D(t0)), hx(P(t1)), hx(D(t1)))); meta.append(('herm', -1, '', a, t0, t1, t))
        # adjustStepSize contract, no user limits
        acc = 10 ** rnd(rng, -8, -1); h0 = 10 ** rnd(rng, -3, 0)
        calls = []
        for _ in range(5):
            od = rng.randint(1, 5)
            calls.append((rng.choice([0.0, acc, acc * 10 ** rnd(rng, -5, 4), INF, float('nan')] + [aimed_err(rng, acc, od)] * 5), od, rng.choice([0, 0, 1])))
        lines.append('ADJ %s %s -1 -1 5 %s' % (hx(acc), hx(h0), ' '.join('| %s %d %d' % (hx(e), o, l) for e, o, l in calls))); meta.append(('adj', -1, '', acc, h0, calls))
    out, rc, err = run_lines(exe, lines)
    fails = []; ev = 0
    if len(out) != len(lines): return 0, [('impl:harness', 'predicate harness produced %d lines for %d cases' % (len(out), len(lines)), {})]
    for line, m, o in zip(lines, meta, out):
        ev += 1
        what = m[0]
        if what in ('poly', 'stab', 'errest'):
            s = secs(o)
            if s[0][0] != 'R': fails.append(('impl:step-failed:' + KINDS[m[1]], o[:200], {'case': line})); continue
            y1 = fx(s[1][0]); ye = fx(s[2][0]); kind = m[1]
            if what == 'poly':
                _, _, tag, t0, h, y0, cs = m
                ex = exact_poly_value(t0, h, y0, cs); sc = abs(y0) + sum(abs(c) for c in cs) * 2.0 ** len(cs)
                if abs(Fr(y1) - ex) > 1e-12 * sc:
                    key = 'rkf-documented-order5-propagates-order4' if (kind == 3 and tag == 'doc') else 'impl:exact_on_polynomials:%s:%s' % (KINDS[kind], tag)
                    fails.append((key, '%s is documented as order %d but one step from t0=%s, y0=%s with h=%s on y\' = sum c_k t^k, c=%s (degree %d) gives %s, exact %.17g (defect %.3g)' % (
                        KINDS[kind], len(cs), hx(t0), hx(y0), hx(h), [hx(c) for c in cs], len(cs) - 1, hx(y1), float(ex), float(Fr(y1) - ex)),
                        {'case': line, 'theorem': 'C20_rkf_documented_order5_refuted / C20_rkf_not_exact_on_degree_5' if kind == 3 else 'C20_*_exact_on_polynomials'}))
            elif what == 'stab':
                _, _, _, t0, h, y0, lam = m
                z = Fr(h) * Fr(lam); R = sum(Fr(c) * z ** k for k, c in enumerate(STAB[kind]))
                if abs(Fr(y1) - R * Fr(y0)) > 1e-12 * (abs(y0) + 1):
                    fails.append(('impl:stability_function:' + KINDS[kind], 'y\' = %s y, h=%s: y1/y0 = %.17g, stability polynomial %.17g' % (hx(lam), hx(h), y1 / y0, float(R)), {'case': line}))
            else:
                _, _, _, t0, h, y0, cs = m
                e, K = ERRK[kind]; want = K * abs(Fr(cs[-1])) * Fr(h) ** e
                if abs(abs(Fr(ye)) - want) > 1e-12 * (1 + sum(abs(c) for c in cs)) * 8:
                    fails.append(('impl:error_estimate_order:' + KINDS[kind], 'leading coefficient %s, h=%s: |estimate| = %s, theorem says %.17g' % (hx(cs[-1]), hx(h), hx(abs(ye)), float(want)), {'case': line}))
                elif kind == 3 and int(s[0][2]) == 4:
                    # the estimate is exactly proportional to h^5 (theorem) while the integrator announces errOrder 4
                    fails.append(('rkf-errorder4-estimate-scales-h5', 'RungeKuttaFeldberg passes errOrder=4 to adjustStepSize but its estimate (5th minus 4th order solution) is a*h^5/2080 on y\' = a t^4 and vanishes on every cubic right-hand side', {'case': line, 'theorem': 'C20_rkf_error_estimate_order'}))
        elif what == 'herm':
            _, _, _, a, t0, t1, t = m
            tk = o.split(); P = sum(Fr(a[k]) * Fr(t) ** k for k in range(4))
            if tk[0] != 'H' or abs(Fr(fx(tk[1])) - P) > 1e-11:
                fails.append(('impl:hermite_interp_exact_on_cubics', 'cubic %s on [%s,%s] at %s: interpolateOrder3 gives %s, cubic is %.17g' % ([hx(x) for x in a], hx(t0), hx(t1), hx(t), tk[1:], float(P)), {'case': line}))
        else:
            _, _, _, acc, h0, calls = m
            tk = o.split(); cur = fx(tk[1])
            for i, (e, od, lim) in enumerate(calls):
                ok = tk[3 + 2 * i] == '1'; hn = fx(tk[4 + 2 * i]); bad = None
                if not (0.1 * cur * (1 - 1e-15) <= hn <= 5 * cur * (1 + 1e-15)): bad = 'adjust_bounded'
                elif e == e and e <= acc and (hn < cur or not ok): bad = 'adjust_never_shrinks_when_accurate'
                elif ok != (hn >= cur): bad = 'adjust_success_iff_not_smaller'
                elif (not ok) and hn > 0.9 * cur * (1 + 1e-15): bad = 'adjust_reject_shrinks'
                elif ok and not (e == e and e <= acc): bad = 'adjust_success_iff'
                elif lim and hn > cur: bad = 'adjust_limited_never_grows'
                elif hn > cur and hn < 1.2 * cur * (1 - 1e-15): bad = 'adjust_growth_hysteresis'
                if bad:
                    fails.append(('impl:' + bad, 'adjustStepSize(err=%s, errOrder=%d, limited=%d) with accuracy %s, step %s -> success=%d new step %s' % (hx(e), od, lim, hx(acc), hx(cur), ok, hx(hn)), {'case': line, 'call': i}))
                    break
                cur = hn
    return ev, fails

def corpus_cases():
    d = os.path.join(VERIF, 'corpus', 'C20'); out = []
    if os.path.isdir(d):
        for f in sorted(os.listdir(d)):
            for l in open(os.path.join(d, f)):
                l = l.strip()
                if l and not l.startswith('#'):
                    tk = l.split(); out.append((tk[0], int(tk[1]) if tk[0] in ('STEP', 'TAKE', 'STEPI', 'TAKEI') else -1, l))
    return out

def replay(ctx, path):
    """re-run one recorded case (replay JSON with a 'case' line, or a text file of case lines) on implementation and model"""
    try:
        d = json.load(open(path)); lines = [d.get('case') or d.get('first_disagreement_case')]
    except ValueError:
        lines = [l.strip() for l in open(path) if l.strip() and not l.startswith('#')]
    lines = [l for l in lines if l]
    if not lines:
        print('no case line in', path); return
    ctx.build_repo()
    tools = build_tools(ctx)
    if tools is None:
        print('tools do not build'); return
    a, _, _ = run_lines(tools[1], lines); b, _, _ = run_lines(tools[0], lines)
    for l, x, y in zip(lines, a, b):
        print('CASE  ' + l); print('IMPL  ' + x); print('MODEL ' + y)

# ------------------------------------------------------------------------------------------------ main
def run(ctx):
    ctx.build_repo()
    ctx.coq_props(PROPS)
    tools = build_tools(ctx)
    if tools is None:
        ctx.finish()
    q = ctx.tier == 'quick'
    cases = corpus_cases() + gen_cases(ctx, 400 if q else 3200, 140 if q else 1120, 60 if q else 480, 60 if q else 480)
    res = correspondence(ctx, tools, cases)
    if res is not None:
        stats, dis = res
        ctx.add_cases(stats['compared'], len(stats['paths']), [c[2][:160] for c in cases[:3]])
        ctx.cov['rule'] = ('one evaluation = one case run on the real integrator and on the extracted model and compared (STEP: attemptDAEStep once; '
                           'TAKE: one internal step through initialize/stepTo; STEPI/TAKEI: the same under setUseInfinityNorm(true) on systems with q, u and z states; NORM: calcErrorNorm called directly for both norms; ADJ: six adjustStepSize calls; HERM: interpolateOrder3); end state, error estimate, '
                           'error norm compared with rtol 1e-10 / atol 1e-12*max(1,|y0|), discrete outputs (converged, errOrder, iterations, rejected attempts, success) exactly; '
                           'distinct_nontrivial = distinct (integrator, converged, iterations) / (integrator, rejected attempts, status) / adjust verdict combinations reached; '
                           'TAKE cases whose model outcome flips under a 1e-9 relative change of the accuracy are not compared (fragile_skipped)')
        ctx.extra['compared_per_integrator'] = stats['per_kind']
        ctx.extra['compared_per_command'] = stats['per_cmd']
        ctx.extra['fragile_skipped'] = stats['fragile_skipped']
        ctx.extra['implementation_exceptions'] = stats['exceptions']
        ctx.extra['paths_reached'] = sorted(stats['paths'])
        ctx.extra['disagreements'] = len(dis)
        ctx.extra['error_norm_predicate_evaluations'] = stats['norm_pred']
        ctx.add_cases(stats['norm_pred'])
        seen_n = set()
        for key, desc, line in stats['norm_fails']:
            if key in seen_n: continue
            seen_n.add(key); ctx.report('impl:' + key, 'calcErrorNorm violates %s: %s' % (key, desc), {'case': line})
        for cmd, kind, line, mm in dis[:1]:
            ctx.broken.append(('correspondence:%s%s' % (cmd, (':' + KINDS[kind]) if kind >= 0 else ''), mm + ' ; case: ' + line[:300]))
            ctx.extra['first_disagreement_case'] = line
    # the theorems' own predicates on the implementation (always run; this is also the failing-input search)
    npred = 12 if q else 120
    if ctx.broken: npred *= 4
    ev, fails = predicates(ctx, tools[1], npred)
    ctx.add_cases(ev)
    ctx.extra['predicate_evaluations'] = ev
    seen = set()
    for key, desc, rep in fails:
        if key in seen: continue
        seen.add(key); ctx.report(key, desc, rep)
    ctx.extra['predicate_failures_distinct'] = sorted(seen)
    ctx.assumptions += [
        'theorems are over the reals (ROps, std::pow := Rpower); binary64 rounding is covered only by the tolerance-based correspondence',
        'the model is a hand transcription; its tie to the source is the correspondence run (differential testing on the generated cases)',
        'systems without constraints, prescribed motion or event triggers (projection / prescribe / event localisation not in the model); N is a constant diagonal matrix in the test systems',
        'order conditions are proved as rational identities of the tableaux; the classical theorem that they imply local error O(h^(p+1)) for every smooth f is NOT formalised',
        'NOT decided: global error <= c*accuracy, monotone improvement with tighter accuracy, convergence order on general right-hand sides, interpolation accuracy beyond cubics, CPodes']
    ctx.finish()
