"""C21 Integrators keep constrained states on the manifold (DESIGN 5 C21, 7.25) -- partial.

Theorems: coq/Props/Properties_C21.v about C19's model (coq/C19/C19_Model.v) extended with the flags advProj / intProj.
Tie: the same hook trace replay as C19 on a constrained system (double pendulum closed by a rod), with the projection
events added: the model's statement "this call returned an interpolated state created with projection on/off" is
compared with the recorded createInterpolatedState events, and the oracle's proj flag comes from the recorded exit of
attemptDAEStep.  Predicate (failing-input search, also without hooks): constraint errors of every returned state and of the advanced
state (the state handed to event handlers / integration resumes from, which must be projected whatever the
project-interpolated-states option says) against the constraint tolerance in use."""
import os, math
from vlib import *
import C19

PROPS = ['Props/Properties_C21.v']
SLACK = 1.0 + 1e-9     # the projection's own acceptance test is norm <= tol; one rod => one qerr and one uerr entry

def manifold_predicate(sc):
    """every returned state satisfies |qerr|,|uerr| <= tol, except interpolated states when projection of interpolated
    states is switched off.  Returns (evaluations, list of (kind, desc, call index))."""
    fails = []; n = 0
    for i, e in enumerate(sc['ev']):
        if e['type'] != 'call' or not e['ret']: continue
        r = e['ret']
        tol = r['tol']
        if sc.get('useInf') and 'qerr_inf' in r:
            # "within tolerance" is meant in the norm the integrator was asked to use: setUseInfinityNorm(true)
            r = dict(r); r.update({'qerr': r['qerr_inf'], 'uerr': r['uerr_inf'], 'aqerr': r['aqerr_inf'], 'auerr': r['auerr_inf']})
            norm = 'infinity norm'
        else: norm = 'RMS norm'
        # the advanced state (what integration resumes from; after ReachedEventTrigger: what the handler is given) must
        # be on the manifold whatever the project-interpolated-states option says
        n += 1
        what = 'advanced state (handed to the event handler, integration resumes from it)' if r['status'] == 'ReachedEventTrigger' else 'advanced state (integration resumes from it)'
        if not (r['aqerr'] <= tol * SLACK):
            fails.append(('adv-qerr', '%s at t=%s after %s: |qerr|=%.3g > tol=%.3g (ratio %.1f, %s), projectInterpolatedStates=%d' % (what, C19.hx(r['adv']), r['status'], r['aqerr'], tol, r['aqerr'] / tol, norm, sc['projInterp']), i))
        if not (r['auerr'] <= tol * SLACK):
            fails.append(('adv-uerr', '%s at t=%s after %s: |uerr|=%.3g > tol=%.3g (ratio %.1f, %s), projectInterpolatedStates=%d' % (what, C19.hx(r['adv']), r['status'], r['auerr'], tol, r['auerr'] / tol, norm, sc['projInterp']), i))
        if r['interp'] and not sc['projInterp']: continue
        n += 1
        if not (r['qerr'] <= tol * SLACK):
            fails.append(('qerr', '%s state at t=%s (%s): |qerr|=%.3g > tol=%.3g (%s)' % ('interpolated' if r['interp'] else 'step', C19.hx(r['t']), r['status'], r['qerr'], tol, norm), i))
        if not (r['uerr'] <= tol * SLACK):
            fails.append(('uerr', '%s state at t=%s (%s): |uerr|=%.3g > tol=%.3g (ratio %.1f, %s)' % ('interpolated' if r['interp'] else 'step', C19.hx(r['t']), r['status'], r['uerr'], tol, r['uerr'] / tol, norm), i))
    return n, fails

def backup_events(sc, e):
    """every takeOneStep that localized an event strictly inside its step (tHigh < t1: the model's [backed_up]) must
    have gone through backUpAdvancedStateByInterpolation(tHigh) up to its projection (record C21.backup tHigh 1), and
    no other step may have; returns (mismatch or None, number compared)"""
    n = 0; backups = []
    for t, v in e['recs']:
        if t == 'C21.backup': backups.append(v)
        elif t == 'C19.step':
            need = int(v[4]) == 1 and v[6] < v[3]
            where = 'script %d (%s) stepTo(%s,%s), takeOneStep from %s: ' % (sc['id'], sc['name'], C19.hx(e['report']), C19.hx(e['sched']), C19.hx(v[0]))
            if need:
                n += 1
                ok = [b for b in backups if b[0] == v[6] and int(b[1]) == 1]
                if not ok:
                    return where + 'event window (%s,%s] localized strictly inside the step to %s: the advanced state was backed up to %s but backUpAdvancedStateByInterpolation did not reach its projection (model: always projected, whatever projectInterpolatedStates=%d says)' % (
                        C19.hx(v[5]), C19.hx(v[6]), C19.hx(v[3]), C19.hx(v[7]), sc['projInterp']), n
            elif backups:
                return where + 'backUpAdvancedStateByInterpolation(%s) recorded for a step that needed no back-up' % C19.hx(backups[0][0]), n
            backups = []
    return None, n

def projection_events(sc, percall):
    """model vs recorded projection events for the calls replayed; returns mismatch or None and the number compared"""
    n = 0
    for e, tk in percall:
        if sc['kind'] in (1, 2, 3, 4, 5):      # integrators using AbstractIntegratorRep::backUpAdvancedStateByInterpolation
            mmb, k = backup_events(sc, e); n += k
            if mmb: return mmb, n
        mt, mip, madvp, mintp = C19.fx(tk[3]), int(tk[5]), int(tk[9]), int(tk[10])
        where = 'script %d (%s) stepTo(%s,%s) -> %s: ' % (sc['id'], sc['name'], C19.hx(e['report']), C19.hx(e['sched']), tk[1])
        calls = C19.rec_of(e, 'C21.interpcall'); made = C19.rec_of(e, 'C21.interp')
        if mip:
            # the returned state is interpolated: it is the one created by the last createInterpolatedState call of stepTo
            if calls:
                n += 1
                if calls[-1][0] != mt or (int(calls[-1][1]) != 0) != bool(mintp):
                    return where + 'model: interpolated state at %s created with projection=%d; recorded call t=%s userProjectInterpolatedStates=%d' % (
                        C19.hx(mt), mintp, C19.hx(calls[-1][0]), int(calls[-1][1])), n
                same = [v for v in made if v[0] == mt]
                if same and int(same[-1][1]) != mintp:
                    return where + 'createInterpolatedState(%s) projected=%d, model says %d' % (C19.hx(mt), int(same[-1][1]), mintp), n
            # (a repeated report at the same interpolated time creates nothing new: no record, nothing to compare)
        else:
            n += 1
            if not madvp:
                return where + 'the returned advanced state is the end of a step that did not leave attemptDAEStep through its projecting exit', n
    return None, n

def takeonestep_groups(e):
    """group the records of one stepTo call by takeOneStep: list of lists of attempts"""
    groups = []; atts = []; cur = None
    for t, v in e['recs']:
        if t == 'C19.step': groups.append(atts); atts = []
        elif t == 'C19.t1sel': cur = {'h': v[2], 't1': v[3], 'limited': int(v[4]), 'dae': None, 'proj': False, 'adj': None, 'att': None}
        elif cur is None: continue
        elif t == 'C21.dae': cur['dae'] = v
        elif t == 'C21.daeproj': cur['proj'] = True
        elif t == 'C21.adjust': cur['adj'] = v
        elif t == 'C21.attempt': cur['att'] = v; atts.append(cur); cur = None
    return groups

def adj_args(v):
    err, p, lim, h, hnew, acc, mn, mx = v
    fin = math.isfinite(err); zero = (err == 0.0); ela = (err <= acc)
    cand = 0.9 * h * math.pow(acc / err, 1.0 / p) if (fin and not zero) else 0.0
    o = lambda x: 'none' if x == -1.0 else C19.hx(x)
    return int(fin), int(zero), int(lim), int(ela), cand, h, o(mn), o(mx)

def replay_attempts(scripts, drv):
    """adjustStepSize (float instance of the model) against every recorded call, and the attempt loop of takeOneStep
    against the recorded attempts of the integrators that use the default attemptDAEStep"""
    lines = []; expect = []
    for sc in scripts:
        if sc['kind'] == 8: continue
        for e in sc['ev']:
            if e['type'] != 'call': continue
            for atts in takeonestep_groups(e):
                for a in atts:
                    if a['adj'] is not None:
                        f, z, l, el, cand, h, mn, mx = adj_args(a['adj'])
                        lines.append('D %d %d %d %d %s %s %s %s' % (f, z, l, el, C19.hx(cand), C19.hx(h), mn, mx))
                        expect.append(('adj', sc, a))
                if atts and sc['kind'] in (1, 2, 3, 4) and all(a['adj'] is not None for a in atts):
                    f, z, l, el, cand, h, mn, mx = adj_args(atts[0]['adj'])
                    parts = ['K 1 %s %s %s' % (mn, mx, C19.hx(atts[0]['h']))]
                    for a in atts:
                        f, z, l, el, cand, h, mn, mx = adj_args(a['adj'])
                        conv = 1 if a['dae'] is not None else 0
                        big = 1 if (conv and a['dae'][1] > a['dae'][2]) else 0
                        parts.append('; %d %d %d %d %d %d %s %d' % (conv, big, 1 if (a['proj'] or big) else 0, f, z, el, C19.hx(cand), l))
                    lines.append(' '.join(parts)); expect.append(('loop', sc, atts))
    if not lines: return 0, 0, None
    rc, out, err = sh([drv], input='\n'.join(lines) + '\n', timeout=600)
    res = [l.split() for l in out.split('\n') if l.strip()]
    if len(res) != len(expect): return 0, 0, 'driver produced %d lines for %d commands %s' % (len(res), len(expect), (out + err)[-200:])
    nadj = nloop = 0
    for (kind, sc, x), tk in zip(expect, res):
        if kind == 'adj':
            nadj += 1
            if C19.fx(tk[1]) != x['adj'][4] or int(tk[2]) != int(x['att'][3]):
                return nadj, nloop, 'adjustStepSize(err=%s, order=%d, limited=%d, h=%s) in %s: implementation new h=%s success=%d, model new h=%s success=%s' % (
                    C19.hx(x['adj'][0]), int(x['adj'][1]), int(x['adj'][2]), C19.hx(x['adj'][3]), sc['name'], C19.hx(x['adj'][4]), int(x['att'][3]), tk[1], tk[2])
        else:
            nloop += 1
            last = x[-1]
            if tk[1] == 'none' or int(tk[1]) != int(last['proj']) or C19.fx(tk[2]) != last['h'] or C19.fx(tk[3]) != last['att'][5]:
                return nadj, nloop, 'attempt loop of takeOneStep in %s (%d attempts, accepted step to t1=%s): implementation projected=%d h=%s next h=%s, model %s' % (
                    sc['name'], len(x), C19.hx(last['t1']), int(last['proj']), C19.hx(last['h']), C19.hx(last['att'][5]), ' '.join(tk[1:]))
    return nadj, nloop, None

def witness_min_step(ctx, exe):
    """a minimum step size that forbids meeting the accuracy: RungeKutta2/3 accept steps with a large error estimate,
    which the default attemptDAEStep does not project"""
    scripts, rc = C19.run_harness(exe, ctx.seed, 2, 'wmin')
    worst = {}; n = 0; unproj = 0
    for sc in scripts:
        k, fails = manifold_predicate(sc); n += k
        step_fails = [f for f in fails if not sc['ev'][f[2]]['ret']['interp']]
        w = 0.0
        for e in sc['ev']:
            if e['type'] == 'call' and e['ret'] and not e['ret']['interp']:
                w = max(w, e['ret']['qerr'] / e['ret']['tol'], e['ret']['uerr'] / e['ret']['tol'])
            if e['type'] == 'call':
                for atts in takeonestep_groups(e):
                    if atts and atts[-1]['dae'] is not None and not atts[-1]['proj']: unproj += 1
        worst[sc['name']] = round(w, 1)
        if step_fails:
            kind, desc, i = step_fails[0]
            ctx.report('unprojected-step-accepted-at-min-step-size',
                       '%s (accuracy 1e-8, minimum step size 0.1): %s; worst error/tolerance of a non-interpolated returned state %.0f' % (sc['name'], desc, w),
                       {'script': C19.script_summary(sc, i), 'theorem': 'C21_every_accepted_step_projected_refuted'})
    ctx.extra['witness_min_step_worst_error_over_tolerance'] = worst
    ctx.extra['witness_min_step_accepted_unprojected_steps_seen_in_trace'] = unproj
    return n

def witness_cpodes_manifold(ctx, exe):
    """DESIGN 7.25: CPodes report states on a Ball-Gimbal / Pin loop closed by a rod, 200 reports, three accuracies;
    RungeKuttaMerson on the same model for contrast (must satisfy the predicate)."""
    scripts, rc = C19.run_harness(exe, ctx.seed, 6, 'wc21')
    worst = {}; n = 0
    for sc in scripts:
        k, fails = manifold_predicate(sc); n += k
        w = 0.0
        for e in sc['ev']:
            if e['type'] == 'call' and e['ret'] and e['ret']['tol'] > 0:
                w = max(w, e['ret']['uerr'] / e['ret']['tol'], e['ret']['qerr'] / e['ret']['tol'])
        worst['%s acc=%g' % (sc['name'], sc['acc'])] = round(w, 2)
        if fails:
            kind, desc, i = max(fails, key=lambda f: sc['ev'][f[2]]['ret']['uerr'])
            if sc['kind'] == 8:
                ctx.report('cpodes-report-states-off-manifold', 'CPodes (accuracy %g): %s; worst error/tolerance over 200 reports %.1f' % (sc['acc'], desc, w),
                           {'script': C19.script_summary(sc, i)})
            else:
                ctx.report('impl:%s:%s' % (kind, sc['name']), '%s returns a state off the constraint manifold: %s' % (sc['name'], desc),
                           {'script': C19.script_summary(sc, i)})
    ctx.extra['witness_7_25_worst_error_over_tolerance'] = worst
    return n

def run(ctx):
    ctx.build_repo()
    ctx.coq_props(PROPS)
    tools = C19.build_tools(ctx)
    if tools is None: ctx.finish()
    drv, exe = tools
    nscripts = 36 if ctx.tier == 'quick' else 144
    seeds = [ctx.seed] if ctx.tier == 'quick' else [ctx.seed + k for k in range(4)]
    evals = 0; hooks = False; nrep = 0; nproj = 0; worst = {}; cp_hits = 0; paths = set(); samples = []; nadj = nloop = 0
    for sd in seeds:
        scripts, rc = C19.run_harness(exe, sd, nscripts, 'c21')
        if rc != 0 or not scripts:
            ctx.broken.append(('correspondence:harness-run', 'C19_drive (mode c21) exited with %d' % rc)); break
        a1, a2, mm3 = replay_attempts(scripts, drv); nadj += a1; nloop += a2
        if mm3: ctx.broken.append(('correspondence:adjustStepSize/attempt-loop', mm3))
        for sc in scripts:
            if sc['initfail']: continue
            n, fails = manifold_predicate(sc); evals += n
            for e in sc['ev']:
                if e['type'] == 'call' and e['ret']:
                    r = e['ret']; paths.add((sc['name'], 'interpolated' if r['interp'] else 'step', bool(sc['projInterp']), 'inf' if sc.get('useInf') else 'rms'))
                    if not (r['interp'] and not sc['projInterp']) and r['tol'] > 0:
                        worst[sc['name']] = max(worst.get(sc['name'], 0.0), r['qerr'] / r['tol'], r['uerr'] / r['tol'])
            for kind, desc, i in fails[:1]:
                if sc['kind'] == 8:
                    cp_hits += 1
                    ctx.report('cpodes-report-states-off-manifold',
                               'CPodes ' + desc, {'script': C19.script_summary(sc, i)})
                else:
                    ctx.report('impl:%s:%s' % (kind, sc['name']), '%s returns a state off the constraint manifold: %s' % (sc['name'], desc),
                               {'script': C19.script_summary(sc, i)})
            has = any(e['type'] == 'call' and any(t in ('C19.enter', 'C19c.enter') for t, v in e['recs']) for e in sc['ev'])
            hooks = hooks or has
            if has and sc['kind'] != 8:
                percall = []
                n2, u2, mm, ps = C19.replay_abstract(sc, drv, percall)
                nrep += n2
                if mm and not any(b[0] == 'correspondence:stepTo' for b in ctx.broken): ctx.broken.append(('correspondence:stepTo', mm))
                else:
                    mm2, k = projection_events(sc, percall); nproj += k
                    if mm2 and not any(b[0] == 'correspondence:projection-events' for b in ctx.broken): ctx.broken.append(('correspondence:projection-events', mm2))
                if len(samples) < 4 and n2: samples.append('%s acc=%g projInterp=%d: %d calls replayed' % (sc['name'], sc['acc'], sc['projInterp'], n2))
    evals += witness_cpodes_manifold(ctx, exe)
    evals += witness_min_step(ctx, exe)
    ctx.add_cases(evals + nrep, len(paths), samples or ['%s %s-state projInterp=%s norm=%s' % p for p in sorted(paths)[:6]])
    ctx.cov['rule'] = ('one evaluation = one constraint-error test of a state of a real integrator on a constrained system (double pendulum closed by a rod; '
                       '9 integrators, accuracy 1e-2/1e-3/1e-5, constraint tolerance default/1e-6/1e-7, projection of interpolated states on/off, witness '
                       'functions on time, angle and cos(4.3t+c) so that events are localized inside steps, random request scripts): after every stepTo the '
                       'returned state (|qerr|,|uerr| <= tolerance; interpolated states only when their projection is on) and the ADVANCED state '
                       '(what integration resumes from and what an event handler is given: always); with hooks, additionally one per call replayed '
                       'through the model with the projection events compared (createInterpolatedState by option, backUpAdvancedStateByInterpolation always). '
                       'distinct_nontrivial = distinct (integrator, step/interpolated, projection option)')
    ctx.extra['hooks_present'] = hooks
    ctx.extra['trace_replay'] = 'done' if hooks else 'SKIPPED: no trace records arrived (hooks C19_hook_*.diff not applied in the tree under test); only the predicate run was done'
    ctx.extra['replayed_calls'] = nrep
    ctx.extra['projection_events_compared'] = nproj
    ctx.extra['adjustStepSize_calls_compared'] = nadj
    ctx.extra['takeOneStep_attempt_loops_compared'] = nloop
    ctx.extra['worst_error_over_tolerance_per_integrator'] = {k: round(v, 3) for k, v in sorted(worst.items())}
    ctx.extra['cpodes_scripts_with_violation'] = cp_hits
    ctx.assumptions += [
        'that a successful System::project leaves the errors within the tolerance is the contract of C09 and is assumed (oracle); the theorems only say which path produced each returned state',
        'proj flag of a step = the accepted attempt reached the projecting exit of the default attemptDAEStep (hook C21.daeproj); for integrators overriding attemptDAEStep (ExplicitEuler, SemiExplicitEuler, SemiExplicitEuler2, Verlet) it is assumed',
        'CPodes internal projection and its interpolated report states are not modelled (known finding)']
    ctx.finish()
