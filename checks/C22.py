"""C22 Events are detected, localised and handled in time order (DESIGN 5 C22) -- PARTIAL.

Theorems: coq/Props/Properties_C22.v about the executable model coq/C22/C22_Model.v:
  A  Event::classifyTransition / maskTransition / calcTransitionMask / calcTransitionToReport as finite tables,
  B  IntegratorRep::estimateRootTime, findEventCandidates, calcEventOrder and the event part of
     AbstractIntegratorRep::takeOneStep (first scan, "already localised" exit, localisation loop) with the trigger values
     at interpolated times as an oracle, numeric part generic in NumOps (theorems over R),
  C  TimeStepperRep::stepTo + System/DefaultSystemSubsystem scheduled-event selection and dispatch, integrator as oracle.
Tie (checked on every run), all through harness/C22_events.cpp against the extracted model (ocaml/C22_drv.ml):
  table  every row of the classification tables and SimTK::sign                                  (exact)
  root   IntegratorRep::estimateRootTime on random brackets                                       (exact doubles)
  fec    IntegratorRep::findEventCandidates of an initialised real integrator on random trigger vectors (exact)
  loc    the eight AbstractIntegratorRep integrators, witness functions of time only, fixed step, one takeOneStep per
         stepTo: step end t1 (C19's select_t1), event or not, window, triggered ids / transitions / estimated times, and
         (hooks present: C19.step, C22.loc records) every localisation iteration, recomputed by the model
  ts     TimeStepper runs with periodic / list-scheduled / triggered handlers and reporters acting on two free sliders:
         run A (reportAllSignificantStates) gives the integrator's answers; the model must reproduce every handler call
         (who, when, state seen), every return and the resulting state, for run A and for run B (reportAll off).
Independently the property's predicates are evaluated on the implementation's own output (failing-input search)."""
import os, sys, math, json
from vlib import *

PROPS = ['Props/Properties_C22.v']
INF = float('inf')

EXTRACT_V = '''From Coq Require Import Extraction ExtrOcamlBasic QArith.
Require Import Num C22_Model C19_Model.
Extraction "C22m.ml" classify maskT calcMask toReport transitionSeen sgnT estimateRootTime findEventCandidates event_phase
  min_window triggered_of periodic_next sys_next ts_stepTo ts_init use_coreb use_monob Qplus Qminus Qred C19_Model.select_t1.
'''

def fx(s):
    return float.fromhex(s) if s not in ('nan', '-nan', 'inf', '-inf', 'infinity', '-infinity') else float(s.replace('infinity', 'inf'))

def hx(x):
    if x != x: return 'nan'
    if x == INF: return 'inf'
    if x == -INF: return '-inf'
    return float(x).hex()

def feq(a, b, tol=0.0):
    if a != a and b != b: return True
    if a == b: return True
    if tol and abs(a - b) <= tol * max(1.0, abs(a), abs(b)): return True
    return False

# ------------------------------------------------------------------------------------------------ tools
def build_tools(ctx):
    d = ctx.bdir('ex')
    if not ctx.extract(EXTRACT_V, d):
        ctx.broken.append(('correspondence:extract', 'extraction of the C22 model failed')); return None
    src = open(os.path.join(VERIF, 'ocaml', 'C22_drv.ml')).read()
    src = src.replace('(*FOPS*)', open(os.path.join(VERIF, 'ocaml', 'fops.inc')).read())
    open(os.path.join(d, 'drv.ml'), 'w').write(src)
    if not ctx.ocaml(d, ['C22m.mli', 'C22m.ml', 'drv.ml'], 'drv'):
        ctx.broken.append(('correspondence:ocaml', 'OCaml driver for the extracted C22 model does not build')); return None
    exe = ctx.bdir('C22_events')
    if not ctx.cxx(os.path.join(VERIF, 'harness', 'C22_events.cpp'), exe):
        ctx.broken.append(('correspondence:harness', 'C22_events.cpp does not compile against the tree under test')); return None
    return os.path.join(d, 'drv'), exe

def drive(drv, lines):
    rc, out, err = sh([drv], input='\n'.join(lines) + '\n', timeout=600)
    return [l for l in out.split('\n') if l.strip()]

class Mismatch(Exception):
    pass

# ------------------------------------------------------------------------------------------------ table / root / fec
def corr_table(ctx, drv, exe, res):
    rc, out, err = sh([exe, 'table'], timeout=120)
    rows = [l.split() for l in out.split('\n') if l.startswith('ROW')]
    sg = [l.split() for l in out.split('\n') if l.startswith('SGN')]
    cmds = ['ROW %s %s %s %s' % tuple(r[1:5]) for r in rows] + ['SGN %s' % s[1] for s in sg]
    ans = drive(drv, cmds)
    if len(ans) != len(cmds) or len(rows) != 36:
        res['mismatch'].append(('table', 'harness printed %d rows, driver answered %d of %d' % (len(rows), len(ans), len(cmds)))); return
    for r, a in zip(rows, ans[:len(rows)]):
        if a.split()[1:] != r[5:9]:
            res['mismatch'].append(('table', 'classify/mask/report row (before,after,rising,falling)=%s: implementation (classify,mask,seen,report)=%s model=%s' % (r[1:5], r[5:9], a.split()[1:])))
    for s, a in zip(sg, ans[len(rows):]):
        if a.split()[1] != s[2]:
            res['mismatch'].append(('table', 'sign(%s): implementation %s model %s' % (s[1], s[2], a.split()[1])))
    res['n_table'] = len(rows) + len(sg)
    for l in out.split('\n'):
        if l.startswith('SIG'): res['sig'] = l.split()[1]
    # property predicate on the implementation's table itself (search): listed iff monitored change
    for r in rows:
        b, a, rr, ff, cls, mask, seen, rep = [int(x) for x in r[1:9]]
        want = (b == 1 and a != 1 and ff == 1) or (b == -1 and a != -1 and rr == 1)
        if (seen != 0) != want or (seen != 0 and rep != (2 if b == -1 else 1)):
            res['pred_fail'].append(('classify_exhaustive', 'before=%d after=%d rising=%d falling=%d: seen=%d reported=%d' % (b, a, rr, ff, seen, rep),
                                     {'mode': 'table', 'row': r[1:9]}))

def corr_root(ctx, drv, exe, n, res):
    rc, out, err = sh([exe, 'root', str(ctx.seed), str(n)], timeout=300)
    rows = [l.split() for l in out.split('\n') if l.startswith('ROOT')]
    ans = drive(drv, ['ROOT ' + ' '.join(r[1:7]) for r in rows])
    if len(ans) != len(rows):
        res['mismatch'].append(('root', 'driver answered %d of %d' % (len(ans), len(rows)))); return
    branches = set()
    for r, a in zip(rows, ans):
        tl, fl, th, fh, bias, mw, est = [fx(x) for x in r[1:8]]
        m = fx(a.split()[1])
        if not feq(est, m):
            res['mismatch'].append(('root', 'estimateRootTime(%s): implementation %s model %s' % (' '.join(r[1:7]), r[7], a.split()[1])))
        branches.add('bisect' if (fl == 0 or fh == 0 or th - tl <= mw) else 'secant')
        if not (tl < est < th):
            res['pred_fail'].append(('root_estimate_inside_interval', 'estimateRootTime(%s) = %s not strictly inside' % (' '.join(r[1:7]), r[7]),
                                     {'mode': 'root', 'args': r[1:7], 'result': r[7]}))
    res['n_root'] = len(rows); res['root_branches'] = sorted(branches)

def corr_fec(ctx, drv, exe, n, res):
    rc, out, err = sh([exe, 'fec', str(ctx.seed), str(n)], timeout=600)
    cmds = []; expect = []
    cur_info = None
    for l in out.split('\n'):
        tk = l.split()
        if not tk: continue
        if tk[0] in ('SYS', 'INFO'):
            cmds.append(l)
            if tk[0] == 'INFO': cur_info = tk
        elif tk[0] == 'FEC':
            i = tk.index('R')
            cmds.append(' '.join(tk[:i])); expect.append((tk[:i], tk[i:], cur_info))
    ans = [a for a in drive(drv, cmds) if a.startswith('R ')]
    if len(ans) != len(expect):
        res['mismatch'].append(('fec', 'driver answered %d of %d' % (len(ans), len(expect)))); return
    nontriv = 0
    for (q, r, info), a in zip(expect, ans):
        at = a.split()
        ok = (at[1] == r[1])
        if ok:
            nc = int(r[1])
            for k in range(nc):
                ok = ok and at[2 + 3 * k] == r[2 + 3 * k] and feq(fx(at[3 + 3 * k]), fx(r[3 + 3 * k])) and at[4 + 3 * k] == r[4 + 3 * k]
            ok = ok and feq(fx(at[2 + 3 * nc]), fx(r[2 + 3 * nc])) and feq(fx(at[3 + 3 * nc]), fx(r[3 + 3 * nc]))
            if nc: nontriv += 1
        if not ok:
            res['mismatch'].append(('fec', 'findEventCandidates %s: implementation %s model %s' % (' '.join(q[1:]), ' '.join(r), a)))
        # predicate: listed iff viable and monitored change (from the implementation's own info)
        nvi = int(q[5]); viable = [int(x) for x in q[6:6 + max(nvi, 0)]]
        ev = [fx(x) for x in q[q.index('E') + 1:]]
        nw = len(ev) // 2
        if nvi < 0: viable = list(range(nw))
        listed = [int(r[2 + 3 * k]) for k in range(int(r[1]))]
        want = []
        for i in viable:
            lo, hi = ev[2 * i], ev[2 * i + 1]; mask = int(info[2 + 3 * i])
            if (lo > 0 and hi <= 0 and (mask & 1)) or (lo < 0 and hi >= 0 and (mask & 2)): want.append(i)
        if listed != want:
            res['pred_fail'].append(('candidate_listed_iff', 'findEventCandidates lists %s, triggers with a monitored sign change are %s (%s)' % (listed, want, ' '.join(q[1:])),
                                     {'mode': 'fec', 'query': q, 'result': r}))
    res['n_fec'] = len(expect); res['n_fec_nontrivial'] = nontriv

# ------------------------------------------------------------------------------------------------ loc
def parse_loc(out):
    scen = []; cur = None
    for l in out.split('\n'):
        tk = l.split()
        if not tk: continue
        if tk[0] == 'SCEN':
            cur = {'id': int(tk[1]), 'name': tk[2], 'calls': [], 'throw': None}
            i = 3
            while '=' in tk[i]:
                k, v = tk[i].split('='); cur[k] = v; i += 1
            for k in ('kind', 'interp', 'nw'): cur[k] = int(cur[k])
            for k in ('h', 'acc', 'ts', 'final'): cur[k + '_s'] = cur[k]; cur[k] = fx(cur[k])
            w = tk[i:]; cur['wit'] = [w[8 * j:8 * j + 8] for j in range(cur['nw'])]
            scen.append(cur)
        elif tk[0] == 'INFO': cur['info'] = tk
        elif tk[0] == 'CALL':
            c = {'report': fx(tk[1]), 'report_s': tk[1], 'sched': fx(tk[2]), 'preAdv': fx(tk[4]), 'preAdv_s': tk[4], 'preSteps': int(tk[5]),
                 'status': tk[7], 't': fx(tk[8]), 'adv': fx(tk[9]), 'adv_s': tk[9], 'steps': int(tk[10]), 'ev': None, 'recs': []}
            j = 11
            if j < len(tk) and tk[j] == 'EV':
                n = int(tk[j + 3])
                c['ev'] = {'lo': fx(tk[j + 1]), 'hi': fx(tk[j + 2]), 'trig': [(int(tk[j + 4 + 3 * k]), fx(tk[j + 5 + 3 * k]), int(tk[j + 6 + 3 * k])) for k in range(n)]}
                j += 4 + 3 * n
            if j < len(tk) and tk[j] == 'TRG': c['trg'] = [fx(x) for x in tk[j + 1:]]
            cur['calls'].append(c)
        elif tk[0] == 'T' and cur and cur['calls']:
            cur['calls'][-1]['recs'].append((tk[1], [fx(x) for x in tk[2:]]))
        elif tk[0] == 'THROW': cur['throw'] = l
    return scen

def weval(w, t):
    k = int(w[0]); a, b, s = fx(w[1]), fx(w[2]), fx(w[3])
    if k == 0: return t - a
    if k == 1: return ((t - a) * (t - b)) * s
    return math.sin(a * t + b) - s

def corr_loc(ctx, drv, exe, nscen, seed, res):
    rc, out, err = sh([exe, 'loc', str(seed), str(nscen)], timeout=900)
    scen = parse_loc(out)
    if len(scen) != nscen:
        res['mismatch'].append(('loc', 'harness produced %d of %d scenarios: %s' % (len(scen), nscen, (out + err)[-300:]))); return
    sig = res.get('sig', hx(2.0 ** (-52 * 0.875)))
    for sc in scen:
        info = sc['info']; n = int(info[1])
        ids = [int(info[4 + 3 * j]) for j in range(n)]
        masks = [int(info[2 + 3 * j]) for j in range(n)]
        wins = [fx(info[3 + 3 * j]) for j in range(n)]
        order = sorted(ids)
        wit = [sc['wit'][order.index(i)] for i in ids]            # witness of trigger index j = handler number rank(id_j)
        cmds = ['SYS %s %s' % (sc['acc_s'], sc['ts_s']), ' '.join(info), 'W %d ' % n + ' '.join(' '.join(w[:4]) for w in wit)]
        plan = []
        fin = sc['final'] if sc['final'] > 0 else INF
        for ci, c in enumerate(sc['calls']):
            if c['steps'] == c['preSteps'] + 1:
                tmax0 = min(c['sched'], fin)
                tmax = tmax0 if sc['interp'] else min(c['report'], tmax0)
                cmds.append('LOC %s %s %s %s %s 200' % (c['preAdv_s'], hx(tmax), sc['h_s'], c['report_s'], sig)); plan.append(('loc', ci))
            elif c['steps'] != c['preSteps']:
                res['mismatch'].append(('loc', 'scenario %d (%s): one stepTo took %d internal steps in return-every-step mode' % (sc['id'], sc['name'], c['steps'] - c['preSteps'])))
            if 'trg' in c and c['trg']:
                cmds.append('EVAL %s' % c['adv_s']); plan.append(('eval', ci))
        ans = drive(drv, cmds)
        if len(ans) != len(plan):
            res['mismatch'].append(('loc', 'scenario %d: driver answered %d of %d: %s' % (sc['id'], len(ans), len(plan), ans[-1:]))); continue
        pending = None          # model's event of the latest step, not yet returned by the implementation
        where = 'scenario %d (%s h=%s acc=%s interp=%d): ' % (sc['id'], sc['name'], sc['h_s'], sc['acc_s'], sc['interp'])
        for (kind, ci), a in zip(plan, ans):
            c = sc['calls'][ci]; at = a.split()
            if kind == 'eval':
                mv = [fx(x) for x in at[1:]]
                if len(mv) != len(c['trg']) or any(not feq(x, y, 1e-15) for x, y in zip(mv, c['trg'])):
                    res['mismatch'].append(('loc', where + 'trigger values of the advanced state at %s: implementation %s, witness functions %s' % (c['adv_s'], [hx(x) for x in c['trg']], at[1:])))
                continue
            res['n_steps'] += 1
            key = (sc['name'], at[0]); res['loc_paths'][key] = res['loc_paths'].get(key, 0) + 1
            t1 = fx(at[1])
            if at[0] == 'NOEVENT':
                pending = None
                if not feq(c['adv'], t1) or c['status'] == 'ReachedEventTrigger':
                    res['mismatch'].append(('loc', where + 'step from %s: model says no event, step end %s; implementation %s advanced to %s' % (c['preAdv_s'], at[1], c['status'], c['adv_s'])))
            elif at[0] == 'EVENT':
                lo, hi, nit, ntr = fx(at[2]), fx(at[3]), int(at[4]), int(at[5])
                trig = [(int(at[6 + 3 * k]), fx(at[7 + 3 * k]), int(at[8 + 3 * k])) for k in range(ntr)]
                ii = at.index('I'); iters = [fx(x) for x in at[ii + 1:at.index('N')]]
                pending = {'lo': lo, 'hi': hi, 'trig': trig, 'iters': iters, 'line': a}
                res['n_events'] += 1; res['iters_hist'][min(nit, 12)] = res['iters_hist'].get(min(nit, 12), 0) + 1
                if not feq(c['adv'], hi, 1e-15):
                    res['mismatch'].append(('loc', where + 'step from %s: model localises (%s,%s], implementation advanced state at %s (%s)' % (c['preAdv_s'], at[2], at[3], c['adv_s'], c['status'])))
                # hook records, when the tree has them: every localisation iteration
                locs = [v for t, v in c['recs'] if t == 'C22.loc']
                if locs:
                    res['hooks'] = True
                    mi = [tuple(iters[3 * k:3 * k + 3]) for k in range(nit)]
                    hi_ = [(v[0], v[1], v[3]) for v in locs]
                    if len(mi) != len(hi_) or any(not all(feq(x, y, 1e-15) for x, y in zip(p, q)) for p, q in zip(mi, hi_)):
                        res['mismatch'].append(('loc', where + 'localisation iterations (tLow,tHigh,tMid): hook records %s, model %s' % ([tuple(hx(x) for x in p) for p in hi_], [tuple(hx(x) for x in p) for p in mi])))
                    res['n_iters_compared'] += len(mi)
            else:
                res['mismatch'].append(('loc', where + 'model result %s for the step from %s' % (a, c['preAdv_s'])))
            steprec = [v for t, v in c['recs'] if t == 'C19.step']
            if steprec:
                res['hooks'] = True; v = steprec[-1]
                if not feq(v[3], t1) or (at[0] == 'EVENT') != (v[4] != 0.0):
                    res['mismatch'].append(('loc', where + 'C19.step record t1=%s event=%d, model t1=%s %s' % (hx(v[3]), int(v[4]), at[1], at[0])))
        # second pass: returned events against the model's pending events (an event may be returned by a later call)
        pending = None; k = 0
        for ci, c in enumerate(sc['calls']):
            if c['steps'] == c['preSteps'] + 1:
                while plan[k][0] != 'loc' or plan[k][1] != ci: k += 1
                at = ans[k].split(); k += 1
                if at[0] == 'EVENT':
                    ntr = int(at[5])
                    pending = {'lo': fx(at[2]), 'hi': fx(at[3]), 'trig': [(int(at[6 + 3 * j]), fx(at[7 + 3 * j]), int(at[8 + 3 * j])) for j in range(ntr)], 'line': ' '.join(at[:6 + 3 * ntr])}
                else: pending = None
            if c['status'] == 'ReachedEventTrigger':
                ev = c['ev']
                if pending is None:
                    res['mismatch'].append(('loc', where + 'implementation returned an event (%s,%s] %s, the model has none pending' % (hx(ev['lo']), hx(ev['hi']), ev['trig'])))
                else:
                    same = feq(ev['lo'], pending['lo'], 1e-15) and feq(ev['hi'], pending['hi'], 1e-15) and len(ev['trig']) == len(pending['trig']) and \
                        all(x[0] == y[0] and x[2] == y[2] and feq(x[1], y[1], 1e-15) for x, y in zip(ev['trig'], pending['trig']))
                    if not same:
                        res['mismatch'].append(('loc', where + 'event returned: implementation window (%s,%s] triggered (id,est,transition)=%s ; model %s' %
                                                (hx(ev['lo']), hx(ev['hi']), [(i, hx(e), t) for i, e, t in ev['trig']], pending['line'])))
                    res['n_events_compared'] += 1
                    res['samples'].append('%s h=%s: event window (%s,%s] ids %s' % (sc['name'], sc['h_s'], hx(ev['lo']), hx(ev['hi']), [i for i, _, _ in ev['trig']]))
                pending = None
        loc_predicates(sc, ids, masks, wins, wit, res)

def loc_predicates(sc, ids, masks, wins, wit, res):
    """the property's clauses on the implementation's own output (witness functions are known functions of time)"""
    accw = sc['acc'] * sc['ts']; sig = fx(res.get('sig', hx(2.0 ** (-45.5))))
    where = 'scenario %d (%s h=%s acc=%s): ' % (sc['id'], sc['name'], sc['h_s'], sc['acc_s'])
    def changed(j, lo, hi):
        a, b = weval(wit[j], lo), weval(wit[j], hi)
        f = a > 0 and b <= 0 and (masks[j] & 1); r = a < 0 and b >= 0 and (masks[j] & 2)
        return 1 if f else 2 if r else 0
    step_report = None
    for c in sc['calls']:
        res['n_pred'] += 1
        if c['steps'] == c['preSteps'] + 1: step_report = c['report']
        if c['status'] == 'ReachedEventTrigger':
            # the report time the window must exclude is the one given to the stepTo call that took (and localised) the step;
            # a NEW report time placed inside an already localised window by a later call is C19's known finding
            ev = c['ev']; lo, hi = ev['lo'], ev['hi']; rep = step_report if step_report is not None else c['report']
            bad = []
            if not (lo < hi): bad.append('window (%s,%s] not ordered' % (hx(lo), hx(hi)))
            if lo < rep < hi: bad.append('report time %s strictly inside the window (%s,%s)' % (hx(rep), hx(lo), hx(hi)))
            if c['t'] != lo: bad.append('returned state time %s is not tLow %s' % (hx(c['t']), hx(lo)))
            mw = sig * max(1.0, hi)
            for (i, est, tr) in ev['trig']:
                j = ids.index(i)
                if hi - lo > max(mw * 1.000001, accw * wins[j]) * (1 + 1e-12):
                    bad.append('window width %s exceeds the localisation requirement %s of event %d' % (hx(hi - lo), hx(max(mw, accw * wins[j])), i))
                ch = changed(j, lo, hi)
                if ch == 0: bad.append('event %d listed but its trigger did not change sign in a monitored direction over (%s,%s]: %s -> %s' % (i, hx(lo), hx(hi), hx(weval(wit[j], lo)), hx(weval(wit[j], hi))))
                elif ch != tr: bad.append('event %d reported with transition %d, observed %d' % (i, tr, ch))
                if not (lo < est <= hi): bad.append('estimated time %s of event %d outside (tLow,tHigh]' % (hx(est), i))
            es = [e for _, e, _ in ev['trig']]
            if es != sorted(es): bad.append('triggered events not ordered by estimated time')
            for b in bad:
                res['pred_fail'].append(('localisation_brackets', where + b, {'mode': 'loc', 'scenario': sc['id'], 'integrator': sc['name'], 'report': hx(rep),
                                         'window': [hx(lo), hx(hi)], 'triggered': [(i, hx(e), t) for i, e, t in ev['trig']]}))

# ------------------------------------------------------------------------------------------------ ts
def parse_ts(out):
    scen = []; cur = None; buf = []
    for l in out.split('\n'):
        tk = l.split()
        if not tk: continue
        if tk[0] == 'TSCEN':
            cur = {'id': int(tk[1]), 'name': tk[2], 'hs': [], 'targets': [], 'throw': None}
            for kv in tk[3:]:
                k, v = kv.split('='); cur[k] = v
            scen.append(cur); buf = []
        elif tk[0] == 'HS': cur['hs'].append(tk)
        elif tk[0] == 'INFO': cur['info'] = tk
        elif tk[0] == 'TARGET': cur['targets'].append({'time': tk[1], 'rets': []}); buf = []
        elif tk[0] == 'H' and len(tk) == 6 and tk[1].isdigit(): buf.append((int(tk[1]), tk[2], fx(tk[3]), fx(tk[4]), fx(tk[5])))
        elif tk[0] == 'RET' and len(tk) >= 11:
            n = int(tk[7])
            r = {'status': tk[1], 't': fx(tk[2]), 'adv': fx(tk[3]), 'over': int(tk[4]), 'w0': fx(tk[5]), 'w1': fx(tk[6]),
                 'ids': [int(x) for x in tk[8:8 + n]], 'qa': fx(tk[9 + n]), 'qb': fx(tk[10 + n]), 'h': buf, 't_s': tk[2], 'adv_s': tk[3], 'w0_s': tk[5],
                 'reason': int(tk[12 + n]) if len(tk) > 12 + n and tk[11 + n] == 'TR' else None}
            cur['targets'][-1]['rets'].append(r); buf = []
        elif tk[0] == 'THROW': cur['throw'] = l
    return scen

def ts_ids(hs):
    """EventIds as DefaultSystemSubsystem::realizeSubsystemTopologyImpl hands them out: scheduled handlers, triggered handlers,
    scheduled reporters, triggered reporters, each group in registration order"""
    order = [i for g in ((0, 1), (2,), (3, 4), (5,)) for i, h in enumerate(hs) if int(h[2]) in g]
    ids = [0] * len(hs)
    for n, i in enumerate(order): ids[i] = n
    return ids

def cmp_log(model_lines, impl_h, ids, where, res, tag):
    mh = [l.split() for l in model_lines if l.startswith('H ')]
    if len(mh) != len(impl_h):
        res['mismatch'].append((tag, where + 'handler calls: implementation %s, model %s' % ([(i, k, hx(t)) for i, k, t, _, _ in impl_h], [(m[1], m[2], m[3]) for m in mh]))); return
    for m, (idx, kind, t, qa, qb) in zip(mh, impl_h):
        mk = {'S': 'S', 'T': 'T', 'R': 'R'}[m[2]]; ik = {'S': 'S', 'T': 'T', 'TR': 'T', 'R': 'R'}[kind]
        if int(m[1]) != ids[idx] or mk != ik or not feq(fx(m[3]), t) or not feq(fx(m[4]), qa, 1e-12) or not feq(fx(m[5]), qb, 1e-9):
            res['mismatch'].append((tag, where + 'handler call: implementation (handler %d id %d kind %s t=%s qA=%s qB=%s), model (id %s kind %s t=%s qA=%s qB=%s)' %
                                    (idx, ids[idx], kind, hx(t), hx(qa), hx(qb), m[1], m[2], m[3], m[4], m[5]))); return
    res['n_handler_calls'] += len(mh)

def corr_ts(ctx, drv, exe, nscen, seed, res, mode='ts'):
    rcA, outA, errA = sh([exe, mode, str(seed), str(nscen), '1'], timeout=900)
    rcB, outB, errB = sh([exe, mode, str(seed), str(nscen), '0'], timeout=900)
    A = parse_ts(outA); B = parse_ts(outB); res['ts_mode'] = mode
    if len(A) != nscen or len(B) != nscen:
        res['mismatch'].append(('ts', 'harness produced %d / %d of %d scenarios: %s' % (len(A), len(B), nscen, (errA + errB)[-300:]))); return
    for a, b in zip(A, B):
        ids = ts_ids(a['hs'])
        where = 'TimeStepper scenario %d (%s final=%s everyStep=%s limit=%s, handlers %s): ' % (a['id'], a['name'], a['final'], a['everyStep'], a['limit'], [int(h[2]) for h in a['hs']])
        if a['hs'] != b['hs'] or [t['time'] for t in a['targets']] != [t['time'] for t in b['targets']]:
            res['mismatch'].append(('ts', where + 'runs A and B differ in their scenario')); continue
        # the property's own predicates on the implementation's runs: evaluated first, whatever the correspondence below says
        # (a disagreement with the model ends the comparison of a scenario; the predicates are what hand over a failing input)
        ts_predicates(a, b, ids, where, res)
        setup = ['TSRESET', 'CF %d' % res.get('cf', 0)] + [' '.join(h[:6 + int(h[5])]) for h in a['hs']] + ['IDS %d ' % len(ids) + ' '.join(str(i) for i in ids)]
        # cross-check the id assumption on the triggered ones
        info = a['info']; trig_ids = sorted(int(info[4 + 3 * j]) for j in range(int(info[1])))
        want = sorted(ids[i] for i, h in enumerate(a['hs']) if int(h[2]) in (2, 5))
        if trig_ids != want:
            res['mismatch'].append(('ts', where + 'EventIds of the triggered handlers are %s, expected %s' % (trig_ids, want))); continue
        # ---------------- run A: one integrator answer per TimeStepper return
        cmds = list(setup) + ['TSINIT %s' % a['tStart']]; exp = []; answers = []
        for tg in a['targets']:
            for r in tg['rets']:
                at = r['w0_s'] if r['status'] == 'ReachedEventTrigger' else (r['adv_s'] if r['status'] in ('ReachedScheduledEvent',) else r['t_s'])
                ans = 'ANS %s %s %s %d %s' % (r['status'], at, r['adv_s'], len(r['ids']), ' '.join(str(i) for i in r['ids']))
                answers.append(ans); cmds += [ans, 'TSRUN 1 %s' % tg['time']]; exp.append(r)
        out = drive(drv, cmds)
        blocks = []; curb = None
        for l in out:
            if l.startswith('RET') or l.startswith('ORACLE') or l.startswith('NOSTATE'): curb = [l]; blocks.append(curb)
            elif curb is not None: curb.append(l)
        if len(blocks) != len(exp):
            res['mismatch'].append(('ts', where + 'model produced %d results for %d returns' % (len(blocks), len(exp)))); continue
        okA = True; seenQ = []; prev_status = None
        for r, blk in zip(exp, blocks):
            mt = blk[0].split()
            w = where + 'stepTo -> %s t=%s adv=%s: ' % (r['status'], r['t_s'], r['adv_s'])
            if mt[0] != 'RET' or mt[1] != r['status'] or not feq(fx(mt[2]), r['t']) or not feq(fx(mt[3]), r['adv']) or int(mt[4]) != r['over'] or mt[5] != '1':
                res['mismatch'].append(('ts', w + 'model result %s' % blk[0])); okA = False; break
            if mt[6] != '1':
                res['mismatch'].append(('ts:contract', w + 'integrator answer violates the contract use_core: %s' % [l for l in blk if l.startswith('U ')])); okA = False; break
            if mt[9] != '1':
                # the advanced time went back: never for AbstractIntegratorRep; CPodesIntegratorRep integrates past a pending
                # report time and interpolates back (C19 known finding cpodes-advanced-passes-sched), so use_mono is not claimed for it
                if a['name'] == 'CPodes': res['cpodes_nonmono'] += 1
                else:
                    res['mismatch'].append(('ts:contract', w + 'advanced time decreased (use_mono violated) for %s' % a['name'])); okA = False; break
            if not feq(fx(mt[7]), r['qa'], 1e-12) or not feq(fx(mt[8]), r['qb'], 1e-9):
                # CPodesIntegratorRep keeps a state saved before a scheduled-event handler ran (savedY) and restores it as the
                # advanced state on the return that follows a later triggered event whose handlers changed nothing: the
                # returned state then shows exactly an EARLIER advanced state of the run (pre-handler values)
                stale = a['name'] == 'CPodes' and prev_status == 'ReachedEventTrigger' and any(feq(q[0], r['qa']) and feq(q[1], r['qb']) for q in seenQ)
                if stale:
                    res['findings'].append(('cpodes-stale-saved-state',
                        'CPodesIntegratorRep::stepTo returns a stale advanced state after a triggered event: ' + w +
                        'implementation qA=%s qB=%s is the advanced state of an earlier return (before a scheduled handler changed qA), the handlers produced qA=%s qB=%s' % (hx(r['qa']), hx(r['qb']), mt[7], mt[8]),
                        {'scenario': a['id'], 'seed': seed, 'replay_cmd': '%s ts %d %d 1' % (exe, seed, nscen)}))
                else:
                    res['mismatch'].append(('ts', w + 'advanced state after handling: implementation qA=%s qB=%s, model %s %s' % (hx(r['qa']), hx(r['qb']), mt[7], mt[8]))); okA = False; break
            seenQ.append((r['qa'], r['qb'])); prev_status = r['status']
            n0 = len(res['mismatch']); cmp_log(blk, r['h'], ids, w, res, 'ts')
            if len(res['mismatch']) != n0: okA = False; break
            res['n_ts_returns'] += 1
            res['ts_status'][r['status']] = res['ts_status'].get(r['status'], 0) + 1
            for (idx, kind, t, qa, qb) in r['h']: res['ts_kinds'][kind] = res['ts_kinds'].get(kind, 0) + 1
        if not okA: continue
        # ---------------- run B: reportAll off, same integrator answers
        cmds = list(setup) + ['TSINIT %s' % a['tStart']] + answers
        expB = []
        for tg in b['targets']:
            if tg['rets']:
                cmds.append('TSRUN 0 %s' % tg['time']); expB.append(tg['rets'][-1])
        out = drive(drv, cmds)
        blocks = []; curb = None
        for l in out:
            if l.startswith('RET') or l.startswith('ORACLE') or l.startswith('NOSTATE'): curb = [l]; blocks.append(curb)
            elif curb is not None: curb.append(l)
        if len(blocks) != len(expB):
            res['mismatch'].append(('ts', where + 'run B: model produced %d results for %d calls' % (len(blocks), len(expB)))); continue
        for r, blk in zip(expB, blocks):
            mt = blk[0].split()
            w = where + 'run B stepTo -> %s t=%s: ' % (r['status'], r['t_s'])
            if mt[0] != 'RET' or mt[1] != r['status'] or not feq(fx(mt[2]), r['t']) or not feq(fx(mt[3]), r['adv']) or int(mt[4]) != r['over']:
                res['mismatch'].append(('ts', w + 'model result %s' % blk[0])); break
            if not feq(fx(mt[7]), r['qa'], 1e-12) or not feq(fx(mt[8]), r['qb'], 1e-9):
                res['mismatch'].append(('ts', w + 'advanced state: implementation qA=%s qB=%s, model %s %s' % (hx(r['qa']), hx(r['qb']), mt[7], mt[8]))); break
            n0 = len(res['mismatch']); cmp_log(blk, r['h'], ids, w, res, 'ts')
            if len(res['mismatch']) != n0: break
            res['n_ts_returns_B'] += 1

def ts_predicates(a, b, ids, where, res):
    """scheduled/periodic handlers exactly at their times, each due time served once and in order; all calls in time order per
    handler; handler sees the state produced by the previous handlers (qA is the sum of the increments so far)"""
    tStart = fx(a['tStart'])
    for run, sc in (('A', a), ('B', b)):
        calls = [h for tg in sc['targets'] for r in tg['rets'] for h in r['h']]
        last = [r for tg in sc['targets'] for r in tg['rets']]
        if not last: continue
        tend = last[-1]['t']; terminated = any(int(sc['hs'][i][3]) == 3 for i, _, _, _, _ in calls)
        # termination: once a handler with the terminate action has run, the dispatch that ran it must leave the simulation
        # over with reason EventHandlerRequestedTermination (3), whatever handlers ran after it in the same dispatch, and
        # nothing may happen afterwards (no later return, no later handler call)
        res['n_pred'] += 1
        for k, r in enumerate(last):
            termi = [idx for (idx, kind, t, qa, qb) in r['h'] if kind in ('S', 'T') and int(sc['hs'][idx][3]) == 3]
            if not termi: continue
            res['n_term_dispatches'] = res.get('n_term_dispatches', 0) + 1
            order = [idx for (idx, kind, t, qa, qb) in r['h']]
            if termi[0] != order[-1]: res['n_term_not_last'] = res.get('n_term_not_last', 0) + 1
            bad = None
            if not r['over']: bad = 'the simulation is not over after the dispatch (isSimulationOver() = 0)'
            elif r.get('reason') is not None and r['reason'] != 3: bad = 'termination reason is %d, not EventHandlerRequestedTermination (3)' % r['reason']
            elif k != len(last) - 1: bad = 'stepTo made further progress: %d later returns, first %s at t=%s' % (len(last) - 1 - k, last[k + 1]['status'], last[k + 1]['t_s'])
            if bad:
                res['pred_fail'].append(('termination_requested_ends_run', where + 'run %s: handler %d (terminate) ran at t=%s in a %s dispatch calling handlers %s; %s' %
                                         (run, termi[0], hx(r['h'][0][2]), r['status'], order, bad),
                                         {'mode': res.get('ts_mode', 'ts'), 'scenario': sc['id'], 'integrator': sc['name'], 'handlers(cls,action)': [(int(h[2]), int(h[3])) for h in sc['hs']],
                                          'replay_cmd': 'build/C22/C22_events %s <seed> %d %d' % (res.get('ts_mode', 'ts'), sc['id'] + 1, 1 if run == 'A' else 0)}))
            break
        qa_expect = 0.0
        for (idx, kind, t, qa, qb) in calls:
            res['n_pred'] += 1
            if kind in ('S', 'T') and abs(qa - qa_expect) > 1e-9 * max(1.0, abs(qa_expect)):     # interpolation rounds qA by ulps
                res['pred_fail'].append(('integration_resumes_from_handler_state', where + 'run %s: handler %d at t=%s sees qA=%s, the handlers before it produced %s' % (run, idx, hx(t), hx(qa), hx(qa_expect)),
                                         {'mode': 'ts', 'scenario': sc['id'], 'integrator': sc['name']}))
                break
            act = int(sc['hs'][idx][3])
            if kind in ('S', 'T') and act in (1, 3): qa_expect += idx + 1
        for i, h in enumerate(sc['hs']):
            cls = int(h[2])
            if cls not in (0, 1, 3, 4): continue
            times = [t for (idx, kind, t, qa, qb) in calls if idx == i]
            if cls in (0, 3):
                iv = fx(h[4]); bad = [t for t in times if (t / iv) != math.floor(t / iv)]
                due = [k * iv for k in range(0, int(tend / iv) + 2) if tStart <= k * iv <= tend]
            else:
                n = int(h[5]); sched = [fx(x) for x in h[6:6 + n]]; bad = [t for t in times if t not in sched]
                due = sorted(set(x for x in sched if tStart <= x <= tend))
            if bad:
                res['pred_fail'].append(('scheduled_called_exactly_at_time', where + 'run %s: scheduled %s %d called at %s, not one of its times' % (run, 'handler' if cls < 3 else 'reporter', i, [hx(t) for t in bad]),
                                         {'mode': 'ts', 'scenario': sc['id'], 'integrator': sc['name'], 'handler': i}))
            if times != sorted(times) or len(set(times)) != len(times):
                res['pred_fail'].append(('handlers_in_time_order', where + 'run %s: scheduled %d called at %s (not strictly increasing)' % (run, i, [hx(t) for t in times]),
                                         {'mode': 'ts', 'scenario': sc['id'], 'integrator': sc['name'], 'handler': i}))
            if not terminated and sc['throw'] is None:
                # every due time strictly before the end was served (the one at the very end may be pending)
                missing = [x for x in due if x < tend and x not in times and x > tStart]
                if missing:
                    res['pred_fail'].append(('scheduled_called_exactly_at_time', where + 'run %s: scheduled %d was not called at its times %s (end of run %s)' % (run, i, [hx(x) for x in missing], hx(tend)),
                                             {'mode': 'ts', 'scenario': sc['id'], 'integrator': sc['name'], 'handler': i}))


# ------------------------------------------------------------------------------------------------ System-level scheduled-event selection
def corr_sub2(ctx, drv, exe, n, res):
    """System::calcTimeOfNextScheduledEvent on systems with several subsystems owning scheduled events, against both
    variants of the model's loop (as written / clear-before-assign).  Returns the variant the implementation follows."""
    rc, out, err = sh([exe, 'sub2', str(ctx.seed), str(n)], timeout=300)
    cases = []; cur = None
    for l in out.split('\n'):
        tk = l.split()
        if not tk: continue
        if tk[0] == 'SUBCASE': cur = {'spec': tk[1:], 'next': [], 'h': []}; cases.append(cur)
        elif tk[0] == 'NEXT': cur['next'].append(tk)
        elif tk[0] == 'H': cur['h'].append(tk)
    if len(cases) != n:
        res['mismatch'].append(('sysnext', 'harness produced %d of %d cases: %s' % (len(cases), n, (out + err)[-300:]))); return None
    cmds = []
    for c in cases:
        for q in c['next']:
            for cf in (0, 1): cmds.append('SYSNEXT %d %s %s %s' % (cf, q[1], q[2], ' '.join(c['spec'])))
    ans = drive(drv, cmds)
    if len(ans) != len(cmds):
        res['mismatch'].append(('sysnext', 'driver answered %d of %d' % (len(ans), len(cmds)))); return None
    k = 0; agree = {0: 0, 1: 0}; differ = 0; first_bad = {0: None, 1: None}
    for c in cases:
        for q in c['next']:
            impl = (fx(q[3]), [int(x) for x in q[5:]])
            for cf in (0, 1):
                a = ans[k].split(); k += 1
                m = (fx(a[1]), [int(x) for x in a[3:]])
                if feq(m[0], impl[0]) and m[1] == impl[1]: agree[cf] += 1
                elif first_bad[cf] is None: first_bad[cf] = 'subsystems %s, t=%s incl=%s: implementation (%s, ids %s), model variant %d (%s, ids %s)' % (' '.join(c['spec']), q[1], q[2], q[3], impl[1], cf, a[1], m[1])
            if ans[k - 2] != ans[k - 1]: differ += 1
    total = sum(len(c['next']) for c in cases)
    res['n_sysnext'] = total; res['sysnext_discriminating'] = differ
    variant = 0 if agree[0] == total else 1 if agree[1] == total else None
    if variant is None:
        res['mismatch'].append(('sysnext', 'System::calcTimeOfNextScheduledEvent follows neither variant of the model: ' + str(first_bad[0]) + ' ; ' + str(first_bad[1])))
        return None
    if differ == 0:
        res['mismatch'].append(('sysnext', 'no generated case discriminates the two variants')); return None
    res['sysnext_variant'] = 'as written (ids accumulate)' if variant == 0 else 'clear before assign (patch applied)'
    if variant == 0:
        # the refutation witness of the Coq theorem, replayed on the implementation: who is called when
        c0 = cases[0]
        wrong = [h for h in c0['h'] if h[1] == '0' and fx(h[3]) != 0.5]
        if wrong:
            res['findings'].append(('sys-next-ids-accumulate',
                'System::Guts::calcTimeOfNextScheduledEventImpl never clears the accumulated ids (the comparison follows the assignment): '
                'default-subsystem handler due at t=0.5 is listed for, and called at, the event of another subsystem at t=0.3125',
                {'witness': 'default subsystem: ScheduledEventHandler due at 0.5; second subsystem: scheduled event at 0.3125', 'calcTimeOfNextScheduledEvent': [' '.join(q) for q in c0['next']],
                 'handler_calls': [' '.join(h) for h in c0['h']], 'replay_cmd': '%s sub2 %d 2' % (exe, ctx.seed)}))
        else:
            res['mismatch'].append(('sysnext', 'the implementation follows the as-written variant but the witness run shows no wrong call: %s' % c0['h']))
    else:
        # regression: the witnesses of the repaired defect must now pass -- each handler called only at its own time
        for c, due in ((cases[0], 0.5), (cases[1], 0.3125)):
            wrong = [h for h in c['h'] if h[1] == '0' and fx(h[3]) != due]
            if wrong or not any(h[1] == '0' for h in c['h']):
                res['mismatch'].append(('sysnext', 'regression witness of the repaired sys-next defect fails: default-subsystem handler due at %s called at %s' % (due, [h[3] for h in c['h'] if h[1] == '0'])))
        res['regressions_passed'].append('sys-next-ids-accumulate (two-subsystem witnesses: handler called only at its own time)')
    return variant

# ------------------------------------------------------------------------------------------------ run
def new_res():
    return {'mismatch': [], 'pred_fail': [], 'n_table': 0, 'n_root': 0, 'n_fec': 0, 'n_fec_nontrivial': 0, 'n_steps': 0, 'n_events': 0,
            'n_events_compared': 0, 'n_iters_compared': 0, 'iters_hist': {}, 'loc_paths': {}, 'hooks': False, 'samples': [], 'n_pred': 0,
            'n_handler_calls': 0, 'n_ts_returns': 0, 'n_ts_returns_B': 0, 'ts_status': {}, 'ts_kinds': {}, 'findings': [], 'n_sysnext': 0, 'cpodes_nonmono': 0, 'regressions_passed': []}

def run(ctx):
    ctx.build_repo()
    ctx.coq_props(PROPS)
    tools = build_tools(ctx)
    if tools is None:
        ctx.finish()
    drv, exe = tools
    res = new_res()
    thorough = ctx.tier == 'thorough'
    seeds = [ctx.seed] if not thorough else [ctx.seed + k for k in range(5)]
    corr_table(ctx, drv, exe, res)
    corr_root(ctx, drv, exe, 400 if not thorough else 4000, res)
    corr_fec(ctx, drv, exe, 300 if not thorough else 3000, res)
    variant = corr_sub2(ctx, drv, exe, 40 if not thorough else 400, res)
    res['cf'] = 1 if variant == 1 else 0
    # corpus first
    for line in open(os.path.join(VERIF, 'corpus', 'C22', 'regress.txt')):
        tk = line.split()
        if len(tk) == 3 and tk[0] in ('ts', 'tsterm'): corr_ts(ctx, drv, exe, int(tk[2]), int(tk[1]), res, mode=tk[0])
        elif len(tk) == 3 and tk[0] == 'loc': corr_loc(ctx, drv, exe, int(tk[2]), int(tk[1]), res)
    for sd in seeds:
        corr_ts(ctx, drv, exe, 36 if not thorough else 108, sd, res, mode='tsterm')
        corr_loc(ctx, drv, exe, 48 if not thorough else 160, sd, res)
        corr_ts(ctx, drv, exe, 54 if not thorough else 180, sd, res)
    n = res['n_table'] + res['n_root'] + res['n_fec'] + res['n_sysnext'] + res['n_steps'] + res['n_ts_returns'] + res['n_ts_returns_B']
    distinct = len(res['loc_paths']) + len(res['ts_status']) + len(res['ts_kinds']) + len(res['iters_hist'])
    ctx.add_cases(n, distinct, res['samples'][:6])
    ctx.cov['rule'] = ('one evaluation = one table row, one estimateRootTime call, one findEventCandidates call, one internal step of a real '
                       'integrator (event phase recomputed by the model from t0, the step-size selection and the witness functions), or one '
                       'TimeStepper::stepTo return (handler calls, times and states compared with the model).  distinct_nontrivial = distinct '
                       '(integrator, NOEVENT/EVENT) combinations + TimeStepper statuses + handler kinds called + distinct localisation-iteration counts')
    ctx.extra.update({'table_rows': res['n_table'], 'root_estimates': res['n_root'], 'root_branches': res.get('root_branches'),
                      'findEventCandidates_calls': res['n_fec'], 'findEventCandidates_with_candidates': res['n_fec_nontrivial'],
                      'integrator_steps_replayed': res['n_steps'], 'events_localised_by_model': res['n_events'],
                      'events_returned_and_compared': res['n_events_compared'], 'localisation_iterations_histogram': res['iters_hist'],
                      'localisation_iterations_compared_via_hooks': res['n_iters_compared'], 'hooks_present': res['hooks'],
                      'steps_per_integrator_and_outcome': {'%s:%s' % k: v for k, v in sorted(res['loc_paths'].items())},
                      'timestepper_returns_compared_runA': res['n_ts_returns'], 'timestepper_returns_compared_runB': res['n_ts_returns_B'],
                      'timestepper_status_histogram': res['ts_status'], 'handler_calls_compared': res['n_handler_calls'],
                      'handler_kinds_called': res['ts_kinds'], 'predicate_evaluations': res['n_pred']})
    if not res['hooks']:
        ctx.extra['hook_records'] = 'none arrived (patches/C19_hook_AbstractIntegratorRep.diff not applied in the tree under test); the event phase is tied through the public API only'
    seen = set()
    for tag, why in res['mismatch']:
        if tag not in seen:
            seen.add(tag); ctx.broken.append(('correspondence:' + tag, why))
    ctx.extra['mismatches'] = len(res['mismatch'])
    # failing inputs found by the property's own predicates on the implementation
    seenp = set()
    for key, desc, obj in res['pred_fail']:
        if key in seenp: continue
        seenp.add(key)
        ctx.report('impl:' + key, 'implementation violates the C22 clause %s: %s' % (key, desc), dict({'replay_cmd': '%s <mode> %d <n>' % (exe, ctx.seed)}, **obj))
    ctx.extra['predicate_failures'] = len(res['pred_fail'])
    ctx.extra['dispatches_with_a_terminating_handler'] = res.get('n_term_dispatches', 0)
    ctx.extra['of_which_terminating_handler_not_called_last'] = res.get('n_term_not_last', 0)
    ctx.extra['cpodes_answers_with_decreasing_advanced_time'] = res['cpodes_nonmono']
    ctx.extra['system_level_next_event_queries'] = res['n_sysnext']; ctx.extra['system_level_loop_variant'] = res.get('sysnext_variant')
    for key, desc, obj in res['findings']:
        ctx.report(key, desc, obj)
    if not any(k == 'cpodes-stale-saved-state' for k, _, _ in res['findings']):
        res['regressions_passed'].append('cpodes-stale-saved-state (corpus ts 3 9: no stale advanced state returned)')
    ctx.extra['regressions_passed'] = res['regressions_passed']
    ctx.assumptions += [
        'theorems about the numeric part are over the reals (ROps); binary64 is covered only by the exact/1e-15 comparison of the extracted float instance with the implementation',
        'trigger values at interpolated times are an oracle e(t) in the theorems (any function); in the tie the witness functions depend on time only, so e is known exactly',
        'Integrator::stepTo is an oracle for the TimeStepper model; the theorems assume use_core (and use_mono for the time-order theorem) at each use (C19 theorems for AbstractIntegratorRep); the replay evaluates use_coreb on every recorded answer of all nine integrators and use_monob on the eight AbstractIntegratorRep ones (CPodes lets the advanced time go back: C19 known finding, so the time-order theorem does not cover it)',
        'scheduled handlers whose next event time depends on the state time only; one subsystem (the default one) owns scheduled handlers',
        'not decided: crossings that appear and disappear within one step; accuracy of interpolated trigger values']
    ctx.finish()
