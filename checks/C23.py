"""C23 Measures compute what their definitions say (DESIGN 5 C23, 7.8, 7.22) -- PARTIAL.

Theorems: coq/Props/Properties_C23.v about the executable model coq/C23/C23_Model.v (measure trees with their lazy
cache entries; Extreme / Delay / Differentiate as state machines over auto-update discrete variables; Integrate and
SampleAndHold as specifications).
Tie (checked on every run), model extracted to OCaml with the float NumOps:
  (1) direct drive: generated operation sequences (setTime / realize / autoUpdateDiscreteVariables / invalidate /
      initialization event / Variable::setValue / Extreme::setValue / getValue / getTimeOfExtremeValue) are executed on a
      real State + System (harness/C23_drive.cpp) and on the model; stage and observation are compared after EVERY operation;
  (2) integrator runs: real integrators over generated report grids (harness/C23_integ.cpp); a user-defined recorder measure
      yields the exact auto-update time sequence behind every returned state, which becomes the model's operation sequence;
      every measure value at every returned state is compared;
  (3) the right-hand sides of the theorems (extreme of the samples, interpolant of the history, formula value) are evaluated
      independently in Python on the integrator runs (this is also the failing-input search).
Known findings (each replayed on the implementation on every run): see FINDINGS below.
The model has one flag (fx): Extreme::setValue as in the source / with patches/C23_extreme_setvalue.diff; decide_fx picks the
variant the tree under test implements, the theorems about runs are proved for both."""
import os, sys, math, json
from vlib import *

PROPS = ['Props/Properties_C23.v']
INF = float('inf')
RTOL, ATOL = 1e-12, 1e-13

EXTRACT_V = '''From Coq Require Import Extraction ExtrOcamlBasic.
Require Import Num C23_Model.
Extraction Language OCaml.
Extraction "c23m.ml" step run env0 mk_ext mk_delay mk_diff mk_sin mk_plus mk_minus mk_scale mkSt sh_run.
'''

def hx(x):
    if x != x: return 'nan'
    if x == INF: return 'inf'
    if x == -INF: return '-inf'
    return float(x).hex()
def fx(s):
    return float.fromhex(s) if s not in ('nan', '-nan', 'inf', '-inf') else float(s)

# ------------------------------------------------------------------------------------------------ expressions
def ptxt(e):
    k = e[0]
    if k == 'c': return 'c ' + hx(e[1])
    if k == 't': return 't'
    if k == 's': return 's %s %s %s' % (hx(e[1]), hx(e[2]), hx(e[3]))
    if k in '+-': return '%s %s %s' % (k, ptxt(e[1]), ptxt(e[2]))
    return '* %s %s' % (hx(e[1]), ptxt(e[2]))
def ttxt(e):
    k = e[0]
    if k == 'C': return 'C ' + hx(e[1])
    if k == 'T': return 'T'
    if k == 'V': return 'V %d' % e[1]
    if k == 'S': return 'S %s %s %s' % (hx(e[1]), hx(e[2]), hx(e[3]))
    if k in '+-': return '%s %s %s' % (k, ttxt(e[1]), ttxt(e[2]))
    return '* %s %s' % (hx(e[1]), ttxt(e[2]))
def peval(e, t, vars=None):
    """the formula (spec side, Python floats)"""
    k = e[0]
    if k in 'cC': return e[1]
    if k in 'tT': return t
    if k == 'V': return vars[e[1]]
    if k in 'sS': return e[1] * math.sin(e[2] * t + e[3])
    if k == '+': return peval(e[1], t, vars) + peval(e[2], t, vars)
    if k == '-': return peval(e[1], t, vars) - peval(e[2], t, vars)
    return e[1] * peval(e[2], t, vars)
def pdep(e):
    k = e[0]
    if k in 'cC': return 1
    if k in 'tTsS': return 4
    if k == 'V': return 2
    if k in '+-': return max(pdep(e[1]), pdep(e[2]))
    return pdep(e[2])

def dy(r, lo, hi, den=64):
    """a dyadic rational in [lo,hi] (exact in binary64, so that t - delay can hit stored times exactly)"""
    return r.randint(int(lo * den), int(hi * den)) / den

def gen_pexpr(r, depth, timedep=True):
    if depth <= 0 or r.random() < 0.35:
        c = r.random()
        if c < 0.45: return ('s', r.uniform(-2, 2), r.uniform(0.5, 8) * r.choice((-1, 1)), r.uniform(-3, 3))
        if c < 0.8 or timedep: return ('t',)
        return ('c', dy(r, -3, 3))
    c = r.random()
    if c < 0.35: return ('+', gen_pexpr(r, depth - 1, timedep), gen_pexpr(r, depth - 1, False))
    if c < 0.7: return ('-', gen_pexpr(r, depth - 1, timedep), gen_pexpr(r, depth - 1, False))
    return ('*', r.choice((-1.0, 0.5, 2.0, r.uniform(-3, 3))), gen_pexpr(r, depth - 1, timedep))
def gen_tree(r, depth, nvars):
    if depth <= 0 or r.random() < 0.3:
        c = r.random()
        if c < 0.3: return ('S', r.uniform(-2, 2), r.uniform(0.5, 8), r.uniform(-3, 3))
        if c < 0.55: return ('T',)
        if c < 0.8 and nvars: return ('V', r.randrange(nvars))
        return ('C', dy(r, -3, 3))
    c = r.random()
    if c < 0.35: return ('+', gen_tree(r, depth - 1, nvars), gen_tree(r, depth - 1, nvars))
    if c < 0.7: return ('-', gen_tree(r, depth - 1, nvars), gen_tree(r, depth - 1, nvars))
    return ('*', r.choice((-1.0, 0.5, 2.0, r.uniform(-3, 3))), gen_tree(r, depth - 1, nvars))
def paths(e, pre=''):
    out = [pre or '-']
    if e[0] in '+-': out += paths(e[1], pre + '0') + paths(e[2], pre + '1')
    elif e[0] == '*': out += paths(e[2], pre + '0')
    return out
def node_at(e, p):
    if p == '-': return e
    for ch in p: e = e[2] if (e[0] == '*' or ch == '1') else e[1]
    return e

def gen_src(r, n, allow_const=False):
    return [gen_pexpr(r, r.choice((0, 1, 1, 2)), timedep=not (allow_const and r.random() < 0.5)) for _ in range(n)]

def mach_line(m):
    if m['kind'] == 'X': return 'EXT %d %d %s' % (m['op'], len(m['src']), ' '.join(ptxt(e) for e in m['src']))
    if m['kind'] == 'D': return 'DEL %s %d %s' % (hx(m['delay']), len(m['src']), ' '.join(ptxt(e) for e in m['src']))
    return 'DIF %d %s' % (len(m['src']), ' '.join(ptxt(e) for e in m['src']))

def gen_machs(r, nmax, vec_ok=True):
    ms = []
    for _ in range(r.randint(1, nmax)):
        k = r.choice('XXXDDDF')
        n = 3 if (vec_ok and r.random() < 0.3) else 1
        if k == 'X':
            const = r.random() < 0.06 and n == 1
            src = [('c', dy(r, -2, 2))] if const else gen_src(r, n)
            ms.append({'kind': 'X', 'op': r.randrange(4), 'src': src})
        elif k == 'D':
            ms.append({'kind': 'D', 'delay': r.choice((0.0, dy(r, 0, 0.25), dy(r, 0, 0.25), dy(r, 0.25, 2.0))), 'src': gen_src(r, n)})
        else:
            src = gen_src(r, n)
            if r.random() < 0.35: src = [('+', ('*', dy(r, -3, 3), ('t',)), ('c', dy(r, -3, 3))) for _ in range(n)]   # affine: exactness predicate
            if n == 1 and pdep(src[0]) < 4: src = [('t',)]
            ms.append({'kind': 'F', 'src': src})
    return ms

# ------------------------------------------------------------------------------------------------ direct-drive cases
def gen_case(r, cid, hist):
    """one operation sequence; mostly integrator-like cycles with disturbances at every case split of the proofs:
    equal times, time going back, gets one stage early (mark-ahead), setValue of variables / extremes, re-initialisation,
    invalidation, t - delay exactly on / before / between / after the stored times"""
    nvars = r.choice((0, 1, 1, 2))
    vars_ = [(dy(r, -3, 3), r.choice((3, 4, 4, 5, 7))) for _ in range(nvars)]
    trees = [gen_tree(r, r.choice((1, 2, 2, 3)), nvars) for _ in range(r.randint(1, 3))]
    machs = gen_machs(r, 4)
    t = dy(r, -1, 1)
    lines = ['CASE %s' % cid] + ['VAR %s %d' % (hx(v), g) for v, g in vars_] + ['TREE ' + ttxt(e) for e in trees] + [mach_line(m) for m in machs]
    lines.append('BEGIN ' + hx(t))
    ops = []
    def get_some(k=2):
        for _ in range(r.randint(0, k)):
            c = r.random()
            if c < 0.45 and machs: ops.append('M %d' % r.randrange(len(machs)))
            elif c < 0.55 and machs:
                j = r.randrange(len(machs)); ops.append('Q %d' % j)
            else:
                i = r.randrange(len(trees)); p = r.choice(paths(trees[i])); nd = node_at(trees[i], p)
                kmax = 3 if nd[0] == 'S' else (5 if nd[0] in 'CTV' else 0)
                ops.append('G %d %d %s' % (i, r.randint(0, kmax) if r.random() < 0.4 else 0, p))
    if r.random() < 0.75:
        if r.random() < 0.5: ops.append('R %d' % r.choice((4, 6, 8)))
        ops.append('I')
        if r.random() < 0.8: ops += ['R 8', 'A']
        if r.random() < 0.5: ops += ['N 3', 'R 8']
    dts = [dy(r, 0, 0.5) for _ in range(3)] + [1 / 64, 1 / 64, 0.0]
    for cyc in range(r.randint(3, 14)):
        c = r.random()
        if c < 0.72:
            t = t + r.choice(dts)
        elif c < 0.8:
            t = t - r.choice(dts)        # time going back
        ops.append('T ' + hx(t))
        c = r.random()
        if c < 0.12: get_some(1)          # gets right after setTime (stage Instance: one stage early / guard)
        ops.append('R %d' % (8 if r.random() < 0.75 else r.choice((3, 4, 5, 7, 9))))
        get_some(3)
        c = r.random()
        if c < 0.12 and nvars:
            ops.append('V %d %s' % (r.randrange(nvars), hx(dy(r, -3, 3)))); get_some(2)
            if r.random() < 0.6: ops.append('R 8'); get_some(1)
        elif c < 0.2:
            xs = [j for j, m in enumerate(machs) if m['kind'] == 'X']
            if xs:
                j = r.choice(xs); n = len(machs[j]['src'])
                ops.append('X %d %d %s' % (j, n, ' '.join(hx(dy(r, -2, 2)) for _ in range(n)))); get_some(2)
                if r.random() < 0.6: ops.append('R 8'); get_some(1)
        elif c < 0.25: ops.append('N %d' % r.randint(3, 9)); get_some(1)
        elif c < 0.28: ops.append('I'); get_some(1)
        if r.random() < 0.85: ops.append('A')
        if r.random() < 0.25: get_some(2)     # gets right after the auto-update, same time
    for o in ops: hist[o.split()[0]] = hist.get(o.split()[0], 0) + 1
    for m in machs:
        key = {'X': 'Extreme/%s' % ('Minimum', 'Maximum', 'MinAbs', 'MaxAbs')[m.get('op', 0)], 'D': 'Delay', 'F': 'Differentiate'}[m['kind']] + ('<Vec3>' if len(m['src']) == 3 else '')
        hist[key] = hist.get(key, 0) + 1
    return lines + ops + ['END']

def same_obs(a, b):
    ta, tb = a.split(), b.split()
    if len(ta) != len(tb) or ta[:2] != tb[:2]: return False
    for x, y in zip(ta[2:], tb[2:]):
        if not close(fx(x), fx(y), RTOL, ATOL): return False
    return True

def build_tools(ctx):
    d = ctx.bdir('ex')
    if not ctx.extract(EXTRACT_V, d):
        ctx.broken.append(('correspondence:extract', 'extraction of the C23 model failed')); return None
    src = open(os.path.join(VERIF, 'ocaml', 'C23_drv.ml')).read().replace('(*FOPS*)', open(os.path.join(VERIF, 'ocaml', 'fops.inc')).read())
    open(os.path.join(d, 'drv.ml'), 'w').write(src)
    if not ctx.ocaml(d, ['c23m.mli', 'c23m.ml', 'drv.ml'], 'drv'):
        ctx.broken.append(('correspondence:ocaml', 'OCaml driver for the extracted C23 model does not build')); return None
    exes = {}
    for nm in ('drive', 'integ'):
        exe = ctx.bdir('C23_' + nm)
        if not ctx.cxx(os.path.join(VERIF, 'harness', 'C23_%s.cpp' % nm), exe, flags=('-DNDEBUG',)):
            ctx.broken.append(('correspondence:harness', 'C23_%s.cpp does not compile against the tree under test' % nm)); return None
        exes[nm] = exe
    ctx.trusted.add('correspondence harnesses harness/C23_drive.cpp, C23_integ.cpp (-DNDEBUG), ocaml/C23_drv.ml with float NumOps; stage and kind of '
                    'observation compared exactly, numbers with rel %g abs %g' % (RTOL, ATOL))
    return os.path.join(d, 'drv'), exes

FX = ['0']      # model flag fx: '1' when the tree under test has the repair of patches/C23_extreme_setvalue.diff (decided by decide_fx)

def run_both(ctx, drv, exe, lines, what):
    inp = '\n'.join(lines) + '\n'
    rc1, o1, e1 = sh([exe], input=inp, timeout=1200)
    rc2, o2, e2 = sh([drv, FX[0]], input=inp, timeout=1200)
    l1 = [l for l in o1.split('\n') if l.strip()]; l2 = [l for l in o2.split('\n') if l.strip()]
    if rc1 != 0 or rc2 != 0 or len(l1) != len(l2):
        ctx.broken.append(('correspondence:' + what, 'runner failed rc=%s/%s lines=%d/%d: %s' % (rc1, rc2, len(l1), len(l2), (e1 + e2)[-400:])))
        return None
    return l1, l2

def split_cases(lines):
    out = []; cur = None
    for l in lines:
        if l.startswith('CASE'): cur = [l]
        elif l == 'END': cur.append(l); out.append(cur); cur = None
        elif cur is not None: cur.append(l)
    return out

def shrink_case(ctx, drv, exe, case):
    """delete-one-op shrinking of a disagreeing case (header lines are kept)"""
    hdr = [l for l in case if l.split()[0] in ('CASE', 'VAR', 'TREE', 'EXT', 'DEL', 'DIF', 'BEGIN')]
    ops = [l for l in case if l not in hdr and l != 'END']
    def bad(ops_):
        r = run_both(ctx, drv, exe, hdr + ops_ + ['END'], 'shrink')
        if r is None: ctx.broken.pop(); return False
        return any(not same_obs(a, b) for a, b in zip(*r))
    i = 0; budget = 150
    while i < len(ops) and budget > 0:
        budget -= 1
        trial = ops[:i] + ops[i + 1:]
        if bad(trial): ops = trial
        else: i += 1
    return hdr + ops + ['END']

def corr_drive(ctx, drv, exe, n):
    hist = {}; lines = []; corpus_n = 0
    cdir = os.path.join(VERIF, 'corpus', 'C23')
    if os.path.isdir(cdir):
        for f in sorted(os.listdir(cdir)):
            if f.endswith('.case'):
                cl = [l.strip() for l in open(os.path.join(cdir, f)) if l.strip() and not l.startswith('#')]
                lines += cl; corpus_n += sum(1 for l in cl if l.startswith('CASE'))
    for c in range(n): lines += gen_case(ctx.rng, 'g%d' % c, hist)
    open(ctx.bdir('drive_cases.txt'), 'w').write('\n'.join(lines) + '\n')
    r = run_both(ctx, drv, exe, lines, 'drive')
    if r is None: return
    l1, l2 = r
    ops = [l for l in lines if l.split()[0] not in ('VAR', 'TREE', 'EXT', 'DEL', 'DIF')]
    if len(ops) != len(l1):
        ctx.broken.append(('correspondence:drive', 'harness printed %d lines for %d operations' % (len(l1), len(ops)))); return
    kinds = {}; dis = []; nontriv = set(); cid = None; nobs = 0; case_has = False
    for o, a, b in zip(ops, l1, l2):
        if o.startswith('CASE'): cid = o; continue
        if o == 'END': continue
        ta = a.split()
        kinds[ta[1]] = kinds.get(ta[1], 0) + 1; nobs += 1
        if ta[1] == 'V' and any(fx(x) != 0 for x in ta[2:]): nontriv.add(cid)
        if not same_obs(a, b): dis.append((cid, o, a, b))
    ncase = corpus_n + n
    ctx.add_cases(nobs, len(nontriv), [{'op': ops[9], 'cxx': l1[9], 'model': l2[9]}] if len(ops) > 9 else None)
    ctx.extra.setdefault('correspondence', {})['direct_drive'] = {
        'operation_sequences': ncase, 'corpus_sequences': corpus_n, 'operations_compared': nobs, 'disagreements': len(dis),
        'observation_kinds': dict(sorted(kinds.items())), 'operations_and_machines': dict(sorted(hist.items()))}
    ctx.log('direct drive: %d sequences, %d operations compared, %d disagreements; observations %s' % (ncase, nobs, len(dis), dict(sorted(kinds.items()))))
    if dis:
        cid, o, a, b = dis[0]
        case = [c for c in split_cases(lines) if c[0] == cid][0]
        small = shrink_case(ctx, drv, exe, case)
        os.makedirs(ctx.bdir(), exist_ok=True); open(ctx.bdir('first_disagreement.case'), 'w').write('\n'.join(small) + '\n')
        rr = run_both(ctx, drv, exe, small, 'shrunk')
        first = next(((x, y) for x, y in zip(*rr) if not same_obs(x, y)), (a, b)) if rr else (a, b)
        ctx.broken.append(('correspondence:drive', 'model and implementation differ (%d operations in %d sequences); first: %s op "%s" cxx="%s" model="%s"; '
                           'shrunk to %d lines (build/C23/first_disagreement.case): cxx="%s" model="%s"' %
                           (len(dis), len(set(d[0] for d in dis)), cid, o, a, b, len(small), first[0], first[1])))
        ctx.extra['first_disagreement_case'] = small

# ------------------------------------------------------------------------------------------------ integrator runs
INTEGS = ['RungeKuttaMerson', 'RungeKutta3', 'RungeKuttaFeldberg', 'Verlet', 'ExplicitEuler', 'RungeKutta2', 'SemiExplicitEuler2', 'CPodes']
STATUS = {1: 'ReachedReportTime', 2: 'ReachedEventTrigger', 3: 'ReachedScheduledEvent', 4: 'TimeHasAdvanced', 5: 'ReachedStepLimit', 6: 'EndOfSimulation', 7: 'StartOfContinuousInterval'}

def gen_run(r, rid):
    trees = [gen_tree(r, r.choice((1, 2, 3)), 0) for _ in range(r.randint(1, 2))]
    machs = gen_machs(r, 5)
    for m in machs:                                  # time-based operands only (analytic values)
        if m['kind'] == 'X' and pdep(m['src'][0]) < 4 and len(m['src']) == 1: m['src'] = [('s', 1.25, 3.0, 0.5)]
    kind = r.randrange(len(INTEGS))
    acc = r.choice((1e-2, 1e-3, 1e-4, 1e-6))
    t0 = dy(r, -1, 1)
    n = r.randint(4, 12); t = t0; reps = []
    for _ in range(n):
        t += r.choice((dy(r, 0, 0.5), dy(r, 0, 0.125), 1 / 64, 0.0, r.uniform(0.001, 0.3)))
        reps.append(t)
    allow = 0 if r.random() < 0.2 else 1
    lines = ['RUN ' + rid] + ['TREE ' + ttxt(e) for e in trees] + [mach_line(m) for m in machs] + \
            ['INTEG %d %s %s %d' % (kind, hx(acc), hx(t0), allow), 'REPORTS ' + ' '.join(hx(x) for x in reps), 'GO']
    return {'id': rid, 'trees': trees, 'machs': machs, 'kind': kind, 'acc': acc, 't0': t0, 'reports': reps, 'allow': allow, 'lines': lines}

def parse_runs(out):
    runs = {}; cur = None; ret = None
    for l in out.split('\n'):
        tk = l.split()
        if not tk: continue
        if tk[0] == 'RUN': cur = {'rets': [], 'fail': None}; runs[tk[1]] = cur
        elif tk[0] == 'RET':
            n = int(tk[4]); ret = {'status': int(tk[1]), 't': fx(tk[2]), 'au': [fx(x) for x in tk[5:5 + n]], 'M': {}, 'G': {}, 'INT': None}
            cur['rets'].append(ret)
        elif tk[0] == 'M': ret['M'][int(tk[1])] = tk[2:]
        elif tk[0] == 'G': ret['G'][int(tk[1])] = tk[2:]
        elif tk[0] == 'INT': ret['INT'] = fx(tk[1])
        elif tk[0] == 'FAIL': cur['fail'] = l
    return runs

def replay_lines(run, res):
    """the model's operation sequence for one integrator run: Integrator::initialize, then one (setTime, realize, autoUpdate)
    per recorded auto-update, and at every returned state (setTime, realize, getValue of everything)"""
    lines = ['CASE ' + run['id']] + ['TREE ' + ttxt(e) for e in run['trees']] + [mach_line(m) for m in run['machs']]
    lines += ['BEGIN ' + hx(run['t0']), 'R 6', 'I', 'R 8', 'A', 'N 3', 'R 8']
    cur = run['t0']; used = 1; expect = []      # expect: (index of output line, ret index, 'M'/'G', j)
    nout = 1 + 7                                 # CASE line + BEGIN + 6 ops
    ok = True
    for ri, ret in enumerate(res['rets']):
        au = ret['au']
        if len(au) < used or (ri > 0 and au[:used] != res['rets'][ri - 1]['au'][:used]): ok = False; break
        for tau in au[used:]:
            if tau != cur: lines.append('T ' + hx(tau)); nout += 1; cur = tau
            lines += ['R 8', 'A']; nout += 2
        used = len(au)
        if ret['t'] != cur: lines.append('T ' + hx(ret['t'])); nout += 1; cur = ret['t']
        lines.append('R 8'); nout += 1
        for j in range(len(run['machs'])): lines.append('M %d' % j); expect.append((nout, ri, 'M', j)); nout += 1
        for i in range(len(run['trees'])): lines.append('G %d 0 -' % i); expect.append((nout, ri, 'G', i)); nout += 1
    lines.append('END')
    return lines, expect, ok

def affine(e):
    """(a, c) if the expression is a*t + c syntactically, else None"""
    k = e[0]
    if k == 'c': return (0.0, e[1])
    if k == 't': return (1.0, 0.0)
    if k == 's': return None
    if k in '+-':
        l, r = affine(e[1]), affine(e[2])
        if l is None or r is None: return None
        return (l[0] + r[0], l[1] + r[1]) if k == '+' else (l[0] - r[0], l[1] - r[1])
    x = affine(e[2])
    return None if x is None else (e[1] * x[0], e[1] * x[1])

def interp_history(hist, td):
    """the theorem's right-hand side for Delay: piecewise-linear interpolant of the recorded samples (flat before the
    first, linear extrapolation through the last two after the last)"""
    if td <= hist[0][0]: return hist[0][1]
    for (t0, v0), (t1, v1) in zip(hist, hist[1:]):
        if t0 < td <= t1:
            fr = (td - t0) / (t1 - t0); return [a + fr * (b - a) for a, b in zip(v0, v1)]
    if len(hist) == 1: return hist[0][1]
    (t0, v0), (t1, v1) = hist[-2], hist[-1]
    fr = (td - t0) / (t1 - t0); return [a + fr * (b - a) for a, b in zip(v0, v1)]

def spec_check(run, res):
    """property predicates on the implementation's own output of one integrator run; returns list of failures"""
    fails = []; neval = 0
    key = [lambda x: x, lambda x: -x, lambda x: abs(x), lambda x: -abs(x)]       # smaller key = more extreme
    for ri, ret in enumerate(res['rets']):
        t = ret['t']; au = ret['au']
        for i, e in enumerate(run['trees']):
            neval += 1
            got = fx(ret['G'][i][1]); want = peval(e, t)
            if not close(got, want, 1e-9, 1e-12): fails.append(('arith_eval_correct', 'tree %d at t=%s: got %r want %r' % (i, hx(t), got, want), ri))
        for j, m in enumerate(run['machs']):
            tk = ret['M'].get(j)
            if tk is None or tk[0] != 'V':
                if m['kind'] != 'F': fails.append(('no-value', 'machine %d returned %s' % (j, tk), ri))
                continue
            got = [fx(x) for x in tk[1:]]; neval += 1
            if m['kind'] == 'X':
                times = au + [t]; want = []
                for e in m['src']:
                    best = None
                    for tau in times:
                        v = peval(e, tau)
                        if best is None or key[m['op']](v) < key[m['op']](best): best = v
                    want.append(best)
                # a sample within rounding of the extreme may be picked on either side: compare the keys
                for g, w in zip(got, want):
                    if not close(key[m['op']](g), key[m['op']](w), 1e-9, 1e-12):
                        fails.append(('extreme_is_fold', 'machine %d (op %d) at t=%s: got %r, extreme of the operand over the auto-update states and the current one is %r' % (j, m['op'], hx(t), got, want), ri)); break
            elif m['kind'] == 'F':
                # differentiate_exact_on_affine: the finite-difference estimate of an affine operand is its slope as soon as two
                # different times have been seen
                affs = [affine(e) for e in m['src']]
                if all(x is not None for x in affs):
                    seen = t != au[-1] or any(x != au[0] for x in au)
                    want = [x[0] if seen else 0.0 for x in affs]
                    if any(not close(g, w, 1e-7, 1e-9) for g, w in zip(got, want)):
                        fails.append(('differentiate_exact_on_affine', 'machine %d at t=%s: got %r, the operand is affine with slope %r' % (j, hx(t), got, want), ri))
            elif m['kind'] == 'D':
                hist = []
                for tau in au:
                    while hist and hist[-1][0] >= tau: hist.pop()
                    hist.append((tau, [peval(e, tau) for e in m['src']]))
                want = interp_history(hist, t - m['delay'])
                sc = max([1.0] + [abs(x) for x in want])
                if any(not close(g, w, 1e-8, 1e-10, sc) for g, w in zip(got, want)):
                    fails.append(('delay_buffer_returns_bracketing_sample', 'machine %d delay %s at t=%s: got %r, interpolant of the history gives %r' % (j, hx(m['delay']), hx(t), got, want), ri))
    return fails, neval

def corr_integ(ctx, drv, exes, n):
    runs = [gen_run(ctx.rng, 'r%d' % i) for i in range(n)]
    inp = '\n'.join('\n'.join(r['lines']) for r in runs) + '\n'
    open(ctx.bdir('integ_runs.txt'), 'w').write(inp)
    rc, out, err = sh([exes['integ']], input=inp, timeout=2400)
    res = parse_runs(out)
    if rc != 0 or len(res) != len(runs):
        ctx.broken.append(('correspondence:integ', 'integrator harness failed rc=%s, %d of %d runs: %s' % (rc, len(res), len(runs), err[-300:]))); return
    allines = []; exps = []; nfail = 0; hist = {}; nret = 0; nau = 0; nstat = {}
    spec_fails = []; spec_eval = 0
    for r in runs:
        rr = res[r['id']]
        if rr['fail']: nfail += 1
        hist[INTEGS[r['kind']]] = hist.get(INTEGS[r['kind']], 0) + 1
        for ret in rr['rets']: nstat[STATUS.get(ret['status'], '?')] = nstat.get(STATUS.get(ret['status'], '?'), 0) + 1
        nret += len(rr['rets']); nau += len(rr['rets'][-1]['au']) if rr['rets'] else 0
        lines, expect, ok = replay_lines(r, rr)
        if not ok:
            ctx.broken.append(('correspondence:integ', 'run %s: the recorded auto-update time lists of successive returned states are not prefixes of each other' % r['id'])); continue
        exps.append((r, rr, len(allines), expect)); allines += lines
        f, ne = spec_check(r, rr); spec_eval += ne
        for x in f: spec_fails.append((r, rr, x))
    rc2, o2, e2 = sh([drv, FX[0]], input='\n'.join(allines) + '\n', timeout=2400)
    l2 = [l for l in o2.split('\n') if l.strip()]
    nout = len([l for l in allines if l.split()[0] not in ('TREE', 'EXT', 'DEL', 'DIF', 'VAR')])
    if rc2 != 0 or len(l2) != nout:
        ctx.broken.append(('correspondence:integ', 'model driver failed on the replay rc=%s lines %d/%d %s' % (rc2, len(l2), nout, e2[-300:]))); return
    dis = []; ncmp = 0
    # offset of each run in the model output: number of output-producing lines before it
    offs = {}
    for r, rr, off, expect in exps:
        offs[r['id']] = len([l for l in allines[:off] if l.split()[0] not in ('TREE', 'EXT', 'DEL', 'DIF', 'VAR')])
    for r, rr, off, expect in exps:
        o = offs[r['id']]
        for (k, ri, what, j) in expect:
            mine = l2[o + k].split()[1:]
            theirs = rr['rets'][ri][what][j]
            ncmp += 1
            same = len(mine) == len(theirs) and mine[0] == theirs[0] and all(close(fx(a), fx(b), RTOL, ATOL) for a, b in zip(mine[1:], theirs[1:]))
            if not same: dis.append((r, ri, what, j, theirs, mine))
    ctx.add_cases(ncmp, len(exps), [{'run': runs[0]['lines'][-3], 'returned_states': len(res[runs[0]['id']]['rets'])}])
    ctx.extra.setdefault('correspondence', {})['integrator_runs'] = {
        'runs': len(runs), 'runs_that_threw': nfail, 'returned_states': nret, 'auto_updates_replayed': nau, 'values_compared': ncmp,
        'disagreements': len(dis), 'integrators': dict(sorted(hist.items())), 'return_status': dict(sorted(nstat.items())),
        'spec_predicate_evaluations': spec_eval, 'spec_predicate_failures': len(spec_fails)}
    ctx.log('integrator runs: %d runs, %d returned states, %d auto-updates replayed, %d values compared, %d disagreements; spec predicates %d evaluated, %d failed' %
            (len(runs), nret, nau, ncmp, len(dis), spec_eval, len(spec_fails)))
    if dis:
        r, ri, what, j, theirs, mine = dis[0]
        ctx.broken.append(('correspondence:integ', 'model and implementation differ at a returned state (%d values): run %s (%s) return %d t=%s %s %d: cxx=%s model=%s' %
                           (len(dis), r['id'], INTEGS[r['kind']], ri, hx(res[r['id']]['rets'][ri]['t']), what, j, ' '.join(theirs), ' '.join(mine))))
    seen = set()
    for r, rr, (clause, desc, ri) in spec_fails:
        if clause in seen or len(seen) >= 3: continue
        seen.add(clause)
        ctx.broken.append(('spec:' + clause, desc))
        ctx.report('impl:' + clause, 'implementation violates the C23 predicate %s on a real integrator run: %s' % (clause, desc),
                   {'run': r['lines'], 'integrator': INTEGS[r['kind']], 'returned_state_index': ri,
                    'returned_time': hx(rr['rets'][ri]['t']), 'auto_update_times': [hx(x) for x in rr['rets'][ri]['au']],
                    'replay_cmd': 'printf "%%s\\n" <run lines> | %s' % exes['integ']})

# ------------------------------------------------------------------------------------------------ findings
def _val(line):
    t = line.split()
    return fx(t[2]) if len(t) > 2 and t[1] == 'V' else None

FINDINGS = [
 # key, case lines, predicate on the implementation's output lines (True = the defect is present), text
 ('variable-change-leaves-dependents-valid',
  ['CASE f1', 'VAR 0x1.4p+2 5', 'TREE + V 0 T', 'BEGIN 0x1p+0', 'R 8', 'G 0 0 -', 'V 0 0x1.9p+6', 'R 8', 'G 0 0 0', 'G 0 0 -', 'END'],
  lambda o: _val(o[-2]) is not None and not close(_val(o[-2]), 101.0, 1e-12, 1e-12),
  'Plus(Variable(invalidates Position)=5, Time) at t=1 reads 6; after Variable::setValue(100) and realize it still reads 6 (definition: 101)'),
 ('getvalue-one-stage-early-survives-time-change',
  ['CASE f2', 'TREE + T C 0x1.4p+3', 'BEGIN 0x1p+0', 'R 3', 'G 0 0 -', 'T 0x1p+1', 'R 4', 'G 0 0 -', 'END'],
  lambda o: _val(o[-2]) is not None and not close(_val(o[-2]), 12.0, 1e-12, 1e-12),
  'Plus(Time, 10): getValue at t=1 with the state at Instance stage (allowed: one stage early), setTime(2), realize(Time): still reads 11 (definition: 12)'),
 ('extreme-setvalue-keeps-stale-new-extreme-flag',
  ['CASE f3', 'EXT 1 1 s 0x1p+0 0x1p+0 0x0p+0', 'BEGIN 0x1p-1', 'R 8', 'M 0', 'X 0 1 0x1.4p+3', 'R 8', 'M 0', 'END'],
  lambda o: o[-2].split()[1] == 'EXC' or (_val(o[-2]) is not None and not close(_val(o[-2]), 10.0, 1e-12, 1e-12)),
  'Maximum(sin t) evaluated at t=0.5 (new extreme), then Extreme::setValue(10) at the same time: getValue throws (stale isNewExtreme flag points at the invalidated update entry); definition: 10'),
 ('delay-value-not-invalidated-by-autoupdate',
  ['CASE f4', 'DEL 0x1p-3 1 s 0x1p+0 0x1p+1 0x0p+0', 'BEGIN 0x0p+0', 'I', 'R 8', 'A', 'T 0x1p+0', 'R 8', 'A', 'T 0x1p+1', 'R 8', 'M 0', 'A', 'M 0',
   'T 0x1p+1', 'R 8', 'M 0', 'END'],
  lambda o: None not in (_val(o[10]), _val(o[12]), _val(o[15])) and _val(o[10]) == _val(o[12]) and not close(_val(o[12]), _val(o[15]), 1e-9, 1e-12),
  'Delay(sin 2t, 1/8) at t=2 with samples at 0,1: getValue = 1.7049 (extrapolation); autoUpdateDiscreteVariables at the same time adds the sample (2, sin 4) to the '
  'buffer but the value cache entry stays valid: still 1.7049; after re-setting the same time the same state reads -0.5485 (interpolation; true value -0.5716)'),
]

def decide_fx(ctx, exe):
    """which variant of Extreme::setValue does the tree under test implement?  Replays the witness of extreme_setvalue_refuted on
    the implementation: if it no longer throws / returns the set value, the model runs with fx = true (theorems hold for both)"""
    key, lines, present, text = [f for f in FINDINGS if f[0] == 'extreme-setvalue-keeps-stale-new-extreme-flag'][0]
    rc, out, err = sh([exe], input='\n'.join(lines) + '\n', timeout=300)
    l1 = [l for l in out.split('\n') if l.strip()]
    repaired = rc == 0 and len(l1) >= 3 and not present(l1)
    FX[0] = '1' if repaired else '0'
    ctx.extra['model_variant'] = {'fx_extreme_setvalue_repaired': repaired}
    ctx.log('Extreme::setValue variant of the tree under test: %s (model flag fx=%s)' % ('repaired' if repaired else 'as in the original source', FX[0]))

def findings(ctx, drv, exe):
    """replay the refutation witnesses of the Properties file on the implementation and on the model"""
    for key, lines, present, text in FINDINGS:
        r = run_both(ctx, drv, exe, lines, 'finding:' + key)
        if r is None: continue
        l1, l2 = r
        bad = [(a, b) for a, b in zip(l1, l2) if not same_obs(a, b)]
        if bad:
            ctx.broken.append(('finding:' + key, 'model and implementation differ on the witness: cxx=%s model=%s' % bad[0])); continue
        if present(l1):
            ctx.report(key, text, {'case': lines, 'implementation_output': l1, 'model_output': l2,
                                   'replay_cmd': 'printf "%%s\\n" <case lines> | %s' % exe})
        else:
            ctx.notes.append('finding %s no longer reproduces (implementation now returns the prescribed value)' % key)
            ctx.extra.setdefault('findings_not_reproduced', []).append(key)

def search_derivs(ctx, exe, n):
    """property predicate on the implementation only: every derivative order a Sinusoid / Time / Constant measure reports is the
    (central finite-difference) time derivative of the next lower order"""
    r = ctx.rng; lines = []; meta = []
    h = 1.0 / 8192
    for c in range(n):
        a, w, p = r.uniform(-2, 2), r.uniform(0.5, 6) * r.choice((-1, 1)), r.uniform(-3, 3)
        t = dy(r, -2, 2); k = r.randrange(3)
        leaf = r.choice(('S', 'S', 'S', 'T'))
        tree = ('S', a, w, p) if leaf == 'S' else ('T',)
        lines += ['CASE d%d' % c, 'TREE ' + ttxt(tree), 'BEGIN ' + hx(t - h), 'R 4', 'G 0 %d -' % k, 'T ' + hx(t + h), 'R 4', 'G 0 %d -' % k,
                  'T ' + hx(t), 'R 4', 'G 0 %d -' % (k + 1), 'END']
        meta.append((tree, t, k))
    rc, out, err = sh([exe], input='\n'.join(lines) + '\n', timeout=600)
    cases = split_cases([l for l in out.split('\n') if l.strip()])
    if rc != 0 or len(cases) != n:
        ctx.broken.append(('search:derivs', 'drive harness failed rc=%s' % rc)); return
    nfail = 0
    for (tree, t, k), cl, inl in zip(meta, cases, split_cases(lines)):
        try:
            lo, hi, d = fx(cl[3].split()[2]), fx(cl[6].split()[2]), fx(cl[9].split()[2])
        except Exception:
            continue
        fd = (hi - lo) / (2 * h)
        sc = 1.0 if tree[0] == 'T' else abs(tree[1]) * max(1.0, abs(tree[2])) ** (k + 3)
        if abs(fd - d) > 1e-6 * sc + 1e-9:
            nfail += 1
            if nfail == 1:
                ctx.broken.append(('spec:reported_derivatives_are_derivatives', 'order %d of %s at t=%s: reported %r, finite difference of order %d gives %r' % (k + 1, ttxt(tree), hx(t), d, k, fd)))
                ctx.report('impl:reported_derivatives_are_derivatives', 'implementation: reported derivative of order %d of %s at t=%s is %r but the central difference of order %d is %r' % (k + 1, ttxt(tree), hx(t), d, k, fd),
                           {'case': inl, 'implementation_output': cl, 'replay_cmd': 'printf "%%s\\n" <case lines> | %s' % exe})
    ctx.extra.setdefault('search', {})['derivative_predicate'] = {'evaluations': n, 'failures': nfail}
    ctx.cov['evaluations'] += n

def sample_hold_tie(ctx):
    """SampleAndHold is declared in Measure.h but has no Implementation class: the model of it is a specification only.
    If an implementation appears the untied spec must be replaced by a tied model."""
    hdrs = [os.path.join(REPO, 'SimTKcommon/Simulation/include/SimTKcommon/internal', f) for f in ('Measure.h', 'MeasureImplementation.h')]
    txt = ''.join(open(h).read() for h in hdrs) + open(os.path.join(REPO, 'SimTKcommon/Simulation/src/Measure.cpp')).read()
    impl = re.search(r'SampleAndHold\s*::\s*Implementation', txt) is not None
    ctx.extra['SampleAndHold_implemented_in_source'] = impl
    if impl:
        ctx.broken.append(('model:SampleAndHold', 'the source now contains Measure_<T>::SampleAndHold::Implementation; the C23 model of SampleAndHold is an untied specification and must be tied to it'))

def run(ctx):
    ctx.build_repo()
    ctx.coq_props(PROPS)
    quick = ctx.tier == 'quick'
    sample_hold_tie(ctx)
    tools = build_tools(ctx)
    if tools:
        drv, exes = tools
        decide_fx(ctx, exes['drive'])
        corr_drive(ctx, drv, exes['drive'], 250 if quick else 5000)
        corr_integ(ctx, drv, exes, 40 if quick else 600)
        findings(ctx, drv, exes['drive'])
        search_derivs(ctx, exes['drive'], 60 if quick else 2000)
        if ctx.broken and not any(v[2] for v in ctx.violations):
            # failing-input search: the theorems' right-hand sides on many more real integrator runs
            ctx.log('break detected: failing-input search on more integrator runs')
            corr_integ(ctx, drv, exes, 150 if quick else 1000)
            search_derivs(ctx, exes['drive'], 600)
    ctx.cov['rule'] = ('(1) direct drive: generated operation sequences over 1-3 measure trees (depth <= 3, 0-2 Variables with invalidated stage '
                       'Instance/Time/Position/Dynamics) and 1-4 machines (Extreme x4 operations, Delay with delay 0 / below / above the step, '
                       'Differentiate; Real and Vec3), integrator-like cycles disturbed by equal times, time going back, gets one stage early, '
                       'gets right after the auto-update, setValue, re-initialisation, invalidation; times and delays dyadic so t - delay hits stored '
                       'times exactly; every operation compared (stage exactly, observation kind exactly, numbers to rounding); '
                       '(2) integrator runs: 8 integrators x accuracies x report grids (dyadic and irregular, repeated report times, interpolation on/off); '
                       'every measure value at every returned state; evaluations = compared observations; non-trivial = sequences/runs with a non-zero value; '
                       'distinct by construction (fresh random parameters)')
    ctx.assumptions += [
        'theorems are over the reals (ROps); binary64 rounding is covered only by the correspondence runs',
        'the model is hand-written from MeasureImplementation.h / StateImpl.h (Release semantics, harness compiled with -DNDEBUG) and tied by the correspondence runs only on the generated sequences',
        'one subsystem / one stage counter: System::realize and State::invalidateAll move all subsystems together (true for the systems driven here)',
        'operands of Extreme/Delay/Differentiate are pure functions of time in the model (measure trees without Variables in the code)',
        'the Delay buffer is a list in the model: capacity growth/shrinking and the circular indexing of Measure_Delay_Buffer are not modelled (copyInAndUpdate always packs from index 0)',
        'getValue is only issued where the (debug-only) stage check of Measure_<T>::getValue passes; machines only at stage >= their depends-on stage',
        'NOT decided: accuracy of Integrate (integrator dependent) and of Differentiate (finite differences); Delay interpolation/extrapolation error against the true delayed operand; cubic interpolation (not implemented in the source); SampleAndHold (no implementation in the source: specification only, no tie)']
    ctx.finish()

def replay(ctx, path):
    r = json.load(open(path))
    print('replay of %s: key=%s\n  %s' % (path, r.get('key'), r.get('what', r.get('no_longer_checks'))))
    tools = build_tools(ctx)
    if not tools: return
    drv, exes = tools
    decide_fx(ctx, exes['drive'])
    lines = r.get('case') or r.get('first_disagreement_case')
    fd = ctx.bdir('first_disagreement.case')
    if not lines and not r.get('run') and os.path.exists(fd):
        print('  (the record names no case; replaying the last shrunk disagreement %s)' % fd)
        lines = [l.strip() for l in open(fd) if l.strip()]
    if lines:
        rr = run_both(ctx, drv, exes['drive'], lines, 'replay')
        if rr:
            ops = [l for l in lines if l.split()[0] not in ('VAR', 'TREE', 'EXT', 'DEL', 'DIF')]
            for o, a, b in zip(ops, *rr): print('  %-40s implementation: %-40s model: %s' % (o, a, b))
    elif r.get('run'):
        rc, out, err = sh([exes['integ']], input='\n'.join(r['run']) + '\n', timeout=600)
        print(out)
