"""C24 Matrix factorizations solve what they claim (DESIGN 5 C24) -- THIN PARTIAL: LAPACK (the factorizations) is a binary
outside the model and is not verified.
Tie (certificate correspondence, checked on every run): FactorSVD / FactorQTZ / FactorLU / FactorLLT / Eigen are run
(harness/C24_probe.cpp) on generated matrices of prescribed rank and spectrum (1..12 x 1..12; double, float, complex<double>,
complex<float>); their outputs are fed to the EXTRACTED checkers of C24_Model.v (ocaml/C24_drv.ml), whose meaning at
tolerance 0 is proved in C24_Proofs.v: orthonormal factors, A = U S V^T, descending non-negative sigma, normal equations,
x orthogonal to the null-space rows of V^T (=> minimum-norm least-squares solution), solve residuals, inverse, eigen residuals.
Exact (discrete) comparisons: getRank of QTZ and SVD == the prescribed rank; the extracted rank count svd_rank (the only numeric
logic FactorSVD adds to LAPACK) on the returned singular values == FactorSVD::getRank(), fresh / after values / after solve;
the extracted pseudo-inverse solution V S^+ U^T b of the returned factors vs FactorSVD::solve (tolerance)."""
import os, sys, math, json
from vlib import *

PROPS = ['Props/Properties_C24.v']
# absolute tolerances for inputs scaled to O(1) (|sigma| in [0.5,2], |b| <= 1, n <= 12); measured maxima go into the evidence
# (measured on the unchanged tree over several seeds and a thorough run: residuals <= 1e-13 in double and <= 1.1e-5 in float, i.e. >= 18 x below;
# certificates on the solution vector x use tol / sigma_min because x = A^+ b is amplified by 1/sigma_min, up to 50 for the nearly singular inputs)
TOL = {'d': 2e-12, 'f': 2e-4, 'z': 2e-12, 'c': 2e-4}
RCOND = {'d': 1e-8, 'f': 1e-4, 'z': 1e-8, 'c': 1e-4}
def base(p): return 'd' if p in ('d', 'z') else 'f'
def is_cx(p): return p in ('z', 'c')

# ---------------------------------------------------------------------------------------------- small dense linear algebra
def f32(x):
    import struct
    return struct.unpack('f', struct.pack('f', x))[0]
def mm(A, B): return [[sum(A[i][k] * B[k][j] for k in range(len(B))) for j in range(len(B[0]))] for i in range(len(A))]
def tr(A): return [list(r) for r in zip(*A)] if A else []
def ct(A): return [[z.conjugate() if isinstance(z, complex) else z for z in r] for r in tr(A)]
def rand_unitary(r, n, cx):
    """n x n orthogonal / unitary matrix by Gram-Schmidt on a random matrix (re-drawn when badly conditioned)"""
    while True:
        cols = []; ok = True
        for j in range(n):
            v = [complex(r.gauss(0, 1), r.gauss(0, 1)) if cx else r.gauss(0, 1) for _ in range(n)]
            for _ in range(2):
                for c in cols:
                    d = sum(ci.conjugate() * vi if cx else ci * vi for ci, vi in zip(c, v))
                    v = [vi - d * ci for vi, ci in zip(v, c)]
            nv = math.sqrt(sum(abs(x) ** 2 for x in v))
            if nv < 0.05: ok = False; break
            cols.append([x / nv for x in v])
        if ok: return tr(cols)
def with_spectrum(r, m, n, sig, cx):
    """A = U0 diag(sig) V0^H, m x n"""
    U0 = rand_unitary(r, m, cx); V0 = rand_unitary(r, n, cx)
    S = [[(sig[i] if i == j and i < len(sig) else 0.0) for j in range(n)] for i in range(m)]
    return mm(mm(U0, S), ct(V0))
def flat(A, cx):
    out = []
    for row in A:
        for z in row:
            if cx: out += [complex(z).real, complex(z).imag]
            else: out.append(z)
    return out
def vflat(v, cx): return flat([v], cx)
def roundp(vals, p): return [f32(x) for x in vals] if base(p) == 'f' else vals
def H(vals): return ' '.join(hexf(v) for v in vals)

def embed(A):
    """complex m x n -> real 2m x 2n  [[Re, -Im], [Im, Re]]"""
    m = len(A); n = len(A[0]) if A else 0
    return [[A[i][j].real for j in range(n)] + [-A[i][j].imag for j in range(n)] for i in range(m)] + \
           [[A[i][j].imag for j in range(n)] + [A[i][j].real for j in range(n)] for i in range(m)]
def vembed(v): return [z.real for z in v] + [z.imag for z in v]

# ---------------------------------------------------------------------------------------------- case generation
def gen_cases(ctx, rounds, maxdim):
    r = ctx.rng; cases = []
    def add(kind, p, line, meta):
        # every case goes through one of the public entry points: 0 constructor, 1 default-constructed then factor(), 2 re-factor()
        # (with rcond < 0 the overloads without an rcond argument); Eigen has only its constructor (Eigen::factor is declared but not in the library)
        e = meta.get('entry', r.choice((0, 1, 2)))
        t = line.split(' ', 2); line = '%s %s %d %s' % (t[0], t[1], e, t[2])
        meta.update({'kind': kind, 'p': p, 'entry': e}); cases.append((line, meta))
    def vec(n, cx): return [complex(r.uniform(-1, 1), r.uniform(-1, 1)) if cx else r.uniform(-1, 1) for _ in range(n)]
    for it in range(rounds):
        for p in ('d', 'f', 'z', 'c'):
            cx = is_cx(p); md = maxdim if not cx else min(maxdim, 8)
            m = r.randint(1, md); n = r.randint(1, md); k = min(m, n)
            shape = r.random()
            if shape < 0.3: n = m; k = m
            rank = k if r.random() < 0.45 else r.randint(1, k)
            sig = sorted([r.uniform(0.5, 2.0) for _ in range(rank)], reverse=True)
            if rank > 1 and r.random() < 0.2: sig[-1] = 0.02            # nearly singular but well above rcond
            if rank > 1 and r.random() < 0.15: sig[1] = sig[0]          # repeated singular value
            A = with_spectrum(r, m, n, sig, cx); b = vec(m, cx)
            Af = roundp(flat(A, cx), p); bf = roundp(vflat(b, cx), p)
            rc = -1.0 if r.random() < 0.25 else RCOND[p]
            meta = {'m': m, 'n': n, 'rank': rank, 'rcond': rc, 'A': Af, 'b': bf, 'sig': sig}
            add('SVD', p, 'SVD %s %d %d %s %s %s' % (p, m, n, hexf(rc), H(Af), H(bf)), dict(meta))
            add('QTZ', p, 'QTZ %s %d %d %s %s %s' % (p, m, n, hexf(rc), H(Af), H(bf)), dict(meta))
            # square, full rank, well conditioned: LU; SPD: LLT
            q = r.randint(1, md)
            sg = [r.uniform(0.5, 2.0) for _ in range(q)]
            A = with_spectrum(r, q, q, sg, cx); b = vec(q, cx)
            Af = roundp(flat(A, cx), p); bf = roundp(vflat(b, cx), p)
            add('LU', p, 'LU %s %d %s %s' % (p, q, H(Af), H(bf)), {'n': q, 'A': Af, 'b': bf})
            if not cx:
                Q = rand_unitary(r, q, False); lam = [r.uniform(0.5, 3.0) for _ in range(q)]
                P = mm(mm(Q, [[lam[i] if i == j else 0.0 for j in range(q)] for i in range(q)]), tr(Q))
                P = [[0.5 * (P[i][j] + P[j][i]) for j in range(q)] for i in range(q)]
                Pf = roundp(flat(P, False), p)
                # symmetrise after rounding as well
                add('LLT', p, 'LLT %s %d %s %s' % (p, q, H(Pf), H(bf)), {'n': q, 'A': Pf, 'b': bf})
                # symmetric eigenproblem with well separated eigenvalues
                lam = sorted(r.sample([0.25 * t for t in range(-12, 13)], q)) if q <= 12 else lam
                lam = [l + r.uniform(-0.05, 0.05) for l in lam]
                Sm = mm(mm(Q, [[lam[i] if i == j else 0.0 for j in range(q)] for i in range(q)]), tr(Q))
                Sm = [[0.5 * (Sm[i][j] + Sm[j][i]) for j in range(q)] for i in range(q)]
                Sf = roundp(flat(Sm, False), p)
                add('EIG', p, 'EIG %s %d %s' % (p, q, H(Sf)), {'n': q, 'A': Sf, 'sym': True})
            # non-symmetric eigenproblem
            G = [[(complex(r.uniform(-1, 1), r.uniform(-1, 1)) if cx else r.uniform(-1, 1)) for _ in range(q)] for _ in range(q)]
            Gf = roundp(flat(G, cx), p)
            add('EIG', p, 'EIG %s %d %s' % (p, q, H(Gf)), {'n': q, 'A': Gf, 'sym': False})
        # singular-value ratios straddling the DOCUMENTED DEFAULT tolerance max(m,n)*eps^(7/8): log-uniform over six decades, both sides,
        # through every entry point without an rcond argument.  Expected numerical rank: k when sigma_k/sigma_1 is above the tolerance, k-1 when
        # below.  Ratios within a factor 4 of the tolerance are not generated: FactorQTZ decides by LAPACK's incremental condition ESTIMATE,
        # measured to switch between 0.6 and 1.5 times the tolerance (FactorSVD between 0.92 and 1.08).
        for p in ('d', 'f', 'z'):
            cx = is_cx(p); md = maxdim if not cx else min(maxdim, 8)
            m = r.randint(2, md); n = r.randint(2, md); k = min(m, n)
            eps = 2.0 ** -52 if base(p) == 'd' else 2.0 ** -23
            thr = max(m, n) * eps ** 0.875
            lo, hi = (1e-16, 1e-10) if base(p) == 'd' else (1e-8, 1e-3)
            while True:
                ratio = math.exp(r.uniform(math.log(lo), math.log(hi)))
                if not (thr / 4 < ratio < thr * 4): break
            sig = sorted([r.uniform(0.5, 2.0) for _ in range(k - 1)], reverse=True); sig.append(sig[0] * ratio)
            rank = k if ratio > thr else k - 1
            A = with_spectrum(r, m, n, sig, cx); b = vec(m, cx)
            Af = roundp(flat(A, cx), p); bf = roundp(vflat(b, cx), p)
            for e in (0, 1, 2):
                meta = {'m': m, 'n': n, 'rank': rank, 'rcond': -1.0, 'A': Af, 'b': bf, 'sig': sig[:rank], 'entry': e,
                        'straddle': ratio / thr, 'dropped': (sig[-1] if rank < k else 0.0)}
                add('SVD', p, 'SVD %s %d %d %s %s %s' % (p, m, n, hexf(-1.0), H(Af), H(bf)), dict(meta))
                add('QTZ', p, 'QTZ %s %d %d %s %s %s' % (p, m, n, hexf(-1.0), H(Af), H(bf)), dict(meta))
        if it % 10 == 0:
            for p in ('d', 'f'):        # the zero matrix: rank 0, minimum-norm solution 0
                m = r.randint(1, 4); n = r.randint(1, 4); Z = [0.0] * (m * n); b = [r.uniform(-1, 1) for _ in range(m)]
                bf = roundp(b, p)
                meta = {'m': m, 'n': n, 'rank': 0, 'rcond': RCOND[p], 'A': Z, 'b': bf, 'sig': [], 'zero': True}
                add('SVD', p, 'SVD %s %d %d %s %s %s' % (p, m, n, hexf(RCOND[p]), H(Z), H(bf)), dict(meta))
                add('QTZ', p, 'QTZ %s %d %d %s %s %s' % (p, m, n, hexf(RCOND[p]), H(Z), H(bf)), dict(meta))
    # regression inputs for the repaired defects, present in every run: m x 1 matrices (numerical rank 1: getRCondEstimate must be 1),
    # a rank-1 square matrix, a 2x2 complex system through FactorQTZ
    for p in ('d', 'f', 'z', 'c'):
        cx = is_cx(p)
        for (m, n, rank) in ((3, 1, 1), (1, 1, 1), (3, 3, 1), (2, 2, 2)):
            sig = [1.5, 0.75][:rank]
            A = with_spectrum(r, m, n, sig, cx); b = vec(m, cx)
            Af = roundp(flat(A, cx), p); bf = roundp(vflat(b, cx), p)
            meta = {'m': m, 'n': n, 'rank': rank, 'rcond': RCOND[p], 'A': Af, 'b': bf, 'sig': sig}
            add('SVD', p, 'SVD %s %d %d %s %s %s' % (p, m, n, hexf(RCOND[p]), H(Af), H(bf)), dict(meta))
            add('QTZ', p, 'QTZ %s %d %d %s %s %s' % (p, m, n, hexf(RCOND[p]), H(Af), H(bf)), dict(meta))
    # LU of matrices that need no row exchange (strictly column-diagonally-dominant): getL * getU must reproduce A
    for p in ('d', 'f'):
        for q in (2, 3, 5):
            A = [[(r.uniform(-1, 1) if i != j else 0.0) for j in range(q)] for i in range(q)]
            for j in range(q): A[j][j] = 1.0 + sum(abs(A[i][j]) for i in range(q))
            b = [r.uniform(-1, 1) for _ in range(q)]
            Af = roundp(flat(A, False), p); bf = roundp(b, p)
            add('LU', p, 'LU %s %d %s %s' % (p, q, H(Af), H(bf)), {'n': q, 'A': Af, 'b': bf, 'nopivot': True})
    return cases

# ---------------------------------------------------------------------------------------------- output parsing
def parse(line, cx):
    """-> (status, head tokens, [sections]); a section is (dims, values) with complex values joined when cx"""
    if not line.startswith('OK'): return (line.split()[0] if line.split() else '?', [], [])
    parts = line.split('|'); head = parts[0].split()[1:]; secs = []
    for s in parts[1:]:
        t = s.split()
        secs.append(t)
    return ('OK', head, secs)
def sec_vec(t, cx):
    n = int(t[0]); v = [float.fromhex(x) for x in t[1:]]
    return [complex(v[2 * i], v[2 * i + 1]) for i in range(n)] if cx else v[:n]
def sec_mat(t, cx):
    m, n = int(t[0]), int(t[1]); v = [float.fromhex(x) for x in t[2:]]
    if cx: v = [complex(v[2 * i], v[2 * i + 1]) for i in range(m * n)]
    return [v[i * n:(i + 1) * n] for i in range(m)]
def unflat(vals, m, n, cx):
    if cx: vals = [complex(vals[2 * i], vals[2 * i + 1]) for i in range(m * n)]
    return [list(vals[i * n:(i + 1) * n]) for i in range(m)]
def unvflat(vals, n, cx): return [complex(vals[2 * i], vals[2 * i + 1]) for i in range(n)] if cx else list(vals[:n])
def R(A):
    """real row-major flattening; complex matrices are embedded"""
    if A and A[0] and isinstance(A[0][0], complex): A = embed(A)
    return [x for row in A for x in row]
def RV(v): return vembed(v) if v and isinstance(v[0], complex) else list(v)
def dims(A): return (2 * len(A), 2 * len(A[0])) if A and isinstance(A[0][0], complex) else (len(A), len(A[0]) if A else 0)

class Certs:
    """collects driver lines; each entry remembers which case/what it certifies"""
    def __init__(self): self.lines = []; self.info = []
    def add(self, line, case_ix, what, expect=None, tol=None): self.lines.append(line); self.info.append((case_ix, what, expect, tol))

def build_sides(ctx):
    d = ctx.bdir('corr'); os.makedirs(d, exist_ok=True)
    ext = ('From Coq Require Import Extraction ExtrOcamlBasic.\nRequire Import Num C24_Model.\nExtraction Language OCaml.\n'
           'Extraction "c24_x.ml" svd_rank svd_rank_default orth_check orth_resid orth_resid\' recon_check recon_resid desc_check asc_check normal_check normal_resid '
           'nullorth_check nullorth_resid solve_check solve_resid inverse_check eig_check eig_resid sym_check pinv_solution diagm mat_maxabs maxabs vec_le mmul delta.\n')
    if not ctx.extract(ext, d):
        ctx.broken.append(('correspondence:C24', 'extraction of the model failed')); return None
    drv = open(os.path.join(VERIF, 'ocaml', 'C24_drv.ml')).read().replace('(*FOPS*)', open(os.path.join(VERIF, 'ocaml', 'fops.inc')).read())
    open(os.path.join(d, 'drv.ml'), 'w').write(drv)
    if not ctx.ocaml(d, ['c24_x.mli', 'c24_x.ml', 'drv.ml'], 'drv'):
        ctx.broken.append(('correspondence:C24', 'OCaml driver build failed')); return None
    exe = os.path.join(d, 'probe')
    # VERIF_C24_EXTRA_SRC (seeded-change testing only): extra source files / flags compiled into the probe; a definition in the executable
    # takes precedence over the one in libSimTKmath, so a changed copy of one LinearAlgebra .cpp can be tried without rebuilding the library
    extra = tuple(x for x in os.environ.get('VERIF_C24_EXTRA_SRC', '').split(':') if x)
    if extra: ctx.log('probe built with extra sources (seeded-change testing): %s' % (extra,))
    if not ctx.cxx(os.path.join(VERIF, 'harness', 'C24_probe.cpp'), exe, flags=extra):
        ctx.broken.append(('correspondence:C24', 'C++ probe does not compile against the current source')); return None
    return exe, os.path.join(d, 'drv')

def run_lines(exe, lines, what, ctx):
    inp = '\n'.join(lines) + '\n'
    rc, o, e = sh([exe], input=inp, timeout=3000)
    l = [x for x in o.split('\n') if x.strip() and not x.startswith(' **')]     # ' ** On entry to ...' is LAPACK's xerbla talking
    if rc != 0 or len(l) != len(lines):
        ctx.broken.append(('correspondence:C24', '%s failed rc=%s lines=%d of %d: %s' % (what, rc, len(l), len(lines), (e or '')[-300:])))
        return None
    return l

def certificate(ctx, exe, drv, rounds, maxdim):
    cases = gen_cases(ctx, rounds, maxdim)
    lines = [c[0] for c in cases]
    open(ctx.bdir('corr', 'cases.txt'), 'w').write('\n'.join(lines) + '\n')
    outs = run_lines(exe, lines, 'C++ probe', ctx)
    if outs is None: return
    C = Certs(); problems = []; hist = {}; exact = {'rank_checks': 0, 'rank_count_correspondence': 0}
    svd_of = {}     # (p, A) -> (Vt, s) of the SVD case, used as null-space certificate for the QTZ case on the same matrix
    def prob(ix, what, detail): problems.append((ix, what, detail))
    for ix, ((line, me), out) in enumerate(zip(cases, outs)):
        kind, p = me['kind'], me['p']; cx = is_cx(p); tol = TOL[p]; T = hexf(tol)
        hk = '%s/%s/entry%d%s' % (kind, p, me['entry'], '/default-tolerance-straddle' if me.get('straddle') else ''); hist[hk] = hist.get(hk, 0) + 1
        st, head, secs = parse(out, cx)
        strad = me.get('straddle'); kept_tiny = bool(strad) and strad > 1      # the tiny singular value is above the default tolerance: kept
        if st != 'OK':
            # (regression: before fix 4c685664 FactorQTZ::solve threw for every complex matrix -- trans='T' handed to ?unmqr/?unmrz)
            prob(ix, 'exception', out[:200]); continue
        if kind == 'SVD':
            m, n, rank = me['m'], me['n'], me['rank']; k = min(m, n)
            # certificates on the solution x divide by the smallest non-zero singular value: their tolerance grows with 1/sigma_min
            tolx = tol * max([1.0] + [1.0 / v for v in me['sig']]); TX = hexf(tolx)
            A = unflat(me['A'], m, n, cx); b = unvflat(me['b'], m, cx)
            s = sec_vec(secs[0], False); U = sec_mat(secs[1], cx); Vt = sec_mat(secs[2], cx); x = sec_vec(secs[3], cx)
            ranks = [int(t) for t in head[:3]]
            exact['rank_checks'] += 1
            if ranks != [rank] * 3: prob(ix, 'svd-rank', 'getRank fresh/after values/after solve = %s, prescribed rank %d' % (ranks, rank))
            rc = me['rcond']
            if rc < 0:   # the documented default of the entry points without rcond: max(m,n) * NTraits<P>::getSignificant() = max(m,n) * eps^(7/8)
                eps = 2.0 ** -52 if base(p) == 'd' else 2.0 ** -23
                sigc = f32(eps ** 0.875) if base(p) == 'f' else eps ** 0.875
                rc = max(m, n) * sigc
                if base(p) == 'f': rc = f32(rc)
                # the model's svd_rank_default (default tolerance and count rule, both extracted)
                C.add('RANKD %s %s %d %d %d %s' % (base(p), hexf(sigc), m, n, k, H(s)), ix, 'rank-count', expect=ranks[1])
            else:
                C.add('RANK %s %s %d %s' % (base(p), hexf(rc), k, H(s)), ix, 'rank-count', expect=ranks[1])
            exact['rank_count_correspondence'] += 1
            xs = max([1.0] + [abs(v) for v in RV(x)]) if strad else 1.0
            # straddle cases: a dropped singular value sigma_k leaves up to sigma_k*|b| in the normal equations of the full matrix; a kept tiny
            # one makes x as large as 1/sigma_k, and the rounding residual grows with |x|
            toln = tol * xs + 2 * me.get('dropped', 0.0) * sum(abs(v) for v in RV(b))
            C.add('DESC %d %s' % (k, H(s)), ix, 'desc')
            C.add('ORTH %d %s %s' % (dims(U)[0], T, H(R(U))), ix, 'orth-U', tol=tol)
            C.add('ORTH %d %s %s' % (dims(Vt)[0], T, H(R(Vt))), ix, 'orth-Vt', tol=tol)
            if not cx:
                C.add('RECON %d %d %d %s %s %s %s %s' % (m, n, k, T, H(R(A)), H(R(U)), H(s), H(R(Vt))), ix, 'recon', tol=tol)
                if not kept_tiny: C.add('NULLORTH %d %d %s %s %s' % (n, rank, TX, H(R(Vt)), H(RV(x))), ix, 'svd-x-nullorth', tol=tolx)
                if not me.get('zero') and not kept_tiny:
                    C.add('PINV %d %d %d %s %s %s %s %s %s %s' % (m, n, k, hexf(rc * s[0]), TX, H(R(U)), H(s), H(R(Vt)), H(RV(b)), H(RV(x))), ix, 'pinv-vs-solve', tol=tolx)
            else:
                S = [[complex(s[i] if i == j and i < k else 0.0, 0) for j in range(n)] for i in range(m)]
                C.add('RECONS %d %d %s %s %s %s %s' % (2 * m, 2 * n, T, H(R(A)), H(R(U)), H(R(S)), H(R(Vt))), ix, 'recon', tol=tol)
            dm, dn = dims(A)
            C.add('NORMAL %d %d %s %s %s %s' % (dm, dn, hexf(toln), H(R(A)), H(RV(x)), H(RV(b))), ix, 'svd-x-normal', tol=toln)
            if len(secs) > 4 and m == n and rank == n and not kept_tiny:
                inv = sec_mat(secs[4], cx); C.add('INV %d %s %s %s' % (dm, hexf(10 * tol), H(R(A)), H(R(inv))), ix, 'svd-inverse', tol=10 * tol)
            svd_of[(p, tuple(me['A']))] = (Vt, s)
        elif kind == 'QTZ':
            m, n, rank = me['m'], me['n'], me['rank']
            A = unflat(me['A'], m, n, cx); b = unvflat(me['b'], m, cx)
            x = sec_vec(secs[0], cx); X = sec_mat(secs[1], cx)
            exact['rank_checks'] += 1
            if int(head[0]) != rank: prob(ix, 'qtz-rank', 'getRank = %s, prescribed rank %d' % (head[0], rank))
            if me.get('zero'):
                # minimum-norm least-squares solution of the zero matrix is x = 0, exactly, for the vector and the matrix right-hand side
                # (regression: before fix 1ce33455 doSolve returned uninitialised memory at rank 0)
                got0 = RV(x) + [v for row in X for v in RV(row)]
                if len(x) != n or any(v != 0 for v in got0): prob(ix, 'qtz-zero-matrix', 'FactorQTZ::solve on the %dx%d zero matrix returned x = %s, X = %s (expected 0)' % (m, n, RV(x), X))
                continue
            dm, dn = dims(A)
            xs = max([1.0] + [abs(v) for v in RV(x)]) if strad else 1.0
            toln = tol * xs + 2 * me.get('dropped', 0.0) * sum(abs(v) for v in RV(b))          # see the SVD case
            C.add('NORMAL %d %d %s %s %s %s' % (dm, dn, hexf(toln), H(R(A)), H(RV(x)), H(RV(b))), ix, 'qtz-x-normal', tol=toln)
            sv = svd_of.get((p, tuple(me['A'])))
            tolx = tol * max([1.0] + [1.0 / v for v in me['sig']])
            if sv and not cx and not kept_tiny: C.add('NULLORTH %d %d %s %s %s' % (n, rank, hexf(tolx), H(R(sv[0])), H(RV(x))), ix, 'qtz-x-nullorth', tol=tolx)
            # matrix right-hand side (b, 2b): columns x and 2x
            d0 = max([abs(X[i][0] - x[i]) for i in range(n)] + [0.0]); d1 = max([abs(X[i][1] - 2 * x[i]) for i in range(n)] + [0.0])
            if max(d0, d1) > 10 * tol * xs: prob(ix, 'qtz-matrix-rhs', 'matrix solve differs from vector solve by %g' % max(d0, d1))
            est = float.fromhex(head[1])
            if sv and rank >= 1:
                true = sv[1][rank - 1] / sv[1][0]
                if not (true / 20 <= est <= true * 20):
                    # (regression: before fix 1ce33455 the estimate stayed 0 at numerical rank 1; it must be 1 there)
                    prob(ix, 'qtz-rcond-estimate', 'getRCondEstimate %g vs sigma_r/sigma_1 %g (rank %d)' % (est, true, rank))
            if len(secs) > 2 and not kept_tiny:
                inv = sec_mat(secs[2], cx); C.add('INV %d %s %s %s' % (dm, hexf(10 * tol), H(R(A)), H(R(inv))), ix, 'qtz-inverse', tol=10 * tol)
        elif kind == 'LU':
            n = me['n']; A = unflat(me['A'], n, n, cx); b = unvflat(me['b'], n, cx)
            x = sec_vec(secs[0], cx); X = sec_mat(secs[1], cx); inv = sec_mat(secs[2], cx); L = sec_mat(secs[3], cx); Um = sec_mat(secs[4], cx)
            dn = dims(A)[0]
            if head[0] != '0': prob(ix, 'lu-singular-flag', 'isSingular() true for a matrix with singular values in [0.5,2]')
            C.add('SOLVE %d %d %s %s %s %s' % (dn, dn, T, H(R(A)), H(RV(x)), H(RV(b))), ix, 'lu-solve', tol=tol)
            C.add('SOLVE %d %d %s %s %s %s' % (dn, dn, hexf(2 * tol), H(R(A)), H(RV([X[i][1] for i in range(n)])), H(RV([2 * v for v in b]))), ix, 'lu-solve-matrix-rhs', tol=2 * tol)
            C.add('INV %d %s %s %s' % (dn, hexf(10 * tol), H(R(A)), H(R(inv))), ix, 'lu-inverse', tol=10 * tol)
            if me.get('nopivot'):
                # no row exchange happens for these matrices, so the reported triangles must multiply back to A
                Ident = [[1.0 if i == j else 0.0 for j in range(n)] for i in range(n)]
                C.add('RECONS %d %d %s %s %s %s %s' % (n, n, T, H(R(A)), H(R(L)), H(R(Ident)), H(R(Um))), ix, 'lu-getL-getU', tol=tol)
        elif kind == 'LLT':
            n = me['n']; A = unflat(me['A'], n, n, False); b = me['b']
            x = sec_vec(secs[0], False); inv = sec_mat(secs[1], False); L = sec_mat(secs[2], False)
            Ident = [[1.0 if i == j else 0.0 for j in range(n)] for i in range(n)]
            C.add('SOLVE %d %d %s %s %s %s' % (n, n, T, H(R(A)), H(x), H(b)), ix, 'llt-solve', tol=tol)
            C.add('INV %d %s %s %s' % (n, hexf(10 * tol), H(R(A)), H(R(inv))), ix, 'llt-inverse', tol=10 * tol)
            C.add('RECONS %d %d %s %s %s %s %s' % (n, n, T, H(R(A)), H(R(L)), H(R(Ident)), H(R(tr(L)))), ix, 'llt-LLt', tol=tol)
        elif kind == 'EIG':
            n = me['n']; A = unflat(me['A'], n, n, cx)
            vals = sec_vec(secs[0], True); V = sec_mat(secs[1], True)
            if me['sym']:
                if any(z.imag != 0 for z in vals) or any(z.imag != 0 for row in V for z in row):
                    prob(ix, 'eig-sym-not-real', 'symmetric input gave a non-real eigenvalue or eigenvector'); continue
                lam = [z.real for z in vals]; Vr = [[z.real for z in row] for row in V]
                C.add('SYM %d %s %s' % (n, hexf(0.0), H(R(A))), ix, 'eig-input-symmetric')
                C.add('EIG %d %s %s %s %s' % (n, hexf(10 * tol), H(R(A)), H(lam), H(R(Vr))), ix, 'eig-sym-residual', tol=10 * tol)
                C.add('ORTH %d %s %s' % (n, hexf(100 * tol), H(R(Vr))), ix, 'eig-sym-orthonormal', tol=100 * tol)
                C.add('ASC %d %s' % (n, H(lam)), ix, 'eig-sym-ascending')
            else:
                # (A - lam I) v = 0 for every pair, complex arithmetic as a real block system
                Ac = [[complex(z) for z in row] for row in A]
                for j in range(n):
                    M = [[Ac[i][q] - (vals[j] if i == q else 0) for q in range(n)] for i in range(n)]
                    v = [V[i][j] for i in range(n)]
                    nv = math.sqrt(sum(abs(z) ** 2 for z in v))
                    if not (0.5 < nv < 2.0): prob(ix, 'eig-vector-norm', 'eigenvector %d has norm %g' % (j, nv))
                    C.add('SOLVE %d %d %s %s %s %s' % (2 * n, 2 * n, hexf(20 * tol), H(R(M)), H(RV(v)), H([0.0] * (2 * n))), ix, 'eig-residual', tol=20 * tol)
    res = run_lines(drv, C.lines, 'OCaml certificate checker', ctx) if C.lines else []
    if res is None: return
    worst = {}
    for (ix, what, expect, tol), line in zip(C.info, res):
        t = line.split(); p = cases[ix][1]['p']
        if what == 'rank-count':
            if int(t[0]) != expect: prob(ix, 'rank-count', 'extracted svd_rank = %s but FactorSVD::getRank() = %s' % (t[0], expect))
            continue
        ok = t[0] == '1'
        if len(t) > 1:
            v = float.fromhex(t[1]); key = what + '/' + p
            if v == v: worst[key] = max(worst.get(key, 0.0), v / tol if tol else v)
        if not ok: prob(ix, what, 'certificate %s rejected: %s' % (what, line[:80]))
    ctx.add_cases(len(cases), len(C.lines), [{'case': lines[0][:160], 'cxx': outs[0][:160], 'certificate': (res[0] if res else '')}])
    ctx.extra.setdefault('correspondence', {})['certificate'] = {'factorizations_run': len(cases), 'certificates_checked': len(C.lines),
        'exact_rank_comparisons': exact, 'problems': len(problems), 'tolerance_abs': TOL,
        'measured_max_residual_over_tolerance': dict(sorted(worst.items())), 'input_distribution': dict(sorted(hist.items()))}
    ctx.trusted.add('certificate harness: harness/C24_probe.cpp outputs fed to the extracted checkers (ocaml/C24_drv.ml, double NumOps; binary32 emulated for the float rank count); '
                    'absolute tolerance %g (double) / %g (float) for O(1)-scaled inputs; LAPACK itself is NOT verified' % (TOL['d'], TOL['f']))
    # regression for fix f8bea54f, in a process of its own (it used to die with SIGSEGV): Eigen on a complex<double> matrix with a
    # default-constructed result matrix must give exactly what it gives with a pre-sized one
    zc = [(c, o) for c, o in zip(cases, outs) if c[1]['kind'] == 'EIG' and c[1]['p'] == 'z' and c[1]['n'] >= 2][:2]
    for c, o_pre in zc:
        raw = c[0].replace('EIG', 'EIGRAW', 1)
        rc, o, e = sh([exe], input=raw + '\n', timeout=120)
        ctx.extra['correspondence']['certificate']['eigen_complex_double_default_constructed_result'] = 'rc=%s, equal to the pre-sized run: %s' % (rc, o.strip() == o_pre.strip())
        if rc != 0 or o.strip() != o_pre.strip():
            cases.append((raw, {'kind': 'EIGRAW', 'p': 'z'})); lines.append(raw); outs.append('process ended with rc=%s (signal %s) %s' % (rc, -rc if rc < 0 else 0, o.strip()[:80]))
            problems.append((len(cases) - 1, 'eigen-complex-double-raw', 'Eigen::getAllEigenValuesAndVectors on a Matrix_<complex<double>> with a default-constructed vectors argument: ' + outs[-1]))
    # the one remaining known finding: geev does not order the eigenvalues of symmetric input (symmetric path commented out in Eigen.cpp)
    KNOWN_MAP = {'eig-sym-ascending': 'eigen-symmetric-not-ordered'}
    seen = set()
    for ix, what, detail in problems:
        me = cases[ix][1]
        key = KNOWN_MAP.get(what, 'impl:' + what + ':' + me['p'])
        if key in seen: continue
        seen.add(key)
        if key not in ctx.known:
            ctx.broken.append(('certificate:C24:' + what, '%s on case "%s": %s (%d such)' % (what, lines[ix][:200], detail[:300], sum(1 for q in problems if q[1] == what))))
        ctx.report(key, 'output of %s violates the C24 condition "%s": %s' % (me['kind'], what, detail[:300]),
                   {'failing_input': lines[ix], 'implementation_output': outs[ix][:2000], 'replay_case': lines[ix]})

def run(ctx):
    ctx.build_repo()
    ctx.coq_props(PROPS)
    quick = ctx.tier == 'quick'
    sides = build_sides(ctx)
    if sides:
        exe, drv = sides
        certificate(ctx, exe, drv, 12 if quick else 150, 12)
        ctx.log('certificate correspondence done')
    ctx.cov['rule'] = ('per round and element type (double, float, complex<double>, complex<float>): one m x n matrix (1..12, complex 1..8) of prescribed rank built from '
                       'random unitary factors and singular values in [0.5,2] (sometimes 0.02, sometimes repeated) through FactorSVD and FactorQTZ (explicit and default rcond), '
                       'one square full-rank matrix through FactorLU, one SPD matrix through FactorLLT, one symmetric and one general matrix through Eigen; every 10th round zero '
                       'matrices; three column-dominant matrices per real type for getL/getU; non-trivial = certificate lines evaluated; distinct by full case text')
    ctx.assumptions += ['LAPACK (getrf/getrs, potrf, geqp3/tzrzf/ormqr/ormrz/laic1, gesdd, gelss, geev) is a binary outside the model: NOT verified; '
                        'the factorizations are only certified per run on the generated matrices',
                        'theorems are over the reals and about certificates that hold EXACTLY (tolerance 0); the runs accept residuals up to the stated absolute '
                        'tolerances and no perturbation theorem is proved that carries the conclusions over to approximately satisfied certificates',
                        'the rank statement is proved as a kernel characterisation (ker A = orthogonal complement of the v_p with s_p <> 0) and as correctness of the '
                        "implementation's count of singular values above rcond*s_0; no dimension theory (rank = dim range) is formalised",
                        'complex element types are checked through the real embedding [[Re,-Im],[Im,Re]] built by checks/C24.py; the theorems are stated for real matrices',
                        'not decided: determinants (the API has none), condition estimates (FactorQTZ::getRCondEstimate is only compared with sigma_r/sigma_1 within a factor 20), '
                        'sizes above 12, the negator/conjugate element types, getFew* of Eigen']
    ctx.finish()

def replay(ctx, path):
    r = json.load(open(path))
    print('replay of %s: key=%s\n  %s' % (path, r.get('key'), r.get('what', r.get('no_longer_checks'))))
    case = r.get('replay_case')
    if case:
        sides = build_sides(ctx)
        if sides:
            rc, o, e = sh([sides[0]], input=case + '\n'); print('  implementation: ' + o.strip()[:3000])
