"""C25 (fixed-size part only): Vec/Mat/SymMat 3x3 inverse, determinant, cross products obey their reference (DESIGN 5 C25).
Tie: translator (Gen/sm25{c,d,i}_gen.v regenerated from SmallMatrixMixed.h each run) + translator validation in double and float.
The Matrix_/Vector_ view part of C25 is NOT covered by this check."""
import os, sys, copy
from vlib import *
import tvgen

PROPS = ['Props/Properties_C25.v']
GROUPS = ['sm25c', 'sm25d', 'sm25i']
FLOAT_TY = {'V2': 'Vec<2,float>', 'V3': 'Vec<3,float>', 'M33': 'Mat<3,3,float>', 'SYM': 'SymMat<3,float>', 'S': 'float'}
BACK = {'V2': 'Vec2', 'V3': 'Vec3', 'M33': 'Mat33', 'SYM': 'SymMat33', 'S': 'Real'}

def argfn(rng, kn, pn, pt):
    """3x3 arguments of det/inverse: dominant diagonal (|d| in 2..3, off-diagonals in +-0.5) so that the condition number is < 5
    and the float comparison is not an ill-conditioned one; everything else: default (components in +-[0.3,2])."""
    if kn['coq'] in ('k25_inv33', 'k25_det33') and pt == 'M33':
        return [rng.uniform(2, 3) * rng.choice((-1, 1)) if i == j else rng.uniform(-.5, .5) for i in range(3) for j in range(3)]
    if kn['coq'] in ('k25_invSym33', 'k25_detSym33') and pt == 'SYM':
        return [rng.uniform(2, 3) * rng.choice((-1, 1)) for _ in range(3)] + [rng.uniform(-.5, .5) for _ in range(3)]
    return None

def float_meta(meta):
    """the same kernels instantiated for float elements: arguments converted to float, result converted back"""
    m = copy.deepcopy(meta)
    for kn in m['kernels']:
        args = ','.join('%s({%d})' % (FLOAT_TY[pt], i) for i, (pn, pt) in enumerate(kn['params']))
        kn['cxx'] = '%s(SimTK::%s(%s))' % (BACK[kn['ret']], kn['name'], args)
    return m

def search(ctx, n):
    exe = ctx.bdir('C25_search')
    if not ctx.cxx(os.path.join(VERIF, 'harness', 'C25_search.cpp'), exe, flags=('-DNDEBUG',)):
        ctx.broken.append(('search:C25', 'search harness does not compile')); return
    rc, out, err = sh([exe, str(ctx.seed), str(n)], timeout=1200)
    fails = [l for l in out.split('\n') if l.startswith('FAIL')]
    done = [l for l in out.split('\n') if l.startswith('DONE')]
    ctx.extra['search'] = {'predicate_evaluations': int(done[0].split()[1]) if done else 0, 'failures_printed': len(fails), 'matrices_per_precision': n}
    if not done: ctx.broken.append(('search:C25', 'search harness did not finish: ' + err[-300:]))
    seen = set()
    for f in fails:
        key = 'impl:' + f.split()[1]
        if key in seen: continue
        seen.add(key)
        ctx.report(key, 'implementation violates C25 predicate: ' + f, {'replay_cmd': '%s %d %d' % (exe, ctx.seed, n), 'failing_input': f})

def run(ctx):
    ctx.build_repo()
    from concurrent.futures import ThreadPoolExecutor
    with ThreadPoolExecutor(3) as pool:
        metas = list(pool.map(ctx.translate, GROUPS))
    ok = ctx.coq_props(PROPS)
    n = 60 if ctx.tier == 'quick' else 600
    # the compiled side must behave like the Release libraries: SymMat::operator()(i,j) only asserts i >= j, and
    # inverse(SymMat<3>) violates that, so a harness with assertions on would abort instead of showing what Release code computes.
    # The three groups are validated concurrently, each on a private view of ctx (own rng derived from the seed, own counters),
    # merged in group order afterwards so that the run is deterministic.
    import random
    def one(gm):
        g, meta = gm
        c = copy.copy(ctx); c.cov = {'evaluations': 0, 'distinct_nontrivial': 0, 'rule': '', 'samples': []}; c.extra = {}; c.broken = []; c.trusted = set()
        c.rng = random.Random('%d:%s' % (ctx.seed, g)); c.cxx = lambda src, exe, **kw: ctx.cxx(src, exe, flags=('-DNDEBUG',), **kw)
        res = {}
        dis = tvgen.run_tv(c, g, meta, n, argfn=argfn, rtol=1e-12, atol=0.0)
        res[g + ':double'] = dict(c.extra.get('correspondence', {}).get(g, {}))
        if dis:
            k, args, fa, fb = dis[0]
            c.broken.append(('correspondence:%s:%s' % (g, k), 'model and implementation (double) differ: args=%s cxx=%s model=%s' % (args, fa, fb)))
        disf = tvgen.run_tv(c, g, float_meta(meta), n, argfn=argfn, rtol=3e-5, atol=0.0)
        res[g + ':float'] = dict(c.extra.get('correspondence', {}).get(g, {}))
        if disf:
            k, args, fa, fb = disf[0]
            c.broken.append(('correspondence:%s:%s:float' % (g, k), 'model and implementation (float) differ: args=%s cxx=%s model=%s' % (args, fa, fb)))
        return c, res
    with ThreadPoolExecutor(3) as pool:
        results = list(pool.map(one, zip(GROUPS, metas)))
    corr = {}
    for c, res in results:
        ctx.add_cases(c.cov['evaluations'], c.cov['distinct_nontrivial'], c.cov['samples'][:1]); ctx.broken += c.broken; ctx.trusted |= c.trusted; corr.update(res)
    ctx.extra['correspondence'] = corr
    ctx.cov['rule'] = ('translator validation: every translated SmallMatrixMixed.h kernel (10) run on %d random argument tuples, once instantiated for double '
                       '(rel tol 1e-12 of the result scale) and once for float (rel tol 3e-5, the model then runs in double); 3x3 arguments of det/inverse have a '
                       'dominant diagonal (condition number < 5); non-trivial = some output component non-zero; distinct by (kernel,args)' % n)
    ctx.assumptions += ['theorems are over the reals (ROps); rounding is covered only by the tolerance-based translator validation and the search predicates',
                        'harnesses are compiled with -DNDEBUG like the Release libraries (SymMat::operator()(i,j) with i<j is only asserted; the translated model follows the Release behaviour)',
                        'only the fixed-size 3x3 / Vec3 / Vec2 part of C25 is covered; Matrix_/Vector_ objects and views, negator/conjugate adaptors, other sizes are not']
    search(ctx, 500 if ctx.tier == 'quick' else 20000)
    ctx.finish()
