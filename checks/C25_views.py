"""C25, Matrix_/Vector_/RowVector_ objects and views (DESIGN 5 C25, the H part).  Called from checks/C25.py.

Theorems (coq/Props/Properties_C25_views.v) are about the hand-written model coq/C25/C25_views_Model.v of the element
addressing of the MatrixHelperRep classes and of the view-taking / writing operations of MatrixBase/VectorBase/RowVectorBase.
Tie, checked on every run: the model is extracted to OCaml and run against the real Matrix_<E>/Vector_<E>/RowVector_<E>
(E = Real, float, std::complex<double>, Vec3; views additionally with negator<> and Hermitian element types) compiled against
/repo's headers and the rebuilt library, on the same random operation chains; after every operation the dimensions,
hasContiguousData() and all elements of every live handle are compared (hash per handle, full contents of the touched one,
its sums and norm).  Independently the harness compares every live handle with a straightforward dense reference after every
operation: that is the property's own predicate on the implementation (REF lines)."""
import os, sys, re, hashlib, shutil, time
from vlib import *

PROPS = ['Props/Properties_C25_views.v']
EXTRACT = """From Coq Require Import Extraction ExtrOcamlBasic.
Require Import C25_views_Model.
Extraction "c25views.ml" wstep_total velems vsum vnormsqr vcolsum vrowsum contiguous getview empty_world
  sym_index sym_lowerIx tri_any tri_stored tri_addr.
"""
KNOWN_KEY = 'impl:owner-with-vector-helper-resized'
MAXMAG = 100000
K_OF = {'d': 1, 'f': 1, 'c': 2, 'v': 3}

# ---------------------------------------------------------------------------------------------- generator
class Gen:
    """random operation chains; tracks shape/dimensions/ownership of every handle only to produce mostly valid requests
    and to aim at the boundaries (empty blocks, single rows/columns, whole-range blocks, last row/column)"""
    def __init__(self, rng, et, mode):
        self.r = rng; self.et = et; self.K = K_OF[et]; self.mode = mode
        self.hs = []; self.lines = []; self.kinds = {}; self.fresh = 1; self.mag = 0; self.nbuf = 0
    def emit(self, kind, toks):
        self.kinds[kind] = self.kinds.get(kind, 0) + 1
        self.lines.append(' '.join(str(t) for t in toks))
    def dim(self):
        return self.r.choice([0, 1, 1, 2, 2, 3, 3, 4, 5, 6, 8, 12]) if self.r.random() < 0.5 else self.r.randint(0, 12)
    def take_fresh(self, n):
        x = self.fresh; self.fresh += n; self.mag = max(self.mag, self.fresh + 1000 * self.K); return x
    def elt(self):
        return [self.r.randint(-50, 50) for _ in range(self.K)]
    def alive(self): return [k for k, h in enumerate(self.hs) if h['alive']]
    def new(self, sh=None, m=None, n=None):
        sh = self.r.choices([0, 1, 2], [6, 2, 2])[0] if sh is None else sh
        m = self.dim() if m is None else m; n = self.dim() if n is None else n
        if sh == 1: n = 1
        if sh == 2: m = 1
        self.emit('new', ['new', sh, m, n, self.take_fresh(m * n)])
        self.hs.append(dict(alive=True, sh=sh, nr=m, nc=n, owner=True, buf=self.nbuf, oned=False, taint=False)); self.nbuf += 1
    def add_view(self, p, sh, nr, nc, oned):
        self.hs.append(dict(alive=True, sh=sh, nr=nr, nc=nc, owner=False, buf=p['buf'], oned=oned, taint=False))
    def span(self, n):
        """(start, length) inside 0..n, biased to the boundaries"""
        c = self.r.random()
        if c < 0.12: return 0, n
        if c < 0.2: return self.r.randint(0, n), 0
        if c < 0.35 and n > 0: return self.r.randint(0, n - 1), 1
        if c < 0.45 and n > 0: s = self.r.randint(0, n); return s, n - s
        s = self.r.randint(0, n); return s, self.r.randint(0, n - s)
    def bad_span(self, n):
        c = self.r.random()
        if c < 0.3: return -1, self.r.randint(0, n)
        if c < 0.6: s = self.r.randint(0, n); return s, n - s + self.r.randint(1, 3)
        return n + self.r.randint(1, 2), 0
    def view_op(self, k, bad=False):
        h = self.hs[k]; sh, nr, nc = h['sh'], h['nr'], h['nc']
        ops = ['blk', 'blk', 'blk', 'row', 'col', 'diag', 'tr', 'neg', 'whole'] + (['sub', 'sub', 'sub'] if sh != 0 else [])
        if bad: ops = ['blk', 'row', 'col'] + (['sub'] if sh != 0 else [])
        o = self.r.choice(ops)
        if o == 'blk':
            i, m = self.span(nr); j, n = self.span(nc)
            if bad:
                if self.r.random() < 0.5: i, m = self.bad_span(nr)
                else: j, n = self.bad_span(nc)
            self.emit('blk' + ('!' if bad else ''), ['view', k, 'blk', i, j, m, n])
            if not bad: self.add_view(h, 0, m, n, h['oned'] or m == 1 or n == 1)
        elif o == 'row':
            if bad: i = self.r.choice([-1, nr, nr + 1])
            elif nr == 0: return
            else: i = self.r.choice([0, nr - 1, self.r.randrange(nr)])
            self.emit('row' + ('!' if bad else ''), ['view', k, 'row', i])
            if not bad: self.add_view(h, 2, 1, nc, True)
        elif o == 'col':
            if bad: j = self.r.choice([-1, nc, nc + 1])
            elif nc == 0: return
            else: j = self.r.choice([0, nc - 1, self.r.randrange(nc)])
            self.emit('col' + ('!' if bad else ''), ['view', k, 'col', j])
            if not bad: self.add_view(h, 1, nr, 1, True)
        elif o == 'diag':
            self.emit('diag', ['view', k, 'diag']); self.add_view(h, 1, min(nr, nc), 1, True)
        elif o == 'tr':
            self.emit('tr', ['view', k, 'tr']); self.add_view(h, {0: 0, 1: 2, 2: 1}[sh], nc, nr, h['oned'])
        elif o == 'neg':
            self.emit('neg', ['view', k, 'neg']); self.add_view(h, sh, nr, nc, h['oned'])
        elif o == 'whole':
            self.emit('whole', ['view', k, 'whole']); self.add_view(h, sh, nr, nc, h['oned'])
        elif o == 'sub':
            L = nr if sh == 1 else nc
            s, m = self.bad_span(L) if bad else self.span(L)
            self.emit('sub' + ('!' if bad else ''), ['view', k, 'sub', s, m])
            if not bad: self.add_view(h, sh, m if sh == 1 else 1, 1 if sh == 1 else m, True)
    def drop_views(self, k):
        b = self.hs[k]['buf']
        for q, h in enumerate(self.hs):
            if q != k and h['buf'] == b: h['alive'] = False
    def new_dims(self, h, allow2d):
        if h['sh'] == 1: return self.dim(), 1
        if h['sh'] == 2: return 1, self.dim()
        if not allow2d: return self.r.choice([(self.dim(), 1), (1, self.dim())])      # an owner that may carry a vector helper (known finding) stays one-dimensional
        return self.dim(), self.dim()
    def write_op(self, k):
        h = self.hs[k]; nr, nc = h['nr'], h['nc']
        o = self.r.choices(['set', 'fill', 'sasg', 'sadd', 'scale', 'asg', 'addin'], [6, 3, 3, 3, 3, 4, 4])[0]
        if o == 'set':
            if nr * nc == 0: return
            i = self.r.choice([0, nr - 1, self.r.randrange(nr)]); j = self.r.choice([0, nc - 1, self.r.randrange(nc)])
            self.emit(o, ['set', k, i, j] + self.elt())
        elif o in ('fill', 'sasg'): self.emit(o, [o, k] + self.elt())
        elif o == 'sadd':
            if self.mag + 50 > MAXMAG: return
            self.mag += 50; self.emit(o, [o, k] + self.elt())
        elif o == 'scale':
            c = self.r.choice([-1, -1, 2, -2, 3, 0])
            if self.mag * max(1, abs(c)) > MAXMAG: return
            self.mag *= max(1, abs(c)); self.emit(o, [o, k, c])
        elif o == 'asg':
            m, n = nr, nc
            if h['owner'] and self.r.random() < 0.5: m, n = self.new_dims(h, not h['taint'])
            vals = [x for _ in range(m * n) for x in self.elt()]
            self.emit('asg' + ('*' if (m, n) != (nr, nc) else ''), ['asg', k, m, n] + vals)
            if (m, n) != (nr, nc): self.drop_views(k); h['nr'], h['nc'] = m, n
        elif o == 'addin':
            if self.mag + 50 > MAXMAG: return
            self.mag += 50
            self.emit(o, ['addin', k, self.r.randint(0, 1)] + [x for _ in range(nr * nc) for x in self.elt()])
    def copy_op(self, k):
        h = self.hs[k]; ng = self.r.randint(0, 1)
        self.emit('copy' + ('-' if ng else ''), ['copy', k, ng])
        t = h['oned'] and h['sh'] == 0      # Matrix_ copy of a handle that may have a vector helper: keeps that helper (known finding)
        self.hs.append(dict(alive=True, sh=h['sh'], nr=h['nr'], nc=h['nc'], owner=True, buf=self.nbuf, oned=t, taint=t)); self.nbuf += 1
    def resize_op(self, k, bad=False):
        h = self.hs[k]
        if bad:
            if not h['owner']: m, n = h['nr'] + 1, h['nc']                       # resize of a view to other dimensions
            elif h['sh'] == 1: m, n = h['nr'], 2                                  # Vector_ committed to one column
            elif h['sh'] == 2: m, n = 2, h['nc']
            else: return
            self.emit('resize!', ['resize', k, m, n, self.r.randint(0, 1), self.fresh]); return
        if h['owner']: m, n = self.new_dims(h, not h['taint'])
        else: m, n = h['nr'], h['nc']                                            # allowed on a view: no change
        keep = self.r.randint(0, 1)
        cnt = 0 if (m, n) == (h['nr'], h['nc']) else (m * n - (min(m, h['nr']) * min(n, h['nc']) if keep else 0))
        self.emit('resizeKeep' if keep else 'resize', ['resize', k, m, n, keep, self.take_fresh(cnt)])
        if (m, n) != (h['nr'], h['nc']): self.drop_views(k); h['nr'], h['nc'] = m, n
    def step(self):
        al = self.alive(); k = self.r.choice(al)
        if self.mode == 'errors' and self.r.random() < 0.3:
            if self.r.random() < 0.8: self.view_op(k, bad=True)
            else: self.resize_op(k, bad=True)
            return
        c = self.r.random()
        if c < 0.45 and len(al) < 12: self.view_op(k)
        elif c < 0.85: self.write_op(k)
        elif c < 0.91 and len(al) < 12: self.copy_op(k)
        elif c < 0.96:
            owners = [q for q in al if self.hs[q]['owner']]
            self.resize_op(self.r.choice(owners) if owners and self.r.random() < 0.8 else k)
        elif len(al) < 12: self.new()

def gen_sequence(rng, et, nops, mode='valid'):
    g = Gen(rng, et, mode); g.new()
    tries = 0
    while len(g.lines) < nops and tries < 5 * nops + 20:
        g.step(); tries += 1
    return ['S ' + et] + g.lines + ['E'], g.kinds

def gen_defect(rng, et):
    """the one-column/one-row block copied into a Matrix_ and then given two-dimensional size (known finding)"""
    g = Gen(rng, et, 'defect'); m = rng.randint(2, 6); n = rng.randint(2, 6); g.new(0, m, n)
    if rng.random() < 0.5:
        j = rng.randrange(n); i, mm = 0, m
        if rng.random() < 0.5: i = rng.randint(0, m - 2); mm = rng.randint(2, m - i)
        g.emit('blk', ['view', 0, 'blk', i, j, mm, 1]); g.add_view(g.hs[0], 0, mm, 1, True)
    else:
        i = rng.randrange(m); j = rng.randint(0, n - 2); nn = rng.randint(2, n - j)
        g.emit('blk', ['view', 0, 'blk', i, j, 1, nn]); g.add_view(g.hs[0], 0, 1, nn, True)
    g.copy_op(1)
    h = g.hs[2]; m2 = rng.randint(2, 5); n2 = rng.randint(2, 5)
    if rng.random() < 0.5:
        vals = [x for _ in range(m2 * n2) for x in g.elt()]
        g.emit('asg*', ['asg', 2, m2, n2] + vals)
    else:
        keep = rng.randint(0, 1); cnt = m2 * n2 - (min(m2, h['nr']) * min(n2, h['nc']) if keep else 0)
        g.emit('resizeKeep' if keep else 'resize', ['resize', 2, m2, n2, keep, g.take_fresh(cnt)])
    h['nr'], h['nc'] = m2, n2; h['taint'] = False
    for _ in range(rng.randint(0, 4)):
        if rng.random() < 0.5: g.view_op(2)
        else: g.write_op(2)
    return ['S ' + et] + g.lines + ['E'], g.kinds

def split_sequences(out):
    seqs = []; cur = None
    for l in out.split('\n'):
        if l.startswith('S ') and len(l) == 3:
            cur = [l]; seqs.append(cur)
        elif l.startswith('DONE'): cur = None
        elif cur is not None and l: cur.append(l)
    return seqs

# ---------------------------------------------------------------------------------------------- building the two sides
def tree_digest(paths):
    h = hashlib.sha1()
    for p in paths:
        if os.path.isdir(p):
            for root, ds, fs in sorted(os.walk(p)):
                ds.sort()
                for f in sorted(fs):
                    q = os.path.join(root, f); h.update(q.encode()); h.update(open(q, 'rb').read())
        elif os.path.exists(p): h.update(p.encode()); h.update(open(p, 'rb').read())
    return h.hexdigest()

def build_harness(ctx):
    """the harness instantiates 14 element types of the BigMatrix templates (about a minute of g++): the binary is reused while
    neither the harness nor any SimTKcommon header of the tree under test has changed (content digest)"""
    src = os.path.join(VERIF, 'harness', 'C25_views.cpp'); exe = ctx.bdir('C25_views')
    dig = tree_digest([src] + [os.path.join(REPO, 'SimTKcommon', d) for d in ('include', 'BigMatrix/include', 'SmallMatrix/include', 'Scalar/include', 'Mechanics/include', 'Geometry/include', 'Polynomial/include', 'Random/include', 'Simulation/include')]) + REPO + LIBDIR
    stamp = exe + '.digest'
    if os.path.exists(exe) and os.path.exists(stamp) and open(stamp).read() == dig:
        ctx.log('C25 views harness reused (headers and harness unchanged)'); return exe
    if os.path.exists(stamp): os.remove(stamp)
    t = time.time()
    if not ctx.cxx(src, exe): return None
    open(stamp, 'w').write(dig); ctx.log('C25 views harness compiled in %.0fs' % (time.time() - t))
    return exe

def build_driver(ctx):
    exd = ctx.bdir('exv')
    if not ctx.extract(EXTRACT, exd): return None
    shutil.copy(os.path.join(VERIF, 'ocaml', 'C25_views_drv.ml'), exd)
    if not ctx.ocaml(exd, ['c25views.mli', 'c25views.ml', 'C25_views_drv.ml'], 'drv'): return None
    return os.path.join(exd, 'drv')

REPAIRED = []     # ['repaired'] when MatrixHelper.cpp has the repair of patches/C25_owner_vector_helper_resize.diff; passed to the model driver

def run_both(ctx, text, drv, exe):
    rc1, o1, e1 = sh([drv] + REPAIRED, input=text, timeout=1200)
    rc2, o2, e2 = sh([exe], input=text, timeout=1200)
    for _ in range(3):            # the shared libraries may be in the middle of a relink by a concurrent bin/build_repo
        if rc2 != 127: break
        time.sleep(10); rc2, o2, e2 = sh([exe], input=text, timeout=1200)
    if rc1 != 0: ctx.broken.append(('correspondence:C25views:driver', 'model driver failed rc=%d %s' % (rc1, e1[-300:])))
    if rc2 != 0: ctx.broken.append(('correspondence:C25views:harness', 'C++ harness failed rc=%d (crash inside an operation chain) %s' % (rc2, e2[-300:])))
    return o1, o2

def shrink(seq, still_fails, budget=150):
    cur = list(seq); changed = True
    while changed and budget > 0:
        changed = False
        for i in range(len(cur) - 2, 1, -1):
            cand = cur[:i] + cur[i + 1:]; budget -= 1
            if budget <= 0: break
            if still_fails(cand): cur = cand; changed = True
    return cur

def compare_stream(ctx, name, seqs, drv, exe, expect_ref=False):
    """returns (#operations, first model/impl disagreement or None, list of (sequence index, REF line))"""
    text = '\n'.join('\n'.join(s) for s in seqs) + '\n'
    open(ctx.bdir('views_%s.txt' % name), 'w').write(text)
    om, oc = run_both(ctx, text, drv, exe)
    sm = split_sequences(om); sc = split_sequences(oc)
    refs = []; dis = None
    for i, s in enumerate(seqs):
        a = sm[i] if i < len(sm) else []; b = sc[i] if i < len(sc) else []
        rl = [l for l in b if l.startswith('REF ')]; b = [l for l in b if not l.startswith('REF ') and not l.startswith('#')]
        for l in rl: refs.append((i, l))
        if a != b and dis is None:
            j = next((x for x in range(min(len(a), len(b))) if a[x] != b[x]), min(len(a), len(b)))
            dis = (i, j, a[j] if j < len(a) else None, b[j] if j < len(b) else None)
    if 'DONE' not in oc: ctx.broken.append(('correspondence:C25views:' + name, 'the C++ harness did not finish the stream (crash?)'))
    return sum(len(s) - 2 for s in seqs), dis, refs

def impl_fails(exe):
    def f(seq):
        rc, o, e = sh([exe], input='\n'.join(seq) + '\n', timeout=60)
        return rc != 0 or any(l.startswith('REF ') for l in o.split('\n'))
    return f

def sym_tie(ctx, drv_dir, exe):
    """SymMat<M> packed layout (M = 1..7): address of every stored element from the real class vs sym_index of the model"""
    rc, o, e = sh([exe, 'sym'], timeout=60)
    got = {int(l.split()[1]): [int(x) for x in l.split()[2:]] for l in o.split('\n') if l.startswith('SYM ')}
    rc2, o2, e2 = sh([os.path.join(drv_dir, 'symdrv')], timeout=60)
    want = {int(l.split()[1]): [int(x) for x in l.split()[2:]] for l in o2.split('\n') if l.startswith('SYM ')}
    n = sum(len(v) for v in got.values())
    if not got or got != want:
        ctx.broken.append(('correspondence:C25views:symmat-index', 'SymMat packed index map differs: impl=%s model=%s' % (got, want)))
    return n

def part(ctx, harness_future=None):
    thorough = ctx.tier == 'thorough'
    ok = ctx.coq_props(PROPS)
    exe = harness_future.result() if harness_future is not None else build_harness(ctx)
    if not exe:
        ctx.broken.append(('harness:C25_views', 'views harness does not compile against the current BigMatrix headers')); return
    drv = build_driver(ctx)
    if not drv:
        ctx.broken.append(('extraction:C25_views', 'views model does not extract / driver does not build')); return
    # which of the two proved variants of the model describes the source
    if 'resizeOwnerOutOfVectorRep' in open(os.path.join(REPO, 'SimTKcommon/BigMatrix/src/MatrixHelper.cpp')).read():
        REPAIRED.append('repaired'); ctx.notes.append('MatrixHelper.cpp has resizeOwnerOutOfVectorRep: repaired model variant used')
    ctx.extra['views_model_variant'] = 'repaired=true' if REPAIRED else 'repaired=false (MatrixHelper.cpp as it is)'
    # ---------------- corpus + random valid chains + chains with out-of-range requests
    seqs = []
    cdir = os.path.join(VERIF, 'corpus', 'C25')
    for f in sorted(os.listdir(cdir)) if os.path.isdir(cdir) else []:
        if f.endswith('.seq'): seqs.append([l.strip() for l in open(os.path.join(cdir, f)) if l.strip() and not l.startswith('#')])
    ncorpus = len(seqs); kinds = {}
    nseq = 700 if not thorough else 6000
    for i in range(nseq):
        et = ctx.rng.choices(['d', 'f', 'c', 'v'], [4, 2, 3, 3])[0]
        s, kd = gen_sequence(ctx.rng, et, min(60, 2 + int(ctx.rng.expovariate(1 / 18.0))), 'valid' if i % 4 else 'errors')
        for a, b in kd.items(): kinds[a] = kinds.get(a, 0) + b
        seqs.append(s)
    nops, dis, refs = compare_stream(ctx, 'main', seqs, drv, exe)
    ctx.add_cases(nops, len(set(l for s in seqs for l in s)), [' ; '.join(seqs[ncorpus][:7])[:400]] if len(seqs) > ncorpus else None)
    ctx.extra['views_chains'] = {'corpus': ncorpus, 'random': nseq, 'operations': nops, 'longest': max(len(s) - 2 for s in seqs),
                                 'op_histogram': dict(sorted(kinds.items())), 'ref_mismatches': len(refs)}
    ctx.cov['rule'] = (ctx.cov.get('rule') or '') + ' || views: random operation chains (view taking / writes through views / scalar conventions / copies / resize, 1 in 4 chains with out-of-range ' \
        'requests that must throw) on Matrix_/Vector_/RowVector_ of Real, float, complex<double>, Vec3, sizes 0..12, integer-valued elements; evaluation = one operation ' \
        'after which every live handle is compared (model vs implementation vs dense reference); distinct = distinct operation lines'
    if dis:
        i, j, a, b = dis
        ctx.broken.append(('correspondence:C25views', 'model and implementation differ in chain %d (%s) at output line %d: model=%r impl=%r' % (i, seqs[i][0], j, a, b)))
    if refs:
        i, l = refs[0]
        small = shrink(seqs[i], impl_fails(exe))
        ctx.report('impl:view-semantics', 'Matrix_/Vector_ view semantics differ from the dense reference: ' + l[:300],
                   {'failing_input': small, 'replay_cmd': 'printf "%s\\n" | %s -v' % ('\\n'.join(small), exe), 'first_ref_line': l[:1000]})
    elif dis:
        search(ctx, exe, 3000)
    # ---------------- Matrix_ deep copy of a one-column/one-row block given a 2-d size: known finding before fix e58b46bd, regression stream after it
    WITNESS = ['S d', 'new 0 3 3 1', 'view 0 blk 0 1 3 1', 'copy 1 0', 'asg 2 2 2 11 12 13 14', 'E']      # = refut_ops of theorem C25_assign_to_copied_column_block_refuted
    dseqs = [WITNESS] + [gen_defect(ctx.rng, ctx.rng.choice(['d', 'f', 'c', 'v']))[0] for _ in range(40 if not thorough else 400)]
    rcw, ow, ew = sh([exe], input='\n'.join(WITNESS) + '\n', timeout=60)
    ctx.extra['views_refuted_witness_on_implementation'] = [l for l in ow.split('\n') if l.startswith('E 2:')][-1:]
    if ctx.extra['views_refuted_witness_on_implementation'] != (['E 2: 11 12 13 14'] if REPAIRED else ['E 2: 11 13 13 12']):
        ctx.notes.append('the witness of C25_assign_to_copied_column_block_refuted gives %s on the implementation' % ctx.extra['views_refuted_witness_on_implementation'])
    nops2, dis2, refs2 = compare_stream(ctx, 'defect', dseqs, drv, exe)
    ctx.add_cases(nops2, len(set(l for s in dseqs for l in s)))
    ctx.extra['views_known_defect_chains'] = {'chains': len(dseqs), 'operations': nops2, 'chains_with_ref_mismatch': len(set(i for i, _ in refs2))}
    if dis2:
        i, j, a, b = dis2
        ctx.broken.append(('correspondence:C25views:defect', 'model and implementation differ in known-defect chain %d at output line %d: model=%r impl=%r | %s' % (i, j, a, b, ' ; '.join(dseqs[i])[:300])))
    if refs2:
        i, l = refs2[0]
        ctx.report('impl:repair-incomplete-owner-vector-helper' if REPAIRED else KNOWN_KEY, 'a Matrix_ deep-copied from a one-column/one-row block keeps a vector helper; giving it a two-dimensional size aliases its elements: ' + l[:300],
                   {'failing_input': dseqs[i], 'replay_cmd': 'printf "%s\\n" | %s -v' % ('\\n'.join(dseqs[i]), exe), 'first_ref_line': l[:1000]})
    elif not REPAIRED:
        ctx.notes.append('known finding %s no longer reproduces on %d chains' % (KNOWN_KEY, len(dseqs)))
    # ---------------- SymMat packed index map
    symdrv = os.path.join(os.path.dirname(drv), 'symdrv.ml')
    open(symdrv, 'w').write(SYMDRV)
    if ctx.ocaml(os.path.dirname(drv), ['c25views.mli', 'c25views.ml', 'symdrv.ml'], 'symdrv'):
        ctx.add_cases(sym_tie(ctx, os.path.dirname(drv), exe))
    else: ctx.broken.append(('ocaml:C25views:symdrv', 'SymMat index driver does not build'))
    ctx.assumptions += [
        'views model: offsets/strides in elements (the code keeps scalars, always multiples of the element size); elements are lists of integer scalars, so rounding is outside (values stay below 1e5 in magnitude, exact in float)',
        'views model: loop order of the elementwise operations and the std::copy shortcuts of copyInFromCompatibleSource_ are not distinguished from the element-by-element loop (sources are fresh temporaries, never aliasing the destination)',
        'views harness is compiled without NDEBUG (range checks of BigMatrix.h active) against the Release library (its internal SimTK_SIZECHECK/INDEXCHECK are compiled out): out-of-range element access is not generated']

SYMDRV = """open C25views
let rec nat_of_int n = if n <= 0 then O else S (nat_of_int (n - 1))
let rec int_of_nat = function O -> 0 | S n -> 1 + int_of_nat n
let () = for m = 1 to 7 do
  print_string (Printf.sprintf "SYM %d" m);
  for i = 0 to m - 1 do for j = 0 to i do print_string (Printf.sprintf " %d" (int_of_nat (sym_index (nat_of_int m) (nat_of_int i) (nat_of_int j)))) done done;
  print_newline () done
"""

def search(ctx, exe, n):
    """failing-input search on the implementation alone: fresh chains against the dense reference inside the harness"""
    found = False
    for rep in range(max(1, n // 500)):
        seqs = [gen_sequence(ctx.rng, ctx.rng.choice(['d', 'f', 'c', 'v']), ctx.rng.randint(2, 40))[0] for _ in range(500)]
        rc, o, e = sh([exe], input='\n'.join('\n'.join(s) for s in seqs) + '\n', timeout=600)
        sc = split_sequences(o)
        for i, s in enumerate(seqs):
            if i >= len(sc): break
            rl = [l for l in sc[i] if l.startswith('REF ')]
            if rl:
                small = shrink(s, impl_fails(exe))
                ctx.report('impl:view-semantics', 'Matrix_/Vector_ view semantics differ from the dense reference: ' + rl[0][:300],
                           {'failing_input': small, 'first_ref_line': rl[0][:1000]}); found = True; break
        if found or rc != 0: break
    ctx.extra['views_search'] = {'chains': n, 'found': found}
