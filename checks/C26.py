"""C26 Array_ and pointer wrappers have value semantics (DESIGN 5 C26, 7.10).

Theorems (coq/Props/Properties_C26.v) are about the hand-written slot-level model coq/C26/C26_Model.v and the
pointer-wrapper models coq/C26/C26_Ptr.v.  Tie, checked on every run: the models are extracted to OCaml and run
against the real Array_<T> / CloneOnWritePtr / ClonePtr / ReferencePtr / ResetOnCopy / ReinitOnCopy compiled
from /repo on the same random operation sequences; outputs are compared exactly after every operation
(contents, size, capacity, constructor and destructor calls made by the operation, live objects; std::vector
as the reference for the abstract sequence).
Array.h carries the isOwnElement repair (commit 91dbee05): the model variant guard=true is used, own-element value
arguments are part of the property, and the six former defect witnesses corpus/C26/w*.alias are regression cases that
must give the std::vector result (a failure is reported under an impl:repair-incomplete-* key, i.e. as a VIOLATION)."""
import os, sys, re
from vlib import *

PROPS = ['Props/Properties_C26.v']
EXTRACT = """From Coq Require Import Extraction ExtrOcamlBasic.
Require Import C26_Model C26_Ptr.
Extraction "c26model.ml" step sstep run srun init_world observe ext_op live_count
  pstep pspec_step pinit pobserve plive wstep.
"""

# ---------------------------------------------------------------------------------------------- generator
class Gen:
    """random operation sequences for K arrays; tracks the abstract contents (std::vector semantics) and a
    conservative copy of the capacity policy only to aim at the boundaries (full array, in-place vs reallocating insert)"""
    def __init__(self, rng, ty, K, alias=False):
        self.r = rng; self.ty = ty; self.K = K; self.alias = alias
        self.xs = [[] for _ in range(K)]; self.cap = [0] * K; self.next = 1; self.lines = []
        self.kinds = {}
    def val(self):
        if self.r.random() < 0.8:
            self.next += 1; return self.next
        return self.r.randrange(0, 4)
    def vals(self, n): return [self.val() for _ in range(n)]
    def grow(self, k, n):          # capacity after insertGapAt/growAtEnd of n elements (only used to aim the generator)
        if len(self.xs[k]) + n > self.cap[k]:
            self.cap[k] = max(self.cap[k] + n, 2 * self.cap[k], 4)
    def src(self, k):
        xs = self.xs[k]
        if self.alias and xs and self.r.random() < 0.7:
            return 'o%d' % self.r.randrange(len(xs))
        return 'e%d' % self.val()
    def srcval(self, k, s): return self.xs[k][int(s[1:])] if s[0] == 'o' else int(s[1:])
    def path(self, n):
        d = self.r.choice([1, 1, 1, 2, 2, 3]); p = []; b0 = 0; cur = n
        for _ in range(d):
            b = self.r.randint(0, cur); l = self.r.randint(0, cur - b)
            if self.r.random() < 0.15: b, l = 0, cur
            p += [b, l]; b0 += b; cur = l
        return d, p, b0, cur
    def emit(self, kind, toks):
        self.kinds[kind] = self.kinds.get(kind, 0) + 1
        self.lines.append(' '.join(str(t) for t in toks))
    def op(self):
        r = self.r; K = self.K; k = r.randrange(K); xs = self.xs[k]; n = len(xs); copyable = self.ty != 'm'
        big = n > 40
        menu = ['pbm', 'emb', 'pbd', 'pop', 'er', 'er1', 'erf', 'emp', 'res', 'rsv', 'shr', 'set', 'sw', 'ma', 'cm', 'cn', 'clr', 'dea']
        wts  = [ 8,     6,     3,     5,     4,    5,     5,     8,     5,     4,     4,     4,     2,    2,    1,    1,    1,     1]
        if copyable:
            menu += ['pb', 'ins', 'insn', 'insl', 'inslf', 'insli', 'resf', 'asf', 'asl', 'aslf', 'asli', 'cf', 'cl', 'cc', 'ca', 'vf', 'va']
            wts  += [10,   10,    6,      4,      2,       2,       4,      1,     1,     1,      1,      1,    1,    2,    3,    4,    3]
        if self.alias:
            menu = ['pb', 'ins', 'insn', 'resf', 'pop', 'er1', 'rsv', 'emp']; wts = [6, 6, 3, 2, 1, 1, 1, 1]
        o = r.choices(menu, wts)[0]
        if big and o in ('pb', 'pbm', 'emb', 'pbd', 'ins', 'insn', 'insl', 'inslf', 'insli', 'emp') and r.random() < 0.7:
            o = r.choice(['er', 'er', 'pop', 'erf', 'er1', 'clr'])
        if o in ('pbm', 'emb'):
            v = self.val(); self.emit(o, [o, k, v]); self.grow(k, 1); xs.append(v)
        elif o == 'pb':
            s = self.src(k); v = self.srcval(k, s); self.emit(o + ('@' if s[0] == 'o' else ''), [o, k, s]); self.grow(k, 1); xs.append(v)
        elif o == 'pbd':
            self.emit(o, [o, k]); self.grow(k, 1); xs.append(0)
        elif o == 'pop':
            if not n: return
            self.emit(o, [o, k]); xs.pop()
        elif o == 'er':
            i = r.randint(0, n); j = r.randint(i, min(n, i + r.choice([0, 1, 2, 3, 5, n])))
            self.emit(o, [o, k, i, j]); del xs[i:j]
        elif o == 'er1':
            if not n: return
            i = r.choice([0, n - 1, r.randrange(n)]); self.emit(o, [o, k, i]); del xs[i]
        elif o == 'erf':
            if not n: return
            i = r.choice([0, n - 1, max(0, n - 2), r.randrange(n)]); self.emit(o, [o, k, i])
            if i + 1 != n: xs[i] = xs[-1]
            xs.pop()
        elif o == 'clr': self.emit(o, [o, k]); del xs[:]
        elif o == 'dea': self.emit(o, [o, k]); del xs[:]; self.cap[k] = 0
        elif o == 'emp':
            p = r.choice([0, n, r.randint(0, n)]); v = self.val(); self.emit(o, [o, k, p, v]); self.grow(k, 1); xs.insert(p, v)
        elif o == 'ins':
            p = r.choice([0, n, r.randint(0, n)]); s = self.src(k); v = self.srcval(k, s)
            self.emit(o + ('@' if s[0] == 'o' else ''), [o, k, p, s]); self.grow(k, 1); xs.insert(p, v)
        elif o == 'insn':
            p = r.choice([0, n, r.randint(0, n)]); room = max(0, self.cap[k] - n)
            m = r.choice([0, 1, 2, 3, room, room + 1, r.randint(0, 6)]); m = min(m, 12)
            s = self.src(k); v = self.srcval(k, s)
            self.emit(o + ('@' if s[0] == 'o' else ''), [o, k, p, m, s]); self.grow(k, m); xs[p:p] = [v] * m
        elif o in ('insl', 'inslf', 'insli'):
            p = r.choice([0, n, r.randint(0, n)]); room = max(0, self.cap[k] - n)
            m = min(r.choice([0, 1, 2, 3, room, room + 1, r.randint(0, 6)]), 10); vs = self.vals(m)
            self.emit(o, [o, k, p, m] + vs)
            if o == 'insli':
                for _ in range(m): self.grow(k, 1)
            else: self.grow(k, m)
            xs[p:p] = vs
        elif o == 'res':
            m = r.choice([0, n, max(0, n - 1), n + 1, self.cap[k], self.cap[k] + 1, r.randint(0, n + 6)]); m = min(m, 60)
            self.emit(o, [o, k, m])
            if m > self.cap[k]: self.cap[k] = m
            if m < n: del xs[m:]
            else: xs += [0] * (m - n)
        elif o == 'resf':
            m = r.choice([0, n, max(0, n - 1), n + 1, self.cap[k], self.cap[k] + 1, r.randint(0, n + 6)]); m = min(m, 60)
            s = self.src(k); v = self.srcval(k, s)
            self.emit(o + ('@' if s[0] == 'o' else ''), [o, k, m, s])
            if m > self.cap[k]: self.cap[k] = m
            if m < n: del xs[m:]
            else: xs += [v] * (m - n)
        elif o == 'rsv':
            m = min(r.choice([0, n, self.cap[k], self.cap[k] + 1, n + r.randint(0, 9), 2 * n + 3]), 90)
            self.emit(o, [o, k, m]); self.cap[k] = max(self.cap[k], m)
        elif o == 'shr':
            self.emit(o, [o, k])
            if not (self.cap[k] - n // 4 <= n): self.cap[k] = n
        elif o == 'asf':
            m = r.choice([0, 1, n, r.randint(0, 20), r.randint(0, 50)]); v = self.val(); self.emit(o, [o, k, m, v]); xs[:] = [v] * m; self.cap[k] = max(self.cap[k], m)
        elif o in ('asl', 'aslf', 'asli', 'cl'):
            m = r.choice([0, 1, n, r.randint(0, 12), r.randint(0, 30)]); vs = self.vals(m); self.emit(o, [o, k, m] + vs); xs[:] = vs; self.cap[k] = max(self.cap[k], m)
        elif o == 'cn':
            m = r.randint(0, 12); self.emit(o, [o, k, m]); xs[:] = [0] * m; self.cap[k] = m
        elif o == 'cf':
            m = r.randint(0, 12); v = self.val(); self.emit(o, [o, k, m, v]); xs[:] = [v] * m; self.cap[k] = m
        elif o in ('cc', 'cm'):
            if K < 2: return
            j = r.choice([x for x in range(K) if x != k]); self.emit(o, [o, k, j]); xs[:] = self.xs[j]
            if o == 'cm': self.cap[k] = self.cap[j]; self.xs[j] = []; self.cap[j] = 0
            else: self.cap[k] = len(xs)
        elif o == 'ca':
            j = r.randrange(K); self.emit(o, [o, k, j])
            if j != k: xs[:] = self.xs[j]; self.cap[k] = max(self.cap[k], len(xs))
        elif o in ('ma', 'sw'):
            j = r.randrange(K); self.emit(o, [o, k, j])
            self.xs[k], self.xs[j] = self.xs[j], self.xs[k]; self.cap[k], self.cap[j] = self.cap[j], self.cap[k]
        elif o == 'set':
            if not n: return
            i = r.randrange(n); v = self.val(); self.emit(o, [o, k, i, v]); xs[i] = v
        elif o == 'vf':
            v = self.val()
            if r.random() < 0.15: self.emit(o, [o, k, 0, v]); xs[:] = [v] * n; return
            d, p, b, l = self.path(n); self.emit(o, [o, k, d] + p + [v]); xs[b:b + l] = [v] * l
        elif o == 'va':
            if r.random() < 0.15:
                vs = self.vals(n); self.emit(o, [o, k, 0, n] + vs); xs[:] = vs; return
            d, p, b, l = self.path(n); vs = self.vals(l); self.emit(o, [o, k, d] + p + [l] + vs); xs[b:b + l] = vs

def gen_sequence(rng, ty, K, nops, alias=False):
    g = Gen(rng, ty, K, alias)
    if alias:      # start from a few elements so that own-element references exist
        for _ in range(rng.randint(1, 6)):
            v = g.val(); g.emit('pb', ['pb', 0, 'e%d' % v]); g.grow(0, 1); g.xs[0].append(v)
    tries = 0
    while len(g.lines) < nops and tries < 4 * nops + 20:
        g.op(); tries += 1
    return ['S %s %d' % (ty, K)] + g.lines + ['E'], g.kinds

def split_sequences(out):
    seqs = []; cur = None
    for l in out.split('\n'):
        if l.startswith('S '):
            cur = [l]; seqs.append(cur)
        elif cur is not None and l: cur.append(l)
    return seqs

GUARD = []     # ['guard'] when Array.h has the isOwnElement repair; passed to the model driver

def run_both(ctx, text, drv, exe, extra=()):
    rc1, o1, e1 = sh([drv] + GUARD + list(extra), input=text, timeout=1200)
    rc2, o2, e2 = sh([exe], input=text, timeout=1200)
    for _ in range(3):            # the shared libraries may be in the middle of a relink by a concurrent bin/build_repo
        if rc2 != 127: break
        import time as _t; _t.sleep(10); rc2, o2, e2 = sh([exe], input=text, timeout=1200)
    if rc1 != 0: ctx.broken.append(('correspondence:driver', 'model driver failed rc=%d %s' % (rc1, e1[-300:])))
    if rc2 != 0: ctx.broken.append(('correspondence:harness', 'C++ harness failed rc=%d %s' % (rc2, e2[-300:])))
    return o1, o2

# ---------------------------------------------------------------------------------------------- the property predicate on the implementation
def impl_predicate(seq_in, seq_out):
    """the property itself evaluated on the harness output of one sequence: no slot-discipline fault, Array_ contents
    equal to std::vector after every operation, live objects = sum of sizes, capacity >= size, all destroyed at the end.
    Returns (ok, what, index of the first failing operation)."""
    ops = [l for l in seq_in if not l.startswith('S ') and l != 'E']
    i = 0; k = -1; lastA = None
    for l in seq_out[1:]:
        if l.startswith('A '):
            k += 1; lastA = l
            if l.startswith('A fault'): return False, 'slot discipline: %s' % l[8:], k
            parts = l.split(' | ')
            head = parts[0].split(); arrs = parts[1:]
            tot = 0
            for a in arrs:
                hd, _, vals = a.partition(':'); sz, cap = [int(x) for x in hd.split()]
                tot += sz
                if cap < sz: return False, 'capacity %d < size %d' % (cap, sz), k
                if len(vals.split()) != sz or '?' in vals: return False, 'dead element inside [0,size)', k
            if len(head) == 5 and int(head[4]) != tot: return False, 'live objects %s != sum of sizes %d' % (head[4], tot), k
        elif l.startswith('V'):
            want = [x.split() for x in l[1:].split('|')[1:]]
            got = [a.partition(':')[2].split() for a in lastA.split(' | ')[1:]]
            if want != got: return False, 'contents differ from std::vector: Array_ %s, std::vector %s' % (got, want), k
        elif l.startswith('E'):
            if l not in ('E', 'E live=0'): return False, 'objects alive or fault after destroying all arrays: ' + l, k
    return True, '', -1

def shrink(ctx, seq_in, exe, pred):
    """delete-one-op shrinking of a failing sequence (pred(seq_in) -> True when it still fails)"""
    cur = list(seq_in); changed = True; budget = 400
    while changed and budget > 0:
        changed = False
        for i in range(len(cur) - 2, 0, -1):
            cand = cur[:i] + cur[i + 1:]; budget -= 1
            if budget <= 0: break
            if pred(cand): cur = cand; changed = True
    return cur

ALIAS_KEYS = {
    'pb': 'alias-push_back', 'ins': 'alias-insert', 'insn': 'alias-insert-n', 'resf': 'alias-resize',
}

def run(ctx):
    ctx.build_repo()
    ok = ctx.coq_props(PROPS)
    exe = ctx.bdir('C26_array'); pexe = ctx.bdir('C26_ptr')
    if not ctx.cxx(os.path.join(VERIF, 'harness', 'C26_array.cpp'), exe):
        ctx.broken.append(('harness:C26_array', 'harness does not compile against the current Array.h')); ctx.finish()
    exd = ctx.bdir('ex')
    if not ctx.extract(EXTRACT, exd):
        ctx.broken.append(('extraction', 'model does not extract')); ctx.finish()
    import shutil
    shutil.copy(os.path.join(VERIF, 'ocaml', 'C26_drv.ml'), exd); shutil.copy(os.path.join(VERIF, 'ocaml', 'C26_ptrdrv.ml'), exd)
    if not ctx.ocaml(exd, ['c26model.mli', 'c26model.ml', 'C26_drv.ml'], 'drv') or \
       not ctx.ocaml(exd, ['c26model.mli', 'c26model.ml', 'C26_ptrdrv.ml'], 'ptrdrv'):
        ctx.broken.append(('ocaml', 'driver does not build')); ctx.finish()
    drv = os.path.join(exd, 'drv'); ptrdrv = os.path.join(exd, 'ptrdrv')
    thorough = ctx.tier == 'thorough'
    # which of the two proved variants of the model describes the source: Array.h as it is (guard = false), or with the
    # repair of patches/C26_alias_value.diff (guard = true; recognised by its helper isOwnElement)
    src = open(os.path.join(REPO, 'SimTKcommon/include/SimTKcommon/internal/Array.h')).read()
    if 'isOwnElement' in src:
        GUARD.append('guard'); ctx.notes.append('Array.h has the isOwnElement repair: guarded model variant (guard = true) used')
    ctx.extra['model_variant'] = 'guard=true (isOwnElement repair present)' if GUARD else 'guard=false (Array.h as it is)'

    # ---------------- 1. corpus + random sequences with outside values: model == Array_, Array_ == std::vector
    seqs = []; kinds = {}
    cdir = os.path.join(VERIF, 'corpus', 'C26')
    for f in sorted(os.listdir(cdir)) if os.path.isdir(cdir) else []:
        if f.endswith('.seq'):
            seqs.append([l.strip() for l in open(os.path.join(cdir, f)) if l.strip() and not l.startswith('#')])
    ncorpus = len(seqs)
    nseq = 2000 if not thorough else 10000
    for i in range(nseq):
        ty = ctx.rng.choices(['c', 't', 'm'], [5, 2, 3])[0]
        K = ctx.rng.choice([1, 2, 2, 3])
        nops = min(300, 1 + int(ctx.rng.expovariate(1 / 45.0))) if ctx.rng.random() < 0.97 else 300
        s, kd = gen_sequence(ctx.rng, ty, K, nops)
        for a, b in kd.items(): kinds[a] = kinds.get(a, 0) + b
        seqs.append(s)
    text = '\n'.join('\n'.join(s) for s in seqs) + '\n'
    open(ctx.bdir('seqs.txt'), 'w').write(text)
    om, oc = run_both(ctx, text, drv, exe)
    sm = split_sequences(om); sc = split_sequences(oc)
    nops_total = sum(len(s) - 2 for s in seqs)
    distinct = len(set(l for s in seqs for l in s))
    ctx.add_cases(nops_total, distinct, [' ; '.join(seqs[ncorpus][:6])] if len(seqs) > ncorpus else None)
    ctx.extra['array_sequences'] = {'corpus': ncorpus, 'random': nseq, 'operations': nops_total,
                                    'longest': max(len(s) - 2 for s in seqs), 'op_histogram': dict(sorted(kinds.items()))}
    ctx.cov['rule'] = ('random operation sequences on 1-3 Array_<T> (T counted / trivially copyable / move-only), <= 300 ops each, values fresh ids; '
                       'evaluation = one operation compared (model vs Array_ vs std::vector); distinct = distinct operation lines')
    first_bad = None
    if om != oc:
        for i, s in enumerate(seqs):
            a = sm[i] if i < len(sm) else None; b = sc[i] if i < len(sc) else None
            if a != b: first_bad = i; break
    fails = []
    for i, s in enumerate(seqs):
        if i < len(sc):
            okp, what, at = impl_predicate(s, sc[i])
            if not okp: fails.append((i, what, at))
    if first_bad is not None:
        i = first_bad; a = sm[i] if i < len(sm) else []; b = sc[i] if i < len(sc) else []
        j = next((x for x in range(min(len(a), len(b))) if a[x] != b[x]), min(len(a), len(b)))
        ctx.broken.append(('correspondence:array', 'model and Array_ differ in sequence %d at output line %d: model=%r impl=%r' %
                           (i, j, a[j] if j < len(a) else None, b[j] if j < len(b) else None)))
    # the harness died (uncaught exception / abort) in the middle of the batch: the first sequence without a complete output is the
    # one it died in; run it alone and, when it dies again, that sequence is a failing input (a valid operation sequence on which
    # Array_ raises an error or crashes where std::vector performs the operation)
    if any(b[0] == 'correspondence:harness' for b in ctx.broken) and not fails:
        for i, sq in enumerate(seqs):
            out = sc[i] if i < len(sc) else None
            if out is None or not (out and out[-1].startswith('E')):
                # (stdout is buffered, so output of a few complete sequences before the fatal one may be missing too: scan forward)
                for j in range(i, len(seqs)):
                    rc, o, e = sh([exe], input='\n'.join(seqs[j]) + '\n', timeout=60)
                    if rc != 0:
                        msg = ' '.join(e.split())[-300:]
                        fails.append((j, 'the harness dies on this sequence (rc=%d): %s' % (rc, msg), -1))
                        break
                break
    if fails:
        i, what, at = fails[0]
        def still(c):
            rc, o, e = sh([exe], input='\n'.join(c) + '\n', timeout=60)
            ss = split_sequences(o)
            return rc != 0 or (ss and not impl_predicate(c, ss[0])[0])
        small = shrink(ctx, seqs[i], exe, still)
        ctx.report('impl:array-value-semantics', 'Array_ violates the property on an operation sequence with outside values only: ' + what,
                   {'failing_input': small, 'replay_cmd': 'printf "%s\\n" | %s' % ('\\n'.join(small), exe), 'what_failed': what})
    elif first_bad is not None:
        # model and code disagree but the property predicate holds on the implementation: run a larger search
        search(ctx, exe, 4000)

    # ---------------- 2. sequences whose value arguments refer to the array's own elements (DESIGN 7.10)
    alias_part(ctx, drv, exe, 300 if not thorough else 3000)

    # ---------------- 3. pointer wrappers
    ptr_part(ctx, ptrdrv, pexe, 1500 if not thorough else 15000)

    if thorough: asan_part(ctx)
    ctx.assumptions += [
        'Array_ model: index type X=unsigned far below max_size (the max_size branches of calcNewCapacityForGrowthBy are not modelled); element type with non-throwing constructors',
        'heap model: a block is a list of slots; addresses other than (block generation, index) are not modelled',
        'non-owner Array_ handles (shareData/adoptData/DontCopy constructors) and stream I/O are outside the model; growWithGap is never instantiated by the library (insertGapAt does the reallocation itself)',
        'pointer wrappers: one heap of objects with integer payload; clone() = new object with the same payload']
    ctx.finish()

def search(ctx, exe, n):
    """failing-input search on the implementation alone (property predicate on fresh random sequences)"""
    found = 0
    for rep in range(n // 500):
        seqs = []
        for i in range(500):
            ty = ctx.rng.choices(['c', 't', 'm'], [6, 1, 3])[0]
            seqs.append(gen_sequence(ctx.rng, ty, ctx.rng.choice([1, 2, 3]), ctx.rng.randint(1, 120))[0])
        rc, o, e = sh([exe], input='\n'.join('\n'.join(s) for s in seqs) + '\n', timeout=600)
        sc = split_sequences(o)
        for i, s in enumerate(seqs):
            if i >= len(sc): break
            okp, what, at = impl_predicate(s, sc[i])
            if not okp:
                ctx.report('impl:array-value-semantics', 'Array_ violates the property: ' + what, {'failing_input': s, 'what_failed': what})
                return
    ctx.extra['search'] = {'sequences': n, 'failures': 0}

def alias_sweep():
    """deterministic sweep of the own-element situations: a 6-element array that is full (size()==capacity(), built by the
    range constructor) or has spare capacity, every element index i as the value argument, every position k, for push_back,
    insert(p,value), insert(p,n,value) (n = 0, 1, 3: the last one reallocates even with the spare room used here) and resize"""
    n = 6; seqs = []
    base = ['S c 1', 'cl 0 %d %s' % (n, ' '.join(str(10 + j) for j in range(n)))]
    for spare in (None, 'rsv 0 8', 'rsv 0 16'):
        pre = base + ([spare] if spare else [])
        for i in range(n):
            seqs.append(pre + ['pb 0 o%d' % i, 'E'])
            for m in (n - 2, n, n + 1, n + 3, n + 11): seqs.append(pre + ['resf 0 %d o%d' % (m, i), 'E'])
            for k in range(n + 1):
                seqs.append(pre + ['ins 0 %d o%d' % (k, i), 'E'])
                for m in (0, 1, 3): seqs.append(pre + ['insn 0 %d %d o%d' % (k, m, i), 'E'])
    return seqs

def alias_part(ctx, drv, exe, nseq):
    seqs = []
    cdir = os.path.join(VERIF, 'corpus', 'C26')
    for f in sorted(os.listdir(cdir)) if os.path.isdir(cdir) else []:
        if f.endswith('.alias'):
            seqs.append([l.strip() for l in open(os.path.join(cdir, f)) if l.strip() and not l.startswith('#')])
    nw = len(seqs)
    sweep = alias_sweep(); seqs += sweep
    for i in range(nseq):
        seqs.append(gen_sequence(ctx.rng, 'c', 1, ctx.rng.randint(2, 25), alias=True)[0])
    text = '\n'.join('\n'.join(s) for s in seqs) + '\n'
    om, oc = run_both(ctx, text, drv, exe)
    ox, _ = sh([drv, 'exact'] + GUARD, input=text, timeout=600)[1], None
    sm = split_sequences(om); sc = split_sequences(oc); sx = split_sequences(ox)
    stats = {'sequences': len(seqs), 'witness_files': nw, 'sweep_sequences': len(sweep), 'agree_with_model': 0, 'disagree_with_model': 0,
             'faults': {}, 'wrong_value': {}, 'clean': 0}
    for i, s in enumerate(seqs):
        a = sm[i] if i < len(sm) else None; b = sc[i] if i < len(sc) else None
        if a != b:
            # model and code disagree: recorded once as "no longer checks"; the property predicate is still evaluated on the
            # implementation's own output below, so that a concrete failing input is reported whenever there is one
            if not stats['disagree_with_model']:
                ctx.broken.append(('correspondence:array-alias', 'model and Array_ differ on a sequence with own-element arguments: %s | model=%s impl=%s' %
                                   (' ; '.join(s), a[-2:] if a else a, b[-2:] if b else b)))
            stats['disagree_with_model'] += 1
            if not b: continue
            okp, what, at = impl_predicate(s, b)
            if okp: continue
            ops = [l for l in s if not l.startswith('S ') and l != 'E']
            name = ops[at].split()[0] if 0 <= at < len(ops) else '?'
            if stats['disagree_with_model'] <= 3 or not ctx.violations:
                ctx.report('impl:array-alias-' + name, 'Array_ violates the property at "%s" (value argument refers to the array\'s own element): %s' %
                           (ops[at] if 0 <= at < len(ops) else '?', what),
                           {'failing_input': s, 'what_failed': what, 'model_output': a[-3:] if a else a, 'impl_output': b[-3:],
                            'replay_cmd': 'printf "%s\\n" | %s' % ('\\n'.join(s), exe)})
            continue
        stats['agree_with_model'] += 1
        okp, what, at = impl_predicate(s, b)
        if okp: stats['clean'] += 1; continue
        ops = [l for l in s if not l.startswith('S ') and l != 'E']
        bad = ops[at].split(); name = bad[0]
        if not any(t.startswith('o') for t in bad[1:]):
            ctx.report('impl:array-alias-other', 'property fails at an operation without own-element argument: %s (%s)' % (ops[at], what),
                       {'failing_input': s, 'what_failed': what}); continue
        fault = 'wrong-value'
        if what.startswith('slot discipline'):
            xl = [l for l in sx[i] if l.startswith('A fault')]
            fault = xl[0].split()[2] if xl else 'fault'
        kind = 'faults' if fault != 'wrong-value' else 'wrong_value'
        stats[kind][name] = stats[kind].get(name, 0) + 1
        key = ALIAS_KEYS.get(name, 'alias-' + name) + ('-wrong-value' if fault == 'wrong-value' else '-dead-read')
        if GUARD: key = 'impl:repair-incomplete-' + key      # with the repair in place nothing of this is a known finding
        ctx.report(key, 'Array_ %s with a value that refers to an element of the array itself: %s (model: %s)' % (name, what, fault),
                   {'failing_input': s, 'what_failed': what, 'model_fault': fault,
                    'replay_cmd': 'printf "%s\\n" | %s' % ('\\n'.join(s), exe)})
    ctx.extra['alias_sequences'] = stats
    ctx.add_cases(sum(len(s) - 2 for s in seqs), len(set(l for s in seqs for l in s)))

def ptr_part(ctx, ptrdrv, pexe, nseq):
    if not ctx.cxx(os.path.join(VERIF, 'harness', 'C26_ptr.cpp'), pexe):
        ctx.broken.append(('harness:C26_ptr', 'pointer-wrapper harness does not compile')); return
    import C26_ptrgen
    seqs, kinds = C26_ptrgen.generate(ctx.rng, nseq)
    text = '\n'.join('\n'.join(s) for s in seqs) + '\n'
    open(ctx.bdir('ptrseqs.txt'), 'w').write(text)
    om, oc = run_both(ctx, text, ptrdrv, pexe)
    n = sum(len(s) - 2 for s in seqs)
    ctx.add_cases(n, len(set(l for s in seqs for l in s)), [' ; '.join(seqs[0][:8])])
    ctx.extra['ptr_sequences'] = {'sequences': len(seqs), 'operations': n, 'op_histogram': dict(sorted(kinds.items()))}
    if om != oc:
        a = om.split('\n'); b = oc.split('\n')
        j = next((x for x in range(min(len(a), len(b))) if a[x] != b[x]), min(len(a), len(b)))
        ctx.broken.append(('correspondence:ptr', 'pointer-wrapper model and implementation differ at output line %d: model=%r impl=%r' %
                           (j, a[j] if j < len(a) else None, b[j] if j < len(b) else None)))
        bad = C26_ptrgen.predicate(seqs, oc)
        if bad:
            ctx.report('impl:ptr-value-semantics', 'pointer wrapper violates the property: ' + bad[1],
                       {'failing_input': bad[0], 'what_failed': bad[1]})
    else:
        bad = C26_ptrgen.predicate(seqs, oc)
        if bad:
            ctx.report('impl:ptr-value-semantics', 'pointer wrapper violates the property: ' + bad[1],
                       {'failing_input': bad[0], 'what_failed': bad[1]})

def asan_part(ctx):
    """thorough tier: the two DESIGN 7.10 witnesses on Array_<std::string> under AddressSanitizer"""
    exe = ctx.bdir('C26_asan')
    if not ctx.cxx(os.path.join(VERIF, 'harness', 'C26_asan.cpp'), exe, sanitize='address', opt='-O0'):
        ctx.notes.append('ASan harness does not compile'); return
    res = {}
    for w in ('push_back', 'insert', 'resize', 'insert_realloc'):
        rc, o, e = sh([exe, w], timeout=120, env={'ASAN_OPTIONS': 'detect_leaks=0:abort_on_error=0'})
        m = re.search(r'ERROR: AddressSanitizer: ([\w-]+)', e)
        res[w] = {'rc': rc, 'asan': m.group(1) if m else None, 'stdout': o.strip()[:200]}
    ctx.extra['asan_witnesses'] = res
    if GUARD:       # with the repair in place the witnesses must be clean and equal to std::vector
        for w, r in res.items():
            if r['asan'] or 'same=1' not in r['stdout']:
                ctx.report('impl:asan-' + w, 'own-element witness %s still fails with the isOwnElement repair: %s' % (w, r),
                           {'replay_cmd': '%s %s' % (exe, w), 'result': r})
