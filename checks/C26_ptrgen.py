"""C26: generator and property predicate for the pointer-wrapper sequences (used by checks/C26.py)."""

KINDS = ['cow', 'cow', 'cow', 'clone', 'clone', 'ref', 'reseti', 'resetb', 'reiniti', 'reinitb']

def gen_one(rng, kind, K, nops):
    lines = ['S %s %d' % (kind, K)]; kinds = {}
    full = [False] * K; nxt = [10]
    def val():
        nxt[0] += 1; return nxt[0]
    for _ in range(nops):
        p = rng.randrange(K); q = rng.randrange(K)
        if kind in ('cow', 'clone'):
            o = rng.choices(['new', 'asv', 'rst', 'ca', 'cc', 'ma', 'mc', 'wr', 'det', 'rel', 'sw'],
                            [5, 2, 2, 8, 4, 3, 2, 9, 2, 2, 2])[0]
            if o in ('cc', 'mc') and p == q: continue
            if o == 'wr' and not full[p]: o = 'new'
            if o in ('new', 'asv', 'wr'): lines.append('%s %d %d' % (o, p, val())); full[p] = True
            elif o in ('rst', 'rel'): lines.append('%s %d' % (o, p)); full[p] = False
            elif o == 'det': lines.append('det %d' % p)
            elif o in ('ca', 'cc'): lines.append('%s %d %d' % (o, p, q)); full[p] = full[q]
            elif o in ('ma', 'mc'):
                lines.append('%s %d %d' % (o, p, q))
                if p != q: full[p] = full[q]; full[q] = False
            elif o == 'sw': lines.append('sw %d %d' % (p, q)); full[p], full[q] = full[q], full[p]
        else:
            o = rng.choices(['ctor', 'set', 'cc', 'ca', 'mc', 'ma'], [2, 5, 4, 5, 3, 4])[0]
            if o in ('cc', 'mc') and p == q: continue
            if o in ('ctor', 'set'):
                v = rng.randint(0, 40) if kind == 'ref' else val()
                lines.append('%s %d %d' % (o, p, v))
            else: lines.append('%s %d %d' % (o, p, q))
        kinds[kind + ':' + o] = kinds.get(kind + ':' + o, 0) + 1
    lines.append('E')
    return lines, kinds

def generate(rng, nseq):
    seqs = []; kinds = {}
    for i in range(nseq):
        kind = rng.choice(KINDS); K = rng.choice([1, 2, 3, 4, 5])
        s, kd = gen_one(rng, kind, K, rng.randint(1, 60))
        for a, b in kd.items(): kinds[a] = kinds.get(a, 0) + b
        seqs.append(s)
    return seqs, kinds

def predicate(seqs, out):
    """the property on the implementation's output alone: handles are independent optional values.
    Returns (sequence, what) for the first violation, else None."""
    blocks = []; cur = None
    for l in out.split('\n'):
        if l.startswith('S '): cur = [l]; blocks.append(cur)
        elif cur is not None and l: cur.append(l)
    for s, b in zip(seqs, blocks):
        kind, K = s[0].split()[1], int(s[0].split()[2])
        ops = s[1:-1]
        if kind in ('cow', 'clone'):
            vals = [None] * K
            for o, l in zip(ops, b[1:]):
                t = o.split(); p = int(t[1])
                if t[0] in ('new', 'asv', 'wr'): vals[p] = int(t[2])
                elif t[0] in ('rst', 'rel'): vals[p] = None
                elif t[0] in ('ca', 'cc'): vals[p] = vals[int(t[2])]
                elif t[0] in ('ma', 'mc'):
                    q = int(t[2])
                    if p != q: vals[p] = vals[q]; vals[q] = None
                elif t[0] == 'sw': q = int(t[2]); vals[p], vals[q] = vals[q], vals[p]
                got = [None if x.strip() == '-' else int(x.split('/')[0]) for x in l.split('|')[1:]]
                if got != vals: return s, 'after "%s": handles hold %s, independent values would be %s' % (o, got, vals)
                live = int(l.split()[1].split('=')[1])
                distinct = len(set(x.split('@')[1].strip() for x in l.split('|')[1:] if x.strip() != '-'))
                if live != distinct: return s, 'after "%s": %d objects alive but %d distinct objects referenced' % (o, live, distinct)
                if kind == 'clone' and any(x.strip() != '-' and int(x.split('@')[1]) != i for i, x in enumerate(l.split('|')[1:])):
                    return s, 'after "%s": two ClonePtr handles share an object' % o
            if b[-1] != 'E live=0': return s, 'objects leaked or destroyed twice: ' + b[-1]
        else:
            vals = [0] * K
            for o, l in zip(ops, b[1:]):
                t = o.split(); p = int(t[1])
                got = [int(x.split(',')[0]) for x in l.split('|')[1:]]
                if t[0] in ('cc', 'ca') and int(t[2]) != p:
                    # copies do not carry the source's current value
                    pass
                if t[0] in ('ctor', 'set'): vals[p] = int(t[2])
                if kind in ('ref', 'reseti', 'resetb'):
                    if t[0] == 'cc' and got[p] != 0: return s, 'after "%s": copy-constructed wrapper holds %d, not the reset value' % (o, got[p])
                    if t[0] == 'ca' and (kind != 'ref' or int(t[2]) != p) and got[p] != 0:
                        return s, 'after "%s": copy-assigned wrapper holds %d, not the reset value' % (o, got[p])
    return None
