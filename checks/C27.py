"""C27 Rotations and transforms are proper and conversions round-trip (DESIGN 5 C27).
Tie: (T) Gen/rot27_gen.v regenerated from Rotation.h/Rotation.cpp on every run (setRotationFromAngleAboutX/Y/Z(c,s),
setRotationToBodyFixedXYZ(c,s), setRotationFromQuaternion, setRotationFromMat33TrustMe) and (X) correspondence of the
extracted model (translated kernels + hand model C27_Model.v) against the compiled library on the same generated
inputs, in double and in float (the model then runs with a NumOps rounding every operation to binary32)."""
import os, sys, math, struct
from vlib import *

PROPS = ['Props/Properties_C27.v', 'Props/Properties_C27Q.v', 'Props/Properties_C27X.v', 'Props/Properties_C27A.v', 'Props/Properties_C27R.v', 'Props/Properties_C27T.v', 'Props/Properties_C27L.v']
EXTRACT = '''From Coq Require Import Extraction ExtrOcamlBasic.
Require Import Num Vec rot27_gen C27_Model.
Extraction Language OCaml.
Extraction "C27_x.ml" k27_setX k27_setY k27_setZ k27_bodyXYZ k27_fromQuat k27_trustMe
  ax_next ax_prev ax_same ax_third ax_isRev setFromAngleAboutAxis setFromTwoAnglesTwoAxes setFromThreeAnglesThreeAxes
  setToBodyFixedXY setToBodyFixedXYZ quatFromAngleAxis quatNormalize quatMulRaw quatToAngleAxis
  setFromAngleAboutUnitVector setFromAngleAboutNonUnitVector rotToQuat rotToAngleAxis setFromApproximateMat33
  perp setFromOneAxis setFromTwoAxes reexpressSymMat33 rot_mul rot_mul_inv inv_mul_rot rot_div
  X_compose X_composeInv IX_compose IX_composeInv X_xformFrameVecToBase X_xformBaseVecToFrame
  X_shiftFrameStationToBase X_shiftBaseStationToFrame X_pInv IX_shiftFrameStationToBase IX_shiftBaseStationToFrame
  IX_toTransform IX_ofTransform convertOneAxisToOneAngle convertTwoAxesToTwoAngles convertThreeAxesToThreeAngles m33_T.
'''

def f32(x):
    return struct.unpack('f', struct.pack('f', x))[0]

# ------------------------------------------------------------------ input generators (all from ctx.rng)
class Gen:
    def __init__(self, rng, flt):
        self.r = rng; self.flt = flt
        self.kmax = 3 if flt else 7          # smallest neighbourhood radius 10^-kmax (scaled to the precision)
    def rd(self, x): return f32(x) if self.flt else float(x)
    def small(self): return 10.0 ** (-self.r.uniform(1, self.kmax)) * self.r.choice((-1.0, 1.0))
    def angle(self, cls=None):
        c = self.r.randrange(6) if cls is None else cls
        if c == 0: return self.r.uniform(-3.1, 3.1)
        if c == 1: return self.small()                                            # near identity
        if c == 2: return (math.pi - abs(self.small())) * self.r.choice((-1, 1))  # near 180 degrees
        if c == 3: return (math.pi / 2 - self.small()) * self.r.choice((-1, 1))   # gimbal lock of i-j-k sequences
        if c == 4: return self.r.choice((0.0, math.pi, -math.pi)) + self.small()  # gimbal lock of i-j-i sequences
        return self.r.uniform(-1.4, 1.4)
    def unit(self, n=3):
        while True:
            v = [self.r.gauss(0, 1) for _ in range(n)]; s = math.sqrt(sum(x * x for x in v))
            if s > 1e-3: return [x / s for x in v]
    def quat(self):
        c = self.r.randrange(5)
        if c == 0: return self.unit(4)
        a = self.angle(c if c < 3 else 0); u = self.unit()
        if c == 4:   # axis close to a coordinate axis: decides between the diagonal branches of the quaternion extraction
            k = self.r.randrange(3); u = [self.small() * 0.1 for _ in range(3)]; u[k] = 1.0
            s = math.sqrt(sum(x * x for x in u)); u = [x / s for x in u]
        return [math.cos(a / 2)] + [math.sin(a / 2) * x for x in u]
    def rot_of_quat(self, q):
        e0, e1, e2, e3 = q
        return [e0*e0+e1*e1-e2*e2-e3*e3, 2*(e1*e2-e0*e3), 2*(e1*e3+e0*e2),
                2*(e1*e2+e0*e3), e0*e0-e1*e1+e2*e2-e3*e3, 2*(e2*e3-e0*e1),
                2*(e1*e3-e0*e2), 2*(e2*e3+e0*e1), e0*e0-e1*e1-e2*e2+e3*e3]
    def rot(self): return self.rot_of_quat(self.quat())
    def elem(self, axis, a):
        c, s = math.cos(a), math.sin(a)
        return [[1,0,0,0,c,-s,0,s,c], [c,0,s,0,1,0,-s,0,c], [c,-s,0,s,c,0,0,0,1]][axis]
    @staticmethod
    def mul(a, b): return [sum(a[3*i+k] * b[3*k+j] for k in range(3)) for i in range(3) for j in range(3)]
    def rot_of_angles(self, space, seq):     # seq = [(angle, axis)...]; body: R1 R2 R3, space: R3 R2 R1
        ms = [self.elem(ax, a) for a, ax in seq]
        if space: ms = ms[::-1]
        m = ms[0]
        for x in ms[1:]: m = self.mul(m, x)
        return m
    def junk(self): return [self.r.uniform(-2, 2) for _ in range(9)]          # previous contents of the object being set
    def vec(self, n=3, s=2.0): return [self.r.uniform(-s, s) for _ in range(n)]
    def xf(self): return self.rot() + self.vec()
    def sym(self): return self.vec(6)

def make_cases(rng, flt, n):
    g = Gen(rng, flt); cases = []
    def add(op, *parts):
        args = []
        for p in parts: args += list(p) if isinstance(p, (list, tuple)) else [p]
        cases.append((op, [g.rd(x) for x in args]))
    for a in range(3):
        for b in range(3): add('axis', a, b)
    cp = os.path.join(VERIF, 'corpus', 'C27', 'edge_cases.txt')      # regression / edge cases first
    if os.path.exists(cp):
        for line in open(cp):
            t = line.split()
            if t and not line.startswith('#'): add(t[0], [float(x) for x in t[1:]])
    for _ in range(n):
        a = g.angle(); c, s = math.cos(a), math.sin(a)
        add('setX', g.junk(), c, s); add('setY', g.junk(), c, s); add('setZ', g.junk(), c, s)
        aa = [g.angle() for _ in range(3)]
        add('bodyXYZcs', g.junk(), [math.cos(x) for x in aa], [math.sin(x) for x in aa])
        add('bodyXYZ', g.junk(), aa); add('bodyXY', g.junk(), aa[:2])
        add('fromQuat', g.junk(), g.quat()); add('trustMe', g.junk(), g.rot())
        add('setaxis', g.junk(), g.angle(), rng.randrange(3))
        add('aaU', g.junk(), g.angle(), g.unit()); add('aaN', g.junk(), g.angle(), [x * rng.uniform(.1, 5) for x in g.unit()])
        add('qaa', g.angle(0) if flt else g.angle(), g.unit())
        add('qmul', g.quat(), g.quat()); add('qnorm', [x * rng.uniform(.1, 5) for x in g.quat()])
        add('r2q', g.rot()); add('r2q', g.rot()); add('q2aa', g.quat()); add('r2aa', g.rot()); add('approx', g.junk(), g.rot())
        u = g.unit(); add('perp', u); add('oneaxis', g.junk(), u, rng.randrange(3))
        cls = rng.randrange(4); v = g.vec()
        if cls == 1: v = [x * rng.uniform(.5, 2) + 10 ** (-rng.uniform(2, 9)) * rng.uniform(-1, 1) for x in u]   # nearly parallel / parallel
        if cls == 2: v = [0.0, 0.0, 0.0]
        add('twoaxes', g.junk(), u, rng.randrange(3), v, rng.randrange(3))
        add('reexp', g.rot(), g.sym()); add('reexpInv', g.rot(), g.sym())
        for op in ('rmul', 'rmulinv', 'invmul', 'rdiv'): add(op, g.rot(), g.rot())
        for op in ('xcomp', 'xcompinv', 'ixcomp', 'ixcompinv'): add(op, g.xf(), g.xf())
        for op in ('xshiftFB', 'xshiftBF', 'ixshiftFB', 'ixshiftBF', 'xvecFB', 'xvecBF'): add(op, g.xf(), g.vec())
        for op in ('xpinv', 'ixto', 'ixof'): add(op, g.xf())
        # matrix -> angles on matrices that are rotations of the given kind
        ax = rng.randrange(3); add('c1', g.elem(ax, g.angle()), ax)
        sp = rng.randrange(2); i, j, k = rng.randrange(3), rng.randrange(3), rng.randrange(3)
        add('c2', g.rot_of_angles(sp, [(g.angle(), i), (g.angle(), j)]), sp, i, j)
        add('c3', g.rot_of_angles(sp, [(g.angle(), i), (g.angle(), j), (g.angle(), k)]), sp, i, j, k)
        add('c3', g.rot(), sp, i, j, k)
    # gimbal lock of every three-angle sequence (12 axis orders x body/space): matrices that are exact products of elementary
    # rotations with the middle angle exactly at the lock (+-pi/2 for i-j-k, 0 / pi for i-j-i orders; both signs, so both lock
    # branches of the extraction are taken) and 1e-16 .. 1e-4 away from it; the extracted ANGLES are compared
    outer = [(-2.5, -2.5), (0.9, -0.4), (2.2, 0.9)]
    for sp in (0, 1):
        for i in range(3):
            for j in range(3):
                for k in range(3):
                    if i == j or j == k: continue
                    locks = (math.pi / 2, -math.pi / 2) if i != k else (0.0, math.pi)
                    for lk in locks:
                        for dlt in (0.0, 1e-16, -1e-16, 1e-9, -1e-9, 1e-6, -1e-4):
                            for (a1, a3) in outer:
                                add('c3', g.rot_of_angles(sp, [(a1, i), (lk + dlt, j), (a3, k)]), sp, i, j, k)
    # all sequences, both kinds, with angle classes chosen per case
    for sp in (0, 1):
        for i in range(3):
            for j in range(3):
                for _ in range(max(1, n // 8)): add('two', g.junk(), sp, g.angle(), i, g.angle(), j)
                for k in range(3):
                    for _ in range(max(1, n // 10)): add('three', g.junk(), sp, g.angle(), i, g.angle(), j, g.angle(), k)
                    m = g.rot_of_angles(sp, [(g.angle(), i), (g.angle(), j), (g.angle(), k)]); add('c3', m, sp, i, j, k)
    return cases

def run_side(exe, mode, cases):
    inp = '\n'.join(op + ' ' + ' '.join(hexf(x) for x in args) for op, args in cases) + '\n'
    rc, out, err = sh([exe, mode], input=inp, timeout=1800)
    return rc, [l for l in out.split('\n')][:len(cases)], err

def correspondence(ctx, n):
    d = ctx.bdir('corr'); os.makedirs(d, exist_ok=True)
    if not ctx.extract(EXTRACT, d):
        ctx.broken.append(('correspondence:C27', 'extraction of the model failed')); return
    import shutil
    shutil.copy(os.path.join(VERIF, 'ocaml', 'C27_drv.ml'), os.path.join(d, 'C27_drv.ml'))
    if not ctx.ocaml(d, ['C27_x.mli', 'C27_x.ml', 'C27_drv.ml'], 'drv'):
        ctx.broken.append(('correspondence:C27', 'OCaml driver build failed')); return
    exe = ctx.bdir('C27_probe')
    if not ctx.compiled['probe'].result():
        ctx.broken.append(('correspondence:C27', 'C++ probe does not compile against the current source')); return
    info = {}
    for mode, flt in (('d', False), ('f', True)):
        cases = make_cases(ctx.rng, flt, n)
        # tolerance scaled to the precision: 64 ulp of the result scale (both sides perform the same operations in the
        # same order, only libm's float sin/cos/atan2 may differ in the last place from the rounded double ones)
        eps = 2.0 ** -23 if flt else 2.0 ** -52
        rtol = 64 * eps
        rc1, l1, e1 = run_side(exe, mode, cases); rc2, l2, e2 = run_side(os.path.join(d, 'drv'), mode, cases)
        if rc1 != 0 or rc2 != 0 or len(l1) != len(cases) or len(l2) != len(cases):
            ctx.broken.append(('correspondence:C27:' + mode, 'runner failed rc=%s/%s lines=%d/%d of %d %s' % (rc1, rc2, len(l1), len(l2), len(cases), (e1 + e2)[-300:]))); continue
        dis = []; nontrivial = set(); perop = {}
        for (op, args), a, b in zip(cases, l1, l2):
            fa, fb = parse_floats(a), parse_floats(b)
            sc = max([1.0] + [abs(x) for x in fa if x == x and abs(x) != float('inf')])
            if op == 'axis': ok = fa == fb and len(fa) == 6
            else: ok = len(fa) == len(fb) and len(fa) > 0 and all(close(x, y, rtol, 0.0, sc) for x, y in zip(fa, fb))
            if ok and op in ('r2q', 'qaa') and False: pass
            if not ok: dis.append((op, args, fa, fb))
            perop[op] = perop.get(op, 0) + 1
            if any(x not in (0.0, 1.0) for x in fa): nontrivial.add((op, tuple(args)))
        ctx.add_cases(len(cases), len(nontrivial), [{'precision': 'float' if flt else 'double', 'op': cases[-1][0], 'args': cases[-1][1],
                                                      'cxx': parse_floats(l1[-1]), 'model': parse_floats(l2[-1])}])
        info['float' if flt else 'double'] = {'cases': len(cases), 'ops': len(perop), 'disagreements': len(dis), 'rtol': rtol, 'cases_per_op': perop}
        if dis:
            op, args, fa, fb = dis[0]
            ctx.broken.append(('correspondence:C27:%s:%s' % (mode, op), 'model and implementation differ (%d cases, first: %s args=%s cxx=%s model=%s)' %
                               (len(dis), op, [hexf(x) for x in args], fa, fb)))
    ctx.extra['correspondence'] = info
    ctx.trusted.add('correspondence harness harness/C27_probe.cpp + ocaml/C27_drv.ml (binary64 NumOps; binary32 emulated by rounding every operation), tolerance 64 ulp of the precision')

def search(ctx, n):
    """failing-input search on the implementation: the property's predicates (no model)"""
    exe = ctx.bdir('C27_search')
    if not ctx.compiled['search'].result():
        ctx.broken.append(('search:C27', 'search harness does not compile')); return
    rc, out, err = sh([exe, str(ctx.seed), str(n)], timeout=1800)
    fails = [l for l in out.split('\n') if l.startswith('FAIL')]
    done = [l for l in out.split('\n') if l.startswith('DONE')]
    ctx.extra['search'] = {'predicate_evaluations': int(done[0].split()[1]) if done else 0, 'failures': len(fails), 'triples_per_precision': n}
    seen = set()
    for f in fails:
        key = 'impl:' + f.split()[1]
        if key in seen: continue
        seen.add(key)
        ctx.report(key, 'implementation violates C27 predicate: ' + f, {'replay_cmd': '%s %d %d' % (exe, ctx.seed, n), 'failing_input': f})

def run(ctx):
    ctx.build_repo()
    # the two harnesses are compiled against the current source while Coq runs
    from concurrent.futures import ThreadPoolExecutor
    pool = ThreadPoolExecutor(2)
    ctx.compiled = {'probe': pool.submit(ctx.cxx, os.path.join(VERIF, 'harness', 'C27_probe.cpp'), ctx.bdir('C27_probe')),
                    'search': pool.submit(ctx.cxx, os.path.join(VERIF, 'harness', 'C27_search.cpp'), ctx.bdir('C27_search'))}
    meta = ctx.translate('rot27')
    ok = ctx.coq_props(PROPS)
    correspondence(ctx, 40 if ctx.tier == 'quick' else 400)
    ctx.cov['rule'] = ('one evaluation = one API call executed on both sides (50 operations of Rotation_/Quaternion_/Transform_/UnitVec/CoordinateAxis, '
                       'double and float); inputs: angles from 6 classes (uniform, near 0 down to 1e-7 (1e-3 in float), near +-pi, near +-pi/2, near 0/pi, moderate), '
                       'rotations from unit quaternions incl. near-identity, near-180-degree and near-coordinate-axis ones, all 9 axis pairs / 27 triples x body/space; '
                       'non-trivial = some output entry is neither 0 nor 1; distinct by (op,args)')
    ctx.assumptions += ['theorems are over the reals (ROps); binary64/binary32 rounding is covered only by the tolerance-based correspondence and by the search predicates',
                        'matrix -> angles and quaternion -> angle-axis (atan2) are executed by the correspondence only, not proved (statements named _partial)',
                        'the hand model C27_Model.v is tied to the code only by the correspondence run (same inputs, 64 ulp); reference objects Relem/Rang/rodrigues/sym_RSRt are written from the documentation']
    search(ctx, 60 if (ctx.tier == 'quick' and not ctx.broken) else (400 if ctx.tier == 'quick' else 3000))
    ctx.finish()
