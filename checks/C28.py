"""C28 Angular-velocity rate helpers are exact derivatives (DESIGN 5 C28).
Tie: translator (Gen/rot_gen.v regenerated from Rotation.h each run) + translator validation."""
import os, sys
from vlib import *
import tvgen

PROPS = ['Props/Properties_C28.v']

def search(ctx, n):
    """failing-input search on the implementation: the property's predicates by finite differences"""
    exe = ctx.bdir('C28_search')
    if not ctx.cxx(os.path.join(VERIF, 'harness', 'C28_search.cpp'), exe):
        ctx.broken.append(('search:C28', 'search harness does not compile')); return
    rc, out, err = sh([exe, str(ctx.seed), str(n)], timeout=1200)
    fails = [l for l in out.split('\n') if l.startswith('FAIL')]
    done = [l for l in out.split('\n') if l.startswith('DONE')]
    ctx.extra['search'] = {'predicate_evaluations': int(done[0].split()[1]) if done else 0, 'failures': len(fails)}
    for f in fails[:1]:
        ctx.report('impl:' + f.split()[1], 'implementation violates C28 predicate: ' + f,
                   {'replay_cmd': '%s %d %d' % (exe, ctx.seed, n), 'failing_input': f})

def run(ctx):
    ctx.build_repo()
    meta = ctx.translate('rot')
    ok = ctx.coq_props(PROPS)
    n = 60 if ctx.tier == 'quick' else 600
    dis = tvgen.run_tv(ctx, 'rot', meta, n)
    ctx.cov['rule'] = ('translator validation: every translated Rotation.h helper run on %d random argument tuples per kernel '
                       '(components uniform in +-[0.3,2]); non-trivial = output has a non-zero component; distinct by (kernel,args)' % n)
    if dis:
        k, args, fa, fb = dis[0]
        ctx.broken.append(('correspondence:rot:' + k, 'model and implementation differ: args=%s cxx=%s model=%s' % (args, fa, fb)))
    ctx.assumptions += ['theorems are over the reals (ROps); binary64 rounding is covered only by the tolerance-based translator validation',
                        'Rxyz/Rquat reference rotation matrices in C28_Defs.v are hand-written from the documentation (checked against the implementation by the search harness)']
    if ctx.broken or ctx.tier == 'thorough':
        search(ctx, 2000 if ctx.tier == 'quick' else 20000)
    ctx.finish()
