"""C29 Mass-property and spatial-algebra identities (DESIGN 5 C29).
Tie: (T) translator -- Gen/c29in_gen.v (Inertia_::pointMassAt, isValidInertiaMatrix, shiftTo/FromMassCenter),
Gen/c29si_gen.v (SpatialInertia_::operator*, calcMassMoment), Gen/c29sa_gen.v (SpatialAlgebra.h shifts and
findRelative...InF), Gen/c29ui_gen.v (UnitInertia_ shape factories) are regenerated from /repo on every run -- plus (X) a correspondence run in which every translated
kernel AND every hand-written model function of coq/C29/C29_Model.v (extracted to OCaml, float NumOps) is executed
against the compiled C++ entry point it models on the same generated inputs (lib/tvgen.py machinery, combined meta).
Known finding replayed on every run: Inertia::isValidInertiaMatrix accepts an indefinite matrix (DESIGN 7.4)."""
import os, sys, math, json
from vlib import *
import tvgen

PROPS = ['Props/Properties_C29.v', 'Props/Properties_C29b.v', 'Props/Properties_C29c.v', 'Props/Properties_C29d.v', 'Props/Properties_C29e.v']
GROUPS = ['c29in', 'c29si', 'c29sa', 'c29ui']
KEY_INDEF = 'isValidInertiaMatrix-accepts-indefinite'

def H(coq, params, ret, cxx):
    return {'name': coq, 'coq': coq, 'params': [list(p) for p in params], 'ret': ret, 'cxx': cxx, 'line': None, 'hand': True}
_SI = [('m', 'S'), ('p', 'V3'), ('G', 'SYM')]
_MP = [('mass', 'S'), ('com', 'V3'), ('G', 'SYM')]
_AI = [('M', 'SYM'), ('F', 'M33'), ('J', 'SYM')]
SIc = 'SpatialInertia({0},{1},UnitInertia({2}))'
MPc = 'MassProperties({0},{1},UnitInertia({2}))'
AIc = 'ArticulatedInertia({0},{1},{2})'
# hand-written model functions of C29_Model.v and the C++ call each one models
HAND = [
  H('w_sig', [], 'S', 'NTraits<Real>::getSignificant()'),
  H('w_crossMatSq', [('v', 'V3')], 'SYM', 'crossMatSq({0})'),
  H('w_ui_pointMassAt', [('v', 'V3')], 'SYM', 'UnitInertia::pointMassAt({0}).asSymMat33()'),
  H('w_ui_shiftToCentroid', [('G', 'SYM'), ('c', 'V3')], 'SYM', 'UnitInertia({0}).shiftToCentroid({1}).asSymMat33()'),
  H('w_ui_shiftFromCentroid', [('G', 'SYM'), ('c', 'V3')], 'SYM', 'UnitInertia({0}).shiftFromCentroid({1}).asSymMat33()'),
  H('w_reexpressSymMat33', [('R', 'M33'), ('S', 'SYM')], 'SYM', 'Rotation({0},true).reexpressSymMat33({1})'),
  H('w_invrot_reexpressSymMat33', [('R', 'M33'), ('S', 'SYM')], 'SYM', '(~Rotation(Mat33(~{0}),true)).reexpressSymMat33({1})'),
  H('w_in_reexpress', [('I', 'SYM'), ('R', 'M33')], 'SYM', 'Inertia({0}).reexpress(Rotation({1},true)).asSymMat33()'),
  H('w_in_reexpress_inv', [('I', 'SYM'), ('R', 'M33')], 'SYM', 'Inertia({0}).reexpress(~Rotation(Mat33(~{1}),true)).asSymMat33()'),
  H('w_in_shiftToMassCenterInPlace', [('I', 'SYM'), ('c', 'V3'), ('m', 'S')], 'SYM', 'Inertia({0}).shiftToMassCenterInPlace({1},{2}).asSymMat33()'),
  H('w_in_shiftFromMassCenterInPlace', [('I', 'SYM'), ('c', 'V3'), ('m', 'S')], 'SYM', 'Inertia({0}).shiftFromMassCenterInPlace({1},{2}).asSymMat33()'),
  H('w_si_shift', _SI + [('S', 'V3')], 'M43', 'packSI(%s.shift({3}))' % SIc),
  H('w_si_reexpress', _SI + [('R', 'M33')], 'M43', 'packSI(%s.reexpress(Rotation({3},true)))' % SIc),
  H('w_si_transform', _SI + [('R', 'M33'), ('x', 'V3')], 'M43', 'packSI(%s.transform(Transform(Rotation({3},true),{4})))' % SIc),
  H('w_si_transform_inv', _SI + [('R', 'M33'), ('x', 'V3')], 'M43', 'packSI(%s.transform(~Transform(Rotation(Mat33(~{3}),true),-(~{3}*{4}))))' % SIc),
  H('w_si_add', _SI + [('m2', 'S'), ('p2', 'V3'), ('G2', 'SYM')], 'M43', 'packSI(%s+SpatialInertia({3},{4},UnitInertia({5})))' % SIc),
  H('w_mp_ofInertia', [('mass0', 'S'), ('com', 'V3'), ('I', 'SYM')], 'M43', 'packMP(MassProperties({0},{1},Inertia({2})))'),
  H('w_mp_calcInertia', _MP, 'SYM', '%s.calcInertia().asSymMat33()' % MPc),
  H('w_mp_calcCentralInertia', _MP, 'SYM', '%s.calcCentralInertia().asSymMat33()' % MPc),
  H('w_mp_calcShiftedInertia', _MP + [('o', 'V3')], 'SYM', '%s.calcShiftedInertia({3}).asSymMat33()' % MPc),
  H('w_mp_calcTransformedInertia', _MP + [('R', 'M33'), ('x', 'V3')], 'SYM', '%s.calcTransformedInertia(Transform(Rotation({3},true),{4})).asSymMat33()' % MPc),
  H('w_mp_calcShiftedMassProps', _MP + [('o', 'V3')], 'M43', 'packMP(%s.calcShiftedMassProps({3}))' % MPc),
  H('w_mp_calcTransformedMassProps', _MP + [('R', 'M33'), ('x', 'V3')], 'M43', 'packMP(%s.calcTransformedMassProps(Transform(Rotation({3},true),{4})))' % MPc),
  H('w_mp_reexpress', _MP + [('R', 'M33')], 'M43', 'packMP(%s.reexpress(Rotation({3},true)))' % MPc),
  H('w_ai_ofSI_M', _SI, 'SYM', 'ArticulatedInertia(%s).getMass()' % SIc),
  H('w_ai_ofSI_F', _SI, 'M33', 'ArticulatedInertia(%s).getMassMoment()' % SIc),
  H('w_ai_ofSI_J', _SI, 'SYM', 'ArticulatedInertia(%s).getInertia()' % SIc),
  H('w_ai_shift_M', _AI + [('s', 'V3')], 'SYM', '%s.shift({3}).getMass()' % AIc),
  H('w_ai_shift_F', _AI + [('s', 'V3')], 'M33', '%s.shift({3}).getMassMoment()' % AIc),
  H('w_ai_shift_J', _AI + [('s', 'V3')], 'SYM', '%s.shift({3}).getInertia()' % AIc),
  H('w_ai_shiftInPlace_F', _AI + [('s', 'V3')], 'M33', '%s.shiftInPlace({3}).getMassMoment()' % AIc),
  H('w_ai_shiftInPlace_J', _AI + [('s', 'V3')], 'SYM', '%s.shiftInPlace({3}).getInertia()' % AIc),
  H('w_ai_mul', _AI + [('v', 'SV')], 'SV', '(%s*{3})' % AIc),
]

PRELUDE = r'''
static Mat<4,3> pack10(Real m, const Vec3& p, const SymMat33& G) {
    Mat<4,3> r; r(0,0)=m; r(0,1)=0; r(0,2)=0; for (int j=0;j<3;++j) { r(1,j)=p[j]; r(2,j)=G(j,j); }
    r(3,0)=G(1,0); r(3,1)=G(2,0); r(3,2)=G(2,1); return r; }
static Mat<4,3> packSI(const SpatialInertia& M) { return pack10(M.getMass(), M.getMassCenter(), M.getUnitInertia().asSymMat33()); }
static Mat<4,3> packMP(const MassProperties& M) { return pack10(M.getMass(), M.getMassCenter(), M.getUnitInertia().asSymMat33()); }
static void pr(const Inertia& I) { pr(I.asSymMat33()); }
'''

# ------------------------------------------------------------------------------------------------ generators
def rand_rotation(rng):
    while True:
        q = [rng.gauss(0, 1) for _ in range(4)]
        n = math.sqrt(sum(x * x for x in q))
        if n > 1e-3: break
    a, b, c, d = [x / n for x in q]
    return [a*a+b*b-c*c-d*d, 2*(b*c-a*d), 2*(b*d+a*c),
            2*(b*c+a*d), a*a-b*b+c*c-d*d, 2*(c*d-a*b),
            2*(b*d-a*c), 2*(c*d+a*b), a*a-b*b-c*c+d*d]

def pm(p, m):
    x, y, z = p
    return [m*(y*y+z*z), m*(x*x+z*z), m*(x*x+y*y), -m*x*y, -m*x*z, -m*y*z]

def cloud(rng, npts, dy=False):
    I = [0.0] * 6
    for _ in range(npts):
        if dy: p = [rng.randint(-16, 16) / 8.0 for _ in range(3)]; m = rng.randint(1, 16) / 8.0
        else: p = [rng.uniform(-2, 2) for _ in range(3)]; m = rng.uniform(0.05, 3)
        I = [a + b for a, b in zip(I, pm(p, m))]
    return I

def valid_stream(rng, hist):
    """inputs for isValidInertiaMatrix: genuine inertias incl. the degenerate limits, and a rejection stream aimed at each test"""
    kinds = ['cloud', 'rod', 'disc', 'point', 'tri_eq', 'tri_bad', 'neg_diag', 'prod_eq', 'prod_bad', 'witness_like', 'scaled', 'zero']
    k = rng.choice(kinds); hist[k] = hist.get(k, 0) + 1
    e = lambda: rng.choice([2.0**-60, 1e-15, 3e-14, 1e-12, 1e-6, 1e-2, 0.5])
    if k == 'cloud': return cloud(rng, rng.randint(1, 5))
    if k == 'rod':   # thin rod along an axis: one zero moment, two equal
        a = rng.randint(1, 64) / 8.0; ax = rng.randint(0, 2); d = [a, a, a]; d[ax] = 0.0; return d + [0.0, 0.0, 0.0]
    if k == 'disc':  # thin disc: Ixx + Iyy = Izz exactly (dyadic)
        a = rng.randint(1, 64) / 8.0; b = rng.randint(1, 64) / 8.0; d = [a, b, a + b]; rng.shuffle(d); return d + [0.0, 0.0, 0.0]
    if k == 'point': return cloud(rng, 1, dy=True)
    if k == 'tri_eq':   # on the triangle boundary with legal products (dyadic cloud in a plane)
        I = [0.0] * 6
        for _ in range(rng.randint(1, 3)):
            I = [a + b for a, b in zip(I, pm([rng.randint(-8, 8) / 4.0, rng.randint(-8, 8) / 4.0, 0.0], rng.randint(1, 8) / 4.0))]
        return I
    if k == 'tri_bad':
        I = cloud(rng, 2); i = rng.randint(0, 2); o = [j for j in range(3) if j != i]
        I[i] = (I[o[0]] + I[o[1]]) * (1 + e()) + e() * rng.choice((0, 1)); return I
    if k == 'neg_diag':
        I = cloud(rng, 2); I[rng.randint(0, 2)] = -rng.choice([1e-300, 1e-20, 1e-9, 0.3]); return I
    if k == 'prod_eq':   # |2 Iyz| = Ixx exactly etc.
        a = rng.randint(1, 32) / 4.0; i = rng.randint(0, 2); d = [a, a, a]; p = [0.0, 0.0, 0.0]; p[2 - i] = rng.choice((-1, 1)) * d[i] / 2; return d + p
    if k == 'prod_bad':
        I = cloud(rng, 3); i = rng.randint(0, 2); I[3 + (2 - i)] = rng.choice((-1, 1)) * (I[i] / 2) * (1 + e()) ; return I
    if k == 'witness_like':   # accepted but possibly indefinite: moments ok, large mixed-sign products
        d = sorted([rng.uniform(0.5, 2) for _ in range(3)]); d[2] = min(d[2], d[0] + d[1]); rng.shuffle(d)
        p = [rng.choice((-1, 1)) * rng.uniform(0.3, 0.5) * d[2], rng.choice((-1, 1)) * rng.uniform(0.3, 0.5) * d[1], rng.choice((-1, 1)) * rng.uniform(0.3, 0.5) * d[0]]
        return d + p
    if k == 'scaled':
        s = 10.0 ** rng.randint(-8, 8); return [s * x for x in cloud(rng, 3)]
    return [0.0] * 6

def load_corpus():
    out = []
    p = os.path.join(VERIF, 'corpus', 'C29', 'isvalid_cases.txt')
    if os.path.exists(p):
        for l in open(p):
            l = l.split('#')[0].split()
            if len(l) == 6: out.append([float(x) for x in l])
    return out

def make_argfn(hist):
    corpus = load_corpus(); hist['corpus'] = len(corpus)
    def argfn(rng, kn, pn, pt):
        if pt == 'M33' and pn in ('R', 'R_FB', 'R_BC'): return rand_rotation(rng)
        if kn['coq'] == 'in_isValid':
            if corpus: return corpus.pop(0)          # regression cases first
            return valid_stream(rng, hist)
        if kn['coq'].startswith('ui_') and pt == 'S':   # shape dimensions: nonnegative, the degenerate limits (0) included
            return [0.0] if rng.random() < 0.2 else [rng.uniform(0.0, 3.0)]
        if pt == 'S' and pn in ('m', 'm2', 'mass'): return [rng.uniform(0.05, 5.0)]
        if pt == 'S' and pn == 'mass0':   # setMassProperties(m, com, Inertia): exercise the m == 0 branch too
            return [0.0] if rng.random() < 0.15 else [rng.uniform(0.05, 5.0)]
        if pt == 'SYM' and pn in ('G', 'G2', 'I', 'self', 'J', 'S'):
            r = rng.random()
            if r < 0.6: return cloud(rng, rng.randint(1, 4))
            if r < 0.7: return cloud(rng, 1, dy=True)          # point mass: singular inertia
            return None                                        # arbitrary symmetric matrix (the formulas are polynomial)
        if pt == 'SYM' and pn == 'M':   # articulated mass matrix: symmetric positive definite-ish or arbitrary
            if rng.random() < 0.5:
                m = rng.uniform(0.1, 4); return [m, m, m, 0.0, 0.0, 0.0]
            return None
        return None
    return argfn

# ------------------------------------------------------------------------------------------------ correspondence
def combined_meta(metas):
    ks = []
    for m in metas: ks += m['kernels']
    return {'group': 'c29all', 'source': 'MassProperties.h, MassProperties.cpp, SpatialAlgebra.h, Rotation.cpp (reexpressSymMat33), SmallMatrixMixed.h (crossMatSq, %)',
            'kernels': ks + HAND, 'failed': []}

def gen_extract_c29(meta, group, mlname):
    names = ' '.join(k['coq'] for k in meta['kernels'] if k.get('cxx'))
    return ('From Coq Require Import Extraction ExtrOcamlBasic.\nRequire Import Num Vec %s C29_Model.\n'
            'Extraction Language OCaml.\nExtraction "%s.ml" %s.\n' % (' '.join(g + '_gen' for g in GROUPS), mlname, names))

def correspondence(ctx, metas, n):
    meta = combined_meta(metas)
    hist = {}
    old_extract, old_cxx = tvgen.gen_extract, ctx.cxx
    tvgen.gen_extract = gen_extract_c29
    # the libraries are built Release (NDEBUG): Inertia_::errChk and SimTK_ERRCHK are compiled out there; the harness instantiates
    # the same header templates, so it must see the same macro or construction of the invalid inertias of the rejection stream throws
    ctx.cxx = lambda src, exe, flags=(), **kw: old_cxx(src, exe, flags=tuple(flags) + ('-DNDEBUG',), **kw)
    try:
        dis = tvgen.run_tv(ctx, 'c29all', meta, n, argfn=make_argfn(hist), rtol=1e-9, atol=1e-11, prelude_extra=PRELUDE)
    finally:
        tvgen.gen_extract, ctx.cxx = old_extract, old_cxx
    ctx.extra['isValid_input_kinds'] = hist
    ctx.extra['hand_model_functions_compared'] = len(HAND)
    ctx.extra['translated_kernels_compared'] = len(meta['kernels']) - len(HAND)
    return dis, meta

# ------------------------------------------------------------------------------------------------ implementation probes
def start_probe_builds(ctx):
    """compile the two probe executables in the background while Coq runs: C29_search with NDEBUG (as the libraries),
    C29_witness without NDEBUG so that the Debug-mode constructor check Inertia_::errChk is compiled in"""
    import threading
    res = {}
    def job(name, flags):
        res[name] = ctx.cxx(os.path.join(VERIF, 'harness', 'C29_search.cpp'), ctx.bdir(name), flags=flags)
    ths = [threading.Thread(target=job, args=('C29_search', ('-DNDEBUG',))), threading.Thread(target=job, args=('C29_witness', ()))]
    for t in ths: t.start()
    return ths, res

def replay_witness(ctx):
    """the Coq witness of C29_valid_implies_psd_refuted on the real Inertia class (errChk_active=1 in the output confirms that
    the Debug-mode constructor check ran)"""
    exe = ctx.bdir('C29_witness')
    rc, out, err = sh([exe, 'witness'], timeout=120)
    w = [l for l in out.split('\n') if l.startswith('WITNESS')]
    ctx.extra['witness_replay'] = w[0] if w else 'no output'
    if w and 'accepted=1' in w[0] and 'indefinite=1' in w[0]:
        ctx.report(KEY_INDEF, 'Inertia::isValidInertiaMatrix (and the Debug-mode Inertia constructor) accept the indefinite matrix '
                   'moments (1,2,2) products xy=1 xz=-1 yz=0.5, det = -1.25: ' + w[0],
                   {'replay_cmd': exe + ' witness', 'failing_input': {'moments': [1, 2, 2], 'products': [1, -1, 0.5]}, 'output': w[0]})
    else:
        # the implementation no longer accepts the witness: the refutation theorem (about the translated test) breaks as well
        ctx.notes.append('witness not reproduced on the implementation: ' + (w[0] if w else out[-300:]))
        ctx.extra['witness_reproduced'] = False

def translate_all(ctx):
    """the three groups translated concurrently (same bookkeeping as Ctx.translate)"""
    import subprocess
    procs = [(g, subprocess.Popen([sys.executable, os.path.join(VERIF, 'translate', 'sk2coq.py'), g], stdout=subprocess.PIPE,
                                  stderr=subprocess.PIPE, text=True)) for g in GROUPS]
    metas = []
    for g, pr in procs:
        out, err = pr.communicate()
        if pr.returncode not in (0, 3): ctx.fatal('translator crashed on %s: %s' % (g, err[-2000:]))
        meta = json.load(open(os.path.join(COQ, 'Gen', g + '.json')))
        ctx.trusted.add('translator translate/sk2coq.py + clang 14 JSON AST (group %s: %d kernels regenerated from %s)' %
                        (g, len(meta['kernels']), meta['source']))
        for name, why in meta['failed']: ctx.broken.append(('translator:%s:%s' % (g, name), why))
        ctx.log('translated group %s: %d kernels, %d failed' % (g, len(meta['kernels']), len(meta['failed'])))
        metas.append(meta)
    return metas

def search(ctx, exe, n):
    """failing-input search on the implementation: the property's own predicates on random inputs"""
    rc, out, err = sh([exe, 'search', str(ctx.seed), str(n)], timeout=1200)
    fails = [l for l in out.split('\n') if l.startswith('FAIL')]
    done = [l for l in out.split('\n') if l.startswith('DONE')]
    ctx.extra['search'] = {'predicate_evaluations': int(done[0].split()[1]) if done else 0, 'failures': len(fails)}
    seen = set()
    for f in fails:
        pred = f.split()[1]
        if pred in seen: continue
        seen.add(pred)
        key = KEY_INDEF if pred == 'valid_implies_psd' else 'impl:' + pred
        ctx.report(key, 'implementation violates C29 predicate ' + pred + ': ' + f,
                   {'replay_cmd': '%s search %d %d' % (exe, ctx.seed, n), 'failing_input': f})

def run(ctx):
    ctx.build_repo()
    ths, built = start_probe_builds(ctx)
    metas = translate_all(ctx)
    ok = ctx.coq_props(PROPS)
    n = 40 if ctx.tier == 'quick' else 600
    dis, meta = correspondence(ctx, metas, n)
    ctx.cov['rule'] = ('correspondence: each of the %d translated kernels and %d hand-written model functions run against the C++ call it models on %d '
                       'generated argument tuples (rotations from random unit quaternions, inertias from random/dyadic point clouds incl. point masses, '
                       'rods, discs, arbitrary symmetric matrices; isValidInertiaMatrix on a 12-kind accept/reject stream aimed at each test boundary); '
                       'non-trivial = output has a non-zero component; distinct by (function,args)'
                       % (len(meta['kernels']) - len(HAND), len(HAND), n))
    if dis:
        k, args, fa, fb = dis[0]
        ctx.extra['disagreeing_functions'] = sorted(set(d[0] for d in dis))
        ctx.broken.append(('correspondence:c29:' + k, 'model and implementation differ: args=%s cxx=%s model=%s' % (args, fa, fb)))
    ctx.assumptions += ['theorems are over the reals (ROps); binary64 rounding is covered only by the tolerance-based correspondence (rel 1e-9)',
                        'NaN/Inf inputs are outside the model (isNaN() is translated to false)',
                        'Inertia_::errChk (Debug-only assertion) is not part of the model; libraries and correspondence harness are built with NDEBUG',
                        'the float instantiation (fInertia etc.) is the same template text; only the double instantiation is executed']
    for t in ths: t.join()
    if not built.get('C29_witness') or not built.get('C29_search'):
        ctx.broken.append(('search:C29', 'probe harness harness/C29_search.cpp does not compile against the current source'))
    if built.get('C29_witness'): replay_witness(ctx)
    if built.get('C29_search') and (ctx.broken or ctx.tier == 'thorough'):
        search(ctx, ctx.bdir('C29_search'), 3000 if ctx.tier == 'quick' else 30000)
    ctx.finish()

def replay(ctx, path):
    """bin/check C29 --replay FILE: re-run the command recorded in a replay file and show what the implementation does"""
    obj = json.load(open(path))
    print('replaying %s: %s' % (path, obj.get('what', obj.get('no_longer_checks'))))
    cmd = obj.get('replay_cmd')
    if cmd:
        for src, name, flags in (('C29_search.cpp', 'C29_search', ('-DNDEBUG',)), ('C29_search.cpp', 'C29_witness', ())):
            if name in cmd and not os.path.exists(ctx.bdir(name)):
                ctx.build_repo(); ctx.cxx(os.path.join(VERIF, 'harness', src), ctx.bdir(name), flags=flags)
        rc, out, err = sh(cmd, timeout=1200)
        print(out[-3000:])
    if 'failing_input' in obj: print('failing input: %s' % (obj['failing_input'],))
