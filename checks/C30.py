"""C30 Polynomial roots are roots (DESIGN 5 C30) -- PARTIAL: rpoly/cpoly (cubic and general degree) are not modelled.
Tie 1 (correspondence): the hand model C30_Model.v of the real and complex QUADRATIC overloads of
        PolynomialRootFinder::findRoots, extracted to OCaml, is run against the compiled C++ (harness/C30_probe.cpp) on the
        same generated coefficient triples, in double and in float (the OCaml side emulates binary32 by rounding every
        operation), aimed at every branch boundary (b = 0, disc = 0, |disc| around 2 eps b^2, disc < 0, a = 0, tiny a, c = 0).
Tie 2 (certificate correspondence): the roots returned by the cubic and general-degree overloads (rpoly/cpoly inside, degree
        2..20, real and complex coefficients, both precisions) are fed to the EXTRACTED checkers vieta_check / vieta_maxresid /
        conj_closed_check, whose meaning is proved (C30_vieta_check_residual_bound, ..._exact_implies_roots,
        C30_conjugate_closed_from_real_vieta); count = degree means: no NaN left in the output and no exception."""
import os, sys, math, struct, json
from vlib import *

PROPS = ['Props/Properties_C30.v']
# tolerances (justification in run(): measured maxima on the unchanged tree are written into the evidence next to them)
Q_RTOL = {'d': 1e-9, 'f': 5e-5}           # model vs C++ quadratic roots, relative to the root's modulus
# Vieta residual of the rpoly/cpoly output relative to the coefficient scale max|c_k|, by input family: about 30-100 x the largest
# value measured on the unchanged tree over 4 seeds x 18000 polynomials (double: 1e-11 random coefficients, 1.6e-9 widely scaled
# roots, 9e-6 real polynomials with repeated roots up to degree 20, 2.8e-5 five real roots clustered within 1e-3;
# float: 9e-4 / 4.6e-3).  The accuracy of rpoly/cpoly is NOT decided by any theorem; the measured maxima of each run are in the evidence.
V_RTOL = {'d': 1e-7, 'f': 3e-2}
V_RTOL_FAMILY = {('real/from-roots', 'd'): 1e-3, ('real/clustered', 'd'): 3e-3, ('real/from-roots', 'f'): 0.15, ('corpus', 'd'): 3e-3, ('corpus', 'f'): 0.15}
def v_rtol(tag, prec):
    return V_RTOL_FAMILY.get(('/'.join(tag.split('/')[:2]), prec), V_RTOL[prec])
R_RTOL = {'d': 1e-10, 'f': 5e-5}          # quadratic: |p(r)| / sum |c_k||r|^(n-k)   (search predicate)

def f32(x):
    return struct.unpack('f', struct.pack('f', x))[0]

def rmag(r, lo, hi):
    """log-uniform magnitude with random sign"""
    return math.exp(r.uniform(math.log(lo), math.log(hi))) * r.choice((-1.0, 1.0))

# ------------------------------------------------------------------------------------------------ quadratic cases
def gen_quad(ctx, n):
    r = ctx.rng; out = []; hist = {}
    def add(kind, prec, vals, tag):
        if prec == 'f': vals = [f32(v) for v in vals]
        out.append('%s %s %s' % (kind, prec, ' '.join(hexf(v) for v in vals)))
        hist[kind + '/' + prec + '/' + tag] = hist.get(kind + '/' + prec + '/' + tag, 0) + 1
    for i in range(n):
        for prec in ('d', 'f'):
            lo, hi = (1e-6, 1e6) if prec == 'd' else (1e-3, 1e3)
            eps = 2.0 ** -52 if prec == 'd' else 2.0 ** -23
            a, b, c = rmag(r, lo, hi), rmag(r, lo, hi), rmag(r, lo, hi)
            add('QR', prec, [a, b, c], 'random')
            add('QR', prec, [r.uniform(-3, 3), r.uniform(-3, 3), r.uniform(-3, 3)], 'uniform')
            add('QR', prec, [a, 0.0, c], 'b=0/' + ('disc>0' if a * c < 0 else 'disc<0'))
            k = float(r.randint(-40, 40) or 3); s = float(r.randint(1, 9))
            add('QR', prec, [s, 2 * s * k, s * k * k], 'disc=0-exact')
            # |disc| around the 2 eps b^2 threshold of the "identical roots" branch: c = b^2/(4a) (1 + d)
            d = r.choice((0.0, 0.5, 0.9, 1.5, 3.0, 10.0, 100.0, 1e4)) * eps * r.choice((-1, 1))
            add('QR', prec, [a, b, b * b / (4 * a) * (1 + d)], 'near-double')
            add('QR', prec, [abs(a), b, abs(c) + b * b / (4 * abs(a))], 'disc<0')
            add('QR', prec, [a * (1e-9 if prec == 'd' else 1e-5), b, c], 'tiny-a')
            add('QR', prec, [a, b, 0.0], 'c=0')
            add('QR', prec, [float(r.randint(-9, 9)), float(r.randint(-9, 9)), float(r.randint(-9, 9))], 'small-integers')
            if i % 10 == 0: add('QR', prec, [0.0, b, c], 'a=0')
            # complex coefficients
            def cz(): return [rmag(r, lo, hi) if r.random() < 0.5 else r.uniform(-3, 3), rmag(r, lo, hi) if r.random() < 0.5 else r.uniform(-3, 3)]
            A, B, C = cz(), cz(), cz()
            add('QC', prec, A + B + C, 'random')
            add('QC', prec, A + [0.0, 0.0] + C, 'b=0')
            add('QC', prec, [a, 0.0, b, 0.0, c, 0.0], 'real-valued')
            add('QC', prec, [0.0, a, 0.0, b, 0.0, c], 'imaginary-valued')
            add('QC', prec, A + B + [0.0, 0.0], 'c=0')
            # double root r0: b = -2 a r0, c = a r0^2 (rounded)
            za = complex(*A); r0 = complex(r.uniform(-2, 2), r.uniform(-2, 2)); zb = -2 * za * r0; zc = za * r0 * r0
            add('QC', prec, A + [zb.real, zb.imag, zc.real, zc.imag], 'near-double')
            add('QC', prec, [float(r.randint(-5, 5)) for _ in range(6)], 'small-integers')
            if i % 10 == 0: add('QC', prec, [0.0, 0.0] + B + C, 'a=0')
    return out, hist

def parse_out(line):
    t = line.split()
    if not t: return ('?', [])
    if t[0] != 'OK': return (t[0], [])
    v = [float.fromhex(x) for x in t[1:]]
    return ('OK', [complex(v[i], v[i + 1]) for i in range(0, len(v), 2)])

def case_prec(case): return case.split()[1]

def quad_coeffs(case):
    t = case.split(); v = [float.fromhex(x) for x in t[2:]]
    if t[0] == 'QR': return [complex(x, 0) for x in v]
    return [complex(v[i], v[i + 1]) for i in range(0, 6, 2)]

def rel_residual(coeffs, x):
    """|p(x)| / sum |c_k| |x|^(n-k): the backward-error measure of a computed root"""
    p = 0j; s = 0.0; ax = abs(x)
    for c in coeffs:
        p = p * x + c; s = s * ax + abs(c)
    if p != p: return float('inf')
    return abs(p) / s if s > 0 else 0.0

def build_sides(ctx):
    d = ctx.bdir('corr'); os.makedirs(d, exist_ok=True)
    ext = ('From Coq Require Import Extraction ExtrOcamlBasic.\nRequire Import Num C30_Model.\nExtraction Language OCaml.\n'
           'Extraction "c30_x.ml" quad_real quad_cplx vieta_check vieta_maxresid conj_closed_check all_real ceval expand.\n')
    if not ctx.extract(ext, d):
        ctx.broken.append(('correspondence:C30', 'extraction of the model failed')); return None
    drv = open(os.path.join(VERIF, 'ocaml', 'C30_drv.ml')).read().replace('(*FOPS*)', open(os.path.join(VERIF, 'ocaml', 'fops.inc')).read())
    open(os.path.join(d, 'drv.ml'), 'w').write(drv)
    if not ctx.ocaml(d, ['c30_x.mli', 'c30_x.ml', 'drv.ml'], 'drv'):
        ctx.broken.append(('correspondence:C30', 'OCaml driver build failed')); return None
    exe = os.path.join(d, 'probe')
    if not ctx.cxx(os.path.join(VERIF, 'harness', 'C30_probe.cpp'), exe):
        ctx.broken.append(('correspondence:C30', 'C++ probe does not compile against the current source')); return None
    return exe, os.path.join(d, 'drv')

def run_lines(exe, cases, what, ctx):
    inp = '\n'.join(cases) + '\n'
    rc, o, e = sh([exe], input=inp, timeout=1800)
    l = [x for x in o.split('\n') if x.strip()]
    if rc != 0 or len(l) != len(cases):
        ctx.broken.append(('correspondence:C30', '%s failed rc=%s lines=%d of %d: %s' % (what, rc, len(l), len(cases), e[-300:])))
        return None
    return l

def corpus_cases():
    out = []
    cdir = os.path.join(VERIF, 'corpus', 'C30')
    if os.path.isdir(cdir):
        for f in sorted(os.listdir(cdir)):
            out += [l.strip() for l in open(os.path.join(cdir, f)) if l.strip() and not l.startswith('#')]
    return out

def quad_correspondence(ctx, exe, drv, n):
    corpus = [c for c in corpus_cases() if c.split()[0] in ('QR', 'QC')]
    cases, hist = gen_quad(ctx, n)
    cases = corpus + cases
    open(ctx.bdir('corr', 'quad_cases.txt'), 'w').write('\n'.join(cases) + '\n')
    l1 = run_lines(exe, cases, 'C++ probe', ctx); l2 = run_lines(drv, cases, 'OCaml driver', ctx)
    if l1 is None or l2 is None: return
    dis = []; nontrivial = set(); zlc = 0; worst = {'d': 0.0, 'f': 0.0}; worst_res = {'d': 0.0, 'f': 0.0}
    for c, a, b in zip(cases, l1, l2):
        sa, ra = parse_out(a); sb, rb = parse_out(b); p = case_prec(c)
        ok = sa == sb and len(ra) == len(rb)
        if sa == 'ZLC': zlc += 1
        if ok and sa == 'OK':
            for x, y in zip(ra, rb):
                if x != x or y != y: ok = False; continue
                dx = abs(x - y); sc = max(abs(x), abs(y))
                if sc > 0: worst[p] = max(worst[p], dx / sc)
                if dx > Q_RTOL[p] * sc + 1e-300: ok = False
            if any(x != 0 for x in ra): nontrivial.add(c)
            cf = quad_coeffs(c)
            for x in ra: worst_res[p] = max(worst_res[p], rel_residual(cf, x))
        if not ok: dis.append((c, a, b))
    ctx.add_cases(len(cases), len(nontrivial), [{'case': cases[len(corpus)], 'cxx': l1[len(corpus)], 'model': l2[len(corpus)]}])
    ctx.extra.setdefault('correspondence', {})['quadratic'] = {'cases': len(cases), 'corpus_cases': len(corpus), 'disagreements': len(dis),
        'both_throw_ZeroLeadingCoefficient': zlc, 'rtol': Q_RTOL, 'measured_max_rel_difference': worst,
        'measured_max_rel_residual_of_cxx_roots': worst_res, 'input_distribution': dict(sorted(hist.items()))}
    ctx.trusted.add('correspondence harness harness/C30_probe.cpp + ocaml/C30_drv.ml (double NumOps; binary32 emulated by rounding each operation), '
                    'tolerance %g (double) / %g (float) relative to the root modulus, exact for the ZeroLeadingCoefficient throw' % (Q_RTOL['d'], Q_RTOL['f']))
    if dis:
        c, a, b = dis[0]
        ctx.broken.append(('correspondence:C30:' + c.split()[0], 'model and implementation differ on case "%s": cxx=%s model=%s (%d disagreements)' % (c, a, b, len(dis))))

# ------------------------------------------------------------------------------------------------ general degree: certificate
def poly_from_roots(roots, lead):
    c = [complex(lead)]
    for rt in roots:
        d = c + [0j]
        for i in range(len(c)): d[i + 1] -= c[i] * rt
        c = d
    return c

def gen_poly(ctx, n, maxdeg):
    """n rounds; each round: one polynomial per kind and precision.  Returns (case line, tag)."""
    r = ctx.rng; out = []
    def emit(kind, prec, coeffs, tag):
        if kind in ('PR', 'VR'):
            vals = [c.real for c in coeffs]
            if prec == 'f': vals = [f32(v) for v in vals]
            if vals[0] == 0.0: vals[0] = 1.0
            out.append(('%s %s %d %s' % (kind, prec, len(vals) - 1, ' '.join(hexf(v) for v in vals)), tag))
        else:
            vals = []
            for c in coeffs: vals += [c.real, c.imag]
            if prec == 'f': vals = [f32(v) for v in vals]
            if vals[0] == 0.0 and vals[1] == 0.0: vals[0] = 1.0
            out.append(('%s %s %d %s' % (kind, prec, len(coeffs) - 1, ' '.join(hexf(v) for v in vals)), tag))
    for i in range(n):
        for prec in ('d', 'f'):
            md = maxdeg if prec == 'd' else min(maxdeg, 8)
            deg = r.choice((2, 3, 3, 3, 4, 5)) if r.random() < 0.4 else r.randint(2, md)
            lead = r.uniform(0.5, 3.5) * r.choice((-1, 1))
            # real coefficients from known roots: real roots, conjugate pairs, repeated roots, zero roots
            roots = []
            while len(roots) < deg:
                k = r.random()
                if k < 0.3: roots.append(complex(r.uniform(-2, 2), 0))
                elif k < 0.4 and roots and roots[-1].imag == 0 and prec == 'd': roots.append(roots[-1])   # repeated root (double only: see V_RTOL)
                elif k < 0.5: roots.append(0j)
                elif len(roots) + 2 <= deg:
                    z = complex(r.uniform(-2, 2), r.uniform(-2, 2)); roots += [z, z.conjugate()]
                else: roots.append(complex(r.uniform(-2, 2), 0))
            emit('PR', prec, poly_from_roots(roots, lead), 'real/from-roots/deg%d' % deg)
            # widely scaled real roots (moderate: condition grows with the spread)
            if prec == 'd':
                roots = [complex(rmag(r, 1e-3, 1e3), 0) for _ in range(min(deg, 6))]
                emit('VR', prec, poly_from_roots(roots, lead), 'real/scaled-roots/deg%d' % len(roots))
            # clustered roots
            if prec == 'd':
                c0 = r.uniform(-1.5, 1.5); roots = [complex(c0 + r.uniform(-1e-3, 1e-3), 0) for _ in range(min(deg, 5))]
                emit('VR', prec, poly_from_roots(roots, lead), 'real/clustered/deg%d' % len(roots))
            # random real coefficients
            emit('PR', prec, [complex(lead)] + [complex(r.uniform(-3, 3)) for _ in range(deg)], 'real/random-coeffs/deg%d' % deg)
            # complex coefficients: from known complex roots (multiple and zero roots included), and random
            roots = []
            while len(roots) < deg:
                k = r.random()
                if k < 0.15 and roots and prec == 'd': roots.append(roots[-1])
                elif k < 0.25: roots.append(0j)
                else: roots.append(complex(r.uniform(-2, 2), r.uniform(-2, 2)))
            emit('PC', prec, poly_from_roots(roots, complex(lead, r.uniform(-2, 2))), 'complex/from-roots/deg%d' % deg)
            emit('PC', prec, [complex(lead, r.uniform(-2, 2))] + [complex(r.uniform(-3, 3), r.uniform(-3, 3)) for _ in range(deg)], 'complex/random-coeffs/deg%d' % deg)
            if deg == 3:    # the Vector_ overloads at degree 3 as well
                emit('VR', prec, [complex(lead)] + [complex(r.uniform(-3, 3)) for _ in range(3)], 'real/random-coeffs/vector/deg3')
                emit('VC', prec, [complex(lead, 1.0)] + [complex(r.uniform(-3, 3), r.uniform(-3, 3)) for _ in range(3)], 'complex/random-coeffs/vector/deg3')
    return out

def _cluster_witnesses():
    p = os.path.join(VERIF, 'corpus', 'C30', 'nan_roots_clustered.txt')
    return set(l.strip() for l in open(p) if l.strip() and not l.startswith('#')) if os.path.exists(p) else set()
CLUSTER_WITNESSES = _cluster_witnesses()

def poly_coeffs(case):
    t = case.split(); n = int(t[2]); v = [float.fromhex(x) for x in t[3:]]
    if t[0] in ('PR', 'VR'): return [complex(x, 0) for x in v]
    return [complex(v[i], v[i + 1]) for i in range(0, 2 * (n + 1), 2)]

def certificate(ctx, exe, drv, n, maxdeg):
    corpus = [(c, 'corpus') for c in corpus_cases() if c.split()[0] in ('PR', 'VR', 'PC', 'VC')]
    gen = corpus + gen_poly(ctx, n, maxdeg)
    cases = [g[0] for g in gen]
    open(ctx.bdir('corr', 'poly_cases.txt'), 'w').write('\n'.join(cases) + '\n')
    l1 = run_lines(exe, cases, 'C++ probe', ctx)
    if l1 is None: return
    cert = []; idx = []; hist = {}; problems = []
    for k, ((c, tag), a) in enumerate(zip(gen, l1)):
        st, roots = parse_out(a); p = case_prec(c); cf = poly_coeffs(c); real = c.split()[0] in ('PR', 'VR')
        fam = '/'.join(tag.split('/')[:2]); key = fam + '/' + p; hist[key] = hist.get(key, 0) + 1
        if fam == 'corpus' and c in CLUSTER_WITNESSES: fam = 'real/clustered'
        if st != 'OK':
            problems.append(('exception', c, a, fam)); continue
        if len(roots) != len(cf) - 1 or any(z != z for z in roots):
            problems.append(('count', c, a, fam)); continue     # fewer than degree-many roots delivered (NaN left in the output)
        scale = max(abs(z) for z in cf)
        vals = []
        for z in cf + roots: vals += [z.real, z.imag]
        rs = max([abs(z) for z in roots] + [1e-300])
        cert.append('CERT %s %s %d %s' % (hexf(v_rtol(tag, p) * scale), hexf((1e-12 if p == 'd' else 1e-5) * rs), len(roots), ' '.join(hexf(v) for v in vals)))
        idx.append((k, scale, real, fam, v_rtol(tag, p)))
    l2 = run_lines(drv, cert, 'OCaml certificate checker', ctx) if cert else []
    if l2 is None: return
    worst = {}; worst_root_res = {'d': 0.0, 'f': 0.0}; nconj = 0
    for (k, scale, real, fam, tolv), line in zip(idx, l2):
        t = line.split(); c = cases[k]; p = case_prec(c)
        vok, maxres, cok, allreal = t[0] == '1', float.fromhex(t[1]), t[2] == '1', t[3] == '1'
        worst[fam + '/' + p] = max(worst.get(fam + '/' + p, 0.0), maxres / scale)
        st, roots = parse_out(l1[k]); cf = poly_coeffs(c)
        for z in roots: worst_root_res[p] = max(worst_root_res[p], rel_residual(cf, z))
        if not vok: problems.append(('vieta', c, l1[k] + '  relative Vieta residual %.3g > %g' % (maxres / scale, tolv), fam))
        if real != allreal: problems.append(('allreal', c, line, fam))
        if real:
            nconj += 1
            if not cok: problems.append(('conjugate', c, l1[k], fam))
    ctx.add_cases(len(cases), len(cert), [{'case': cases[len(corpus)][:200], 'cxx': l1[len(corpus)][:200], 'certificate': (l2[0] if l2 else '')}])
    ctx.extra.setdefault('correspondence', {})['certificate'] = {'polynomials': len(cases), 'corpus_cases': len(corpus), 'certificates_checked': len(cert),
        'conjugate_closure_checked': nconj, 'problems': len(problems), 'vieta_rtol_default': V_RTOL,
        'vieta_rtol_by_family': {'%s/%s' % k: v for k, v in V_RTOL_FAMILY.items()}, 'measured_max_rel_vieta_residual_by_family': dict(sorted(worst.items())),
        'measured_max_rel_residual_at_returned_roots': worst_root_res, 'input_distribution': dict(sorted(hist.items()))}
    ctx.trusted.add('certificate harness: harness/C30_probe.cpp output fed to the extracted vieta_check / conj_closed_check (ocaml/C30_drv.ml, double NumOps); '
                    'tolerance %g (double) / %g (float) x max|coefficient|, looser for repeated/clustered roots' % (V_RTOL['d'], V_RTOL['f']))
    seen = set()
    for kind, c, a, fam in problems:
        # the certificate failure IS a concrete failing input of the property on the implementation.
        # One demonstrated defect is listed in known_findings.txt: RPoly<double> gives up on some tightly clustered real roots and
        # findRoots then hands back NaN for the roots it did not find without raising (witnesses in corpus/C30); it is matched by
        # overload (Vector_<double>, real coefficients), input family (clustered) and symptom (count), so anything else still fails.
        if kind == 'count' and fam == 'real/clustered' and c.split()[0] == 'VR' and case_prec(c) == 'd':
            key = 'rpoly-partial-convergence-nan-roots:real-clustered'
        else:
            key = 'impl:' + kind + ':' + c.split()[0] + '-' + case_prec(c)
        if key in seen: continue
        seen.add(key)
        if key not in ctx.known:
            ctx.broken.append(('certificate:C30:' + kind, 'output of findRoots fails the %s certificate on "%s": %s (%d such)' %
                               (kind, c[:300], a[:300], sum(1 for p in problems if p[0] == kind))))
        ctx.report(key, 'PolynomialRootFinder::findRoots output violates the C30 %s condition' % kind,
                   {'failing_input': c, 'implementation_output': a, 'replay_case': c})
    ctx.extra['correspondence']['certificate']['count_failures_real_clustered'] = sum(1 for p in problems if p[0] == 'count' and p[3] == 'real/clustered')

# ------------------------------------------------------------------------------------------------ failing-input search
def search(ctx, exe, n):
    """the property's own predicate on the implementation: every returned quadratic root has relative residual
    |p(r)| / sum|c_k||r|^(n-k) below R_RTOL, Vieta's sum and product hold, real coefficients give real or conjugate roots"""
    cases, _ = gen_quad(ctx, n)
    cases = [c for c in corpus_cases() if c.split()[0] in ('QR', 'QC')] + cases
    l1 = run_lines(exe, cases, 'C++ probe (search)', ctx)
    if l1 is None: return
    fails = []; ev = 0
    for c, a in zip(cases, l1):
        st, roots = parse_out(a); p = case_prec(c); cf = quad_coeffs(c)
        if cf[0] == 0:
            if st != 'ZLC': fails.append(('zero-leading-not-rejected', c, a))
            continue
        if st != 'OK' or len(roots) != 2 or any(z != z for z in roots):
            fails.append(('count', c, a)); continue
        ev += 1
        res = max(rel_residual(cf, z) for z in roots)
        if res > R_RTOL[p]: fails.append(('residual', c, a + '  relative residual %.3g' % res)); continue
        # Vieta relative to the natural scales (sum: |b/a| + |r1| + |r2|; product likewise)
        s = roots[0] + roots[1] + cf[1] / cf[0]; ss = abs(cf[1] / cf[0]) + abs(roots[0]) + abs(roots[1])
        if abs(s) > 1e3 * R_RTOL[p] * ss + 1e-300: fails.append(('vieta-sum', c, a)); continue
        if c.split()[0] == 'QR' and not (all(z.imag == 0 for z in roots) or roots[1] == roots[0].conjugate()):
            if abs(roots[1] - roots[0].conjugate()) > 1e3 * R_RTOL[p] * abs(roots[0]): fails.append(('conjugate', c, a))
    ctx.extra['search'] = {'predicate_evaluations': ev, 'failures': len(fails)}
    seen = set()
    for kind, c, a in fails:
        key = kind + ':' + c.split()[0]
        if key in seen or len(seen) >= 3: continue
        seen.add(key)
        ctx.report('impl:' + key, 'PolynomialRootFinder::findRoots (quadratic) violates the C30 predicate "%s"' % kind,
                   {'failing_input': c, 'implementation_output': a, 'replay_case': c, 'failures_of_this_kind': sum(1 for f in fails if f[0] == kind)})

def run(ctx):
    ctx.build_repo()
    ctx.coq_props(PROPS)
    quick = ctx.tier == 'quick'
    sides = build_sides(ctx)
    if sides:
        exe, drv = sides
        quad_correspondence(ctx, exe, drv, 60 if quick else 1500)
        ctx.log('quadratic correspondence done')
        certificate(ctx, exe, drv, 40 if quick else 1200, 20)
        ctx.log('certificate correspondence done')
        if ctx.broken or not quick:
            search(ctx, exe, 200 if quick else 3000)
    ctx.cov['rule'] = ('(a) quadratic correspondence: per round and precision 9-10 real and 7-8 complex coefficient triples (log-uniform and uniform random, '
                       'b=0 both discriminant signs, exact and near-double roots around the 2 eps b^2 branch threshold, disc<0, tiny a, c=0, small integers, a=0); '
                       '(b) certificate: polynomials of degree 2..20 (float: 2..8) built from known roots (real, conjugate pairs, repeated, zero, clustered, widely scaled) '
                       'and random coefficients, real and complex, Vec<4> and Vector_ overloads; non-trivial = some returned root non-zero / certificate evaluated; '
                       'distinct by full case text')
    ctx.assumptions += ['theorems are over the reals (ROps, complex numbers as pairs); binary64/binary32 rounding is covered only by the tolerance-based runs',
                        'the quadratic overloads are a hand-written model (C30_Model.v) tied to PolynomialRootFinder.cpp only by the correspondence run; '
                        'std::sqrt(complex), std::abs(complex) and complex division are modelled by the libstdc++ generic formulas (glibc/libgcc differ from them by rounding and scaling only)',
                        'NOT decided: rpoly.cpp / cpoly.cpp (Jenkins-Traub iteration): convergence, that degree-many roots are delivered, and their accuracy are only '
                        'checked per run through the proved certificate (tolerances: Vieta residual <= %g / %g x max|c_k| for double / float, looser for the ill-conditioned families: see vieta_rtol_by_family)' % (V_RTOL['d'], V_RTOL['f']),
                        'the residual bound in terms of the root conditioning is the proved C30_vieta_check_root_residual: |p(r)| <= tol (1+|r|+...+|r|^n); multiplicity-preserving conjugate pairing is not proved (only closure of the root set)']
    ctx.finish()

def replay(ctx, path):
    r = json.load(open(path))
    print('replay of %s: key=%s\n  %s' % (path, r.get('key'), r.get('what', r.get('no_longer_checks'))))
    case = r.get('replay_case')
    if case:
        sides = build_sides(ctx)
        if sides:
            rc, o, e = sh([sides[0]], input=case + '\n'); print('  implementation: ' + o.strip())
            if case.split()[0] in ('QR', 'QC'):
                rc, o, e = sh([sides[1]], input=case + '\n'); print('  model:          ' + o.strip())
