"""C31 Random generators are deterministic and in range (DESIGN 5 C31).

Model: coq/C31/C31_Model.v (hand-written: SFMT19937 standard-C path over N, to_res53 and the Uniform
expression in Flocq binary64, Gaussian polar loop generic in the number type).
Tie: the model is extracted to OCaml and run against the compiled SFMT / SimTK::Random on the same
command lines; every output word / IEEE bit pattern is compared exactly (harness/C31_probe.cpp,
ocaml/C31_drv.ml)."""
import os, sys, struct, json
from vlib import *

PROPS = ['Props/Properties_C31.v']
EXTRACT = '''From Coq Require Import Extraction ExtrOcamlBasic.
Require Import C31_Model.
Extraction "C31x.ml" sfmt_out32 sfmt_out64 set_seed next_raw raw_seq res53 uniform_value uniform_int
  uniform_expr uniform_raw uniform_int_raw urun unew grun gparams floorZ bits_of of_bits fofZ fofZ2 gauss_value polar extend init_gen_rand.
'''
# witness of the Coq theorem C31_prefix_uniform_int_overshoot (raw draw 1903775 after setSeed(1))
WIT_V = 0xfffffea7af9b68dd
WIT_DRAW = 1903775
B30 = struct.pack('>d', 2.0 ** 30).hex(); B30P1 = struct.pack('>d', 2.0 ** 30 + 1).hex()

def dbits(x):
    return '%x' % struct.unpack('>Q', struct.pack('>d', x))[0]

def canon(tok):
    """NaN bit patterns differ in sign/payload between hardware and the single-NaN model: compare as a class."""
    if len(tok) == 16:
        try: v = int(tok, 16)
        except ValueError: return tok
        if (v >> 52) & 0x7ff == 0x7ff and v & ((1 << 52) - 1): return 'nan'
    return tok

def gen_commands(ctx):
    r = ctx.rng; T = ctx.tier == 'thorough'
    cmds = []; kinds = {}
    def add(kind, c): cmds.append(c); kinds[kind] = kinds.get(kind, 0) + 1
    seeds = [0, 1, -1, 2147483647, -2147483648, 1234] + [r.randrange(-2 ** 31, 2 ** 31) for _ in range(14 if T else 4)]
    # corpus / regression lines first
    add('sfmt32', 'G32 1234 5')
    for line in open(os.path.join(VERIF, 'corpus', 'C31', 'cases.txt')) if os.path.exists(os.path.join(VERIF, 'corpus', 'C31', 'cases.txt')) else []:
        if line.strip() and not line.startswith('#'): add('corpus', line.strip())
    # raw generator, both entry points, counts around the block boundaries (N32 = 624, N64 = 312)
    for s in seeds[:6 if not T else len(seeds)]:
        add('sfmt32', 'G32 %d %d' % (s, r.choice([623, 624, 625, 1249, 1900])))
        add('sfmt64', 'G64 %d %d' % (s, r.choice([311, 312, 313, 625, 950])))
    for s in seeds[6:10]:
        add('fill64', 'F64 %d %d %d' % (s, r.choice([312, 314, 400, 622, 624, 626, 1024]), 2))
        add('fill32', 'F32 %d %d %d' % (s, r.choice([624, 628, 1244, 1248, 1252, 2048]), 2))
    if T: add('fill64', 'F64 7 20000 2')
    # to_res53 on boundary and random 64-bit values
    vs = [0, 1, 2, 2 ** 53 - 1, 2 ** 53, 2 ** 53 + 1, 2 ** 53 + 2, 2 ** 54 + 2, 2 ** 54 + 6, 2 ** 63, 2 ** 63 + 1024, 2 ** 63 + 3072,
          2 ** 64 - 1, 2 ** 64 - 1024, 2 ** 64 - 1025, 2 ** 64 - 1023, 2 ** 64 - 2048, 2 ** 64 - 3072, 2 ** 64 - 3073, 2 ** 64 - 3071]
    for _ in range(400 if T else 120):
        k = r.randrange(1, 65); v = r.randrange(2 ** (k - 1), 2 ** k)
        if r.random() < 0.4 and k > 54:      # exact ties and their neighbours at the rounding position
            sh = k - 53; v = (v >> sh << sh) + (1 << (sh - 1)) + r.choice([-1, 0, 0, 1])
        vs.append(v)
    for v in vs: add('res53', 'RES %x' % v)
    # Uniform(0,1): long runs cross the 1024-entry buffer several times
    nlong = 60000 if T else 20000
    add('unit', 'U 1 %d' % nlong)
    for s in seeds[1:]: add('unit', 'U %d %d' % (s, r.choice([1023, 1024, 1025, 2049, 3000])))
    add('unit', 'UF %d 2100' % seeds[-1])
    add('reseed', 'RS %d %d 1100' % (seeds[-2], r.choice([1, 500, 1024, 1500])))
    # default seeding: the i-th Random object constructed in a process is seeded with i (run in a separate process)
    # ranges: random / negative / tiny / huge intervals
    def interval():
        c = r.random()
        if c < 0.2: a = float(r.randrange(-10 ** 6, 10 ** 6)); b = a + r.randrange(1, 10 ** 6)
        elif c < 0.35: a = r.uniform(-1, 1); b = a + r.uniform(1e-12, 1e-3)                      # tiny
        elif c < 0.5: a = r.uniform(-1e300, 1e300); b = a + abs(a) * r.uniform(1e-10, 4)           # huge (may overflow)
        elif c < 0.6: a = -r.uniform(0, 1e-310); b = r.uniform(0, 1e-310)                          # subnormal
        elif c < 0.7: a = 2.0 ** r.randrange(20, 52); b = a + r.randrange(1, 5)                    # ulp(min) large vs range
        elif c < 0.8: b = r.uniform(-5, 5); a = b + r.uniform(0.1, 3)                              # reversed (max < min)
        else: a = r.uniform(-100, 100); b = a + r.uniform(0.01, 100)
        return a, b
    for i in range(60 if T else 24):
        a, b = interval(); s = r.choice(seeds)
        add('real-range', '%s %d %s %s %d' % (r.choice(['UR', 'UR', 'US']), s, dbits(a), dbits(b), 300))
    for i in range(40 if T else 16):
        c = r.random()
        if c < 0.3: a = r.randrange(-2 ** 30, 2 ** 30); b = a + r.randrange(1, 2 ** 30)
        elif c < 0.6: a = r.randrange(-50, 50); b = a + r.randrange(1, 20)
        elif c < 0.8: a = 2 ** r.randrange(20, 31) - r.randrange(0, 3); b = a + r.randrange(1, 4)
        else: a = r.uniform(-1000, 1000); b = a + r.uniform(0.5, 50)                               # non-integer bounds
        add('int-range', 'UI %d %s %s %d' % (r.choice(seeds), dbits(float(a)), dbits(float(b)), 300))
    # the Uniform expression with the largest unit values (r = 1 - 2^-53 and the r = 1.0 that to_res53 can return)
    tops = ['3fefffffffffffff', '3ff0000000000000', '3feffffffffffffe', dbits(1 - 2.0 ** -30), '0', '1', '3fe0000000000000']
    for i in range(150 if T else 60):
        c = r.random()
        if c < 0.5: a = float(r.randrange(-2 ** 31, 2 ** 31 - 8)); b = a + r.randrange(1, 8)
        elif c < 0.8: a = float(r.randrange(-300, 300)); b = a + r.randrange(1, 300)
        else: a, b = interval()
        add('expr', 'EX %s %s %s' % (dbits(a), dbits(b), r.choice(tops)))
    # histories of one generator object: draws interleaved with setMean/setStdDev (setMin/setMax), setSeed and
    # fillArray, after odd and even numbers of draws
    def hist(kind):
        ops = []; nd = 0
        for _ in range(r.randrange(3, 9)):
            c = r.random()
            if c < 0.45: k = r.choice([1, 1, 1, 2, 3]); ops += ['g'] * k; nd += k
            elif c < 0.55 and kind == 'U': ops.append('i'); nd += 1
            elif c < 0.65: k = r.choice([1, 2, 3, 5]); ops.append('f%d' % k); nd += k
            elif c < 0.8:
                if kind == 'G': ops.append('m' + dbits(r.choice([0.0, r.uniform(-100, 100)])))
                else: ops.append('m' + dbits(float(r.randrange(-1000, 0))))
            elif c < 0.95:
                if kind == 'G': ops.append('x' + dbits(r.choice([0.0, 1.0, r.uniform(0.01, 10)])))
                else: ops.append('x' + dbits(float(r.randrange(1, 1000))))
            else: ops.append('s%d' % r.choice(seeds))
        ops += ['g', 'g']
        return ' '.join(ops)
    for i in range(60 if T else 20):
        add('gauss-history', 'HG %d %s %s %s' % (r.choice(seeds), dbits(r.uniform(-10, 10)), dbits(r.uniform(0.1, 5)), hist('G')))
        add('uniform-history', 'HU %d %s %s %s' % (r.choice(seeds), dbits(float(r.randrange(-50, 0))), dbits(float(r.randrange(1, 50))), hist('U')))
    # the minimal stale-cache histories: ONE draw, then a parameter change, then the next value
    add('gauss-history', 'HG 1 %s %s g x0 g g' % (dbits(5.0), dbits(2.0)))
    add('gauss-history', 'HG 2 %s %s g m%s g g s2 g' % (dbits(5.0), dbits(2.0), dbits(-7.0)))
    # Gaussian
    for i in range(12 if T else 5):
        add('gauss', 'GA %d %s %s %d' % (r.choice(seeds), dbits(r.uniform(-10, 10)), dbits(r.uniform(0.1, 5)), 400))
    add('gauss', 'GA 1 0 %s 2000' % dbits(1.0))
    return cmds, kinds

def run_lines(exe, text, timeout=1200):
    rc, out, err = sh([exe], input=text, timeout=timeout)
    return rc, [l for l in out.split('\n')], err

def search(ctx, exe, n):
    """failing-input search on the implementation: the property's own predicates on generated inputs"""
    rc, lines, err = run_lines(exe, 'SRCH %d %d\n' % (ctx.seed % (2 ** 31), n))
    fails = [l for l in lines if l.startswith('FAIL')]
    done = [l for l in lines if l.startswith('DONE')]
    ctx.extra['search'] = {'predicate_evaluations': int(done[0].split()[1]) if done else 0, 'failures': len(fails)}
    for f in fails[:1]:
        ctx.report('impl:' + f.split()[1], 'implementation violates a C31 predicate: ' + f,
                   {'replay_cmd': "echo 'SRCH %d %d' | %s" % (ctx.seed % (2 ** 31), n, exe), 'failing_input': f})
    return fails

def run(ctx):
    ctx.build_repo()
    ctx.coq_props(PROPS)
    T = ctx.tier == 'thorough'
    d = ctx.bdir('x'); exe = ctx.bdir('C31_probe')
    okx = ctx.extract(EXTRACT, d)
    if okx:
        import shutil
        shutil.copy(os.path.join(VERIF, 'ocaml', 'C31_drv.ml'), os.path.join(d, 'drv.ml'))
        okx = ctx.ocaml(d, ['C31x.mli', 'C31x.ml', 'drv.ml'], 'drv')
    okc = ctx.cxx(os.path.join(VERIF, 'harness', 'C31_probe.cpp'), exe)
    if not okx: ctx.broken.append(('correspondence:model', 'extraction / OCaml driver build failed'))
    if not okc: ctx.broken.append(('correspondence:harness', 'probe does not compile against the current headers'))
    if okx and okc:
        cmds, kinds = gen_commands(ctx)
        text = '\n'.join(cmds) + '\n'
        open(ctx.bdir('commands.txt'), 'w').write(text)
        t1 = time.time()
        rc1, lc, e1 = run_lines(exe, text)
        t2 = time.time()
        rc2, lm, e2 = run_lines(os.path.join(d, 'drv'), text)
        t3 = time.time()
        ctx.extra['run_seconds'] = {'implementation': round(t2 - t1, 2), 'extracted_model': round(t3 - t2, 2)}
        nvals = 0; distinct = set(); firstbad = None; nbad = 0
        for i, c in enumerate(cmds):
            a = lc[i].split() if i < len(lc) else ['<missing>']; b = lm[i].split() if i < len(lm) else ['<missing>']
            a = [canon(t) for t in a]; b = [canon(t) for t in b]
            nvals += len(a)
            if len(set(a)) > 1: distinct.add(c)
            if a != b:
                nbad += 1
                if firstbad is None:
                    j = next((k for k in range(min(len(a), len(b))) if a[k] != b[k]), min(len(a), len(b)))
                    firstbad = (c, j, a[j] if j < len(a) else '<none>', b[j] if j < len(b) else '<none>')
        # default seeding in a fresh process: i-th object constructed <-> setSeed(i)
        rc, ld, _ = run_lines(exe, 'DEF 40\nDEF 40\nDEF 40\n')
        rc, le, _ = run_lines(os.path.join(d, 'drv'), 'U 1 40\nU 2 40\nU 3 40\n')
        for i in range(3):
            nvals += 40
            if ld[i].split() != le[i].split():
                nbad += 1
                if firstbad is None: firstbad = ('DEF (object %d constructed without setSeed)' % (i + 1), 0, ld[i][:40], le[i][:40])
        ctx.add_cases(nvals, len(distinct), cmds[:3] + [c for c in cmds if c.startswith(('UI', 'GA', 'EX'))][:3])
        ctx.extra['commands_by_kind'] = kinds
        ctx.extra['commands'] = len(cmds) + 3
        ctx.cov['rule'] = ('evaluations = output values (32/64-bit words, IEEE bit patterns, ints) of the real SFMT/Random compared '
                           'exactly with the extracted model on %d generated command lines; distinct non-trivial = command lines '
                           'whose output has at least two different values' % (len(cmds) + 3))
        if firstbad:
            c, j, x, y = firstbad
            ctx.broken.append(('correspondence:' + c.split()[0],
                               'model and implementation differ on %d command(s); first: "%s" value #%d: implementation %s, model %s'
                               % (nbad, c if len(c) < 120 else c[:120], j + 1, x, y)))
        # ---- findings established by the theorems, replayed on the implementation
        # (1) to_res53 returns exactly 1.0 for the 1024 largest 64-bit inputs (C31_res53_in_unit_interval_refuted)
        rc, lr, _ = run_lines(exe, 'RES ffffffffffffffff\nRES fffffffffffffc00\nRES fffffffffffffbff\n')
        got = [l.strip() for l in lr[:3]]
        ctx.extra['res53_top'] = got
        if got[:2] == ['3ff0000000000000', '3ff0000000000000']:
            ctx.report('res53_returns_one', 'SFMT to_res53(v) == 1.0 for v >= 2^64-1024 (unit value in [0,1], not [0,1)); since fix 181ff92a no longer visible through Random::Uniform, which clamps',
                       {'replay_cmd': "echo 'RES ffffffffffffffff' | %s" % exe, 'failing_input': 'v = 0xffffffffffffffff', 'observed': got})
        else:
            ctx.notes.append('to_res53(2^64-1) no longer returns 1.0: ' + str(got))
            if got and got[0] != '3ff0000000000000' and not firstbad:
                ctx.broken.append(('correspondence:RES', 'to_res53(2^64-1) = %s but the model (and theorem res53_in_unit_interval_refuted) say 1.0' % got[0]))
        # (2) regression of the repaired defect (fix 181ff92a): before it, Uniform(2^30, 2^30+1).getIntValue() returned
        #     max at draw 1903775 after setSeed(1) (C31_prefix_uniform_int_overshoot).  Now that draw must be in range
        #     (C31_fixed_witness_in_range, C31_uniform_int_in_range_binary64) and no draw of the run may leave [min,max).
        rc, la, _ = run_lines(exe, 'AT 1 %s %s %d\nWIT 1 %s %s %d\n' % (B30, B30P1, WIT_DRAW, B30, B30P1, 2500000))
        at = la[0].split(); w = la[1].split()
        rc, lmv, _ = run_lines(os.path.join(d, 'drv'), 'UIV %s %s %x\nRES %x\n' % (B30, B30P1, WIT_V, WIT_V))
        mv = lmv[0].split(); model_r = lmv[1].strip()
        ctx.extra['int_overshoot_regression'] = {'implementation_at_witness_draw': at, 'implementation_first_out_of_range_draw': w,
                                                 'model_int_value_prefix_int': mv, 'model_unit_value': model_r}
        nvals_extra = 3
        if not (len(mv) == 3 and mv[0] == '1073741824' and mv[2] == '1073741825'):
            ctx.broken.append(('correspondence:UIV', 'extracted model on the old witness: expected getIntValue 1073741824 (pre-fix 1073741825), got %s' % mv))
        elif at != [mv[0], mv[1], model_r]:
            ctx.broken.append(('correspondence:AT', 'draw %d of seed 1 for Uniform(2^30,2^30+1): implementation (int, value, unit value) = %s, model = %s'
                               % (WIT_DRAW, at, [mv[0], mv[1], model_r])))
        if len(w) == 3 and w[0] != '0':
            ctx.report('impl:uniform_int_out_of_range', 'Random::Uniform(2^30, 2^30+1).getIntValue() left [min,max) at draw %s after setSeed(1): %s (unit value bits %s)' % (w[0], w[2], w[1]),
                       {'replay_cmd': "echo 'WIT 1 %s %s 2500000' | %s" % (B30, B30P1, exe), 'failing_input': 'seed 1, min 2^30, max 2^30+1, draw %s' % w[0], 'observed': w})
            if not any(x[0].startswith('correspondence') for x in ctx.broken):
                ctx.broken.append(('range:WIT', 'an out-of-range integer draw although C31_uniform_int_in_range_binary64 holds of the model'))
        # corpus EX cases with integer bounds must stay in range after the clamp (implementation side of the EX lines)
        for i, c in enumerate(cmds):
            if c.startswith('EX ') and i < len(lc):
                t = c.split(); o = lc[i].split()
                mn = struct.unpack('>d', bytes.fromhex(t[1].rjust(16, '0')))[0]; mx = struct.unpack('>d', bytes.fromhex(t[2].rjust(16, '0')))[0]
                r = struct.unpack('>d', bytes.fromhex(t[3].rjust(16, '0')))[0]
                if len(o) == 4 and mn < mx and 0 <= r <= 1 and abs(mn) <= 2 ** 31 and abs(mx) <= 2 ** 31 and mn == int(mn) and mx == int(mx):
                    cv = struct.unpack('>d', bytes.fromhex(o[2].rjust(16, '0')))[0]
                    if not (mn <= cv < mx):
                        ctx.report('impl:clamped_expression_out_of_range', 'clamped Uniform expression outside [min,max): "%s" -> %s' % (c, o),
                                   {'failing_input': c, 'observed': o})
        if T:   # the model itself reaches the witness draw: raw value of draw 1903775 from the extracted SFMT model
            rc, lraw, _ = run_lines(os.path.join(d, 'drv'), 'RAWAT 1 %d\n' % WIT_DRAW, timeout=3000)
            ctx.extra['model_raw_at_witness_draw'] = lraw[0].strip()
            if lraw[0].split()[:1] != ['%x' % WIT_V]:
                ctx.broken.append(('correspondence:RAWAT', 'extracted model draw %d of seed 1 is %s, theorem witness is %x' % (WIT_DRAW, lraw[0], WIT_V)))
    ctx.assumptions += [
        'binary64 semantics = Flocq 4.1 BinarySingleNaN (round to nearest even); the x87 long-double product in to_res53 is modelled as one rounding of v*2^-64 (exact in the 64-bit-mantissa format)',
        'Gaussian theorems are over the reals (sqrt, ln from the Coq standard library); the float instance run in the correspondence uses the OCaml runtime libm (same libm as the C++ side on this image)',
        'std::nextafter(max, min) for min < max is modelled by Flocq Bpred (validated by the EX cases)',
        'gen_rand_all / gen_rand_array index arithmetic is modelled as the plain recursion stream; its agreement with the code (all four loops of gen_rand_array, sizes 312..2048) is established by the bit-exact correspondence only',
        'statistical mean/variance of the sequences is not decided (a statistical test is not a theorem)',
        'init_by_array is not modelled (unused by SimTK::Random)']
    # the search is model-independent and cheap: run it on every run (larger when something broke or in thorough)
    if okc: search(ctx, exe, 3000 if T else (300 if ctx.broken else 150))
    ctx.finish()
