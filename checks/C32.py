"""C32 Values survive text and serialization round trips (DESIGN 5 C32).

Model: coq/C32/C32_Model.v (hand-written: trimWhiteSpace/toLower, the acceptance of
String::tryConvertTo<bool/int/float/double> after the whole-string fix, String(x) for special values,
unformatted write/read over an istream with eof/fail flags; libc formatting/parsing is an oracle).
Tie: extracted model vs compiled code on the same generated strings / values, compared exactly
(harness/C32_probe.cpp, ocaml/C32_drv.ml; the oracle is instantiated with the same libc through OCaml)."""
import os, sys, struct, shutil, math
from vlib import *

PROPS = ['Props/Properties_C32.v']
EXTRACT = '''From Coq Require Import Extraction ExtrOcamlBasic.
Require Import C32_Model.
Extraction "C32x.ml" conv_int conv_bool conv_float print_float print_bool print_int is_float_lit trim clean
  write write_array read_fixed read_array shape_of open_stream read_token
  xml_encode xml_read_text xml_read_attr get_entity.
'''
WS = [' ', '\t', '\n', '\r', '\f', '\v']
FIXED = {'S': 1, 'C': 2, 'V3': 3, 'R3': 3, 'V2V3': 6, 'M23': 6, 'M22': 4, 'V3F': 3}
F32 = ('SF', 'V3F', 'AF', 'VECF')
ARRAYS = {'A': 1, 'VEC': 1, 'AV3': 3, 'VV3': 3, 'AC': 2, 'AM22': 4, 'AF': 1, 'VECF': 1}

def hx(s): return s.encode('latin1').hex() if s else '-'
def dbits(x): return '%x' % struct.unpack('>Q', struct.pack('>d', x))[0]

class Gen:
    def __init__(self, r): self.r = r
    def pad(self, s):
        r = self.r
        return ''.join(r.choice(WS) for _ in range(r.choice([0, 0, 1, 2]))) + s + ''.join(r.choice(WS) for _ in range(r.choice([0, 0, 1, 3])))
    def case(self, s):
        r = self.r; m = r.random()
        if m < 0.4: return s
        if m < 0.6: return s.upper()
        return ''.join(c.upper() if r.random() < 0.5 else c.lower() for c in s)
    def digits(self, n): return ''.join(self.r.choice('0123456789') for _ in range(n))
    def int_lit(self):
        r = self.r; c = r.random()
        if c < 0.5: v = str(r.randrange(-10 ** r.randrange(1, 10), 10 ** r.randrange(1, 10)))
        elif c < 0.7: v = str(r.choice([2 ** 31 - 1, -2 ** 31, 2 ** 31, -2 ** 31 - 1, 2 ** 31 - 2, 0, -0, 2 ** 32, 2 ** 63, 10 ** 25]))
        else: v = r.choice(['', '+', '-']) + '0' * r.randrange(0, 25) + self.digits(r.randrange(1, 11))
        return v
    def bool_lit(self):
        r = self.r
        return r.choice(['true', 'false', 'true', 'false', '0', '1', '+1', '-0', '01', '000', '-1', '2', '10', '+0', '00000000000000000000000001', 'tru', 'falsee', 't', 'yes'])
    def float_lit(self):
        r = self.r; c = r.random()
        if c < 0.2: return r.choice(['nan', 'inf', 'infinity', '+inf', '+infinity', '-inf', '-infinity', '-nan', '+nan', 'infinit', 'in', 'nane', '++inf', 'inff'])
        sign = r.choice(['', '', '+', '-'])
        ip = self.digits(r.randrange(0, 6)); fp = self.digits(r.randrange(0, 8))
        dot = r.choice(['.', '.', ''])
        if dot == '': fp = ''
        ex = ''
        if r.random() < 0.5: ex = r.choice(['e', 'E']) + r.choice(['', '+', '-']) + self.digits(r.choice([0, 1, 1, 2, 2, 3]))
        return sign + ip + dot + fp + ex
    def corrupt(self, s):
        r = self.r; k = r.random()
        junk = 'xq#,;:(_gGpPlLfFdD$0123456789.eE+- \t'
        if k < 0.35: return s + r.choice(junk)                      # trailing character
        if k < 0.5 and len(s) > 1: i = r.randrange(1, len(s)); return s[:i] + r.choice(' \t\n') + s[i:]   # inner space
        if k < 0.65 and s: i = r.randrange(len(s)); return s[:i] + s[i + 1:]                              # delete
        if k < 0.8: i = r.randrange(len(s) + 1); return s[:i] + r.choice(junk) + s[i:]                   # insert
        if k < 0.9: return r.choice(junk) + s
        return s + s

MALFORMED = ['', ' ', '\t\n', '1.5abc', '1x', '1 2', '1. 5', '- 5', '+-5', '--5', '0x10', '0X1F', '0x1p3', '1e', '1e+', '1e-', 'e5', '.e5', '.', '+.', '-.',
             '1.2.3', '1e5.3', '1e5e3', '1e+-5', '1,5', '1_000', '١', 'true1', '1true', 'tr ue', 'TRUE FALSE', 'nan1', 'nan(', 'nan()', 'inf.', 'infinity0',
             '1e999', '-1e999', '1e-999', '1e400', '179769313486231570e291', '179769313486231590e291', '4.9e-324', '2e-324', '1e39', '-1e39', '3.4e38', '1e-46',
             '99999999999999999999', '-99999999999999999999', '2147483647', '2147483648', '-2147483648', '-2147483649', '00000000000000000000012',
             '1.', '.5', '+.5e-3', '5.e3', '1E5', '1e05', '00.5', '0e0', '-0', '-0.0', '+0', '1f', '1.0f', '1l', '1d0', '1D0', '(1,2)', '~[1 2 3]', '[1,2,3]', '1;', '"1"', "'1'"]

def run_lines(exe, text, timeout=1200):
    rc, out, err = sh([exe], input=text, timeout=timeout)
    return rc, out.split('\n'), err

def gen_commands(ctx):
    r = ctx.rng; T = ctx.tier == 'thorough'; g = Gen(r)
    cmds = []; kinds = {}
    def add(kind, c): cmds.append(c); kinds[kind] = kinds.get(kind, 0) + 1
    cp = os.path.join(VERIF, 'corpus', 'C32', 'cases.txt')
    if os.path.exists(cp):
        for line in open(cp):
            if line.strip() and not line.startswith('#'): add('corpus', line.strip())
    n1 = 1500 if T else 350
    # (1) mostly-valid stream: literal of the type, random case and padding, sometimes corrupted
    for _ in range(n1):
        for cmd, lit in (('CI', g.int_lit), ('CB', g.bool_lit), ('CD', g.float_lit), ('CF', g.float_lit)):
            s = g.case(lit())
            if r.random() < 0.3: s = g.corrupt(s)
            add('mostly-valid ' + cmd, '%s %s' % (cmd, hx(g.pad(s))))
    # (2) malformed stream, every entry against every type, plain and padded
    for s in MALFORMED:
        s = s.encode('utf8').decode('latin1')
        for cmd in ('CI', 'CB', 'CD', 'CF'):
            add('malformed ' + cmd, '%s %s' % (cmd, hx(s)))
            if r.random() < 0.5: add('malformed ' + cmd, '%s %s' % (cmd, hx(g.pad(s))))
    for _ in range(800 if T else 200):       # random printable noise
        s = ''.join(r.choice('0123456789+-.eEnaifty xX\t') for _ in range(r.randrange(0, 9)))
        add('noise', '%s %s' % (r.choice(['CI', 'CB', 'CD', 'CF']), hx(s)))
    # (3) value -> String -> value
    def rand_double():
        c = r.random()
        if c < 0.35: return struct.unpack('>d', struct.pack('>Q', r.getrandbits(64)))[0]
        if c < 0.45: return struct.unpack('>d', struct.pack('>Q', r.getrandbits(52) | (r.getrandbits(1) << 63)))[0]   # subnormal
        if c < 0.55: return r.choice([0.0, -0.0, float('inf'), float('-inf'), float('nan'), 1.7976931348623157e308, -1.7976931348623157e308, 5e-324, 2.2250738585072014e-308, 0.1, 1 / 3.0, 1e22, 1e23, 123456789012345680.0])
        if c < 0.8: return r.uniform(-1000, 1000)
        return float(r.randrange(-10 ** 6, 10 ** 6))
    def rand_float_bits():
        c = r.random()
        if c < 0.5: return r.getrandbits(32)
        if c < 0.6: return r.getrandbits(23) | (r.getrandbits(1) << 31)
        if c < 0.7: return r.choice([0, 0x80000000, 0x7f800000, 0xff800000, 0x7fc00000, 0x7f7fffff, 0xff7fffff, 1, 0x00800000, 0x3dcccccd])
        return struct.unpack('>I', struct.pack('>f', r.uniform(-1000, 1000)))[0]
    for _ in range(1500 if T else 400):
        add('print double', 'PD %s' % dbits(rand_double()))
        add('print float', 'PF %x' % rand_float_bits())
    for _ in range(300 if T else 80):
        add('print int', 'PI %d' % r.choice([r.randrange(-2 ** 31, 2 ** 31), -2 ** 31, 2 ** 31 - 1, 0, r.randrange(-100, 100)]))
    add('print bool', 'PB 0'); add('print bool', 'PB 1')
    # (4) composites through writeUnformatted / readUnformatted
    for _ in range(600 if T else 150):
        ty = r.choice(list(FIXED) + list(ARRAYS) + ['SF'])
        if ty in ARRAYS: n = ARRAYS[ty] * r.choice([0, 1, 1, 2, 3, 6])
        elif ty == 'SF': n = 1
        else: n = FIXED[ty]
        add('write/read ' + ty, 'W %s %s' % (ty, ' '.join(dbits(rand_double()) for _ in range(n))))
    # (5) reading hand-made streams: spacing variants, too few / too many tokens, bad tokens
    toks = ['1', '-2.5', '1e3', 'NaN', 'inf', '-Inf', '.5', '7.', 'true', '0', '1x', '1,2', '(1,2)', 'e', '--1', '0x1', 'nan', 'INFINITY']
    for _ in range(900 if T else 220):
        ty = r.choice(list(FIXED) + list(ARRAYS) + ['SF', 'I', 'B'])
        k = r.randrange(0, 9)
        text = ''.join(r.choice(WS) for _ in range(r.choice([0, 0, 1, 2])))
        for i in range(k):
            text += r.choice(toks[:9] if r.random() < 0.85 else toks) + ''.join(r.choice(WS) for _ in range(r.choice([1, 1, 1, 2, 3])))
        if r.random() < 0.6: text = text.rstrip(''.join(WS))
        add('read stream ' + ty, 'RU %s %s' % (ty, hx(text)))
    # (6) XML character data: text and attribute values through the API (written, re-read) in both white-space
    #     modes, and hand-written documents with named / numeric references (hex lower and upper case, decimal)
    ctrl = [chr(c) for c in range(1, 32)]
    special = ['&', '<', '>', '"', "'", ';', '#', 'x', ' ']
    def xml_string():
        k = r.random(); n = r.randrange(1, 9)
        if k < 0.35: pool = ctrl + list('abZ09') + special
        elif k < 0.7: pool = list('abcXYZ 0123') + special
        else: pool = [chr(c) for c in range(1, 128)]
        t = ''.join(r.choice(pool) for _ in range(n))
        if r.random() < 0.15: t = r.choice(['&#x41;', 'a&#x', '&#x;', '&#', '&#65;', '&amp;', '&amp', '&#xZ;', '&;']) + t
        return t
    for c in range(1, 32):                   # every control character, alone between letters, in text and attribute
        for cmd in ('XT', 'XA'):
            add('xml control chars', '%s %d %s' % (cmd, r.choice([0, 1]), hx('a' + chr(c) + 'b')))
    add('xml control chars', 'XA 1 %s' % hx(''.join(ctrl)))
    add('xml control chars', 'XT 1 %s' % hx('q' + ''.join(ctrl) + 'q'))
    add('xml control chars', 'XT 0 %s' % hx('q' + ''.join(ctrl) + 'q'))
    for _ in range(500 if T else 120):
        add('xml api round trip', '%s %d %s' % (r.choice(['XT', 'XA']), r.choice([0, 1]), hx(xml_string())))
    refs = ['&amp;', '&lt;', '&gt;', '&quot;', '&apos;', '&foo;', '&', '&#', '&#;', '&#x;', '&#xZ;', '&#1x2;', '&#x1x2;', '&#1#2;']
    def ref():
        k = r.random(); c = r.choice([r.randrange(1, 32), r.randrange(32, 128), r.randrange(128, 256), r.randrange(256, 70000)])
        if k < 0.25: return '&#x%x;' % c
        if k < 0.5: return '&#x%X;' % c
        if k < 0.6: return '&#x%04X;' % c
        if k < 0.85: return '&#%d;' % c
        return r.choice(refs)
    for c in list(range(1, 32)) + [65, 127]: # every control character as lower-case, upper-case and decimal reference
        add('xml hand-written refs', 'XR 1 %s' % hx('a&#x%02x;&#x%02X;&#%d;b' % (c, c, c)))
    for _ in range(400 if T else 100):
        parts = [r.choice([ref(), ref(), r.choice(['a', 'B', '7', ' ', '  ', '\t', '\n', ';', '#', 'x', '>', "'"])]) for _ in range(r.randrange(1, 7))]
        add('xml hand-written refs', 'XR %d %s' % (r.choice([0, 1]), hx(''.join(parts))))
    return cmds, kinds

def tagged_search(ctx, exe, n):
    """failing-input search on the implementation with cases whose expected outcome is known by construction
    (independent of the model): valid literals must convert to the constructed value, literals with a trailing
    junk character must be rejected, printed values must convert back, written composites must read back."""
    r = ctx.rng; lines = []; expect = []
    # ---- special values of BOTH floating types through every tied route; expected outcome known by construction
    INF = float('inf'); NAN = float('nan')
    def b64(x): return dbits(x)
    def b32(x): return '%x' % struct.unpack('>I', struct.pack('>f', x))[0]
    def same(tok, x, single):
        """token = bit pattern printed by the probe; x = expected value (NaN as a class, infinities with their sign)"""
        try: v = int(tok, 16)
        except ValueError: return False
        if single:
            if x != x: return v & 0x7f800000 == 0x7f800000 and v & 0x7fffff != 0
            return tok == b32(x)
        if x != x: return v & 0x7ff0000000000000 == 0x7ff0000000000000 and v & 0xfffffffffffff != 0
        return tok == b64(x)
    specials = [('nan', NAN), ('inf', INF), ('-inf', -INF), ('+inf', INF), ('infinity', INF), ('+infinity', INF), ('-infinity', -INF)]
    for word, val in specials:                       # denotation: every spelling, case and padding, float and double
        for variant in (word, word.upper(), word.capitalize(), word[:1] + word[1:].title(), '  ' + word + '\t', '\n' + word.upper() + '  '):
            for cmd, single in (('CD', False), ('CF', True)):
                lines.append('%s %s' % (cmd, hx(variant)))
                expect.append(('%s of %r must give %r' % ('float' if single else 'double', variant, val),
                               lambda o, val=val, single=single: o[:1] == ['1'] and same(o[1], val, single) and o[2:3] == ['n']))
    for val in (NAN, INF, -INF):                     # String(x) -> tryConvertTo, float and double
        lines.append('PD ' + b64(val)); expect.append(('String(double %r) round trip' % val, lambda o, val=val: o[1] == '1' and same(o[2], val, False)))
        lines.append('PF ' + b32(val)); expect.append(('String(float %r) round trip' % val, lambda o, val=val: o[1] == '1' and same(o[2], val, True)))
    sets = [[-INF], [INF], [NAN], [-INF, 1.5, INF], [NAN, -INF, -2.0], [INF, INF, -INF], [-INF, -INF, -INF], [0.25, NAN, INF]]
    for ty in list(FIXED) + list(ARRAYS) + ['SF']:  # writeUnformatted/readUnformatted of scalars and containers holding them
        cnt = FIXED.get(ty) or (1 if ty == 'SF' else None)
        for vs in sets:
            if cnt is not None: vals = [(vs * 12)[j] for j in range(cnt)]
            else: vals = [(vs * 12)[j] for j in range(ARRAYS[ty] * r.choice([1, 2, 3]))]
            single = ty in F32
            lines.append('W %s %s' % (ty, ' '.join(b64(x) for x in vals)))
            expect.append(('writeUnformatted/readUnformatted %s of %r' % (ty, vals),
                           lambda o, vals=vals, single=single: o[1:2] == ['1'] and
                               (lambda back: len(back) == len(vals) and all(same(t, x, single) for t, x in zip(back, vals)))([t for t in o[2:] if not t.startswith('n')])))
    for text, vals in (('-Inf 1 NaN', [-INF, 1.0, NAN]), (' -inf\t-INFINITY\n+inf', [-INF, -INF, INF]), ('NaN -Infinity Inf', [NAN, -INF, INF])):
        for ty in ('V3', 'V3F', 'A', 'AF', 'VEC', 'VECF', 'R3'):   # readUnformatted of hand-written text
            single = ty in F32
            lines.append('RU %s %s' % (ty, hx(text)))
            expect.append(('readUnformatted<%s>(%r)' % (ty, text),
                           lambda o, vals=vals, single=single: o[:1] == ['1'] and
                               (lambda back: len(back) == 3 and all(same(t, x, single) for t, x in zip(back, vals)))([t for t in o[1:] if not t.startswith('n')])))
    # XML: strings whose round trip is known by construction (no "&#x", not blank; in condensing mode no leading,
    # trailing or doubled blank): the value read back must be the value written, for element text and attributes
    def xml_ok(t): return '&#x' not in t and t.strip(' \t\n\r\f\v') != ''
    cases = ['a' + chr(c) + 'b' for c in range(1, 32)] + ['x&<>"\'y', '&amp;', 'a;b#c', 'line1\nline2', 'cr\rlf\r\nend', 'ff\fvt\vend', 'esc\x1b\x1f.', ''.join(chr(c) for c in range(1, 32)) + '.']
    for _ in range(n // 4):
        cases.append(''.join(r.choice([chr(c) for c in range(1, 128)]) for _ in range(r.randrange(1, 10))))
    for t in cases:
        if not xml_ok(t): continue
        for cmd, cw in (('XT', 0), ('XA', 0), ('XA', 1), ('XT', 1)):
            if cmd == 'XT' and cw == 1:
                t2 = ' '.join(t.replace(' ', ' ').split(' ')); t2 = t2.strip(' ')
                while '  ' in t2: t2 = t2.replace('  ', ' ')
                if not xml_ok(t2): continue
                tt = t2
            else: tt = t
            lines.append('%s %d %s' % (cmd, cw, hx(tt)))
            expect.append(('Xml %s %r (condense=%d) written and re-read' % ('element text' if cmd == 'XT' else 'attribute value', tt, cw),
                           lambda o, tt=tt: o[1:2] == ['1'] and o[2:3] == [hx(tt)]))
    for c in range(1, 128):                      # hand-written references: lower case, upper case, decimal
        content = 'a&#x%02x;&#x%02X;&#%d;b' % (c, c, c)
        lines.append('XR 1 %s' % hx(content))
        expect.append(('hand-written references %r' % content, lambda o, c=c: o[:1] == ['1'] and o[1:3] == [hx('a' + chr(c) * 3 + 'b')] * 2))
    for i in range(n):
        k = i % 6
        if k == 0:
            v = r.randrange(-2 ** 31, 2 ** 31); s = ' ' * r.randrange(3) + str(v) + '\t' * r.randrange(2)
            lines.append('CI ' + hx(s)); expect.append(('int literal %r' % s, lambda o, v=v: o[:2] == ['1', str(v)]))
        elif k == 1:
            v = r.uniform(-1e6, 1e6); s = repr(v) + r.choice(['abc', 'x', '#', ' 1', ',', 'f'])
            lines.append('CD ' + hx(s)); expect.append(('double literal with trailing characters %r' % s, lambda o: o[:1] == ['0']))
        elif k == 2:
            b = r.random() < 0.5; s = r.choice(WS) + ('TRUE' if b else 'False') + ' '
            lines.append('CB ' + hx(s)); expect.append(('bool literal %r' % s, lambda o, b=b: o[:2] == ['1', '1' if b else '0']))
        elif k == 3:
            x = struct.unpack('>d', struct.pack('>Q', r.getrandbits(64)))[0]; hb = dbits(x)
            lines.append('PD ' + hb)
            expect.append(('String(double) round trip of bits %s' % hb, lambda o, x=x, hb=hb: o[1] == '1' and (o[2] == hb or (x != x and int(o[2], 16) & 0x7ff0000000000000 == 0x7ff0000000000000 and int(o[2], 16) & 0xfffffffffffff))))
        elif k == 4:
            ty = r.choice(['V3', 'M23', 'AV3', 'C', 'VEC', 'AM22']); cnt = FIXED.get(ty) or ARRAYS[ty] * r.randrange(0, 4)  # (double types: exact round trip)
            vals = [dbits(r.uniform(-100, 100)) for _ in range(cnt)]
            lines.append('W %s %s' % (ty, ' '.join(vals)))
            expect.append(('writeUnformatted/readUnformatted %s of %s' % (ty, vals), lambda o, vals=vals: o[1] == '1' and [t for t in o[2:] if not t.startswith('n')] == vals))
        else:
            s = str(r.randrange(0, 2)) + r.choice(['x', 'true', '.', '#'])
            lines.append('CB ' + hx(s)); expect.append(('bool literal with trailing characters %r' % s, lambda o: o[:1] == ['0']))
    rc, out, err = run_lines(exe, '\n'.join(lines) + '\n')
    fails = []
    for i, (what, pred) in enumerate(expect):
        o = out[i].split() if i < len(out) else []
        try: ok = bool(pred(o))
        except Exception: ok = False
        if not ok: fails.append((what, lines[i], out[i] if i < len(out) else '<missing>'))
    ctx.extra['search'] = {'predicate_evaluations': len(expect), 'failures': len(fails)}
    for what, line, o in fails[:1]:
        ctx.report('impl:' + line.split()[0], 'implementation violates a C32 predicate: ' + what + ' -> ' + o,
                   {'replay_cmd': "echo '%s' | %s" % (line, exe), 'failing_input': what, 'observed': o})
    return fails

def run(ctx):
    ctx.build_repo()
    ctx.coq_props(PROPS)
    T = ctx.tier == 'thorough'
    d = ctx.bdir('x'); exe = ctx.bdir('C32_probe')
    okx = ctx.extract(EXTRACT, d)
    if okx:
        shutil.copy(os.path.join(VERIF, 'ocaml', 'C32_drv.ml'), os.path.join(d, 'drv.ml'))
        okx = ctx.ocaml(d, ['C32x.mli', 'C32x.ml', 'drv.ml'], 'drv')
    okc = ctx.cxx(os.path.join(VERIF, 'harness', 'C32_probe.cpp'), exe)
    if not okx: ctx.broken.append(('correspondence:model', 'extraction / OCaml driver build failed'))
    if not okc: ctx.broken.append(('correspondence:harness', 'probe does not compile against the current headers'))
    if okx and okc:
        cmds, kinds = gen_commands(ctx)
        text = '\n'.join(cmds) + '\n'
        open(ctx.bdir('commands.txt'), 'w').write(text)
        rc1, lc, e1 = run_lines(exe, text)
        rc2, lm, e2 = run_lines(os.path.join(d, 'drv'), text)
        nbad = 0; first = None; accepted = 0; rejected = 0; distinct = set()
        def canon(toks):
            out = []
            for t in toks:
                if len(t) == 16 and t.startswith(('7ff', 'fff')) and int(t, 16) & 0xfffffffffffff: t = 'nan'
                if len(t) == 8 and int(t, 16) & 0x7f800000 == 0x7f800000 and int(t, 16) & 0x7fffff: t = 'nan32'
                out.append(t)
            return out
        for i, c in enumerate(cmds):
            a = canon(lc[i].split()) if i < len(lc) else ['<missing>']; b = canon(lm[i].split()) if i < len(lm) else ['<missing>']
            if c[0] == 'C' or c.startswith('RU'):
                if a[:1] == ['1']: accepted += 1
                else: rejected += 1
            distinct.add(c)
            if a != b:
                nbad += 1
                if first is None: first = (c, ' '.join(a)[:160], ' '.join(b)[:160])
        ctx.add_cases(len(cmds), len(distinct), [c for c in cmds if c.startswith('CD')][:2] + [c for c in cmds if c.startswith('W')][:2] + [c for c in cmds if c.startswith('RU')][:2])
        ctx.extra['commands_by_kind'] = kinds
        ctx.extra['conversion_outcomes'] = {'accepted': accepted, 'rejected': rejected}
        ctx.cov['rule'] = ('evaluations = command lines (one string conversion, one value round trip, or one composite write/read each) run on the '
                           'implementation and on the extracted model and compared exactly; distinct non-trivial = distinct command lines; '
                           'accepted/rejected counts of the conversions are in conversion_outcomes')
        if first:
            c, a, b = first
            ctx.broken.append(('correspondence:' + c.split()[0], 'model and implementation differ on %d command(s); first: "%s": implementation [%s], model [%s]'
                               % (nbad, c[:140], a, b)))
        # String(x, 17) (stream route with precision) must round trip finite doubles as well (implementation only)
        pp = ['PP %s 17' % dbits(struct.unpack('>d', struct.pack('>Q', ctx.rng.getrandbits(64) & 0x7fefffffffffffff | (ctx.rng.getrandbits(1) << 63)))[0]) for _ in range(200)]
        rc, lp, _ = run_lines(exe, '\n'.join(pp) + '\n')
        badpp = [(pp[i], lp[i]) for i in range(len(pp)) if lp[i].split()[1:] != ['1', pp[i].split()[1]]]
        ctx.extra['precision17_roundtrips'] = {'cases': len(pp), 'failures': len(badpp)}
        if badpp:
            ctx.report('impl:PP', 'String(double, 17) does not convert back to the same value: %s -> %s' % badpp[0],
                       {'replay_cmd': "echo '%s' | %s" % (badpp[0][0], exe), 'failing_input': badpp[0][0]})
        # ---- known findings of the text route (DESIGN 7.12), replayed
        def K(name):
            rc, out, err = run_lines(exe, 'K %s\n' % name, timeout=60)
            return rc, (out[0].split() if out and out[0] else [])
        rc, o = K('vec_default_digits'); rc2, o2 = K('vector_default_digits')
        ctx.extra['K_default_digits'] = [o, o2]
        if o[1:] == ['1', '0'] and o2[1:] == ['1', '0']:
            ctx.report('string_composite_default_6_digits', 'String(Vec3)/String(Vector) print 6 digits; converting back gives a different value',
                       {'replay_cmd': "echo 'K vec_default_digits' | %s" % exe, 'failing_input': 'Vec3(0.1234567890123, 1/3, 2/3)', 'observed': o})
        elif o[1:] != ['1', '1'] or o2[1:] != ['1', '1']:
            ctx.report('impl:K_default_digits', 'String(Vec3)/String(Vector) text does not convert back at all: %s %s' % (o, o2), {'failing_input': 'K vec_default_digits', 'observed': [o, o2]})
        rc, o = K('complex_nonfinite'); ctx.extra['K_complex_nonfinite'] = o
        if len(o) == 5 and o[1] == '0' and o[3:] == ['1', '1']:
            ctx.report('complex_nonfinite_text', 'String(std::complex(NaN,1)) = "(NaN,1)" does not convert back (finite complex values do)',
                       {'replay_cmd': "echo 'K complex_nonfinite' | %s" % exe, 'failing_input': 'complex(NaN, 1)', 'observed': o})
        elif len(o) != 5 or o[3:] != ['1', '1']:
            ctx.report('impl:K_complex', 'String(complex) of a finite value does not convert back: %s' % o, {'failing_input': 'complex(1.5,-2.25)', 'observed': o})
        rc, o = K('vec_nonfinite'); ctx.extra['K_vec_nonfinite'] = o
        if o[1:] == ['0']:
            ctx.report('vec_nonfinite_text', 'String(Vec3(NaN,Inf,-Inf)) = "~[nan,inf,-inf]" does not convert back',
                       {'replay_cmd': "echo 'K vec_nonfinite' | %s" % exe, 'failing_input': 'Vec3(NaN, Inf, -Inf)', 'observed': o})
        rc, o = K('mat_extraction'); ctx.extra['K_mat_extraction'] = {'returncode': rc, 'output': o}
        if rc != 0 or o[1:] == ['0']:
            ctx.report('mat_text_extraction_unimplemented', 'operator>>(istream&, Mat&) is assert(false); return is;  String(Mat22).tryConvertTo<Mat22>() aborts (assertions on) or fails',
                       {'replay_cmd': "echo 'K mat_extraction' | %s" % exe, 'failing_input': 'Mat22(1,2,3,4)', 'observed': [rc, o]})
        rc, lo, _ = run_lines(exe, 'RU A %s\nRU A %s\n' % (hx('1 2 3'), hx('1 2 3 ')))
        ctx.extra['K_array_trailing_ws'] = lo[:2]
        if lo[0].split()[:1] == ['1'] and lo[1].split()[:1] == ['0']:
            ctx.report('array_unformatted_trailing_ws', 'readUnformatted(Array_<double>) accepts "1 2 3" but fails on "1 2 3 " (white space after the last element is read as a failed element); theorem C32_array_trailing_space_refuted',
                       {'replay_cmd': "echo 'RU A %s' | %s" % (hx('1 2 3 '), exe), 'failing_input': '"1 2 3 "', 'observed': lo[:2]})
        # ---- findings of the XML character-data route, replayed (model theorems C32_xml_roundtrip_refuted,
        #      C32_xml_blank_text_refuted; utf8 = false in the model run, see the driver)
        rc, lx, _ = run_lines(exe, 'XA 1 %s\nXT 1 %s\nXA 1 %s\nXT 1 %s\nXT 0 %s\nXR 1 %s\n' %
                              (hx('&#x41;'), hx('&#x41;'), hx('a&#x'), hx('\t'), hx(' '), hx('&#233;&#x20AC;')))
        ox = [l.split() for l in lx[:6]]
        ctx.extra['K_xml'] = ox
        if ox[0][1:] == ['1', hx('A')] and ox[1][1:] == ['1', hx('A')] and ox[2] == ['0']:
            ctx.report('xml_reference_passthrough', 'a value that contains "&#x" is written unescaped (EncodeString passes existing hexadecimal references through): "&#x41;" is re-read as "A", "a&#x" gives a document that cannot be parsed',
                       {'replay_cmd': "echo 'XA 1 %s' | %s" % (hx('&#x41;'), exe), 'failing_input': 'attribute value / element text "&#x41;" and "a&#x"', 'observed': ox[:3]})
        if ox[3][-2:] == ['1', '-'] and ox[4][-2:] == ['1', '-']:
            ctx.report('xml_blank_text_dropped', 'element text consisting only of white space ("\\t", " ") is lost on re-reading, with and without white-space condensing (blank text nodes are deleted by TiXmlElement::ReadValue)',
                       {'replay_cmd': "echo 'XT 0 %s' | %s" % (hx(' '), exe), 'failing_input': 'element text "\\t" (condensing on) and " " (condensing off)', 'observed': ox[3:5]})
        if ox[5] == ['1', 'e9ac', 'e9ac']:
            ctx.report('xml_reference_above_127_truncated', 'in a document declared encoding="UTF-8" the references &#233; and &#x20AC; are read as the single bytes E9 and AC instead of UTF-8: TiXmlDocument::Parse never sees the declaration (shadowed variable "node"), so the encoding stays unknown; patch patches/C32_xml_declaration_encoding.diff',
                       {'replay_cmd': "echo 'XR 1 %s' | %s" % (hx('&#233;&#x20AC;'), exe), 'failing_input': '<?xml version="1.0" encoding="UTF-8"?><r a="&#233;&#x20AC;">&#233;&#x20AC;</r>', 'observed': ox[5]})
    ctx.assumptions += [
        'libc is an oracle: strtod/strtof behind operator>> (strto) and snprintf "%.17g"/"%.9g" (fmt); the round-trip theorems assume fmt x is a floating literal that strto converts back to x (true for glibc at 17/9 digits; exercised by the value round-trip cases, not proved)',
        'C locale, 7-bit ASCII strings (std::isspace/tolower of the C locale)',
        'float (binary32) conversion in the extracted-model run uses strtod followed by rounding to single (double rounding differs from strtof only for decimals within 2^-54 relative distance of a binary32 tie, which the generators do not produce)',
        'the text route String(T)/convertTo<T> for composites (Vec, Vector, Mat, complex, Array_ with brackets and commas: readArrayFromStream, operator>>) is not modelled; composites are claimed for the unformatted route only',
        'XML: only the character data of element text and attribute values is modelled (EncodeString, GetEntity, GetChar, ReadText, blank-text rule; 7-bit input bytes; numeric references decoded as in the unknown-encoding mode the code actually runs in); document structure (tags, comments, declarations, CDATA, nesting), UTF-8 multi-byte input and file I/O are not modelled',
        'white-space condensing (the documented default) collapses blanks in element text; the round-trip theorem for element text is proved for the keep-white-space mode, the condensing reader is tied by the correspondence only']
    # the search is model-independent and cheap: run it on every run (larger when something broke or in thorough)
    if okc: tagged_search(ctx, exe, 6000 if T else (600 if ctx.broken else 240))
    ctx.finish()
