"""C33 Parallel executors run every task exactly once, safely (DESIGN 5 C33, Appendix B).

Theorems (Coq): (i) index functions  coq/C33/C33_Index.v + C33_IndexProofs.v  (stripes, binStart, addTriangle/addSquare passes,
Triangle/Square task ranges);  (ii) lock/condvar protocols  C33_PE.v + C33_PEProofs.v (ParallelExecutor, hence each pass of
Parallel2DExecutor) and C33_WQ.v + C33_WQProofs.v (ParallelWorkQueue), for any number of threads/tasks, all interleavings.
Tie, checked on every run: the models are extracted to OCaml and run against the compiled library on the same cases:
  (i)  executed indices / pairs per thread compared exactly with the model (per worker / per pass / per task when the hook
       records are present, as multisets of per-thread sequences otherwise) and the binStart / squares tables of the
       implementation object compared exactly with the model's;
  (ii) hook traces (patches/C33_hook_*.diff) recorded from real, pseudo-randomly perturbed runs are checked for inclusion in
       the protocol models with the extracted `accepts_complete`; numeric hook payloads are compared with the model state.
       If no hook record arrives (call sites not applied to the tree under test) this part is skipped and that is said in
       the evidence.
Failing-input search: the property's own predicates evaluated by the harness on the implementation (PRED lines)."""
import os, sys, json, collections, subprocess
from vlib import *

PROPS_ALL = ['Props/Properties_C33.v', 'Props/Properties_C33_PE.v', 'Props/Properties_C33_WQ.v']

EXTRACT = '''From Coq Require Import Extraction ExtrOcamlBasic.
Require C33_Index C33_PE C33_WQ.
Extraction "c33_index.ml" C33_Index.pe_workers C33_Index.pe_init_calls C33_Index.p2d_passes C33_Index.p2d_passes_ext C33_Index.p2d_threads C33_Index.p2d_init_np C33_Index.p2d_binStart_table C33_Index.p2d_squares_table.
Extraction "c33_pe.ml" C33_PE.accepts C33_PE.accepts_complete C33_PE.accept_step C33_PE.reject_pos C33_PE.init C33_PE.final C33_PE.enabled.
Extraction "c33_wq.ml" C33_WQ.accepts C33_WQ.accepts_complete C33_WQ.accept_step C33_WQ.reject_pos C33_WQ.init C33_WQ.final C33_WQ.enabled.
'''

WQ_IGNORED = {'wq.p.add.begin', 'wq.w.exec', 'wq.w.del'}
NPAR = 4          # harness processes run side by side

# ------------------------------------------------------------------------------------------------ case generation
def gen_cases(ctx, tier, scale=1):
    R = ctx.rng
    q = tier == 'quick'
    cases = []
    # corpus first
    cdir = os.path.join(VERIF, 'corpus', 'C33')
    if os.path.isdir(cdir):
        for f in sorted(os.listdir(cdir)):
            for l in open(os.path.join(cdir, f)):
                l = l.split('#')[0].strip()
                if l: cases.append(l)
    ncorp = len(cases)
    def seed(): return R.randrange(1, 2**31)
    # ParallelExecutor: threads 1..8, counts at the stripe boundaries n < T, n = kT, kT+-1, 0, and random / large
    npe = (60 if q else 400) * scale
    for k in range(npe):
        T = 1 + k % 8 if k < 16 else R.randint(1, 8 if q or R.random() < 0.8 else 32)
        ns = []
        for r in range(R.randint(1, 4)):
            c = R.random()
            if c < 0.15: n = R.choice([0, 1, 2])
            elif c < 0.45: n = max(0, R.randint(0, 5) * T + R.choice([-1, 0, 1]))
            elif c < 0.55: n = max(0, T + R.choice([-2, -1, 0, 1]))
            elif c < 0.97: n = R.randint(0, 120)
            else: n = R.randint(1000, 3000 if q else 10000)
            ns.append(n)
        cases.append('pe %d %d %d %s' % (seed(), R.choice([0, 1, 1, 2]), T, ' '.join(map(str, ns))))
    # Parallel2DExecutor: grid sizes around the bin-count boundaries, all range types, own / external executor
    np2 = (90 if q else 600) * scale
    for k in range(np2):
        npr = 1 + k % 8 if k < 24 else R.randint(1, 8 if q or R.random() < 0.8 else 16)
        c = R.random()
        if c < 0.2: g = R.choice([0, 1, 2, 3, 4, 5])
        elif c < 0.5:
            b = R.choice([4, 8, 16, 32]); g = max(0, b + R.choice([-1, 0, 1]) if R.random() < 0.5 else 2 * npr + R.choice([-1, 0, 1]))
        elif c < 0.95: g = R.randint(0, 40 if q else 96)
        else: g = R.randint(64, 128)
        rt = k % 3 if k < 24 else R.randint(0, 2)
        ext = 1 if R.random() < 0.2 else 0
        cases.append('p2d %d %d %d %d %d %d %d' % (seed(), R.choice([0, 1, 1, 2]), g, npr, rt, ext, R.choice([1, 1, 2])))
    # ParallelWorkQueue: one producer adding and flushing, queue sizes 1..64, threads 1..8
    nwq = (60 if q else 400) * scale
    for k in range(nwq):
        T = 1 + k % 8 if k < 16 else R.randint(1, 8)
        qs = R.choice([1, 1, 2, 3, 4, 8, 16, 64])
        L = R.choice([0, 1, 2, 5, 10, 20, 40]) if q else R.choice([0, 1, 3, 10, 30, 80, 200])
        pf = R.choice([0.0, 0.1, 0.3, 0.6])
        prog = ''.join('f' if R.random() < pf else 'a' for _ in range(L))
        if R.random() < 0.3: prog += 'f'
        if R.random() < 0.1: prog = 'f' + prog
        cases.append('wq %d %d %d %d %s' % (seed(), R.choice([0, 1, 1, 2]), qs, T, prog or 'f'))
    return cases, ncorp

# ------------------------------------------------------------------------------------------------ running both sides
def run_harness(ctx, exe, cases, timeout):
    """returns (list of parsed cases, hookrecords, error-or-None)"""
    nchunk = max(1, min(NPAR, len(cases) // 8))
    chunks = [cases[i::nchunk] for i in range(nchunk)]
    procs = [subprocess.Popen([exe], stdin=subprocess.PIPE, stdout=subprocess.PIPE, stderr=subprocess.DEVNULL, text=True) for _ in chunks]
    import threading
    outs = [None] * nchunk; tos = [False] * nchunk
    def feed(i):
        try: outs[i] = procs[i].communicate('\n'.join(chunks[i]) + '\n', timeout=timeout)[0]
        except subprocess.TimeoutExpired:
            procs[i].kill(); tos[i] = True
            try: outs[i] = procs[i].communicate(timeout=10)[0]
            except Exception: outs[i] = ''
    ths = [threading.Thread(target=feed, args=(i,)) for i in range(nchunk)]
    for t in ths: t.start()
    for t in ths: t.join()
    res = []; hooks = 0; err = None
    for i in range(nchunk):
        r1, h1 = parse_out(outs[i] or '')
        res += r1; hooks += h1
        if tos[i] and not err: err = 'harness timed out after %ds (deadlock or livelock?) in case: %s' % (timeout, r1[-1]['line'] if r1 else '?')
        elif procs[i].returncode != 0 and not err: err = 'harness exited with status %s in case: %s' % (procs[i].returncode, r1[-1]['line'] if r1 else '?')
    return res, hooks, err

def parse_out(out):
    res = []; cur = None; hooks = 0
    for line in out.split('\n'):
        if line.startswith('CASE '):
            p = line.split(' ', 2); cur = {'k': int(p[1]), 'line': p[2], 'recs': [], 'pred': None, 'tab': None, 'sq': {}, 'nproc': None, 'done': False}
            res.append(cur)
        elif line.startswith('R ') and cur is not None:
            p = line.split(); cur['recs'].append((int(p[1]), p[2], [int(x) for x in p[3:]]))
        elif line.startswith('PRED') and cur is not None: cur['pred'] = line[5:]
        elif line.startswith('TAB') and cur is not None: cur['tab'] = [int(x) for x in line.split()[1:]]
        elif line.startswith('SQ ') and cur is not None:
            p = line.split(); cur['sq'][int(p[1])] = [tuple(int(y) for y in x.split(',')) for x in p[2:]]
        elif line.startswith('NPROC') and cur is not None: cur['nproc'] = int(line.split()[1])
        elif line.startswith('END') and cur is not None: cur['done'] = True
        elif line.startswith('HOOKRECORDS'): hooks = int(line.split()[1])
    return res, hooks

class Model:
    """batched queries to the OCaml driver of the extracted models"""
    def __init__(self, drv): self.drv = drv; self.q = []
    def ask(self, s): self.q.append(s); return len(self.q) - 1
    def run(self):
        rc, out, err = sh([self.drv], input='\n'.join(self.q) + '\n', timeout=1800)
        self.a = out.split('\n')
        if len([x for x in self.a if x != '']) < len(self.q) and rc != 0: raise RuntimeError('model driver failed: ' + err[-500:])
    def ans(self, i): return self.a[i] if i < len(self.a) else ''

def parse_passes(s):
    """'p/p/..' with tasks '|' and pairs 'i,j' -> list of list of list of tuples; also T"""
    body, t = s.rsplit(' T=', 1)
    passes = []
    for p in body.split('/'):
        k, p = p.split(':', 1)
        tasks = [[tuple(int(y) for y in x.split(',')) for x in task.split()] for task in p.split('|')] if int(k) else []
        assert len(tasks) == int(k)
        passes.append(tasks)
    return passes, int(t)

# ------------------------------------------------------------------------------------------------ per-kind analysis
def pe_prepare(c, M):
    p = c['line'].split(); T = int(p[3]); ns = [int(x) for x in p[4:]]
    c['T'] = T; c['ns'] = ns
    c['q_pew'] = [M.ask('PEW %d %d' % (T, n)) for n in ns]
    recs = c['recs']
    wmap = {tid: v[0] for tid, tag, v in recs if tag == 'pe.w.start'}
    c['wmap'] = wmap
    c['q_tr'] = None
    if T >= 2 and any(tag.startswith('pe.m.') for _, tag, _ in recs):
        toks = []
        for tid, tag, v in recs:
            if tag.startswith('pe.') and tag != 'pe.seq':
                thr = 'm' if tid == 0 else (str(wmap[tid]) if tid in wmap else 'x')
                toks.append(':'.join([thr, tag] + [str(x) for x in v]))
        c['ntok'] = len(toks)
        c['q_tr'] = M.ask('PETR %d %s %s' % (T, ','.join(map(str, ns)) or '-', ' '.join(toks)))

def pe_compare(c, M, dis, st):
    T, ns = c['T'], c['ns']
    rounds = []; cur = None
    for tid, tag, v in c['recs']:
        if tag == 'c.exec.begin': cur = {'ex': collections.OrderedDict(), 'init': collections.Counter(), 'fin': collections.Counter()}; rounds.append(cur)
        elif tag == 'c.exec.end': cur = None
        elif cur is not None:
            if tag == 't.init': cur['init'][tid] += 1; cur['ex'].setdefault(tid, [])
            elif tag == 't.exec': cur['ex'].setdefault(tid, []).append(v[0])
            elif tag == 't.fin.e': cur['fin'][tid] += 1
    if len(rounds) != len(ns): dis.append((c['line'], 'number of execute() rounds in the log', len(rounds), len(ns))); return
    for r, n in enumerate(ns):
        model = [[int(x) for x in l.split()] for l in M.ans(c['q_pew'][r]).split('|')]
        impl = list(rounds[r]['ex'].values())
        st['idx'] += sum(len(l) for l in impl)
        if sorted(model) != sorted(impl):
            dis.append((c['line'], 'round %d (n=%d): per-thread index sequences' % (r, n), sorted(impl), sorted(model))); return
        if any(x != 1 for x in rounds[r]['init'].values()) or any(x != 1 for x in rounds[r]['fin'].values()) or \
           len(rounds[r]['init']) != len(model) or len(rounds[r]['fin']) != len(model):
            dis.append((c['line'], 'round %d: initialize/finish calls per thread' % r, (dict(rounds[r]['init']), dict(rounds[r]['fin'])), '1 each on %d threads' % len(model))); return
        if c['wmap'] and T >= 2:
            for tid, seq in rounds[r]['ex'].items():
                w = c['wmap'].get(tid)
                if w is None or w >= len(model) or model[w] != seq:
                    dis.append((c['line'], 'round %d: worker %s index sequence' % (r, w), seq, model[w] if w is not None and w < len(model) else None)); return
            st['exact_worker'] += 1
    if c['q_tr'] is not None:
        a = M.ans(c['q_tr']); st['traces'] += 1; st['trace_events'] += c['ntok']; st['pe_traces'] += 1
        if a != 'ACC true true - -':
            dis.append((c['line'], 'hook trace not accepted by the ParallelExecutor protocol model (accepts complete rejectpos payload)', a, 'ACC true true - -'))

def p2d_prepare(c, M):
    p = c['line'].split(); g, npr, rt, ext, reps = [int(x) for x in p[3:8]]
    c.update(g=g, npr=npr, rt=rt, ext=ext, reps=reps)
    nproc = c['nproc'] or 0
    c['q_p2d'] = M.ask('P2D %d %d %d %d %d' % (g, npr, rt, 1 if ext else 0, nproc))
    c['q_tab'] = M.ask('TAB %d %d %d %d' % (g, npr, 1 if ext else 0, nproc))

def p2d_trace_query(c, M, passes, T):
    recs = c['recs']; c['q_tr'] = None
    if T >= 2 and any(tag.startswith('pe.m.') for _, tag, _ in recs):
        wmap = {tid: v[0] for tid, tag, v in recs if tag == 'pe.w.start'}
        toks = []
        for tid, tag, v in recs:
            if tag.startswith('pe.') and tag != 'pe.seq':
                thr = 'm' if tid == 0 else (str(wmap[tid]) if tid in wmap else 'x')
                toks.append(':'.join([thr, tag] + [str(x) for x in v]))
        td = [len(t) for t in passes] * c['reps']
        c['ntok'] = len(toks)
        c['q_tr'] = M.ask('PETR %d %s %s' % (T, ','.join(map(str, td)) or '-', ' '.join(toks)))

def p2d_compare(c, M, dis, st, hooks):
    passes, T = parse_passes(M.ans(c['q_p2d']))
    if c['ext']: T = c['npr']
    c['passes'] = passes; c['Tm'] = T
    tab = M.ans(c['q_tab'])
    mb = [int(x) for x in tab.split(';')[0].split()[1:]]
    msq = [[tuple(int(y) for y in x.split(',')) for x in t.split()] for t in tab.split(';')[1].strip()[1:].split('|')] if '|' in tab else []
    msq = [x for x in msq]
    if c['tab'] != mb: dis.append((c['line'], 'binStart table', c['tab'], mb)); return
    isq = [c['sq'][k] for k in sorted(c['sq'])]
    if isq != msq and not (isq == [] and msq == [[]]):
        dis.append((c['line'], 'squares table (passes of squares)', isq, msq)); return
    st['tables'] += 1
    # executed pairs per execute()
    reps = []; cur = None
    for tid, tag, v in c['recs']:
        if tag == 'c.exec.begin': cur = {'pairs': [], 'init': 0, 'fin': 0, 'struct': collections.OrderedDict(), 'pass': None, 'task': {}, 'psz': []}; reps.append(cur)
        elif tag == 'c.exec.end': cur = None
        elif cur is not None:
            if tag == 't.x2':
                cur['pairs'].append((v[0], v[1]))
                if tid in cur['task']: cur['struct'].setdefault((cur['pass'], cur['task'][tid]), []).append((v[0], v[1]))
            elif tag == 't.init': cur['init'] += 1
            elif tag == 't.fin.e': cur['fin'] += 1
            elif tag == 'p2d.seq': cur['pass'] = 0
            elif tag == 'p2d.pass': cur['pass'] = v[0]; cur['psz'].append(v[1])
            elif tag in ('p2d.tri', 'p2d.sq'):
                cur['task'][tid] = v[0]; cur['struct'].setdefault((cur['pass'], v[0]), [])
    mpairs = collections.Counter(x for p in passes for t in p for x in t)
    einit = T if T >= 2 else 1
    for r, rep in enumerate(reps):
        st['pairs'] += len(rep['pairs'])
        if collections.Counter(rep['pairs']) != mpairs:
            d = (collections.Counter(rep['pairs']) - mpairs) + (mpairs - collections.Counter(rep['pairs']))
            dis.append((c['line'], 'execute %d: multiset of executed (i,j) pairs; first differing pairs' % r, sorted(d.items())[:6], 'model has %d pairs' % sum(mpairs.values()))); return
        if rep['init'] != einit or rep['fin'] != einit:
            dis.append((c['line'], 'execute %d: number of initialize/finish calls' % r, (rep['init'], rep['fin']), einit)); return
        if hooks and rep['struct']:
            for pi, p in enumerate(passes):
                for ti, t in enumerate(p):
                    got = rep['struct'].get((pi, ti), [])
                    if got != t:
                        dis.append((c['line'], 'execute %d: pairs of pass %d task %d (exact order)' % (r, pi, ti), got[:8], t[:8])); return
            extra = [k for k in rep['struct'] if k[0] is None or k[0] >= len(passes) or k[1] >= len(passes[k[0]])]
            if extra: dis.append((c['line'], 'execute %d: task invocations the model does not have' % r, extra[:5], [])); return
            if rep['psz'] and rep['psz'] != [len(p) for p in passes]:
                dis.append((c['line'], 'execute %d: pass sizes' % r, rep['psz'], [len(p) for p in passes])); return
            st['exact_struct'] += 1
    if len(reps) != c['reps']: dis.append((c['line'], 'number of execute() calls in the log', len(reps), c['reps']))

def wq_prepare(c, M):
    p = c['line'].split(); qs, T, prog = int(p[3]), int(p[4]), p[5]
    c.update(qs=qs, T=T, prog=prog); c['q_tr'] = None
    recs = c['recs']
    if any(tag.startswith('wq.') for _, tag, _ in recs):
        wmap = {}
        for tid, tag, v in recs:
            if tag == 'wq.w.start' and tid not in wmap: wmap[tid] = len(wmap)
        toks = []
        for tid, tag, v in recs:
            if (tag.startswith('wq.') and tag not in WQ_IGNORED) or tag in ('t.exec', 't.del', 'c.add'):
                thr = 'p' if tid == 0 else (str(wmap[tid]) if tid in wmap else 'x')
                toks.append(':'.join([thr, tag] + [str(x) for x in v]))
        c['ntok'] = len(toks)
        c['q_tr'] = M.ask('WQTR %d %d %s %s' % (T, qs, prog, ' '.join(toks)))

def wq_compare(c, M, dis, st):
    nadd = c['prog'].count('a')
    ex = collections.Counter(v[0] for _, tag, v in c['recs'] if tag == 't.exec')
    de = collections.Counter(v[0] for _, tag, v in c['recs'] if tag == 't.del')
    want = collections.Counter(range(nadd))          # the model's theorem: executed / deleted are permutations of the added ids
    st['tasks'] += nadd
    if ex != want or de != want:
        dis.append((c['line'], 'multiset of executed / deleted task ids', (sorted(ex.items())[:8], sorted(de.items())[:8]), 'each of 0..%d once' % (nadd - 1))); return
    if c['q_tr'] is not None:
        a = M.ans(c['q_tr']); st['traces'] += 1; st['trace_events'] += c['ntok']; st['wq_traces'] += 1
        if a != 'ACC true true - -':
            dis.append((c['line'], 'hook trace not accepted by the ParallelWorkQueue protocol model (accepts complete rejectpos payload)', a, 'ACC true true - -'))

# ------------------------------------------------------------------------------------------------ one batch
def run_batch(ctx, exe, drv, cases, timeout, st):
    """runs implementation and model on the cases; returns (disagreements, predicate failures, hook records, error)"""
    res, hooks, err = run_harness(ctx, exe, cases, timeout)
    done = [c for c in res if c['done']]
    M = Model(drv)
    for c in done:
        k = c['line'].split()[0]
        if k == 'pe': pe_prepare(c, M)
        elif k == 'p2d': p2d_prepare(c, M)
        elif k == 'wq': wq_prepare(c, M)
    M.run()
    # the P2D trace queries need the model's pass sizes: second round
    M2 = Model(drv)
    for c in done:
        if c['line'].startswith('p2d'):
            passes, T = parse_passes(M.ans(c['q_p2d']))
            if c['ext']: T = c['npr']
            p2d_trace_query(c, M2, passes, T)
    if M2.q: M2.run()
    dis = []; pf = []
    for c in done:
        k = c['line'].split()[0]
        if c['pred'] != 'ok': pf.append((c['line'], c['pred']))
        n0 = len(dis)
        try:
            if k == 'pe': pe_compare(c, M, dis, st)
            elif k == 'p2d':
                p2d_compare(c, M, dis, st, hooks > 0)
                if c.get('q_tr') is not None and len(dis) == n0:
                    a = M2.ans(c['q_tr']); st['traces'] += 1; st['trace_events'] += c['ntok']; st['p2d_traces'] += 1
                    if a != 'ACC true true - -':
                        dis.append((c['line'], 'hook trace of the passes not accepted by the ParallelExecutor protocol model with the model\'s pass sizes', a, 'ACC true true - -'))
            elif k == 'wq': wq_compare(c, M, dis, st)
        except Exception as e:
            dis.append((c['line'], 'comparison failed: %r' % (e,), None, None))
        st['cases'] += 1
        if len(dis) == n0 and c['pred'] == 'ok': st['agree'] += 1
        st['kinds'][k] += 1
    return dis, pf, hooks, err

def new_stats():
    return {'cases': 0, 'agree': 0, 'idx': 0, 'pairs': 0, 'tasks': 0, 'tables': 0, 'traces': 0, 'trace_events': 0, 'pe_traces': 0,
            'p2d_traces': 0, 'wq_traces': 0, 'exact_worker': 0, 'exact_struct': 0, 'kinds': collections.Counter()}

def key_of(msg):
    import re
    return re.sub(r'[^a-z0-9]+', '-', msg.lower()).strip('-')[:60]

# ------------------------------------------------------------------------------------------------ known finding replay
def replay_single_processor(ctx, exe, drv):
    """p2d_ext_single_processor_refuted: Parallel2DExecutor(gridSize, ParallelExecutor&) on a machine where
    ParallelExecutor::getNumProcessors() is 1 executes nothing.  Replayed with sysconf(_SC_NPROCESSORS_ONLN) faked to 1."""
    line = 'p2d 1 0 3 2 0 2 1'
    res, hooks, err = run_harness(ctx, exe, [line], 120)
    if err or not res or not res[0]['done']:
        ctx.notes.append('single-processor replay did not run: %s' % err); return
    c = res[0]
    pairs = [tuple(v) for _, tag, v in c['recs'] if tag == 't.x2']
    rc, out, e = sh([drv], input='P2D 3 2 0 1 1\n')
    mp, _ = parse_passes(out.split('\n')[0])
    mpairs = [x for p in mp for t in p for x in t]
    ctx.extra['single_processor_replay'] = {'nproc_reported': c['nproc'], 'impl_pairs_executed': len(pairs), 'model_pairs': len(mpairs), 'requested_pairs': 9, 'pred': c['pred']}
    if sorted(pairs) != sorted(mpairs):
        ctx.broken.append(('correspondence:p2d-ext-nproc1', 'model and implementation differ on the single-processor witness: impl %d pairs, model %d' % (len(pairs), len(mpairs))))
    if len(pairs) != 9:
        ctx.report('p2d-ext-single-processor',
                   'Parallel2DExecutor(gridSize, ParallelExecutor&) with ParallelExecutor::getNumProcessors() == 1: execute() runs %d of the 9 requested pairs (gridSize 3, FullMatrix) and never calls finish()' % len(pairs),
                   {'failing_input': line, 'replay_cmd': "echo '%s' | %s" % (line, exe), 'theorem': 'C33_p2d_ext_single_processor_refuted',
                    'impl_pairs': pairs, 'harness_pred': c['pred']})

# ------------------------------------------------------------------------------------------------ search
def search(ctx, exe, drv, tier):
    """failing-input search on the implementation: the property's predicates on many more perturbed cases;
    thorough: also a ThreadSanitizer build of the harness."""
    cases, _ = gen_cases(ctx, tier, scale=3)
    st = new_stats()
    dis, pf, hooks, err = run_batch(ctx, exe, drv, cases, 900, st)
    ctx.extra['search'] = {'cases': st['cases'], 'predicate_failures': len(pf), 'disagreements': len(dis), 'error': err}
    for line, msg in pf[:1]:
        ctx.report('impl:' + key_of(msg), 'implementation violates a C33 predicate: ' + msg, {'failing_input': line, 'replay_cmd': "echo '%s' | %s" % (line, exe)})
    if err and not pf:
        ctx.report('impl:harness-abort', err, {'failing_input': err.split('case: ')[-1], 'replay_cmd': exe})
    if tier == 'thorough' or (ctx.broken and not pf and not err):
        tsan(ctx, cases[:150] if tier == 'quick' else cases[:600])

def tsan(ctx, cases):
    """ThreadSanitizer build of the harness with the three anchored source files of the tree under test compiled in
    (instrumented; they interpose the library's copies).  Search only."""
    exe = ctx.bdir('C33_probe_tsan')
    srcs = [os.path.join(REPO, 'SimTKcommon', 'src', f) for f in ('ParallelExecutor.cpp', 'Parallel2DExecutor.cpp', 'ParallelWorkQueue.cpp')]
    if not ctx.cxx(os.path.join(VERIF, 'harness', 'C33_probe.cpp'), exe, flags=['-ldl', '-Wl,--export-dynamic'] + srcs, sanitize='thread'):
        ctx.notes.append('TSan build of the harness failed'); ctx.extra['tsan'] = 'build failed'; return
    cases = [c for c in cases if not (c.startswith('p2d') and c.split()[6] == '2')]
    try:
        r = subprocess.run([exe], input='\n'.join(cases) + '\n', capture_output=True, text=True, timeout=2400,
                           env=dict(os.environ, TSAN_OPTIONS='halt_on_error=0 report_signal_unsafe=0'))
    except subprocess.TimeoutExpired:
        ctx.extra['tsan'] = 'timed out'; return
    reports = r.stderr.split('WARNING: ThreadSanitizer')[1:]
    known = 0; other = []
    for rep in reports:
        rep = rep[:3000]
        if 'ParallelExecutorImpl::isFinished' in rep and '~ParallelExecutorImpl' in rep: known += 1
        elif any(f in rep for f in ('ParallelExecutor', 'Parallel2DExecutor', 'ParallelWorkQueue')): other.append(rep)
    done = r.stdout.count('\nEND')
    ctx.extra['tsan'] = {'cases_run': done, 'reports': len(reports), 'reports_unlocked_finished_read': known, 'other_reports_in_anchored_files': len(other)}
    if known:
        ctx.report('tsan-race-pe-finished', 'ThreadSanitizer: ParallelExecutor worker reads `finished` without the mutex while the destructor writes it (%d reports)' % known,
                   {'failing_input': cases[0], 'tsan_report': 'WARNING: ThreadSanitizer' + reports[0][:1800], 'replay_cmd': exe})
    if other:
        ctx.report('impl:tsan-data-race', 'ThreadSanitizer reports a data race in the executors', {'failing_input': cases[0], 'tsan_report': 'WARNING: ThreadSanitizer' + other[0][:1800], 'replay_cmd': exe})

# ------------------------------------------------------------------------------------------------ main
def run(ctx):
    ctx.build_repo()
    props = [p for p in PROPS_ALL if os.path.exists(os.path.join(COQ, p))]
    ctx.coq_props(props, deps=['C33/C33_Index.vo', 'C33/C33_PE.vo', 'C33/C33_WQ.vo'])
    d = ctx.bdir('model')
    drv = os.path.join(d, 'drv')
    ok = ctx.extract(EXTRACT, d)
    if ok:
        import shutil
        shutil.copy(os.path.join(VERIF, 'ocaml', 'C33_drv.ml'), os.path.join(d, 'C33_drv.ml'))
        ok = ctx.ocaml(d, ['c33_index.mli', 'c33_index.ml', 'c33_pe.mli', 'c33_pe.ml', 'c33_wq.mli', 'c33_wq.ml', 'C33_drv.ml'], 'drv')
    if not ok:
        ctx.broken.append(('correspondence:model', 'extraction / OCaml build of the model failed'))
    ctx.log('model extracted and driver built')
    exe = ctx.bdir('C33_probe')
    if not ctx.cxx(os.path.join(VERIF, 'harness', 'C33_probe.cpp'), exe, flags=['-ldl', '-Wl,--export-dynamic']):
        ctx.broken.append(('correspondence:harness', 'the probe harness does not compile against the tree under test'))
        ctx.finish()
    ctx.log('harness built')
    if ok:
        cases, ncorp = gen_cases(ctx, ctx.tier)
        st = new_stats()
        dis, pf, hooks, err = run_batch(ctx, exe, drv, cases, 240 if ctx.tier == 'quick' else 1800, st)
        ctx.log('correspondence: %d cases (%d corpus), %d agree, hook records %d, traces checked %d (%d events)' %
                (st['cases'], ncorp, st['agree'], hooks, st['traces'], st['trace_events']))
        samples = [c for c in cases if c.split()[0] == 'p2d'][:3] + [c for c in cases if c.split()[0] == 'pe'][:2] + [c for c in cases if c.split()[0] == 'wq'][:2]
        ctx.add_cases(st['cases'], len(set(cases)), samples)
        ctx.cov['rule'] = ('one case = one executor object driven through 1-4 execute() calls (pe), 1-2 execute() calls (p2d) or one add/flush program + destruction (wq), '
                           'threads 1..8 (thorough: up to 32), counts at the stripe boundaries kT, kT+-1, grid sizes around the bin-count boundaries, all range types, own and shared executor; '
                           'compared exactly with the extracted model: per-thread index sequences, (i,j) multisets, binStart and squares tables, '
                           'and with hooks per-worker / per-pass / per-task sequences and trace acceptance; distinct = distinct case lines')
        ctx.extra['correspondence'] = {k: (dict(v) if isinstance(v, collections.Counter) else v) for k, v in st.items()}
        ctx.extra['hooks_present'] = hooks > 0
        ctx.extra['hook_records'] = hooks
        if hooks == 0:
            ctx.notes.append('no hook record arrived: the C33 hook call sites (patches/C33_hook_*.diff) are not applied to the tree under test; the trace-inclusion part of the tie was SKIPPED in this run')
            ctx.extra['trace_part'] = 'skipped (hook call sites not present in the tree under test)'
        else:
            ctx.extra['trace_part'] = '%d traces, %d events accepted by the extracted protocol models' % (st['traces'], st['trace_events'])
        if err: ctx.broken.append(('correspondence:harness-run', err))
        for line, what, a, b in dis[:3]:
            ctx.broken.append(('correspondence:' + line.split()[0], '%s: implementation %s / model %s   [case: %s]' % (what, a, b, line)))
        for line, msg in pf[:1]:
            ctx.report('impl:' + key_of(msg), 'implementation violates a C33 predicate: ' + msg, {'failing_input': line, 'replay_cmd': "echo '%s' | %s" % (line, exe)})
        replay_single_processor(ctx, exe, drv)
        # failing-input search: only needed when something broke and the main batch has not already produced a concrete input
        if (ctx.broken and not any(v[2] for v in ctx.violations)) or ctx.tier == 'thorough':
            search(ctx, exe, drv, ctx.tier)
    ctx.assumptions += [
        'std::mutex / std::condition_variable are modelled as textbook monitor semantics with spurious wake-ups; the C++ memory model below that is not modelled',
        'the two unlocked reads of `finished` in ParallelExecutor\'s threadBody are modelled as atomic reads taking place at an arbitrary instant between the reader\'s previous and next hook event',
        'one caller thread (execute/addTask/flush/destructor are not called concurrently), tasks do not throw',
        'int arithmetic does not overflow (gridSize*bins, index+threadCount < 2^31); the model uses unbounded naturals',
        'the hook call sites are placed where patches/C33_hook_*.diff put them (acquire records after the acquisition, release records before the release)']
    ctx.extra['notes'] = ctx.notes
    ctx.finish()
