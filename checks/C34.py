"""C34 Contact surface queries are geometrically correct -- analytic shapes only (DESIGN 5 C34, 7.21).  Thin partial.

Model: coq/C34/C34_Model.v (half space, sphere, cylinder: nearest point, ray, implicit function, gradient; sphere and
brick support point and bounding sphere), hand-written from ContactGeometry_{HalfSpace,Sphere,Cylinder,Brick}.cpp,
ContactGeometryImpl.h, Geo_Box.h.  Theorems: coq/Props/Properties_C34.v.
Tie (every run): the extracted model against the compiled ContactGeometry classes on the same random queries
(points inside / outside / near the surface, rays hitting, grazing and missing, from inside and outside).
Failing-input search (every run): the property's predicates evaluated on the implementation alone
(harness/C34_probe.cpp SEARCH: nearest point on the surface and closer than sampled surface points, inside flag = sign
of f, unit normal = -grad/|grad|, gradient = finite-difference derivative, ray hit on the surface with no earlier
sign change, support points maximal, bounding spheres containing).
Known findings demonstrated on the real code: Brick::findNearestPoint / intersectsRay always throw; Sphere::findNearestPoint
at the centre returns NaN; Ellipsoid::findNearestPoint at the centre returns the centre.
Ellipsoid (closed-form part, coq/C34/C34_el_*.v): modelled as an object with radii and cached curvatures; queried after
construct / setRadii / copy sequences (EL queries and the ELSEARCH sweep), so that a stale cache shows.
Not modelled: the ellipsoid's iterative nearest point and ray, curvatures away from the axis points, torus, smooth height map,
triangle meshes."""
import os, sys, math
from vlib import *

PROPS = ['Props/Properties_C34.v', 'Props/Properties_C34_el.v']
EXTRACT = '''From Coq Require Import Extraction ExtrOcamlBasic.
Require Import Num Vec C34_Model C34_el_Model.
Extraction "c34model.ml" el_run el_value el_gradient el_hessian el_support el_pointInDirection el_unitNormalAt el_bsphere el_curv el_radii el_axisCurvatures hs_nearest hs_ray sp_value sp_gradient sp_nearest sp_support sp_ray cy_value cy_gradient cy_nearest cy_ray bx_support bx_bsphere.
'''
def U(r, lo, hi): return r.uniform(lo, hi)
def vec(r, s): return [r.uniform(-s, s) for _ in range(3)]
def unit(r):
    while True:
        v = vec(r, 1.0); n = math.sqrt(sum(x * x for x in v))
        if 0.2 < n <= 1.0: return [x / n for x in v]
def fmt(xs): return ' '.join(hexf(x) if isinstance(x, float) else str(x) for x in xs)

def gen(r, n):
    """-> list of (kind, numbers)"""
    out = []
    for i in range(n):
        rad = U(r, 0.2, 1.5)
        # points: inside, outside, near the surface
        m = r.random(); d = unit(r)
        s = U(r, 0.05, 0.95) if m < 0.35 else (U(r, 1.05, 3.0) if m < 0.7 else 1.0 + U(r, -1e-6, 1e-6))
        p = [rad * s * x for x in d]
        out.append(('SPN', [rad] + p)); out.append(('SPV', [rad] + vec(r, 2.0))); out.append(('SPS', [rad] + unit(r)))
        q = [p[0], p[1], U(r, -2, 2)]
        if math.hypot(q[0], q[1]) > 1e-3: out.append(('CYN', [rad] + q))
        out.append(('CYV', [rad] + vec(r, 2.0)))
        out.append(('HSN', [U(r, -2, 2) if r.random() > 0.1 else 0.0, U(r, -2, 2), U(r, -2, 2)]))
        # rays: aimed at / past the shape, from outside and inside
        o = [rad * U(r, 1.1, 3.0) * x for x in unit(r)] if r.random() < 0.6 else [rad * U(r, 0.0, 0.9) * x for x in unit(r)]
        tgt = [rad * U(r, 0.0, 1.6) * x for x in unit(r)]
        dd = [t - a for t, a in zip(tgt, o)]
        if r.random() < 0.15: dd = [-x for x in dd]
        if math.sqrt(sum(x * x for x in dd)) > 1e-3:
            out.append(('SPR', [rad] + o + dd))
            if math.hypot(dd[0], dd[1]) > 1e-2: out.append(('CYR', [rad] + o + dd))
        o = vec(r, 2.0); dd = unit(r)
        if r.random() < 0.1: dd[0] = 0.0
        if math.sqrt(sum(x * x for x in dd)) > 1e-3: out.append(('HSR', o + dd))
        h = [U(r, 0.2, 1.5) for _ in range(3)]
        d = unit(r)
        if r.random() < 0.2: d[r.randrange(3)] = 0.0
        if math.sqrt(sum(x * x for x in d)) > 1e-3: out.append(('BXS', h + d))
        out.append(('BXB', h))
        # ellipsoid as an object: construct, then 0-3 further setRadii / copy operations, then one query
        rr = lambda: [U(r, 0.3, 2.5) for _ in range(3)]
        ops = [0] + rr()
        nops = 1 + (i % 4); hist = 'construct'
        for k in range(nops - 1):
            if r.random() < 0.65: ops += [1] + rr(); hist += ',setRadii'
            else: ops += [2, 0.0, 0.0, 0.0]; hist += ',copy'
        kind = 1 + (i % 7)
        q = [[], vec(r, 2.0), unit(r), vec(r, 2.0), vec(r, 2.0), [], [], [r.randrange(3), r.choice([-1.0, 1.0])]][kind]
        if kind in (3, 4) and math.sqrt(sum(x * x for x in q)) < 0.05: q = [0.3, 0.1, 0.0]
        out.append(('EL', [nops] + ops + [kind] + q))
    return out

SIG = 2.0 ** -52 ** 1  # placeholder, replaced by the value the probe reports (SignificantReal is not needed by any query but HSR)

def run(ctx):
    ctx.build_repo()
    ok = ctx.coq_props(PROPS)
    quick = ctx.tier == 'quick'
    exe = ctx.bdir('C34_probe')
    if not ctx.cxx(os.path.join(VERIF, 'harness', 'C34_probe.cpp'), exe):
        ctx.broken.append(('harness:C34_probe', 'probe does not compile against the current source')); ctx.finish()
    od = ctx.bdir('ml'); drv = None
    if ctx.extract(EXTRACT, od):
        src = open(os.path.join(VERIF, 'ocaml', 'C34_drv.ml')).read().replace('#include "fops.inc"', open(os.path.join(VERIF, 'ocaml', 'fops.inc')).read())
        open(os.path.join(od, 'drv.ml'), 'w').write(src)
        if ctx.ocaml(od, ['c34model.mli', 'c34model.ml', 'drv.ml'], 'drv'): drv = os.path.join(od, 'drv')
    if drv is None: ctx.broken.append(('extract:C34_Model', 'extraction / driver build failed'))
    # ---- correspondence
    if drv:
        cases = gen(ctx.rng, 150 if quick else 1500)
        lines = [k + ' ' + fmt(nums) for k, nums in cases]
        rc, o1, e1 = sh([exe], input='\n'.join(lines) + '\n', timeout=900)
        l1 = [l for l in o1.split('\n') if l.strip()]
        if len(l1) != len(lines):
            ctx.broken.append(('harness:C34_probe', 'probe produced %d lines for %d queries' % (len(l1), len(lines))))
        else:
            sig = 2.0 ** (-52 * 0.875)
            mlines = []
            for (k, nums), out in zip(cases, l1):
                f = parse_floats(out)
                if k in ('SPR', 'CYR'): mlines.append(k + ' ' + fmt(nums[:4] + f[-3:]))          # the normalised direction the probe used
                elif k == 'HSR': mlines.append(k + ' ' + fmt([sig] + nums[:3] + f[-3:]))
                elif k in ('SPS',): mlines.append(k + ' ' + fmt(nums[:1] + f[-3:]))
                elif k == 'EL' and int(nums[1 + 4 * int(nums[0])]) == 2: mlines.append(k + ' ' + fmt(nums[:-3] + f[-3:]))       # support query: the normalised direction the probe used
                elif k == 'BXS': mlines.append(k + ' ' + fmt(nums[:3] + f[-3:]))
                else: mlines.append(k + ' ' + fmt(nums))
            rc, o2, e2 = sh([drv], input='\n'.join(mlines) + '\n', timeout=900)
            l2 = [l for l in o2.split('\n') if l.strip()]
            if len(l2) != len(lines): ctx.broken.append(('ocaml:C34_drv', 'driver produced %d lines for %d queries' % (len(l2), len(lines))))
            else:
                dis = 0; first = None; hist = {}; nontriv = 0
                for (k, nums), a, b in zip(cases, l1, l2):
                    fa, fb = parse_floats(a), parse_floats(b)
                    if k in ('SPR', 'CYR', 'HSR', 'SPS', 'BXS'): fa = fa[:-3]
                    if k == 'EL':
                        kind = int(nums[1 + 4 * int(nums[0])]); hist['EL:kind%d:ops%d' % (kind, int(nums[0]))] = hist.get('EL:kind%d:ops%d' % (kind, int(nums[0])), 0) + 1
                        if kind == 2: fa = fa[:-3]
                        if kind == 5: fa = fa[3:]
                        if kind == 7: fa = fa[:2]
                    if k == 'BXB': fa = fa[3:]
                    hist[k] = hist.get(k, 0) + 1
                    if k in ('SPR', 'CYR', 'HSR'):
                        hist[k + (':hit' if fa[0] else ':miss')] = hist.get(k + (':hit' if fa[0] else ':miss'), 0) + 1
                    if any(x != 0 for x in fa): nontriv += 1
                    scv = max([1.0] + [abs(x) for x in fa if x == x])
                    okc = len(fa) == len(fb) and all(close(x, y, 1e-9, 1e-11, scv) for x, y in zip(fa, fb))
                    if not okc:
                        dis += 1
                        if first is None: first = (k, nums, fa, fb)
                ctx.add_cases(len(lines), nontriv, [{'query': lines[0], 'impl': parse_floats(l1[0]), 'model': parse_floats(l2[0])}])
                ctx.extra['correspondence'] = {'queries': len(lines), 'disagreements': dis, 'by_kind': hist, 'rtol': 1e-9}
                if first: ctx.broken.append(('correspondence:' + first[0], 'implementation and model differ: query=%s %s impl=%s model=%s' % first))
    # ---- implementation-only predicates (failing-input search), always
    rc, out, err = sh([exe], input='SEARCH %d %d\nELSEARCH %d %d\n' % (ctx.seed % 1000003, 1500 if quick else 30000, ctx.seed % 1000003, 2000 if quick else 40000), timeout=1800)
    fails = [l for l in out.split('\n') if l.startswith('FAIL')]; done = [l for l in out.split('\n') if l.startswith('DONE')]
    ctx.extra['search'] = {'predicate_evaluations': sum(int(d.split()[1]) for d in done), 'failures': sum(int(d.split()[2]) for d in done) if len(done) == 2 else -1, 'ellipsoid_op_sequences': int(done[1].split()[1]) if len(done) == 2 else 0}
    if len(done) != 2: ctx.broken.append(('search:C34', 'search did not finish: ' + (out + err)[-300:]))
    for f in fails[:1]:
        ctx.broken.append(('predicate:' + f.split()[1], f))
        ctx.report('impl:' + f.split()[1], 'implementation violates a C34 predicate: ' + f, {'replay_cmd': 'printf "SEARCH %d 1500\\nELSEARCH %d 2000\\n" | %s' % (ctx.seed % 1000003, ctx.seed % 1000003, exe), 'failing_input': f})
    # ---- known findings (DESIGN 7.21), each demonstrated on the real code
    deg = ['SPN 1 0 0 0', 'ELN 1 2 3 0 0 0', 'BXN 1 1 1 2 0 0', 'BXR 1 1 1 3 0 0 -1 0 0']
    rc, out, err = sh([exe], input='\n'.join(deg) + '\n', timeout=60)
    dl = [l for l in out.split('\n') if l.strip()]
    ctx.extra['degenerate_queries'] = dict(zip(deg, dl))
    if len(dl) == 4:
        f = parse_floats(dl[0])
        if any(x != x for x in f[:3]): ctx.report('sphere-nearest-point-at-centre-nan', 'Sphere::findNearestPoint(centre) = %s' % dl[0], {'query': deg[0], 'result': dl[0]})
        elif abs(math.sqrt(sum(x * x for x in f[:3])) - 1) > 1e-9: ctx.report('sphere-nearest-point-at-centre-off-surface', 'Sphere::findNearestPoint(centre) = %s' % dl[0], {'query': deg[0], 'result': dl[0]})
        f = parse_floats(dl[1])
        if not dl[1].startswith('!') and not any(x != x for x in f[:3]) and abs((f[0] / 1) ** 2 + (f[1] / 2) ** 2 + (f[2] / 3) ** 2 - 1) > 1e-6:
            ctx.report('ellipsoid-nearest-point-at-centre-not-on-surface', 'Ellipsoid(1,2,3)::findNearestPoint(centre) = %s' % dl[1], {'query': deg[1], 'result': dl[1]})
        if dl[2].startswith('!'): ctx.report('brick-nearest-point-unimplemented', 'Brick::findNearestPoint throws', {'query': deg[2], 'result': dl[2]})
        if dl[3].startswith('!'): ctx.report('brick-intersects-ray-unimplemented', 'Brick::intersectsRay throws', {'query': deg[3], 'result': dl[3]})
    ctx.cov['rule'] = ('queries: radius .2-1.5; points at .05-.95, 1.05-3 and 1+-1e-6 of the radius; rays from outside (1.1-3 r) and inside (0-.9 r) aimed at a point '
                       'within 1.6 r (hits, grazes, misses) or away; half-space rays including exactly parallel; brick support directions including zero components; '
                       'non-trivial = some non-zero output; plus implementation-only predicate sweeps (SEARCH)')
    ctx.assumptions += ['theorems are over the reals; rounding only through the 1e-9 correspondence tolerance',
                        'nearest-point theorems exclude the degenerate query points (sphere centre, cylinder axis); the sphere-centre case is refuted on the model and a known finding',
                        'ray theorems are for unit directions; the half-space query treats |d.x| < SignificantReal as parallel (no hit)',
                        'ellipsoid, torus, smooth height map, meshes and all curvature queries are not modelled']
    ctx.finish()
