"""C35 Collision detection reports exactly the overlapping pairs -- sphere/sphere and half-space/sphere only
(DESIGN 5 C35).  Thin partial.

Model: coq/C35/C35_Model.v (CollisionDetectionAlgorithm::{HalfSpaceSphere,SphereSphere}::processObjects and
ContactTracker::{HalfSpaceSphere,SphereSphere}::trackContact with an untracked prior).  Theorems: coq/Props/Properties_C35.v.
Tie (every run): extracted model vs the compiled classes on the same random configurations (separated, touching within
1e-7, overlapping, deep), the algorithms called directly and through GeneralContactSubsystem in BOTH orders of the two
surfaces, the trackers called directly with and without a cutoff band.
Failing-input search (every run): contact iff overlap, depth/normal/location formulas, swap symmetry and rigid-motion
invariance evaluated on the implementation alone (harness/C35_probe.cpp SEARCH).
Known finding demonstrated on the real code: concentric spheres overlap but no contact is reported (the tracker fails).
Convex-convex detector (ellipsoid/ellipsoid, ellipsoid/sphere), closed-form families only (coq/C35/C35_cc_*.v): pairs whose
centres lie exactly on a common principal axis, compared with the closed form and, on the implementation alone, with 1e-7
sideways offsets (continuity), the other surface order and a common rigid motion.  General convex-convex configurations
(MPR + Newton) remain undecided.
Broad phase of ContactTrackerSubsystem (coq/C35/C35_bp_*.v): scenes with rotated and translated surface placements and off-origin
bounding spheres; for every pair the tracker is called directly and compared with getActiveContacts (pruning soundness), with the
extracted bubble test, and with the same scene after a common rigid motion.
Not modelled: half-space/ellipsoid, brick, mesh pairs, contact tracking over time (ids, broken contacts)."""
import os, sys, math
from vlib import *

PROPS = ['Props/Properties_C35.v', 'Props/Properties_C35_cc.v', 'Props/Properties_C35_bp.v']
EXTRACT = '''From Coq Require Import Extraction ExtrOcamlBasic.
Require Import Num Vec C35_Model C35_cc_Model C35_bp_Model.
Extraction "c35model.ml" bp_keeps bp_center_G cc_axis cc_sphere_radius hs_sphere sphere_sphere tk_hs_sphere tk_sphere_sphere.
'''
def U(r, lo, hi): return r.uniform(lo, hi)
def vec(r, s): return [r.uniform(-s, s) for _ in range(3)]
def unit(r):
    while True:
        v = vec(r, 1.0); n = math.sqrt(sum(x * x for x in v))
        if 0.2 < n <= 1.0: return [x / n for x in v]
def fmt(xs): return ' '.join(hexf(x) if isinstance(x, float) else str(x) for x in xs)
def rotxyz(a):
    cx, sx, cy, sy, cz, sz = math.cos(a[0]), math.sin(a[0]), math.cos(a[1]), math.sin(a[1]), math.cos(a[2]), math.sin(a[2])
    mm = lambda A, B: [[sum(A[i][k] * B[k][j] for k in range(3)) for j in range(3)] for i in range(3)]
    return mm(mm([[1, 0, 0], [0, cx, -sx], [0, sx, cx]], [[cy, 0, sy], [0, 1, 0], [-sy, 0, cy]]), [[cz, -sz, 0], [sz, cz, 0], [0, 0, 1]])

def gap(r):
    m = r.random()
    return U(r, -1e-7, 1e-7) if m < 0.2 else (U(r, 0.001, 0.8) if m < 0.45 else -U(r, 0.001, 0.6))

def gen(r, n):
    out = []
    for i in range(n):
        r1, r2 = U(r, 0.2, 1.2), U(r, 0.2, 1.2); p1 = vec(r, 1.0); d = unit(r); g = gap(r)
        p2 = [a + (r1 + r2 + g) * b for a, b in zip(p1, d)]
        out.append(('AS', p1 + [r1] + p2 + [r2]))
        ang = vec(r, 3.0); cutoff = 0.0 if r.random() < 0.5 else U(r, 0.0, 0.3)
        out.append(('TS', ang + p1 + [r1] + p2 + [r2, cutoff]))
        # half space: frame (ang, ph); sphere centre at depth h
        ang = vec(r, 3.0); ph = vec(r, 1.0); R = rotxyz(ang); h = -gap(r)
        loc = [h - r1, U(r, -1, 1), U(r, -1, 1)]
        c = [ph[i] + sum(R[i][k] * loc[k] for k in range(3)) for i in range(3)]
        out.append(('AH', ang + ph + c + [r1]))
        out.append(('GS', [i % 2] + ang + ph + c + [r1]))
        out.append(('TH', ang + ph + c + [r1, cutoff]))
    return out

# ---- convex-convex detector, closed-form families (aligned ellipsoid / sphere pairs)
def gen_cc(r, n):
    """configurations whose centres lie EXACTLY on a common principal axis (dyadic offsets, axis-aligned first body)"""
    out = []
    for i in range(n):
        fam = i % 4                       # 0 spheres given as ellipsoids, 1 ellipsoid/ellipsoid, 2 ellipsoid/ellipsoid rotated about the axis, 3 ellipsoid/Sphere
        if fam == 0: a = U(r, 0.3, 1.2); b = U(r, 0.3, 1.2); r1 = [a] * 3; r2 = [b] * 3
        else: r1 = [U(r, 0.3, 1.2) for _ in range(3)]; r2 = [U(r, 0.3, 1.2) for _ in range(3)]
        kind2 = 1 if fam == 3 else 0
        if kind2: r2 = [r2[0]] * 3
        axis = r.randrange(3); c1 = [r.randrange(-4, 5) / 4.0 for _ in range(3)]
        m = r.random(); ra, rb = r1[axis], r2[axis]
        g = -U(r, 0.01, 0.5) * min(ra, rb) if m < 0.7 else (U(r, 0.01, 0.4) if m < 0.85 else -U(r, 1e-4, 1e-2))     # gap < 0: overlapping
        t = round((ra + rb + g) * 1024) / 1024.0 * r.choice([-1.0, 1.0])
        phi = U(r, -3, 3) if fam == 2 else 0.0
        out.append({'fam': fam, 'kind2': kind2, 'r1': r1, 'r2': r2, 'c1': c1, 'axis': axis, 't': t, 'phi': phi, 'order': i // 4 % 2,
                    'Q': vec(r, 3.0), 'tq': vec(r, 1.0)})
    return out
def cc_line(c, offs=(0.0, 0.0, 0.0), useQ=0, order=None):
    return 'CC ' + fmt([c['order'] if order is None else order, c['kind2']] + c['r1'] + c['r2'] + c['c1'] + [c['axis'], c['t'], c['phi']] + list(offs) + [useQ] + c['Q'] + c['tq'])
def cc_parse(line):
    f = parse_floats(line); n = int(f[0])
    if n == 0: return None, f[-9:]
    return {'s1': int(f[1]), 's2': int(f[2]), 'depth': f[3], 'n': f[4:7], 'loc': f[7:10], 'rad': f[10]}, f[-9:]
def vsub(a, b): return [x - y for x, y in zip(a, b)]
def vnorm(a): return math.sqrt(sum(x * x for x in a))
def mv(R, v): return [sum(R[3 * i + k] * v[k] for k in range(3)) for i in range(3)]

def cc_conditioning(c):
    """Sensitivity of the common-normal contact of two smooth convex bodies to a sideways offset of one of them.
    With R1, R2 the 2x2 matrices of principal radii of curvature at the two axis points (tangent plane, R2 rotated by phi) and d the
    depth, a sideways offset delta of body 2 tilts the contact normal by theta with (R1 + R2 - d I) theta = delta (first order), moves the
    point on body 1 by R1 theta and changes the depth only to second order.  Returns (L, Rmax): L = 1/lambda_min(R1 + R2 - d I)
    (infinite when that matrix is not positive definite: the pair of axis points is then not a locally unique contact)."""
    i = c['axis']; j, l = (i + 1) % 3, (i + 2) % 3; a, b = c['r1'], c['r2']
    p1, q1 = a[j] ** 2 / a[i], a[l] ** 2 / a[i]; p2, q2 = b[j] ** 2 / b[i], b[l] ** 2 / b[i]
    cs, sn = math.cos(c['phi']), math.sin(c['phi'])
    d = a[i] + b[i] - abs(c['t'])
    m11 = p1 + cs * cs * p2 + sn * sn * q2 - d; m22 = q1 + sn * sn * p2 + cs * cs * q2 - d; m12 = cs * sn * (p2 - q2)
    lam = 0.5 * (m11 + m22 - math.sqrt((m11 - m22) ** 2 + 4 * m12 * m12))
    return (1.0 / lam if lam > 0 else float('inf')), max(p1, q1, p2, q2)

def run_cc(ctx, exe, drv, n):
    FAM = ['spheres-as-ellipsoids', 'ellipsoid/ellipsoid', 'ellipsoid/ellipsoid-rotated-about-axis', 'ellipsoid/Sphere']
    cases = gen_cc(ctx.rng, n); lines = []
    for c in cases:
        ax = c['axis']; p1 = [0.0] * 3; p1[(ax + 1) % 3] = 1e-7; p2 = [0.0] * 3; p2[(ax + 2) % 3] = -1e-7
        lines += [cc_line(c), cc_line(c, p1), cc_line(c, p2), cc_line(c, order=1 - c['order']), cc_line(c, useQ=1)]
    rc, out, err = sh([exe], input='\n'.join(lines) + '\n', timeout=1800)
    outs = [l for l in out.split('\n') if l.strip()]
    if len(outs) != len(lines) or any(o.startswith('!') for o in outs):
        ctx.broken.append(('harness:C35_probe:CC', 'probe produced %d lines for %d cases / exception %s' % (len(outs), len(lines), [o for o in outs if o.startswith('!')][:1]))); return
    mlines = []; recs = []
    for k, c in enumerate(cases):
        res = [cc_parse(outs[5 * k + j]) for j in range(5)]; recs.append(res)
        ax = c['axis']; u = [0.0] * 3; u[ax] = 1.0; exact = res[0][0]
        # which object did the detector treat as object 1?  (index of A in the set is `order`)
        idxA = c['order']; firstIsA = True if exact is None else (exact['s1'] == idxA)
        if firstIsA: mlines.append('CC ' + fmt(c['c1'] + u + [c['r1'][ax], c['r2'][ax], c['t']]))
        else:
            cB = list(c['c1']); cB[ax] += c['t']; mlines.append('CC ' + fmt(cB + u + [c['r2'][ax], c['r1'][ax], -c['t']]))
    dis = 0; first = None; hist = {}; pred = None; nontriv = 0
    if drv:
        rc, o2, e2 = sh([drv], input='\n'.join(mlines) + '\n', timeout=600)
        mo = [l for l in o2.split('\n') if l.strip()]
        if len(mo) != len(cases): ctx.broken.append(('ocaml:C35_drv:CC', 'driver produced %d lines for %d cases' % (len(mo), len(cases)))); mo = None
    else: mo = None
    for k, c in enumerate(cases):
        res = recs[k]; exact = res[0][0]; fam = FAM[c['fam']]
        hist[fam + (':contact' if exact else ':none')] = hist.get(fam + (':contact' if exact else ':none'), 0) + 1
        if exact: nontriv += 1
        # (a) correspondence with the closed-form model at exact alignment
        if mo:
            m = parse_floats(mo[k]); impl = [0.0] if exact is None else [1.0, exact['depth']] + exact['n'] + exact['loc'] + ([exact['rad']] if c['fam'] == 0 else [])
            mm = m[:1] if m[0] == 0 else (m[:8] + ([m[8]] if c['fam'] == 0 else []))
            okc = len(impl) == len(mm) and all(close(x, y, 1e-8, 1e-9, 1.0) for x, y in zip(impl, mm))
            if not okc:
                dis += 1
                if first is None: first = (lines[5 * k], impl, mm, fam)
        # (b)-(d) implementation-only predicates: continuity under 1e-7 sideways offsets, swap symmetry, rigid-motion invariance
        # the reported surface order depends on the broad phase, so normals are compared as "from A towards B".
        # Tolerances: the detector's Newton iteration stops at |error vector| <= 1e-12, and a perturbation eps of the relative placement
        # moves the contact normal by L*eps and the contact point by (1 + Rmax*L)*eps (cc_conditioning).  Same geometry (other order,
        # common rigid motion: eps = rounding) must agree to 2e-6; a sideways offset delta = 1e-7 may change the normal by 3*L*delta,
        # the location by 3*(1 + Rmax*L)*delta and the depth by 3*L*delta^2 on top of that.  Configurations with L > 1e3 (the depth
        # is within 1e-3 of the smallest eigenvalue of R1 + R2, or beyond it: the axis points are no longer a locally unique contact)
        # are counted but not used for these three predicates.
        L, Rmax = cc_conditioning(c)
        def differs(a, b, idxA_a, idxA_b, Rq=None, tq=None, delta=0.0):
            if (a is None) != (b is None): return 'contact %s vs %s' % (a is not None, b is not None)
            if a is None: return None
            na = a['n'] if a['s1'] == idxA_a else [-x for x in a['n']]; nb = b['n'] if b['s1'] == idxA_b else [-x for x in b['n']]; la = a['loc']
            if Rq is not None: na = mv(Rq, na); la = [x + y for x, y in zip(mv(Rq, la), tq)]
            if abs(a['depth'] - b['depth']) > 2e-6 + 3 * L * delta * delta: return 'depth %.9g vs %.9g' % (a['depth'], b['depth'])
            if vnorm(vsub(na, nb)) > 2e-5 + 3 * L * delta: return 'normal (A to B) %s vs %s (allowed %.3g, sensitivity L = %.4g)' % (na, nb, 2e-5 + 3 * L * delta, L)
            if vnorm(vsub(la, b['loc'])) > 2e-5 + 3 * (1 + Rmax * L) * delta: return 'location %s vs %s (allowed %.3g)' % (la, b['loc'], 2e-5 + 3 * (1 + Rmax * L) * delta)
            return None
        near_touch = abs(abs(c['t']) - c['r1'][c['axis']] - c['r2'][c['axis']]) < 1e-5
        iA = c['order']
        if L > 1e3: hist['ill_conditioned_skipped'] = hist.get('ill_conditioned_skipped', 0) + 1
        elif not near_touch: hist['max_sensitivity_used'] = max(hist.get('max_sensitivity_used', 0.0), L)
        if pred is None and not near_touch and L <= 1e3:
            for j in (1, 2):
                d = differs(exact, res[j][0], iA, iA, delta=1e-7)
                if d and pred is None: pred = (lines[5 * k], 'ConvexConvex:continuity-under-1e-7-offset', '%s, centres exactly on axis %d vs offset by 1e-7 sideways: %s' % (fam, c['axis'], d))
            d = differs(exact, res[3][0], iA, 1 - iA)
            if d and pred is None: pred = (lines[5 * k], 'ConvexConvex:swap-symmetry', '%s: the two surfaces in the other order: %s' % (fam, d))
            d = differs(exact, res[4][0], iA, iA, Rq=res[4][1], tq=c['tq'])
            if d and pred is None: pred = (lines[5 * k], 'ConvexConvex:rigid-motion-invariance', '%s: both bodies moved by the same rigid motion: %s' % (fam, d))
    ctx.add_cases(len(lines), nontriv, [{'mode': 'CC', 'case': lines[0][:200]}])
    ctx.extra.setdefault('correspondence_cc', {}).update({'aligned_configurations': len(cases), 'probe_runs': len(lines), 'disagreements': dis, 'by_family': hist})
    if first: ctx.broken.append(('correspondence:ConvexConvex:aligned', '%s: detector result differs from the closed form: impl=%s model=%s input=%s' % (first[3], first[1], first[2], first[0][:200])))
    if pred:
        ctx.broken.append(('predicate:' + pred[1], pred[2]))
        ctx.report('impl:' + pred[1], pred[2], {'probe_input': pred[0], 'replay_cmd': 'echo "%s" | %s' % (pred[0], exe), 'failing_input': pred[0]})

# ---- broad phase of ContactTrackerSubsystem: rotated placements, off-origin bounding spheres, pairs without a half space
SHAPES = {0: 'Sphere', 1: 'Ellipsoid', 2: 'off-centre cube mesh', 3: 'off-centre sphere mesh', 4: 'HalfSpace', 5: 'Brick'}
def gen_tb(r):
    nb = r.choice([2, 2, 3, 4]); withGround = r.random() < 0.25
    poses = [vec(r, 3.0) + [U(r, -0.7, 0.7) for _ in range(3)] for _ in range(nb)]
    surfs = []
    for b in range(1, nb + 1):
        for _ in range(r.choice([1, 1, 2])):
            shape = r.choice([0, 1, 2, 2, 2, 3, 3, 5])
            par = [U(r, 0.2, 0.6) for _ in range(3)]; offC = [0.0] * 3
            if shape in (2, 3): offC = [U(r, 0.3, 0.9) * r.choice([-1, 1]) for _ in range(3)] if r.random() < 0.8 else [0.0] * 3
            pa = vec(r, 3.0) if r.random() < 0.85 else [0.0] * 3          # placement rotation
            pp = vec(r, 0.5)
            if shape in (2, 3) and r.random() < 0.7:
                # put the (rotated, shifted) mesh back near the body origin so that overlaps with the neighbours are frequent
                R = rotxyz(pa); pp = [-sum(R[i][k] * offC[k] for k in range(3)) + U(r, -0.2, 0.2) for i in range(3)]
            surfs.append([b, shape] + par + offC + pa + pp)
    if withGround:
        shape = r.choice([4, 0, 2]); par = [U(r, 0.2, 0.6) for _ in range(3)]; offC = [U(r, 0.3, 0.9) for _ in range(3)] if shape == 2 else [0.0] * 3
        surfs.append([0, shape] + par + offC + vec(r, 3.0) + vec(r, 0.5))
    return {'nb': nb, 'poses': poses, 'surfs': surfs, 'ground': withGround, 'Q': vec(r, 3.0), 'tq': vec(r, 1.0)}
def tb_line(c, useQ):
    return 'TB ' + fmt([useQ] + c['Q'] + c['tq'] + [c['nb']] + sum(c['poses'], []) + [len(c['surfs'])] + sum(c['surfs'], []))
def tb_parse(line):
    a, b, c = [parse_floats(x) for x in line.split('|')]
    ns = int(a[0]); W = 1 + 12 + 12 + 4; surf = [a[1 + W * i: 1 + W * (i + 1)] for i in range(ns)]
    pairs = lambda f: {(int(f[1 + 4 * q]), int(f[2 + 4 * q])): (int(f[3 + 4 * q]), f[4 + 4 * q]) for q in range(int(f[0]))}
    return surf, pairs(b), pairs(c)

def run_tb(ctx, exe, drv, n):
    r = ctx.rng; cases = [gen_tb(r) for _ in range(n)]; lines = []
    for c in cases: lines += [tb_line(c, 0)] + ([] if c['ground'] else [tb_line(c, 1)])
    rc, out, err = sh([exe], input='\n'.join(lines) + '\n', timeout=1800)
    outs = [l for l in out.split('\n') if l.strip()]
    if len(outs) != len(lines) or any(o.startswith('!') for o in outs):
        ctx.broken.append(('harness:C35_probe:TB', 'probe produced %d lines for %d scenes / exception %s' % (len(outs), len(lines), [o for o in outs if o.startswith('!')][:1]))); return
    hist = {'scenes': len(cases), 'pairs_in_contact': 0, 'pairs_with_rotated_placement_and_offcentre_bubble': 0, 'contact_kinds': {}, 'moved_scenes': 0}
    pred = None; mlines = []; mmeta = []; k = 0; nontriv = 0
    for c in cases:
        surf, brute, active = tb_parse(outs[k]); line0 = lines[k]; k += 1
        # (2a) pruning soundness, implementation alone: every pair the narrow phase reports (tracker called directly on the pair) is an active contact
        if brute: nontriv += 1
        for pr_, (kind, val) in brute.items():
            hist['pairs_in_contact'] += 1; hist['contact_kinds'][str(kind)] = hist['contact_kinds'].get(str(kind), 0) + 1
            s1, s2 = surf[pr_[0]], surf[pr_[1]]
            offc = lambda s_: (abs(s_[25]) + abs(s_[26]) + abs(s_[27]) > 1e-9) and (abs(s_[13] - 1) + abs(s_[17] - 1) + abs(s_[21] - 1) > 1e-6) and s_[28] < 1e300
            if offc(s1) or offc(s2): hist['pairs_with_rotated_placement_and_offcentre_bubble'] += 1
            if pr_ not in active and pred is None:
                pred = (line0, 'ContactTrackerSubsystem:broad-phase-drops-a-contacting-pair', 'surfaces %d and %d: the narrow-phase tracker called directly reports a contact (kind %d, value %.6g) but getActiveContacts has no contact for the pair' % (pr_[0], pr_[1], kind, val))
        for pr_ in active:
            if pr_ not in brute and pred is None:
                pred = (line0, 'ContactTrackerSubsystem:active-contact-not-confirmed-by-narrow-phase', 'surfaces %d and %d' % pr_)
        # (3) model: active contacts = brute-force contacts restricted to the pairs the extracted bubble test keeps
        for pr_ in brute:
            s1, s2 = surf[pr_[0]], surf[pr_[1]]
            if s1[28] > 1e300 or s2[28] > 1e300: continue      # half space: infinite bubble, always kept
            mlines.append('BP ' + fmt([0] + s1[1:13] + s1[13:25] + s1[25:28] + [s1[28]] + s2[1:13] + s2[13:25] + s2[25:28] + [s2[28]])); mmeta.append((line0, pr_, pr_ in active))
        # (2b) rigid-motion invariance of the contact set (all surfaces on moving bodies)
        if not c['ground']:
            surfQ, bruteQ, activeQ = tb_parse(outs[k]); lineQ = lines[k]; k += 1; hist['moved_scenes'] += 1
            def robust(p, v): return not (v[0] in (1, 2, 4) and abs(v[1]) < 1e-6) and not (v[0] == 3 and v[1] <= 2)
            a0 = {p for p, v in active.items() if robust(p, v)}; aQ = {p for p, v in activeQ.items() if robust(p, v)}
            if pred is None and (a0 - set(activeQ) or aQ - set(active)):
                pred = (lineQ, 'ContactTrackerSubsystem:rigid-motion-changes-the-contact-set', 'contacting pairs %s before and %s after moving all bodies by one rigid transform' % (sorted(active), sorted(activeQ)))
            elif pred is None:
                for p in a0 & set(activeQ):
                    if active[p][0] in (1, 4) and abs(active[p][1] - activeQ[p][1]) > 1e-6 * max(1.0, abs(active[p][1])):
                        pred = (lineQ, 'ContactTrackerSubsystem:rigid-motion-changes-the-depth', 'pair %s depth %.9g vs %.9g' % (p, active[p][1], activeQ[p][1]))
    dis = 0; first = None
    if drv and mlines:
        rc, o2, e2 = sh([drv], input='\n'.join(mlines) + '\n', timeout=600)
        mo = [l for l in o2.split('\n') if l.strip()]
        if len(mo) != len(mlines): ctx.broken.append(('ocaml:C35_drv:BP', 'driver produced %d lines for %d pairs' % (len(mo), len(mlines))))
        else:
            for (line0, pr_, isActive), m in zip(mmeta, mo):
                kept = parse_floats(m)[0] == 1.0
                if kept != isActive:
                    dis += 1
                    if first is None: first = (line0, pr_, kept, isActive)
    ctx.add_cases(len(lines), nontriv, [{'mode': 'TB', 'scene': lines[0][:200]}])
    hist['bubble_model_disagreements'] = dis; ctx.extra['broad_phase'] = hist
    if first: ctx.broken.append(('correspondence:ContactTrackerSubsystem:broad-phase', 'pair %s in narrow-phase contact: the bubble model keeps it = %s, the subsystem reports it = %s; scene=%s' % (first[1], first[2], first[3], first[0][:200])))
    if pred:
        ctx.broken.append(('predicate:' + pred[1], pred[2]))
        ctx.report('impl:' + pred[1], pred[2], {'probe_input': pred[0], 'replay_cmd': 'echo "%s" | %s' % (pred[0], exe), 'failing_input': pred[0]})

# ---- mesh tracker face sets: HalfSpace vs TriangleMesh, brute force over the vertices
def run_hm(ctx, exe, n):
    r = ctx.rng; lines = []; kinds = []
    for i in range(n):
        kind = [0, 0, 1, 2][i % 4]; rotF = r.randrange(3)
        hang = vec(r, 3.0); hp = vec(r, 0.5); R = rotxyz(hang); xH = [R[q][0] for q in range(3)]
        mang = vec(r, 3.0); Rm = rotxyz(mang)
        if kind == 0: data = [U(r, -0.6, 0.6) for _ in range(12)]; vs = [data[3 * q: 3 * q + 3] for q in range(4)]
        else:
            h = [U(r, 0.2, 0.6) for _ in range(3)]; off = vec(r, 0.5); data = h + off + [0.0] * 6
            vs = [[off[0] + sx * h[0], off[1] + sy * h[1], off[2] + sz * h[2]] for sx in (-1, 1) for sy in (-1, 1) for sz in (-1, 1)] if kind == 1 else \
                 [[off[q] + (h[0] if q == a else 0.0) * sg for q in range(3)] for a in range(3) for sg in (-1, 1)]
        # place the mesh so that its deepest vertex is at depth dep inside the half space (x_H > 0): shallow single-vertex penetrations often
        m = r.random(); dep = U(r, 1e-4, 0.03) if m < 0.5 else (U(r, 0.03, 0.5) if m < 0.9 else -U(r, 0.01, 0.2))
        wv = [[sum(Rm[a][b] * v[b] for b in range(3)) for a in range(3)] for v in vs]
        deepest = max(sum(w[a] * xH[a] for a in range(3)) for w in wv)
        side = [U(r, -0.5, 0.5) for _ in range(3)]
        pm = [hp[a] + (dep - deepest) * xH[a] + side[a] - sum(side[b] * xH[b] for b in range(3)) * xH[a] for a in range(3)]
        lines.append('HM ' + fmt([kind, rotF] + hang + hp + mang + pm + data)); kinds.append(kind)
    rc, out, err = sh([exe], input='\n'.join(lines) + '\n', timeout=900)
    outs = [l for l in out.split('\n') if l.strip()]
    if len(outs) != len(lines) or any(o.startswith('!') for o in outs):
        ctx.broken.append(('harness:C35_probe:HM', 'probe produced %d lines for %d cases / exception %s' % (len(outs), len(lines), [o for o in outs if o.startswith('!')][:1]))); return
    hist = {'cases': len(lines), 'with_contact': 0, 'single_face_or_vertex_contacts': 0, 'faces_reported': 0}; pred = None
    for line, o in zip(lines, outs):
        ok, nrep, nbr, miss, extra, margin = parse_floats(o)
        if nbr > 0: hist['with_contact'] += 1
        if 0 < nbr <= 6: hist['single_face_or_vertex_contacts'] += 1
        hist['faces_reported'] += int(nrep)
        if margin > 1e-9 and (miss > 0 or extra > 0 or ok != 1.0) and pred is None:
            pred = (line, 'HalfSpaceTriangleMesh:face-set-differs-from-brute-force', 'reported %d faces, brute force over the vertices %d faces: %d missing, %d extra' % (nrep, nbr, miss, extra))
    ctx.add_cases(len(lines), hist['with_contact'], [{'mode': 'HM', 'case': lines[0][:200]}])
    ctx.extra['mesh_face_sets'] = hist
    if pred:
        ctx.broken.append(('predicate:' + pred[1], pred[2]))
        ctx.report('impl:' + pred[1], pred[2], {'probe_input': pred[0], 'replay_cmd': 'echo "%s" | %s' % (pred[0], exe), 'failing_input': pred[0]})

def run(ctx):
    ctx.build_repo()
    ok = ctx.coq_props(PROPS)
    quick = ctx.tier == 'quick'
    exe = ctx.bdir('C35_probe')
    if not ctx.cxx(os.path.join(VERIF, 'harness', 'C35_probe.cpp'), exe):
        ctx.broken.append(('harness:C35_probe', 'probe does not compile against the current source')); ctx.finish()
    od = ctx.bdir('ml'); drv = None
    if ctx.extract(EXTRACT, od):
        src = open(os.path.join(VERIF, 'ocaml', 'C35_drv.ml')).read().replace('#include "fops.inc"', open(os.path.join(VERIF, 'ocaml', 'fops.inc')).read())
        open(os.path.join(od, 'drv.ml'), 'w').write(src)
        if ctx.ocaml(od, ['c35model.mli', 'c35model.ml', 'drv.ml'], 'drv'): drv = os.path.join(od, 'drv')
    if drv is None: ctx.broken.append(('extract:C35_Model', 'extraction / driver build failed'))
    if drv:
        cases = gen(ctx.rng, 200 if quick else 2000)
        lines = [k + ' ' + fmt(nums) for k, nums in cases]
        rc, o1, e1 = sh([exe], input='\n'.join(lines) + '\n', timeout=1800)
        l1 = [l for l in o1.split('\n') if l.strip()]
        if len(l1) != len(lines) or any(l.startswith('!') for l in l1):
            ctx.broken.append(('harness:C35_probe', 'probe produced %d lines for %d cases / exception: %s' % (len(l1), len(lines), [l for l in l1 if l.startswith('!')][:1])))
        else:
            sig = 2.0 ** (-52 * 0.875); mlines = []
            for (k, nums), out in zip(cases, l1):
                f = parse_floats(out)
                if k == 'AS': mlines.append('AS ' + fmt(nums))
                elif k in ('AH', 'GS'): mlines.append('AH ' + fmt(f[-9:] + (nums[3:] if k == 'AH' else nums[4:])))
                elif k == 'TS': mlines.append('TS ' + fmt([sig] + f[-9:] + nums[3:]))
                else: mlines.append('TH ' + fmt(f[-9:] + nums[3:]))
            rc, o2, e2 = sh([drv], input='\n'.join(mlines) + '\n', timeout=900)
            l2 = [l for l in o2.split('\n') if l.strip()]
            if len(l2) != len(lines): ctx.broken.append(('ocaml:C35_drv', 'driver produced %d lines for %d cases: %s' % (len(l2), len(lines), e2[-200:])))
            else:
                dis = 0; first = None; hist = {}; nontriv = 0; order_bad = None
                for (k, nums), a, b in zip(cases, l1, l2):
                    fa, fb = parse_floats(a), parse_floats(b)
                    if k in ('AS', 'AH', 'GS'):
                        if k != 'AS': fa = fa[:-9]
                        n = int(fa[0]); surf = fa[1:3] if n else []
                        fa = [fa[0]] + (fa[3:] if n else [])
                        hist[k + (':contact' if n else ':none')] = hist.get(k + (':contact' if n else ':none'), 0) + 1
                        if k == 'GS' and n:
                            # the half space is always reported as surface 1, whatever the order of the two surfaces in the set
                            hs_index = 0 if int(nums[0]) == 0 else 1
                            if int(surf[0]) != hs_index or int(surf[1]) != 1 - hs_index: order_bad = (k, nums, surf)
                    else:
                        fa = fa[:-9]; hist[k + (':contact' if fa[1] else (':none' if fa[0] else ':failed'))] = hist.get(k + (':contact' if fa[1] else (':none' if fa[0] else ':failed')), 0) + 1
                    if len(fa) > 1 and any(x != 0 for x in fa[1:]): nontriv += 1
                    scv = max([1.0] + [abs(x) for x in fa if x == x])
                    okc = len(fa) == len(fb) and all(close(x, y, 1e-9, 1e-11, scv) for x, y in zip(fa, fb))
                    if not okc:
                        # a detection flip within rounding of the touching configuration is not a disagreement
                        touching = k in ('AS', 'TS') and abs(math.sqrt(sum((x - y) ** 2 for x, y in zip(nums[-5:-2] if k == 'AS' else nums[7:10], nums[0:3] if k == 'AS' else nums[3:6]))) - (nums[3 if k == 'AS' else 6] + nums[-1 if k == 'AS' else -2])) < 1e-12
                        if touching: hist['rounding_flips'] = hist.get('rounding_flips', 0) + 1; continue
                        dis += 1
                        if first is None: first = (k, nums, fa, fb)
                ctx.add_cases(len(lines), nontriv, [{'case': lines[0], 'impl': parse_floats(l1[0]), 'model': parse_floats(l2[0])}])
                ctx.extra['correspondence'] = {'cases': len(lines), 'disagreements': dis, 'by_kind': hist, 'rtol': 1e-9}
                if first: ctx.broken.append(('correspondence:' + first[0], 'implementation and model differ: case=%s %s impl=%s model=%s' % first))
                if order_bad: ctx.broken.append(('correspondence:GS:surface-order', 'half space not reported as surface 1: %s' % (order_bad,)))
    run_cc(ctx, exe, drv, 120 if quick else 1200)
    run_tb(ctx, exe, drv, 150 if quick else 1500)
    run_hm(ctx, exe, 400 if quick else 4000)
    rc, out, err = sh([exe], input='SEARCH %d %d\n' % (ctx.seed % 1000003, 3000 if quick else 60000), timeout=1800)
    fails = [l for l in out.split('\n') if l.startswith('FAIL')]; done = [l for l in out.split('\n') if l.startswith('DONE')]
    ctx.extra['search'] = {'predicate_evaluations': int(done[0].split()[1]) if done else 0, 'failures': int(done[0].split()[2]) if done else -1}
    if not done: ctx.broken.append(('search:C35', 'search did not finish: ' + (out + err)[-300:]))
    for f in fails[:1]:
        ctx.broken.append(('predicate:' + f.split()[1], f))
        ctx.report('impl:' + f.split()[1], 'implementation violates a C35 predicate: ' + f, {'replay_cmd': 'echo "SEARCH %d 3000" | %s' % (ctx.seed % 1000003, exe), 'failing_input': f})
    # known finding: concentric spheres (C35_sphere_sphere_concentric_refuted), replayed on the real code
    deg = ['AS 0 0 0 1 0 0 0 1', 'TS 0 0 0 0 0 0 1 0 0 0 1 0']
    rc, out, err = sh([exe], input='\n'.join(deg) + '\n', timeout=60)
    dl = [l for l in out.split('\n') if l.strip()]
    ctx.extra['concentric_spheres'] = dict(zip(deg, dl))
    if len(dl) == 2 and parse_floats(dl[0])[0] == 0.0:
        ctx.report('concentric-spheres-no-contact', 'two unit spheres with the same centre: SphereSphere::processObjects reports %d contacts, tracker ok=%s' % (int(parse_floats(dl[0])[0]), parse_floats(dl[1])[0]),
                   {'queries': deg, 'results': dl})
    elif len(dl) == 2:
        ctx.broken.append(('refuted-witness:sphere_sphere_concentric_refuted', 'the implementation now reports a contact for concentric spheres: %s' % dl[0]))
    ctx.cov['rule'] = ('cases: radii .2-1.2; gap between the surfaces: +-1e-7 (20%), separated .001-.8 (25%), overlapping .001-.6 (55%); random frames; trackers with cutoff 0 or 0-.3; '
                       'GeneralContactSubsystem with the half space before / after the sphere alternately; non-trivial = a contact was reported')
    ctx.assumptions += ['theorems are over the reals; detection exactly at touching distance is decided by rounding (the correspondence ignores flips within 1e-12 of touching)',
                        'rotation matrices are assumed orthonormal in the location and rigid-motion theorems',
                        'only an untracked prior contact is modelled for the trackers (no contact ids, no BrokenContact reports)',
                        'ellipsoid, brick, mesh and convex-implicit pairs are not modelled']
    ctx.finish()
