"""C35 Collision detection reports exactly the overlapping pairs -- sphere/sphere and half-space/sphere only
(DESIGN 5 C35).  Thin partial.

Model: coq/C35/C35_Model.v (CollisionDetectionAlgorithm::{HalfSpaceSphere,SphereSphere}::processObjects and
ContactTracker::{HalfSpaceSphere,SphereSphere}::trackContact with an untracked prior).  Theorems: coq/Props/Properties_C35.v.
Tie (every run): extracted model vs the compiled classes on the same random configurations (separated, touching within
1e-7, overlapping, deep), the algorithms called directly and through GeneralContactSubsystem in BOTH orders of the two
surfaces, the trackers called directly with and without a cutoff band.
Failing-input search (every run): contact iff overlap, depth/normal/location formulas, swap symmetry and rigid-motion
invariance evaluated on the implementation alone (harness/C35_probe.cpp SEARCH).
Known finding demonstrated on the real code: concentric spheres overlap but no contact is reported (the tracker fails).
Not modelled: ellipsoid, brick, mesh and convex-implicit pairs, contact tracking over time (ids, broken contacts)."""
import os, sys, math
from vlib import *

PROPS = ['Props/Properties_C35.v']
EXTRACT = '''From Coq Require Import Extraction ExtrOcamlBasic.
Require Import Num Vec C35_Model.
Extraction "c35model.ml" hs_sphere sphere_sphere tk_hs_sphere tk_sphere_sphere.
'''
def U(r, lo, hi): return r.uniform(lo, hi)
def vec(r, s): return [r.uniform(-s, s) for _ in range(3)]
def unit(r):
    while True:
        v = vec(r, 1.0); n = math.sqrt(sum(x * x for x in v))
        if 0.2 < n <= 1.0: return [x / n for x in v]
def fmt(xs): return ' '.join(hexf(x) if isinstance(x, float) else str(x) for x in xs)
def rotxyz(a):
    cx, sx, cy, sy, cz, sz = math.cos(a[0]), math.sin(a[0]), math.cos(a[1]), math.sin(a[1]), math.cos(a[2]), math.sin(a[2])
    mm = lambda A, B: [[sum(A[i][k] * B[k][j] for k in range(3)) for j in range(3)] for i in range(3)]
    return mm(mm([[1, 0, 0], [0, cx, -sx], [0, sx, cx]], [[cy, 0, sy], [0, 1, 0], [-sy, 0, cy]]), [[cz, -sz, 0], [sz, cz, 0], [0, 0, 1]])

def gap(r):
    m = r.random()
    return U(r, -1e-7, 1e-7) if m < 0.2 else (U(r, 0.001, 0.8) if m < 0.45 else -U(r, 0.001, 0.6))

def gen(r, n):
    out = []
    for i in range(n):
        r1, r2 = U(r, 0.2, 1.2), U(r, 0.2, 1.2); p1 = vec(r, 1.0); d = unit(r); g = gap(r)
        p2 = [a + (r1 + r2 + g) * b for a, b in zip(p1, d)]
        out.append(('AS', p1 + [r1] + p2 + [r2]))
        ang = vec(r, 3.0); cutoff = 0.0 if r.random() < 0.5 else U(r, 0.0, 0.3)
        out.append(('TS', ang + p1 + [r1] + p2 + [r2, cutoff]))
        # half space: frame (ang, ph); sphere centre at depth h
        ang = vec(r, 3.0); ph = vec(r, 1.0); R = rotxyz(ang); h = -gap(r)
        loc = [h - r1, U(r, -1, 1), U(r, -1, 1)]
        c = [ph[i] + sum(R[i][k] * loc[k] for k in range(3)) for i in range(3)]
        out.append(('AH', ang + ph + c + [r1]))
        out.append(('GS', [i % 2] + ang + ph + c + [r1]))
        out.append(('TH', ang + ph + c + [r1, cutoff]))
    return out

def run(ctx):
    ctx.build_repo()
    ok = ctx.coq_props(PROPS)
    quick = ctx.tier == 'quick'
    exe = ctx.bdir('C35_probe')
    if not ctx.cxx(os.path.join(VERIF, 'harness', 'C35_probe.cpp'), exe):
        ctx.broken.append(('harness:C35_probe', 'probe does not compile against the current source')); ctx.finish()
    od = ctx.bdir('ml'); drv = None
    if ctx.extract(EXTRACT, od):
        src = open(os.path.join(VERIF, 'ocaml', 'C35_drv.ml')).read().replace('#include "fops.inc"', open(os.path.join(VERIF, 'ocaml', 'fops.inc')).read())
        open(os.path.join(od, 'drv.ml'), 'w').write(src)
        if ctx.ocaml(od, ['c35model.mli', 'c35model.ml', 'drv.ml'], 'drv'): drv = os.path.join(od, 'drv')
    if drv is None: ctx.broken.append(('extract:C35_Model', 'extraction / driver build failed'))
    if drv:
        cases = gen(ctx.rng, 200 if quick else 2000)
        lines = [k + ' ' + fmt(nums) for k, nums in cases]
        rc, o1, e1 = sh([exe], input='\n'.join(lines) + '\n', timeout=1800)
        l1 = [l for l in o1.split('\n') if l.strip()]
        if len(l1) != len(lines) or any(l.startswith('!') for l in l1):
            ctx.broken.append(('harness:C35_probe', 'probe produced %d lines for %d cases / exception: %s' % (len(l1), len(lines), [l for l in l1 if l.startswith('!')][:1])))
        else:
            sig = 2.0 ** (-52 * 0.875); mlines = []
            for (k, nums), out in zip(cases, l1):
                f = parse_floats(out)
                if k == 'AS': mlines.append('AS ' + fmt(nums))
                elif k in ('AH', 'GS'): mlines.append('AH ' + fmt(f[-9:] + (nums[3:] if k == 'AH' else nums[4:])))
                elif k == 'TS': mlines.append('TS ' + fmt([sig] + f[-9:] + nums[3:]))
                else: mlines.append('TH ' + fmt(f[-9:] + nums[3:]))
            rc, o2, e2 = sh([drv], input='\n'.join(mlines) + '\n', timeout=900)
            l2 = [l for l in o2.split('\n') if l.strip()]
            if len(l2) != len(lines): ctx.broken.append(('ocaml:C35_drv', 'driver produced %d lines for %d cases: %s' % (len(l2), len(lines), e2[-200:])))
            else:
                dis = 0; first = None; hist = {}; nontriv = 0; order_bad = None
                for (k, nums), a, b in zip(cases, l1, l2):
                    fa, fb = parse_floats(a), parse_floats(b)
                    if k in ('AS', 'AH', 'GS'):
                        if k != 'AS': fa = fa[:-9]
                        n = int(fa[0]); surf = fa[1:3] if n else []
                        fa = [fa[0]] + (fa[3:] if n else [])
                        hist[k + (':contact' if n else ':none')] = hist.get(k + (':contact' if n else ':none'), 0) + 1
                        if k == 'GS' and n:
                            # the half space is always reported as surface 1, whatever the order of the two surfaces in the set
                            hs_index = 0 if int(nums[0]) == 0 else 1
                            if int(surf[0]) != hs_index or int(surf[1]) != 1 - hs_index: order_bad = (k, nums, surf)
                    else:
                        fa = fa[:-9]; hist[k + (':contact' if fa[1] else (':none' if fa[0] else ':failed'))] = hist.get(k + (':contact' if fa[1] else (':none' if fa[0] else ':failed')), 0) + 1
                    if len(fa) > 1 and any(x != 0 for x in fa[1:]): nontriv += 1
                    scv = max([1.0] + [abs(x) for x in fa if x == x])
                    okc = len(fa) == len(fb) and all(close(x, y, 1e-9, 1e-11, scv) for x, y in zip(fa, fb))
                    if not okc:
                        # a detection flip within rounding of the touching configuration is not a disagreement
                        touching = k in ('AS', 'TS') and abs(math.sqrt(sum((x - y) ** 2 for x, y in zip(nums[-5:-2] if k == 'AS' else nums[7:10], nums[0:3] if k == 'AS' else nums[3:6]))) - (nums[3 if k == 'AS' else 6] + nums[-1 if k == 'AS' else -2])) < 1e-12
                        if touching: hist['rounding_flips'] = hist.get('rounding_flips', 0) + 1; continue
                        dis += 1
                        if first is None: first = (k, nums, fa, fb)
                ctx.add_cases(len(lines), nontriv, [{'case': lines[0], 'impl': parse_floats(l1[0]), 'model': parse_floats(l2[0])}])
                ctx.extra['correspondence'] = {'cases': len(lines), 'disagreements': dis, 'by_kind': hist, 'rtol': 1e-9}
                if first: ctx.broken.append(('correspondence:' + first[0], 'implementation and model differ: case=%s %s impl=%s model=%s' % first))
                if order_bad: ctx.broken.append(('correspondence:GS:surface-order', 'half space not reported as surface 1: %s' % (order_bad,)))
    rc, out, err = sh([exe], input='SEARCH %d %d\n' % (ctx.seed % 1000003, 3000 if quick else 60000), timeout=1800)
    fails = [l for l in out.split('\n') if l.startswith('FAIL')]; done = [l for l in out.split('\n') if l.startswith('DONE')]
    ctx.extra['search'] = {'predicate_evaluations': int(done[0].split()[1]) if done else 0, 'failures': int(done[0].split()[2]) if done else -1}
    if not done: ctx.broken.append(('search:C35', 'search did not finish: ' + (out + err)[-300:]))
    for f in fails[:1]:
        ctx.broken.append(('predicate:' + f.split()[1], f))
        ctx.report('impl:' + f.split()[1], 'implementation violates a C35 predicate: ' + f, {'replay_cmd': 'echo "SEARCH %d 3000" | %s' % (ctx.seed % 1000003, exe), 'failing_input': f})
    # known finding: concentric spheres (C35_sphere_sphere_concentric_refuted), replayed on the real code
    deg = ['AS 0 0 0 1 0 0 0 1', 'TS 0 0 0 0 0 0 1 0 0 0 1 0']
    rc, out, err = sh([exe], input='\n'.join(deg) + '\n', timeout=60)
    dl = [l for l in out.split('\n') if l.strip()]
    ctx.extra['concentric_spheres'] = dict(zip(deg, dl))
    if len(dl) == 2 and parse_floats(dl[0])[0] == 0.0:
        ctx.report('concentric-spheres-no-contact', 'two unit spheres with the same centre: SphereSphere::processObjects reports %d contacts, tracker ok=%s' % (int(parse_floats(dl[0])[0]), parse_floats(dl[1])[0]),
                   {'queries': deg, 'results': dl})
    elif len(dl) == 2:
        ctx.broken.append(('refuted-witness:sphere_sphere_concentric_refuted', 'the implementation now reports a contact for concentric spheres: %s' % dl[0]))
    ctx.cov['rule'] = ('cases: radii .2-1.2; gap between the surfaces: +-1e-7 (20%), separated .001-.8 (25%), overlapping .001-.6 (55%); random frames; trackers with cutoff 0 or 0-.3; '
                       'GeneralContactSubsystem with the half space before / after the sphere alternately; non-trivial = a contact was reported')
    ctx.assumptions += ['theorems are over the reals; detection exactly at touching distance is decided by rounding (the correspondence ignores flips within 1e-12 of touching)',
                        'rotation matrices are assumed orthonormal in the location and rigid-motion theorems',
                        'only an untracked prior contact is modelled for the trackers (no contact ids, no BrokenContact reports)',
                        'ellipsoid, brick, mesh and convex-implicit pairs are not modelled']
    ctx.finish()
