"""C36 Mesh queries match brute force and bounding volumes contain (DESIGN 5 C36) - thin partial.

Theorems (coq/Props/Properties_C36.v): the pruned OBB-tree search equals brute force over all faces when every box distance is a
lower bound for the faces below it (obb_tree_prune_sound, induction over the tree), boxes are convex (containing the three
vertices = containing the triangle), the clamped box distance is a lower bound for every point of the box, the tree / adjacency
checkers are sound.  Tie, checked on every run (CERTIFICATE correspondence): the real OBB tree, adjacency tables and bounding
sphere of ContactGeometry::TriangleMesh are dumped through the public accessors and verified by the EXTRACTED checker
(tree_ok, tree_covers, adjacency_ok, sphere_contains); the implementation's tree-pruned findNearestPoint / intersectsRay answers
are compared with the extracted brute force over all faces (1e-9); OrientedBoundingBox(points) and Geo bounding spheres of
random point clouds are checked to contain their points by the extracted predicates.  OrientedBoundingBox::intersectsRay (the test the
tree prunes rays with) has its own proved model (C36_boxray_*: sound, complete, distance = entry parameter, incl. exactly zero
direction components) and its own correspondence stream (gen_boxrays); axis-aligned brick meshes with axis-parallel rays exercise it
through TriangleMesh::intersectsRay.  File formats: checks/C36_io.py."""
import os, sys, math, shutil
from vlib import *
import C36_io

PROPS = ['Props/Properties_C36.v', 'Props/Properties_C36_boxray.v']
EXTRACT = """From Coq Require Import Extraction ExtrOcamlBasic.
Require Import Num Vec C36_Model C36_boxray_Model.
Extraction "c36model.ml" box_ray box_ray_frame closest_bary closest_pt_tri dist2_pt_tri nearest_brute inside_brute ray_brute ray_hits inside_parity vert
  box_contains box_dist2 sphere_contains tree_ok tree_covers adjacency_ok.
"""

# ---------------------------------------------------------------------------------------------- meshes
def octa_sphere(level):
    vs = [(1, 0, 0), (-1, 0, 0), (0, 1, 0), (0, -1, 0), (0, 0, 1), (0, 0, -1)]
    fs = [(0, 2, 4), (2, 1, 4), (1, 3, 4), (3, 0, 4), (2, 0, 5), (1, 2, 5), (3, 1, 5), (0, 3, 5)]
    for _ in range(level):
        mid = {}; nf = []
        def m(a, b):
            k = (min(a, b), max(a, b))
            if k not in mid:
                p = [(vs[a][i] + vs[b][i]) / 2 for i in range(3)]; n = math.sqrt(sum(x * x for x in p))
                vs.append(tuple(x / n for x in p)); mid[k] = len(vs) - 1
            return mid[k]
        for a, b, c in fs:
            ab, bc, ca = m(a, b), m(b, c), m(c, a); nf += [(a, ab, ca), (ab, b, bc), (ca, bc, c), (ab, bc, ca)]
        fs = nf
    return [list(v) for v in vs], fs
def box_mesh():
    vs = [[x, y, z] for x in (0, 1) for y in (0, 1) for z in (0, 1)]
    fs = [(0, 1, 3), (0, 3, 2), (4, 6, 7), (4, 7, 5), (0, 4, 5), (0, 5, 1), (2, 3, 7), (2, 7, 6), (0, 2, 6), (0, 6, 4), (1, 5, 7), (1, 7, 3)]
    return vs, fs
def tetra():
    return [[0, 0, 0], [1, 0, 0], [0, 1, 0], [0, 0, 1]], [(0, 2, 1), (0, 1, 3), (0, 3, 2), (1, 2, 3)]
def grid_patch(n):
    """open height-field patch (boundary edges have one face)"""
    vs = [[i, j, 0.0] for i in range(n + 1) for j in range(n + 1)]; fs = []
    for i in range(n):
        for j in range(n):
            a = i * (n + 1) + j; b = a + 1; c = a + n + 1; d = c + 1; fs += [(a, c, b), (b, c, d)]
    return vs, fs

def brick_mesh(a, b, c, nx, ny, nz):
    """closed, axis-aligned brick [0,a]x[0,b]x[0,c] whose faces are nx x ny x nz grids of quads split into two triangles"""
    idx = {}; vs = []; fs = []
    def vid(i, j, k):
        if (i, j, k) not in idx: idx[(i, j, k)] = len(vs); vs.append([a * i / nx, b * j / ny, c * k / nz])
        return idx[(i, j, k)]
    def quad(p0, p1, p2, p3, outward):
        q = [vs[vid(*p)] for p in (p0, p1, p2)]
        u = [q[1][t] - q[0][t] for t in range(3)]; w = [q[2][t] - q[0][t] for t in range(3)]
        n = [u[1] * w[2] - u[2] * w[1], u[2] * w[0] - u[0] * w[2], u[0] * w[1] - u[1] * w[0]]
        ids = [vid(*p) for p in (p0, p1, p2, p3)]
        if sum(n[t] * outward[t] for t in range(3)) < 0: ids = ids[::-1]
        fs.append((ids[0], ids[1], ids[2])); fs.append((ids[0], ids[2], ids[3]))
    for i in range(nx):
        for j in range(ny):
            quad((i, j, 0), (i + 1, j, 0), (i + 1, j + 1, 0), (i, j + 1, 0), (0, 0, -1)); quad((i, j, nz), (i + 1, j, nz), (i + 1, j + 1, nz), (i, j + 1, nz), (0, 0, 1))
    for i in range(nx):
        for k in range(nz):
            quad((i, 0, k), (i + 1, 0, k), (i + 1, 0, k + 1), (i, 0, k + 1), (0, -1, 0)); quad((i, ny, k), (i + 1, ny, k), (i + 1, ny, k + 1), (i, ny, k + 1), (0, 1, 0))
    for j in range(ny):
        for k in range(nz):
            quad((0, j, k), (0, j + 1, k), (0, j + 1, k + 1), (0, j, k + 1), (-1, 0, 0)); quad((nx, j, k), (nx, j + 1, k), (nx, j + 1, k + 1), (nx, j, k + 1), (1, 0, 0))
    return vs, fs

def rand_rot(rng):
    while True:
        q = [rng.gauss(0, 1) for _ in range(4)]; n = math.sqrt(sum(x * x for x in q))
        if n > 1e-3: break
    w, x, y, z = [t / n for t in q]
    return [[1 - 2 * (y * y + z * z), 2 * (x * y - z * w), 2 * (x * z + y * w)], [2 * (x * y + z * w), 1 - 2 * (x * x + z * z), 2 * (y * z - x * w)],
            [2 * (x * z - y * w), 2 * (y * z + x * w), 1 - 2 * (x * x + y * y)]]

def gen_mesh(rng):
    kind = rng.choices(['tetra', 'box', 'sph1', 'sph2', 'patch', 'sliver', 'brick'], [2, 2, 3, 2, 0.5, 1.5, 3])[0]
    if kind == 'brick':
        # exactly axis-aligned bricks of very unequal extents: their OBB-tree boxes come out axis-aligned and thin in different
        # directions, so that axis-parallel rays have EXACTLY zero direction components in the box frames
        dims = rng.sample([rng.choice([0.1, 0.2, 0.25]), rng.choice([0.5, 1.0]), rng.choice([2.0, 3.0, 4.0])], 3)
        if rng.random() < 0.25: dims = [rng.choice([0.2, 0.5, 1.0, 2.0, 3.0]) for _ in range(3)]
        n = [rng.randint(1, 5) for _ in range(3)]
        vs, fs = brick_mesh(dims[0], dims[1], dims[2], n[0], n[1], n[2])
        t = [rng.choice([0.0, 0.0, -0.5, 1.0, -dims[i] / 2]) for i in range(3)]
        return 'brick', [[v[i] + t[i] for i in range(3)] for v in vs], fs
    if kind == 'tetra': vs, fs = tetra()
    elif kind == 'box': vs, fs = box_mesh()
    elif kind == 'sph1': vs, fs = octa_sphere(1)
    elif kind == 'sph2': vs, fs = octa_sphere(2)
    elif kind == 'patch': vs, fs = grid_patch(rng.randint(1, 4))
    else: vs, fs = octa_sphere(1)
    vs = [list(map(float, v)) for v in vs]
    pert = rng.choice([0, 0, 0.02, 0.1]) if kind != 'patch' else 0.0
    for v in vs:
        for i in range(3): v[i] += rng.uniform(-pert, pert)
    if kind == 'patch':
        for v in vs: v[2] = 0.3 * math.sin(v[0] * 1.3 + rng.random()) * math.cos(v[1] * 0.9) + rng.uniform(-0.05, 0.05)
    sc = [rng.uniform(0.5, 2.0) for _ in range(3)]
    if kind == 'sliver': sc[rng.randrange(3)] = rng.choice([0.05, 0.01])       # flattened: long thin triangles
    R = rand_rot(rng); t = [rng.uniform(-1, 1) for _ in range(3)]
    out = []
    for v in vs:
        s = [v[i] * sc[i] for i in range(3)]; out.append([sum(R[i][j] * s[j] for j in range(3)) + t[i] for i in range(3)])
    if kind in ('box', 'sph1') and rng.random() < 0.1:                           # open: drop a face (the constructor must refuse it)
        fs = fs[:-1]; kind += '-open'
    if kind == 'patch': kind = 'patch-open'
    return kind, out, fs

def gen_case(rng, nq):
    kind, vs, fs = gen_mesh(rng)
    c = [sum(v[i] for v in vs) / len(vs) for i in range(3)]; rad = max(math.dist(v, c) for v in vs)
    lines = ['MESH %d %d' % (len(vs), len(fs))] + ['v %.17g %.17g %.17g' % tuple(v) for v in vs] + ['f %d %d %d' % f for f in fs]
    for _ in range(nq):
        r = rad * rng.choice([0.3, 0.8, 1.0, 1.5, 3.0]); p = [c[i] + rng.uniform(-r, r) for i in range(3)]
        lines.append('N %.17g %.17g %.17g' % tuple(p))
    lo = [min(v[i] for v in vs) for i in range(3)]; hi = [max(v[i] for v in vs) for i in range(3)]
    for q in range(nq):
        if kind == 'brick' and q % 4 != 3:
            # a ray exactly parallel to a coordinate axis (or with one exactly zero component), through or beside the brick
            ax = rng.randrange(3); sg = rng.choice([-1.0, 1.0]); o = [rng.uniform(lo[i] - 0.2 * (hi[i] - lo[i]), hi[i] + 0.2 * (hi[i] - lo[i])) for i in range(3)]
            o[ax] = rng.choice([lo[ax] - rng.uniform(0.1, 2), hi[ax] + rng.uniform(0.1, 2), rng.uniform(lo[ax], hi[ax])])
            d = [0.0, 0.0, 0.0]; d[ax] = sg
            if rng.random() < 0.25: d[(ax + 1) % 3] = rng.uniform(-1, 1)          # one component exactly zero
            n = math.sqrt(sum(x * x for x in d))
            lines.append('R %.17g %.17g %.17g %.17g %.17g %.17g' % tuple(o + [x / n if x else 0.0 for x in d])); continue
        o = [c[i] + rng.uniform(-2, 2) * rad for i in range(3)]
        if rng.random() < 0.7: tgt = [c[i] + rng.uniform(-0.8, 0.8) * rad for i in range(3)]
        else: tgt = [c[i] + rng.uniform(-3, 3) * rad for i in range(3)]
        d = [tgt[i] - o[i] for i in range(3)]; n = math.sqrt(sum(x * x for x in d)) or 1.0
        lines.append('R %.17g %.17g %.17g %.17g %.17g %.17g' % tuple(o + [x / n for x in d]))
    # a point cloud for OrientedBoundingBox(points) / Geo::Point::calcBoundingSphere(points)
    n = rng.choice([1, 2, 3, 4, 5, 8, 20, 40]); mode = rng.choice(['gen', 'gen', 'plane', 'line', 'dup'])
    pts = []
    a = [rng.uniform(-1, 1) for _ in range(3)]; b = [rng.uniform(-1, 1) for _ in range(3)]
    for k in range(n):
        if mode == 'gen': pts.append([rng.uniform(-2, 2) for _ in range(3)])
        elif mode == 'plane': s, t = rng.uniform(-2, 2), rng.uniform(-2, 2); pts.append([s * a[i] + t * b[i] for i in range(3)])
        elif mode == 'line': s = rng.uniform(-2, 2); pts.append([s * a[i] + 0.5 for i in range(3)])
        else: pts.append(list(pts[0]) if pts and rng.random() < 0.5 else [rng.uniform(-2, 2) for _ in range(3)])
    lines.append('P %d ' % n + ' '.join('%.17g' % x for p in pts for x in p))
    lines.append('END')
    return kind, lines

def eberly_d2(p, v1, v2, v3, fixed):
    """port of TriangleMesh::Impl::findNearestPointToFace as it is in /repo (fixed=False) and with the one-line Region 6 repair
    `(d >= 0 ? 0 : -d/a)` instead of `(e >= 0 ? 0 : -d/a)` (fixed=True); used only to ATTRIBUTE a disagreement to that line"""
    sub = lambda x, y: [x[i] - y[i] for i in range(3)]; dot = lambda x, y: sum(x[i] * y[i] for i in range(3))
    e0 = sub(v2, v1); e1 = sub(v3, v1); dl = sub(v1, p)
    a = dot(e0, e0); b = dot(e0, e1); c = dot(e1, e1); d = dot(e0, dl); e = dot(e1, dl); det = a * c - b * b
    s = b * e - c * d; t = b * d - a * e
    if s + t <= det:
        if s < 0:
            if t < 0:
                if d < 0: s = 1 if -d >= a else -d / a; t = 0
                else: s = 0; t = 0 if e >= 0 else (1 if -e >= c else -e / c)
            else: s = 0; t = 0 if e >= 0 else (1 if -e >= c else -e / c)
        elif t < 0: s = 0 if d >= 0 else (1 if -d >= a else -d / a); t = 0
        else: s /= det; t /= det
    else:
        if s < 0:
            t0 = b + d; t1 = c + e
            if t1 > t0: num = t1 - t0; den = a - 2 * b + c; s = 1 if num >= den else num / den; t = 1 - s
            else: s = 0; t = 1 if t1 <= 0 else (0 if e >= 0 else -e / c)
        elif t < 0:
            t0 = b + e; t1 = a + d
            if t1 > t0: num = t1 - t0; den = a - 2 * b + c; t = 1 if num >= den else num / den; s = 1 - t
            else: s = 1 if t1 <= 0 else (0 if (d if fixed else e) >= 0 else -d / a); t = 0
        else:
            num = c + e - b - d
            if num <= 0: s = 0
            else: den = a - 2 * b + c; s = 1 if num >= den else num / den
            t = 1 - s
    q = [v1[i] + s * e0[i] + t * e1[i] for i in range(3)]
    return dot(sub(q, p), sub(q, p))

def gen_triangles(rng, ntri, nq):
    """the per-face routine findNearestPointToFace on single triangles (as two-sided closed meshes: faces (0,1,2) and (0,2,1)) of all
    shapes - acute, right, obtuse at each vertex, needles, caps - in every vertex order, with queries in all seven Voronoi regions
    (interior, beyond each edge, beyond each vertex), in and off the plane"""
    cases = []
    for _ in range(ntri):
        shape = rng.choice(['acute', 'right', 'obtuse', 'obtuse', 'needle', 'cap', 'random'])
        if shape == 'acute': P = [[0, 0], [1, 0], [rng.uniform(0.3, 0.7), rng.uniform(0.6, 1.2)]]
        elif shape == 'right': P = [[0, 0], [rng.uniform(0.3, 2), 0], [0, rng.uniform(0.3, 2)]]
        elif shape == 'obtuse': P = [[0, 0], [1, 0], [rng.uniform(-2, -0.2), rng.uniform(0.1, 1)]]
        elif shape == 'needle': P = [[0, 0], [rng.uniform(2, 5), 0], [rng.uniform(0, 5), rng.uniform(0.02, 0.1)]]
        elif shape == 'cap': P = [[0, 0], [2, 0], [rng.uniform(0.8, 1.2), rng.uniform(0.02, 0.1)]]
        else: P = [[rng.uniform(-1, 1), rng.uniform(-1, 1)] for _ in range(3)]
        area = abs((P[1][0] - P[0][0]) * (P[2][1] - P[0][1]) - (P[2][0] - P[0][0]) * (P[1][1] - P[0][1]))
        if area < 1e-3: continue
        order = rng.sample(range(3), 3); P = [P[i] for i in order]               # every vertex gets every position
        R = rand_rot(rng); t = [rng.uniform(-1, 1) for _ in range(3)]; sc = rng.choice([0.3, 1.0, 3.0])
        V = [[sum(R[i][j] * (sc * [p[0], p[1], 0.0][j]) for j in range(3)) + t[i] for i in range(3)] for p in P]
        n = [R[i][2] for i in range(3)]
        lines = ['MESH 3 2'] + ['v %.17g %.17g %.17g' % tuple(v) for v in V] + ['f 0 1 2', 'f 0 2 1']
        for q in range(nq):
            # barycentric weights with every sign pattern that occurs: (+,+,+) interior, one negative = beyond an edge,
            # two negative = beyond a vertex
            pat = [(1, 1, 1), (-1, 1, 1), (1, -1, 1), (1, 1, -1), (-1, -1, 1), (-1, 1, -1), (1, -1, -1)][q % 7]
            w = [pat[k] * rng.uniform(0.05, 1.5) for k in range(3)]; s = sum(w)
            if abs(s) < 0.1: w[0] += 1.0; s = sum(w)
            w = [x / s for x in w]; h = rng.choice([0.0, rng.uniform(-1, 1), rng.uniform(-0.05, 0.05)])
            p = [sum(w[k] * V[k][i] for k in range(3)) + h * n[i] for i in range(3)]
            lines.append('NF %.17g %.17g %.17g' % tuple(p))
        lines.append('END'); cases.append((shape, lines))
    return cases

PERMS = [[[1, 0, 0], [0, 1, 0], [0, 0, 1]], [[0, 0, 1], [1, 0, 0], [0, 1, 0]], [[0, 1, 0], [0, 0, 1], [1, 0, 0]],
         [[-1, 0, 0], [0, -1, 0], [0, 0, 1]], [[1, 0, 0], [0, -1, 0], [0, 0, -1]], [[0, 0, -1], [-1, 0, 0], [0, 1, 0]]]     # proper rotations with exact entries
def gen_boxrays(rng, nbox, nray):
    """OrientedBoundingBox::intersectsRay alone: boxes of very different extents, exactly axis-aligned (identity or a signed axis
    permutation, so that special directions are EXACTLY zero in the box frame) or randomly rotated; rays given in the box frame and
    mapped to the world: each direction component exactly 0 in turn (and two at once), origins inside / on a face / outside in every
    slab region, rays towards and away from the box, grazing along faces"""
    lines = []; kinds = {}
    for b in range(nbox):
        exact = rng.random() < 0.7
        R = rng.choice(PERMS) if exact else rand_rot(rng)
        p = [rng.choice([0.0, 0.5, -1.0, 2.0]) for _ in range(3)] if exact else [rng.uniform(-2, 2) for _ in range(3)]
        sz = [rng.choice([0.05, 0.2, 0.2, 1.0, 1.0, 3.0, 5.0]) for _ in range(3)]
        lines.append('B ' + ' '.join('%.17g' % x for row in R for x in row) + ' %.17g %.17g %.17g %.17g %.17g %.17g' % tuple(p + sz))
        for _ in range(nray):
            def coord(k):
                c = rng.random()
                if c < 0.35: return rng.uniform(0, sz[k])                                   # inside the slab
                if c < 0.5 and exact: return rng.choice([0.0, sz[k]])                       # exactly on a face
                if c < 0.75: return -rng.uniform(0.01, 2 * max(sz))
                return sz[k] + rng.uniform(0.01, 2 * max(sz))
            o = [coord(k) for k in range(3)]
            mode = rng.choice(['axis', 'axis', 'plane', 'plane', 'generic', 'aimed', 'aimed']) if exact else rng.choice(['generic', 'aimed', 'aimed'])
            if mode == 'axis': d = [0.0, 0.0, 0.0]; d[rng.randrange(3)] = rng.choice([-1.0, 1.0])
            elif mode == 'plane': d = [rng.uniform(-1, 1) for _ in range(3)]; d[rng.randrange(3)] = 0.0
            elif mode == 'aimed': tgt = [rng.uniform(0, sz[k]) for k in range(3)]; d = [tgt[k] - o[k] for k in range(3)]; d = d if rng.random() < 0.85 else [-x for x in d]
            else: d = [rng.uniform(-1, 1) for _ in range(3)]
            if mode == 'aimed' and exact and rng.random() < 0.3: d[rng.randrange(3)] = 0.0
            if sum(x * x for x in d) < 1e-6: d = [1.0, 0.0, 0.0]
            kinds[mode + ('' if exact else ':rotated')] = kinds.get(mode + ('' if exact else ':rotated'), 0) + 1
            wo = [sum(R[i][j] * o[j] for j in range(3)) + p[i] for i in range(3)]; wd = [sum(R[i][j] * d[j] for j in range(3)) for i in range(3)]
            lines.append('Y %.17g %.17g %.17g %.17g %.17g %.17g' % tuple(wo + wd))
    return lines, kinds

def close_enough(a, b, rtol=1e-9):
    return abs(a - b) <= rtol * max(1.0, abs(a), abs(b))

def compare(ctx, cases, oc, om):
    """walk both outputs case by case; returns (#evaluations, disagreements, certificate failures, histogram)"""
    def split(o):
        out = []; cur = None
        for l in o.split('\n'):
            if l.startswith('MESH '): cur = []; out.append(cur)
            elif cur is not None and l: cur.append(l)
        return out
    ci = split(oc); mi = []
    cur = None
    for l in om.split('\n'):
        if l == 'CASE': cur = []; mi.append(cur)
        elif cur is not None and l: cur.append(l)
    dis = []; cert = []; inside_wrong = []; n = 0; hist = {'near': 0, 'near_inside': 0, 'ray_hit': 0, 'ray_miss': 0, 'tree_nodes': 0, 'boxes': 0, 'inside_flag_skipped': 0}
    for k, (kind, lines) in enumerate(cases):
        a = ci[k] if k < len(ci) else []; b = mi[k] if k < len(mi) else []
        if kind.endswith('-open'):
            # TriangleMesh documents "each edge must be shared by exactly two faces": an open mesh must be refused
            hist['open_refused'] = hist.get('open_refused', 0) + 1; n += 1
            if not any(l.startswith('BUILDFAIL') for l in a): cert.append((k, kind, 'an open mesh was accepted by the TriangleMesh constructor'))
            continue
        if not b or not b[0].startswith('CERT true true true true'):
            cert.append((k, kind, b[0] if b else 'no output'))
        hist['tree_nodes'] += sum(1 for l in a if l.startswith('T '))
        an = [l.split() for l in a if l.startswith('NEAR ')]; bn = [l.split() for l in b if l.startswith('NEAR ')]
        ar = [l.split() for l in a if l.startswith('RAY ')]; br = [l.split() for l in b if l.startswith('RAY ')]
        qs = [l for l in lines if l.startswith('N ')]; rs = [l for l in lines if l.startswith('R ')]
        if len(an) != len(bn) or len(ar) != len(br) or len(an) != len(qs): dis.append((k, kind, 'output shape', str(len(an)), str(len(bn)))); continue
        for q, x, y in zip(qs, an, bn):
            n += 1; hist['near'] += 1
            if x[1] == '-' or y[1] == '-':
                if x[1] != y[1]: dis.append((k, kind, q, ' '.join(x), ' '.join(y)))
                continue
            d2i, d2m = float(x[1]), float(y[1]); hist['near_inside'] += int(x[2])
            if not close_enough(d2i, d2m): dis.append((k, kind, q, ' '.join(x[:4]), ' '.join(y))); continue
            # the inside flag is the sign of offset.normal of the chosen face: undefined on the surface itself
            if d2m < 1e-16: hist['inside_flag_skipped'] += 1
            elif y[3] == '1':
                # nearest point strictly inside one face: the sign is unique, and must be the parity ground truth
                if x[2] != y[2] or x[2] != y[4]: dis.append((k, kind, q + ' (inside flag; nearest point interior to a face)', ' '.join(x[:4]), ' '.join(y)))
            else:
                # nearest point on an edge or vertex: several faces tie; compare the implementation with the ground truth
                hist['near_on_edge_or_vertex'] = hist.get('near_on_edge_or_vertex', 0) + 1
                if x[2] != y[4]: inside_wrong.append((k, kind, q, ' '.join(x[:4]), ' '.join(y)))
        for q, x, y in zip(rs, ar, br):
            n += 1
            if x[1] != y[1]: dis.append((k, kind, q, ' '.join(x), ' '.join(y))); continue
            if x[1] == '1':
                hist['ray_hit'] += 1
                if not close_enough(float(x[2]), float(y[2])): dis.append((k, kind, q, ' '.join(x), ' '.join(y)))
            else: hist['ray_miss'] += 1
        for tag in ('PB', 'PS'):
            hist['boxes'] += 1; n += 1
            bl = [l for l in b if l.startswith(tag + ' ')]
            if not bl or bl[0].split()[1] != 'true': cert.append((k, kind, tag + ' does not contain its points: ' + [l for l in lines if l.startswith('P ')][0][:200]))
        pb = [l.split() for l in a if l.startswith('PB ')]
        npts = int([l for l in lines if l.startswith('P ')][0].split()[1])
        if pb and int(pb[0][-1]) != npts: cert.append((k, kind, 'OrientedBoundingBox::containsPoint rejects %d of its own %d points' % (npts - int(pb[0][-1]), npts)))
    return n, dis, cert, hist, inside_wrong

def run(ctx):
    ctx.build_repo()
    ok = ctx.coq_props(PROPS)
    exe = ctx.bdir('C36_probe')
    if not ctx.cxx(os.path.join(VERIF, 'harness', 'C36_probe.cpp'), exe):
        ctx.broken.append(('harness:C36_probe', 'probe does not compile')); ctx.finish()
    exd = ctx.bdir('ex')
    if not ctx.extract(EXTRACT, exd):
        ctx.broken.append(('extraction', 'model does not extract')); ctx.finish()
    drvsrc = open(os.path.join(VERIF, 'ocaml', 'C36_drv.ml')).read().replace('#include "fops.inc"', open(os.path.join(VERIF, 'ocaml', 'fops.inc')).read())
    open(os.path.join(exd, 'drv.ml'), 'w').write(drvsrc)
    if not ctx.ocaml(exd, ['c36model.mli', 'c36model.ml', 'drv.ml'], 'drv'):
        ctx.broken.append(('ocaml', 'driver does not build')); ctx.finish()
    thorough = ctx.tier == 'thorough'
    ncase = 120 if not thorough else 1200; nq = 12 if not thorough else 25
    cases = [gen_case(ctx.rng, nq) for _ in range(ncase)]
    text = '\n'.join('\n'.join(l) for _, l in cases) + '\n'
    open(ctx.bdir('cases.txt'), 'w').write(text)
    rc, oc, ec = sh([exe], input=text, timeout=1200)
    if rc != 0 or 'DONE' not in oc: ctx.broken.append(('correspondence:probe', 'probe failed rc=%d %s' % (rc, ec[-300:])))
    rc2, om, em = sh([os.path.join(exd, 'drv')], input=oc, timeout=1800)
    if rc2 != 0 or 'DONE' not in om: ctx.broken.append(('correspondence:driver', 'model driver failed rc=%d %s' % (rc2, em[-300:])))
    n, dis, cert, hist, inside_wrong = compare(ctx, cases, oc, om)
    kinds = {}
    for k, _ in cases: kinds[k] = kinds.get(k, 0) + 1
    ctx.add_cases(n, n, [' ; '.join(cases[0][1][:3])])
    ctx.extra['meshes'] = {'cases': ncase, 'kinds': kinds, 'queries': hist}
    ctx.cov['rule'] = ('random and structured meshes (tetrahedron, box, subdivided octahedron spheres, open height-field patches, flattened slivers; perturbed, '
                       'scaled, rotated, some with faces removed), %d nearest-point queries and %d rays per mesh (points within 0.3..3 radii of the centroid, 70%% of the rays '
                       'aimed at the mesh), one point cloud (1..40 points; generic, coplanar, collinear, duplicates) per case; evaluation = one query / containment verdict; '
                       'squared distances and hit distances compared with 1e-9 relative (absolute below 1), inside flags compared when the point is off the surface' % (nq, nq))
    for k, kind, what in cert[:1]:
        ctx.broken.append(('certificate:C36', 'certificate check failed in case %d (%s): %s' % (k, kind, what)))
        ctx.report('impl:bounding-volume-or-adjacency', 'bounding volume / tree / adjacency certificate rejected by the extracted checker: %s' % what,
                   {'failing_input': cases[k][1][:60], 'what_failed': what})
    for k, kind, q, a, b in dis[:1]:
        ctx.broken.append(('correspondence:C36', 'tree query and brute force differ in case %d (%s) query [%s]: impl=%s brute=%s' % (k, kind, q, a, b)))
        mesh = [l for l in cases[k][1] if l[0] in 'Mvf']
        ctx.report('impl:tree-query-differs-from-brute-force', 'a mesh query answered through the OBB tree differs from brute force over all faces: query [%s] impl=%s brute=%s' % (q, a, b),
                   {'failing_input': mesh + [q.split(' (')[0], 'END'], 'impl': a, 'brute_force': b})
    ctx.extra['disagreements'] = len(dis); ctx.extra['certificate_failures'] = len(cert)
    # ---------------- the per-face routine findNearestPointToFace on single triangles of all shapes / vertex orders / Voronoi regions
    tcases = gen_triangles(ctx.rng, 150 if not thorough else 1500, 28)
    rct, oct_, ect = sh([exe], input='\n'.join('\n'.join(l) for _, l in tcases) + '\n', timeout=600)
    rcm2, omt, emt = sh([os.path.join(exd, 'drv')], input=oct_, timeout=600)
    it = [l.split()[1:] for l in oct_.split('\n') if l.startswith('NFACE')]; mt = [l.split()[1:] for l in omt.split('\n') if l.startswith('NFACE')]
    tq = [(shape, [x for x in lines if x[0] in 'Mvf'], l) for shape, lines in tcases for l in lines if l.startswith('NF ')]
    tdis = []
    if not (len(it) == len(mt) == len(tq)): ctx.broken.append(('correspondence:C36:per-face', 'per-face outputs have different lengths: impl %d model %d queries %d' % (len(it), len(mt), len(tq))))
    else:
        for (shape, mesh, q), x, m in zip(tq, it, mt):
            if len(x) != len(m) or any(not close_enough(float(a), float(b)) for a, b in zip(x, m)): tdis.append((shape, mesh, q, ' '.join(x), ' '.join(m)))
    ctx.add_cases(len(tq), len(tq))
    ctx.extra['per_face_nearest_point'] = {'triangles': len(tcases), 'queries': len(tq), 'disagreements': len(tdis)}
    # known finding: Region 6, branch temp1 <= temp0, tests `e >= 0` where the edge parameter depends on d: a disagreement is attributed
    # to that line iff the port of the current routine reproduces the implementation's value AND the port with `d >= 0` gives the
    # exact distance, for every face of the case
    known6 = []; rest = []
    for rec in tdis:
        shape, mesh, q, x, m = rec; x = x.split(); m = m.split()
        V = [[float(t) for t in l.split()[1:]] for l in mesh if l.startswith('v ')]; F = [[int(t) for t in l.split()[1:]] for l in mesh if l.startswith('f ')]
        P = [float(t) for t in q.split()[1:]]
        okk = len(x) == len(F) and all(close_enough(eberly_d2(P, V[f[0]], V[f[1]], V[f[2]], False), float(xi)) and close_enough(eberly_d2(P, V[f[0]], V[f[1]], V[f[2]], True), float(mi))
                                       for f, xi, mi in zip(F, x, m))
        (known6 if okk else rest).append(rec)
    ctx.extra['per_face_nearest_point']['region6_e_for_d_hits'] = len(known6)
    for shape, mesh, q, x, m in known6[:1]:
        ctx.report('impl:nearest-point-to-face-region6-tests-e-for-d', 'findNearestPointToFace Region 6 (branch temp1 <= temp0) tests e >= 0 instead of d >= 0 (%s triangle) query [%s]: squared distances per face impl=%s exact=%s' % (shape, q, x, m),
                   {'failing_input': mesh + [q, 'END'], 'impl': x, 'model': m})
    tdis = rest; ctx.extra['per_face_nearest_point']['disagreements'] = len(tdis)
    for shape, mesh, q, x, m in tdis[:1]:
        ctx.broken.append(('correspondence:C36:per-face', 'findNearestPointToFace differs from the exact closest point on the triangle (%s triangle) query [%s]: impl d2 per face=%s model=%s' % (shape, q, x, m)))
        ctx.report('impl:nearest-point-to-face-wrong', 'TriangleMesh::findNearestPointToFace differs from the exact closest point on the triangle (%s triangle, faces (0 1 2) and (0 2 1)) query [%s]: squared distances impl=%s model=%s' % (shape, q, x, m),
                   {'failing_input': mesh + [q, 'END'], 'replay_cmd': 'printf "%s\\n" | %s' % ('\\n'.join(mesh + [q, 'END']), exe), 'impl': x, 'model': m})
    # ---------------- OrientedBoundingBox::intersectsRay alone vs the extracted slab test (C36_boxray_Model.v)
    blines, bkinds = gen_boxrays(ctx.rng, 60 if not thorough else 600, 40)
    rcb, ocb, ecb = sh([exe], input='\n'.join(blines) + '\n', timeout=600)
    rcm, omb, emb = sh([os.path.join(exd, 'drv')], input=ocb, timeout=600)
    ib = [l.split() for l in ocb.split('\n') if l.startswith('BR ')]; mb = [l.split() for l in omb.split('\n') if l.startswith('BR ')]
    ys = [l for l in blines if l.startswith('Y ')]; bx = []; cur = None
    for l in blines:
        if l.startswith('B '): cur = l
        else: bx.append(cur)
    bdis = []
    if not (len(ib) == len(mb) == len(ys)): ctx.broken.append(('correspondence:C36:boxray', 'box/ray outputs have different lengths: impl %d model %d rays %d' % (len(ib), len(mb), len(ys))))
    else:
        for y, b, x, m in zip(ys, bx, ib, mb):
            if x[1] != m[1] or (x[1] == '1' and not close_enough(float(x[2]), float(m[2]))): bdis.append((b, y, ' '.join(x), ' '.join(m)))
    ctx.add_cases(len(ys), len(set(ys)))
    ctx.extra['box_ray'] = {'boxes': sum(1 for l in blines if l.startswith('B ')), 'rays': len(ys), 'hits': sum(1 for x in ib if x[1] == '1'), 'kinds': dict(sorted(bkinds.items())), 'disagreements': len(bdis)}
    for b, y, x, m in bdis[:1]:
        ctx.broken.append(('correspondence:C36:boxray', 'OrientedBoundingBox::intersectsRay differs from the slab-test model: box [%s] ray [%s] impl=%s model=%s' % (b, y, x, m)))
        ctx.report('impl:box-ray-test-differs', 'OrientedBoundingBox::intersectsRay differs from the proved slab test: box [%s] ray [%s]: impl=%s model=%s' % (b, y, x, m),
                   {'failing_input': [b, y], 'replay_cmd': 'printf "%s\\n%s\\n" | %s' % (b, y, exe), 'impl': x, 'model': m})
    # known finding: the inside flag of findNearestPoint when the nearest point is on an edge or a vertex
    ctx.extra['inside_flag_vs_parity'] = {'queries_with_nearest_point_on_edge_or_vertex': hist.get('near_on_edge_or_vertex', 0), 'wrong_inside_flags': len(inside_wrong)}
    WIT = ['MESH 4 4', 'v -0.96765695972614352 0.913321926381917 0.84708999971589294', 'v 0.33632455537193962 0.7178783991529113 1.230367864688529',
           'v -0.98030440086802917 1.6140657828999125 1.3575609961285262', 'v -1.5284757177243753 -0.20599719717688392 2.1484222061403608',
           'f 0 2 1', 'f 0 1 3', 'f 0 3 2', 'f 1 2 3', 'N 3 -1.5 3', 'END']
    rcw, ow, ew = sh([exe], input='\n'.join(WIT) + '\n', timeout=60)
    wl = [l.split() for l in ow.split('\n') if l.startswith('NEAR ')]
    ctx.extra['inside_flag_witness'] = ' '.join(wl[0][:4]) if wl else 'no output'
    if (wl and wl[0][2] == '1') or inside_wrong:
        first = inside_wrong[0] if inside_wrong else (0, 'tetra', WIT[-2], ' '.join(wl[0][:4]), 'parity: outside')
        ctx.report('impl:inside-flag-wrong-at-edge-or-vertex',
                   'findNearestPoint reports inside=%s for a point whose ray parity says the opposite (nearest point on an edge/vertex): query [%s] impl=%s model(d2, angle-rule inside, interior, parity inside)=%s' % (first[3].split()[2], first[2], first[3], first[4]),
                   {'failing_input': WIT, 'witness_output': ' '.join(wl[0]) if wl else '', 'random_cases_with_wrong_flag': len(inside_wrong)})
    ctx.assumptions += ['theorems over the reals; the float runs use the tolerance 1e-9 (checker slack 1e-9 on box/sphere containment; OrientedBoundingBox pads its extent by max(1e-5 size, 1e-10))',
                        'the search theorem is about an abstract tree with exact comparisons; the implementation breaks ties within 100 eps by the angle to the face normal (mirrored in the brute-force model only for the choice of the face, hence of the inside flag)',
                        'not decided: minimality of bounding spheres/boxes, smooth (interpolated-normal) meshes, non-mesh shapes']
    C36_io.part(ctx, gen_mesh)          # file formats: PolygonalMesh loaders vs the extracted readers
    ctx.finish()
