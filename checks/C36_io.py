"""C36, file-format part (called from checks/C36.py): "meshes loaded from OBJ, VTP or STL files ... preserve vertices and faces".

Model: coq/C36/C36_io_Model.v (binary STL reader byte by byte incl. the ignored attribute word, vertex merging, ASCII STL and OBJ
line grammars); theorems: coq/Props/Properties_C36_io.v.  Tie on every run: this module WRITES mesh files - binary STL with zero,
small, colour (0x8000|rgb) and random attribute words, odd headers (also ones starting with "solid"), trailing bytes, truncations;
ASCII STL in the spellings the reader accepts; OBJ with v/vt/vn records, i, i/t, i/t/n, i//n and negative indices, continuation lines;
VTP - loads them with PolygonalMesh::loadFile / loadStlFile (harness/C36_io.cpp) and compares vertices and faces with the result of
the EXTRACTED readers on the same bytes / token lines: exact (bit patterns) for binary STL, 1e-15 relative for the text formats
(text -> double is libc's on the one side, Python's float() on the other).  simbody has no mesh writers, so there is no
save-then-reload round trip to check."""
import os, struct, math, shutil
from vlib import *

EXTRACT = """From Coq Require Import Extraction ExtrOcamlBasic.
Require Import C36_io_Model.
Extraction "c36io.ml" load_stl_binary parse_stl merge parse_ascii parse_obj serialize.
"""
PROPS = ['Props/Properties_C36_io.v']

def f32(x):
    y = struct.unpack('<f', struct.pack('<f', x))[0]
    return 0.0 if y == 0 else y

def io_mesh(rng, gen_mesh):
    """a closed or open triangle mesh with binary32 coordinates; distinct vertices differ by > 1e-3 in some coordinate (the STL
    reader merges vertices within ~1e-6), equal ones are bit-identical"""
    while True:
        kind, vs, fs = gen_mesh(rng)
        if rng.random() < 0.3:                                  # axis-aligned integer-ish coordinates: many shared coordinate values
            vs = [[round(c * 2) / 2 for c in v] for v in vs]
        vs = [[f32(c) for c in v] for v in vs]
        ok = all(max(abs(a[i] - b[i]) for i in range(3)) > 1e-3 or a == b for k, a in enumerate(vs) for b in vs[:k])
        if ok and max(abs(c) for v in vs for c in v) < 1e4: return kind, vs, [list(f) for f in fs]

def normal(vs, f):
    a, b, c = vs[f[0]], vs[f[1]], vs[f[2]]
    u = [b[i] - a[i] for i in range(3)]; v = [c[i] - a[i] for i in range(3)]
    n = [u[1] * v[2] - u[2] * v[1], u[2] * v[0] - u[0] * v[2], u[0] * v[1] - u[1] * v[0]]
    l = math.sqrt(sum(x * x for x in n)) or 1.0
    return [x / l for x in n]

# ---------------------------------------------------------------------------------------------- writers
def write_binary_stl(path, rng, vs, fs, attr_mode, header_mode, tail=0, truncate=None, count_delta=0):
    if header_mode == 'solid': hdr = b'solid binary file that starts like an ascii one'
    elif header_mode == 'zero': hdr = b''
    else: hdr = bytes(rng.choice(b'ABCDEFGHIJKLMNOPQRSTUVWXYZ abcdefghijklmnopqrstuvwxyz0123456789-_') for _ in range(rng.randint(0, 80)))
    out = bytearray(hdr.ljust(80, b'\0')[:80]) + struct.pack('<I', len(fs) + count_delta)
    attrs = []
    for k, f in enumerate(fs):
        n = normal(vs, f)
        out += struct.pack('<3f', *n)
        for i in f[:3]: out += struct.pack('<3f', *vs[i])
        a = {'zero': 0, 'small': rng.randint(1, 40), 'colour': 0x8000 | rng.randrange(0x8000), 'random': rng.randrange(65536),
             'one-nonzero': (rng.randint(1, 65535) if k == len(fs) // 2 else 0)}[attr_mode]
        attrs.append(a); out += struct.pack('<H', a)
    out += bytes(rng.randrange(256) for _ in range(tail))
    if truncate is not None: out = out[:truncate]
    open(path, 'wb').write(bytes(out))
    return attrs

def num(rng, x):
    return rng.choice(['%.17g', '%.9g', '%r']) % x if rng.random() < 0.9 else '%.8e' % x    # all exact for binary32 values

def write_ascii_stl(path, rng, vs, faces, style, defect=None):
    """faces: lists of >= 3 vertex indices.  style: canonical | joined | bare (no outer loop) | noisy (comments, colour, case)"""
    L = []
    vtok = [tuple(num(rng, x) for x in v) for v in vs]      # one spelling per vertex: equal vertices are equal doubles (the reader merges within ~1e-6 anyway)
    up = (lambda s: s.upper()) if style == 'noisy' and rng.random() < 0.5 else (lambda s: s)
    L.append(up('solid') + ' ' + rng.choice(['', 'name', 'a b c']))
    for k, f in enumerate(faces):
        n = normal(vs, f)
        if style == 'noisy' and rng.random() < 0.3: L += ['# a comment', '', '   ! another', '$ third']
        if style == 'noisy' and rng.random() < 0.3: L.append('color 1 0.5 0')
        if style == 'joined': L.append('facetnormal %s %s %s' % tuple(num(rng, x) for x in n))
        else: L.append('  ' + up('facet') + ' ' + up('normal') + ' %s %s %s' % tuple(num(rng, x) for x in n))
        outer = style != 'bare'
        if outer: L.append('outerloop' if style == 'joined' else '    ' + up('outer loop'))
        vlist = f if not (defect == 'two-vertices' and k == len(faces) // 2) else f[:2]
        for i in vlist: L.append('\t  ' + up('vertex') + '  %s %s\t%s  ' % vtok[i])
        if outer and not (defect == 'no-endloop' and k == len(faces) // 2): L.append('    ' + up('endloop'))
        if not (defect == 'no-endfacet' and k == len(faces) // 2): L.append('  ' + up('endfacet'))
        if defect == 'eof-in-facet' and k == len(faces) // 2: L = L[:-2]; break
    else:
        L.append(up('endsolid') + ' name')
        if style == 'noisy': L += ['trailing garbage that is ignored', 'facet']
    open(path, 'w').write('\n'.join(L) + '\n')

def tokenize_ascii(path):
    """STLFile::getSignificantLine: trim, skip blank and #/!/$ lines, lower-case, first word = keyword; numbers on the rest -> ids"""
    ids = {}; vals = []; out = []
    for line in open(path).read().split('\n'):
        t = line.strip()
        if not t or t[0] in '#!$': continue
        w = t.lower().split()
        nums = []
        for x in w[1:]:
            try: v = float(x)
            except ValueError: continue
            if v not in ids: ids[v] = len(vals); vals.append(v)
            nums.append(ids[v])
        out.append(w[0] + ''.join(' %d' % i for i in nums))
    return out, vals

def write_obj(path, rng, vs, faces, style):
    L = ['# obj file', 'o thing']; ids = {}; vals = []; tl = []
    def nid(v):
        if v not in ids: ids[v] = len(vals); vals.append(v)
        return ids[v]
    # vertices are interleaved with faces when style == 'interleaved' (negative indices then count from the current end)
    emitted = 0; pending = list(range(len(vs)))
    def emit_v(i):
        t = [num(rng, x) for x in vs[i]]
        L.append('v ' + ' '.join(t)); tl.append('v %d %d %d' % tuple(nid(float(x)) for x in t))
        if style in ('vtn', 'mixed'): L.append('vn 0 0 1'); L.append('vt 0.5 0.5'); tl.append('o'); tl.append('o')
    order = []
    for f in faces:
        need = max(f) + 1
        while emitted < need if style == 'interleaved' else emitted < len(vs): emit_v(emitted); emitted += 1
        toks = []; ttoks = []
        for i in f:
            neg = style in ('negative', 'interleaved') and rng.random() < 0.5
            ix = i - emitted if neg else i + 1
            form = {'plain': '%d', 'negative': '%d', 'interleaved': '%d', 'vtn': '%d/1/1', 'mixed': rng.choice(['%d', '%d/1', '%d//1', '%d/1/1'])}[style]
            toks.append(form % ix); ttoks.append(str(ix))
        if style == 'mixed' and rng.random() < 0.2 and len(toks) > 2:
            L.append('f ' + ' '.join(toks[:2]) + ' \\'); L.append(' '.join(toks[2:]))          # continuation line
        else: L.append('f ' + ' '.join(toks))
        tl.append('f ' + ' '.join(ttoks))
    while emitted < len(vs): emit_v(emitted); emitted += 1
    L.append('g group'); tl.append('o')
    open(path, 'w').write('\n'.join(L) + '\n')
    return tl, vals

def write_vtp(path, rng, vs, faces):
    toks = [[num(rng, x) for x in v] for v in vs]
    conn = ' '.join(str(i) for f in faces for i in f); offs = []; s = 0
    for f in faces: s += len(f); offs.append(s)
    open(path, 'w').write('''<?xml version="1.0"?>
<VTKFile type="PolyData" version="0.1" byte_order="LittleEndian">
  <PolyData>
    <Piece NumberOfPoints="%d" NumberOfVerts="0" NumberOfLines="0" NumberOfStrips="0" NumberOfPolys="%d">
      <Points>
        <DataArray type="Float32" NumberOfComponents="3" format="ascii">
          %s
        </DataArray>
      </Points>
      <Polys>
        <DataArray type="Int32" Name="connectivity" format="ascii">%s</DataArray>
        <DataArray type="Int32" Name="offsets" format="ascii">%s</DataArray>
      </Polys>
    </Piece>
  </PolyData>
</VTKFile>
''' % (len(vs), len(faces), '\n          '.join(' '.join(t) for t in toks), conn, ' '.join(str(o) for o in offs)))
    return [[float(x) for x in t] for t in toks]

# ---------------------------------------------------------------------------------------------- comparison
def parse_blocks(out, key):
    blocks = []; cur = None
    for l in out.split('\n'):
        if l.startswith(key): cur = []; blocks.append(cur)
        elif cur is not None and l and l != 'DONE': cur.append(l)
    return blocks

def same_real(a, b): return a == b or abs(a - b) <= 1e-15 * max(abs(a), abs(b))

def part(ctx, gen_mesh):
    thorough = ctx.tier == 'thorough'
    ok = ctx.coq_props(PROPS)
    exe = ctx.bdir('C36_io')
    if not ctx.cxx(os.path.join(VERIF, 'harness', 'C36_io.cpp'), exe):
        ctx.broken.append(('harness:C36_io', 'io harness does not compile')); return
    exd = ctx.bdir('exio')
    if not ctx.extract(EXTRACT, exd):
        ctx.broken.append(('extraction:C36_io', 'io model does not extract')); return
    shutil.copy(os.path.join(VERIF, 'ocaml', 'C36_io_drv.ml'), exd)
    if not ctx.ocaml(exd, ['c36io.mli', 'c36io.ml', 'C36_io_drv.ml'], 'drv'):
        ctx.broken.append(('ocaml:C36_io', 'io driver does not build')); return
    d = ctx.bdir('io'); shutil.rmtree(d, ignore_errors=True); os.makedirs(d)
    files = []         # (path, kind, driver command lines, expectation data)
    nmesh = 40 if not thorough else 400
    hist = {}
    def note(k): hist[k] = hist.get(k, 0) + 1
    for m in range(nmesh):
        kind, vs, fs = io_mesh(ctx.rng, gen_mesh)
        if len(fs) > 40: fs = fs[:40]                  # file formats do not need closed meshes
        # polygons with more than three vertices for the formats that allow them
        polys = [list(f) for f in fs]
        if ctx.rng.random() < 0.5:
            for _ in range(ctx.rng.randint(1, 3)): polys.append([ctx.rng.randrange(len(vs)) for _ in range(ctx.rng.randint(4, 6))])
            polys = [p for p in polys if len(set(p)) == len(p)] or polys
        # --- binary STL
        for attr_mode in ['zero', ctx.rng.choice(['small', 'one-nonzero']), ctx.rng.choice(['colour', 'random'])]:
            p = os.path.join(d, 'm%d_%s.stl' % (m, attr_mode))
            hm = ctx.rng.choice(['text', 'text', 'zero', 'solid'])
            write_binary_stl(p, ctx.rng, vs, fs, attr_mode, hm, tail=ctx.rng.choice([0, 0, 1, 7, 50]))
            files.append((p, 'bin', ['BIN ' + p], None)); note('binary-stl:' + attr_mode); note('binary-header:' + hm)
        if ctx.rng.random() < 0.4:                     # damaged files: must be refused by both sides
            p = os.path.join(d, 'm%d_trunc.stl' % m); full = 84 + 50 * len(fs)
            if ctx.rng.random() < 0.5: write_binary_stl(p, ctx.rng, vs, fs, 'zero', 'text', truncate=ctx.rng.choice([full - 1, full - 2, full - 3, full - 50, 84 + 25, 83, 40]))
            else: write_binary_stl(p, ctx.rng, vs, fs, 'zero', 'text', count_delta=ctx.rng.randint(1, 3))
            files.append((p, 'bin', ['BIN ' + p], None)); note('binary-stl:damaged')
        # --- ASCII STL
        style = ctx.rng.choice(['canonical', 'joined', 'bare', 'noisy']); defect = ctx.rng.choice([None] * 5 + ['no-endfacet', 'no-endloop', 'eof-in-facet'])
        if defect == 'no-endloop' and style == 'bare': defect = None
        p = os.path.join(d, 'm%d_ascii.%s' % (m, ctx.rng.choice(['stl', 'stla', 'STL'])))
        write_ascii_stl(p, ctx.rng, vs, polys, style, defect)
        tl, vals = tokenize_ascii(p)
        files.append((p, 'asc', ['ASC %d' % len(tl)] + tl, vals)); note('ascii-stl:' + style + (':' + defect if defect else ''))
        # --- OBJ
        style = ctx.rng.choice(['plain', 'negative', 'interleaved', 'vtn', 'mixed'])
        p = os.path.join(d, 'm%d.obj' % m)
        tl, vals = write_obj(p, ctx.rng, vs, polys, style)
        files.append((p, 'obj', ['OBJ %d' % len(tl)] + tl, vals)); note('obj:' + style)
        # --- VTP (no model of the XML reader: compared with what was written)
        p = os.path.join(d, 'm%d.vtp' % m)
        written = write_vtp(p, ctx.rng, vs, polys)
        files.append((p, 'vtp', [], (written, polys))); note('vtp')
    # --- regression cases of the defect fixed by c5f220f3 (getSignificantLine at end of file; found by this check): must load as the model says
    WFACET = 'facet normal 0 0 1\nouter loop\nvertex 0 0 0\nvertex 1 0 0\nvertex 0 1 0\nendloop\nendfacet'
    for name, text in (('w_eof_newline.stl', 'solid a\n' + WFACET + '\n'),                 # no endsolid, final newline: EOF is allowed after 2 lines
                       ('w_eof_lastline.stl', 'solid a\n' + WFACET)):                      # last line without newline
        p = os.path.join(d, name); open(p, 'w').write(text)
        tl, vals = tokenize_ascii(p); files.append((p, 'asc', ['ASC %d' % len(tl)] + tl, vals)); note('ascii-stl:eof-witness')
    p = os.path.join(d, 'w_solid_binary_final_newline.stl')
    write_binary_stl(p, ctx.rng, [[0.0, 0.0, 0.0], [1.0, 0.0, 0.0], [0.0, 1.0, 0.0]], [[0, 1, 2]], 'zero', 'solid'); open(p, 'ab').write(b'\n')
    files.append((p, 'bin', ['BIN ' + p], None)); note('binary-stl:eof-witness')
    rc, oc, ec = sh([exe], input='\n'.join(f[0] for f in files) + '\n', timeout=1200)
    if rc != 0 or 'DONE' not in oc: ctx.broken.append(('correspondence:C36io:harness', 'io harness failed rc=%d %s' % (rc, ec[-300:])))
    rc2, om, em = sh([os.path.join(exd, 'drv')], input='\n'.join(l for f in files for l in f[2]) + '\n', timeout=1800)
    if rc2 != 0 or 'DONE' not in om: ctx.broken.append(('correspondence:C36io:driver', 'io driver failed rc=%d %s' % (rc2, em[-300:])))
    ib = parse_blocks(oc, 'FILE '); mb = []
    cur = None
    for l in om.split('\n'):
        if l.startswith('NV ') or l == 'THROW': cur = [l]; mb.append(cur)
        elif cur is not None and l and l != 'DONE': cur.append(l)
    dis = []; eof_known = []; k = 0; n = 0; throws = 0
    for (p, kind, cmds, data), a in zip(files, ib):
        n += 1
        a_throw = bool(a) and a[0].startswith('THROW')
        av = [l for l in a if l.startswith('V ')]; af = [l[1:].split() for l in a if l.startswith('F')]
        if kind == 'vtp':
            vs, polys = data
            good = (not a_throw) and len(av) == len(vs) and af == [[str(i) for i in f] for f in polys] and \
                all(same_real(float(x), y) for l, v in zip(av, vs) for x, y in zip(l.split()[1:4], v))
            if not good: dis.append((p, kind, (a[:3] + ['...'])[:4], 'as written: %d vertices, %d faces' % (len(vs), len(polys))))
            continue
        b = mb[k] if k < len(mb) else ['no output']; k += 1
        b_throw = b[0] == 'THROW'
        if a_throw or b_throw:
            throws += 1
            if a_throw != b_throw:
                raw = open(p, 'rb').read()
                # the defect fixed by c5f220f3 (the line reader mistook "no more lines" for a read error when the file ends with a
                # newline, and dropped a last line without newline): a recurrence is reported under its own key, which is no longer
                # a known finding, i.e. as a VIOLATION
                if a_throw and kind in ('asc', 'bin') and (('error while reading file' in a[0] and raw.endswith(b'\n')) or
                                                            ('unexpected end of file' in a[0] and not raw.endswith(b'\n'))):
                    eof_known.append((p, kind, a[:1], b[:1]))
                else: dis.append((p, kind, a[:1], b[:1]))
            continue
        bv = [l.split()[1:] for l in b if l.startswith('V ')]; bf = [l[1:].split() for l in b if l.startswith('F')]
        good = a[0] == b[0] and af == bf and len(av) == len(bv)
        if good and kind == 'bin':
            good = all(l.split('|')[1].split() == v and l.rstrip().endswith('| 1') for l, v in zip(av, bv))
        elif good:
            good = all(same_real(float(x), data[int(i)]) for l, v in zip(av, bv) for x, i in zip(l.split()[1:4], v))
        if not good: dis.append((p, kind, a[:4], b[:4]))
    ctx.add_cases(n, n, ['%s' % os.path.basename(files[0][0])])
    ctx.extra['mesh_files'] = {'files': n, 'histogram': dict(sorted(hist.items())), 'refused_by_both_sides': throws, 'disagreements': len(dis)}
    ctx.cov['rule'] = (ctx.cov.get('rule') or '') + ' || file formats: %d meshes written as binary STL (attribute words zero / small / one non-zero / colour / random; text, zero and "solid" headers; ' \
        'trailing bytes; truncated or over-counted files), ASCII STL (canonical, facetnormal/outerloop, without loops, with comments/colour/upper case; defective), OBJ (plain, negative and ' \
        'interleaved indices, i/t/n forms, continuation lines) and VTP; evaluation = one file loaded and compared with the extracted reader (VTP: with what was written)' % nmesh
    ctx.extra['mesh_files']['stl_reader_eof_handling_hits'] = [os.path.basename(x[0]) for x in eof_known]
    for p, kind, a, b in eof_known[:1]:
        ctx.report('impl:stl-reader-eof-handling', 'REGRESSION of fix c5f220f3: the STL loader refuses a file the format model accepts, at end of file (%s): %s' % (os.path.basename(p), a[0][:300]),
                   {'failing_input': p, 'impl': a, 'model': b})
    for p, kind, a, b in dis[:1]:
        ctx.broken.append(('correspondence:C36io', 'PolygonalMesh loader and extracted reader differ on %s (%s): impl=%s model=%s' % (os.path.basename(p), kind, a, b)))
        keep = os.path.join(VERIF, 'replay', 'C36', os.path.basename(p)); os.makedirs(os.path.dirname(keep), exist_ok=True); shutil.copy(p, keep)
        ctx.report('impl:mesh-file-not-preserved:' + kind, 'loading a mesh file does not give the vertices/faces it contains (%s, %s): loader %s, format model %s' % (os.path.basename(p), kind, a, b),
                   {'failing_input': keep, 'replay_cmd': 'echo %s | %s' % (keep, exe), 'impl': a, 'model': b})
    ctx.assumptions += ['file formats: text -> double conversion is outside the model (number tokens are opaque ids; Python float() vs the C++ stream extraction, 1e-15); tokenisation of text lines (trim, comment skipping, lower-casing, splitting i/t/n) is done by the check as the reader documents it',
                        'binary STL model merges bit-identical vertices; the reader merges within NTraits<float>::getSignificant() per coordinate: generated vertices are bit-identical or differ by more than 1e-3, never -0/NaN',
                        'simbody has no mesh writers: only the load direction of the round trip exists; the VTP (XML) reader has no model and is compared with what was written']
