"""C37 Compliant contact forces follow their documented laws (DESIGN 5 C37, 7.5, 7.20).

Model: coq/C37/C37_Model.v (hand-written from HuntCrossleyForce.cpp, SmoothSphereHalfSpaceForce.cpp,
ExponentialSpringForce.cpp, CompliantContactSubsystem.cpp) + Gen/c37_gen.v (step5/hollars regenerated from
CompliantContactSubsystem.cpp).  Theorems: coq/Props/Properties_C37.v.
Tie, checked on every run:
  (T) translator: step5, step5d, hollars of CompliantContactSubsystem.cpp -> Gen/c37_gen.v, validated against the
      compiled functions;
  (C) correspondence: the extracted model (float NumOps, std::pow = Float.pow) against the compiled force elements:
      HC  HuntCrossleyForce through GeneralContactSubsystem, 1-5 spheres (Free bodies, offset geometry) on a half space that
          sits on Ground or on a moving Free body, sphere/sphere contacts, an optional triangle mesh (non-point contacts);
          single and multiple simultaneous contacts with mixed approaching / separating (clipped) velocities;
          the model gets the contacts as reported by the detector and the body poses/velocities from the State and must
          reproduce every rigid-body force of realize(Dynamics) and the potential energy;
      SS  SmoothSphereHalfSpaceForce (both bodies' forces, pe);   ES  ExponentialSpringForce (all reported parts);
      HZ  CompliantContactSubsystem Hertz circular ContactForce per contact;  BK  brick/half-space penalty (resultant, details);
      EF  ElasticFoundationForce (checks/C37_ef.py): mesh sphere on half space / analytic sphere / mesh with and without
          parameters (mesh-on-mesh with both parameter sets = areaScale 1/2); forces and PE; per-face geometry from the implementation;
          plus the implementation-only finite-difference predicate force = -grad PE on static scenes;
  (A) action and reaction (C37_ar_*): rigid body forces of CompliantContactSubsystem scenes (Hertz, brick/half-space, mesh spheres with
      a patch moment; plate on Ground or moving) = extracted application step applied to the reported ContactForces; and on every scene
      of every element the net force and net moment over all bodies incl. Ground must vanish (implementation alone);
  (S) failing-input search on the implementation alone (always run on the HC cases; more on break): sign of the normal
      component, documented magnitude, tangent plane, friction opposing slip and below the limit.
Known finding replayed on the real code: SmoothSphereHalfSpaceForce's normal force is attractive for separating speeds
just above 2/(3c) (theorem C37_ss_normal_never_attractive_refuted / C37_ss_normal_attractive_iff)."""
import os, sys, math
from vlib import *
import tvgen
import C37_ef

PROPS = ['Props/Properties_C37.v', 'Props/Properties_C37_ef.v', 'Props/Properties_C37_ar.v']
EXTRACT = '''From Coq Require Import Extraction ExtrOcamlBasic.
Require Import Num Vec c37_gen C37_Model C37_ar_Model.
Extraction "c37model.ml" cc_bodyForces net_wrench hc_calcForce hc_force c_wrench ss_calcForce ss_contact_force es_normal es_friction es_force_P hz_force bk_vertex bk_loop stribeck hollars_mu v3_setz0.
'''

# ------------------------------------------------------------------ small vector helpers (generator side only)
def rotxyz(a):
    cx, sx, cy, sy, cz, sz = math.cos(a[0]), math.sin(a[0]), math.cos(a[1]), math.sin(a[1]), math.cos(a[2]), math.sin(a[2])
    Rx = [[1, 0, 0], [0, cx, -sx], [0, sx, cx]]; Ry = [[cy, 0, sy], [0, 1, 0], [-sy, 0, cy]]; Rz = [[cz, -sz, 0], [sz, cz, 0], [0, 0, 1]]
    return mm(mm(Rx, Ry), Rz)
def mm(A, B): return [[sum(A[i][k] * B[k][j] for k in range(3)) for j in range(3)] for i in range(3)]
def mv(A, v): return [sum(A[i][k] * v[k] for k in range(3)) for i in range(3)]
def mtv(A, v): return [sum(A[k][i] * v[k] for k in range(3)) for i in range(3)]
def add(a, b): return [x + y for x, y in zip(a, b)]
def sub(a, b): return [x - y for x, y in zip(a, b)]
def sc(s, a): return [s * x for x in a]
def dot(a, b): return sum(x * y for x, y in zip(a, b))
def cross(a, b): return [a[1] * b[2] - a[2] * b[1], a[2] * b[0] - a[0] * b[2], a[0] * b[1] - a[1] * b[0]]
def norm(a): return math.sqrt(dot(a, a))
def U(r, lo, hi): return r.uniform(lo, hi)
def logU(r, lo, hi): return math.exp(r.uniform(math.log(lo), math.log(hi)))
def vec(r, s): return [r.uniform(-s, s) for _ in range(3)]
def unit(r):
    while True:
        v = vec(r, 1.0); n = norm(v)
        if 0.2 < n <= 1.0: return sc(1 / n, v)
def perp(r, n):
    while True:
        t = cross(n, unit(r)); l = norm(t)
        if l > 0.2: return sc(1 / l, t)
def fmt(xs): return ' '.join(hexf(x) if isinstance(x, float) else str(x) for x in xs)
def secs(line): return [parse_floats(s) for s in line.split('|')]

def friction_params(r, ordered=True):
    m = r.random()
    if m < 0.15: return [0.0, 0.0, 0.0]
    us = U(r, 0.05, 1.5); ud = us * U(r, 0.0, 1.0) if r.random() > 0.15 else us
    if not ordered and r.random() < 0.3: us, ud = ud * 0.5, us
    uv = 0.0 if r.random() < 0.4 else U(r, 0.0, 0.5)
    if r.random() < 0.1: ud = 0.0
    return [us, ud, uv]
def rand_pose(r, s=1.0):
    """angles, p, w, v, pad"""
    return [vec(r, 1.2), vec(r, s), vec(r, 1.0), vec(r, 1.0)]

# ------------------------------------------------------------------ spheres on a half space (HC and HZ share the scene)
def gen_scene(r, kind, isolated=False, ordered=None):
    """-> (input numbers, info).  Half space = x > 0 of frame F = X_GB * hsFrame."""
    nS = r.choice([1, 1, 2, 3, 4, 5]) if not isolated else r.choice([1, 2, 3, 4])
    vt = r.choice([0.01, 0.1, 1.0]) * U(r, 0.5, 2.0)
    onGround = r.random() < 0.5
    hang, hp, hw, hv = rand_pose(r)
    if onGround: hang, hp, hw, hv = [0.0] * 3, [0.0] * 3, [0.0] * 3, [0.0] * 3
    if ordered is None: ordered = (kind == 'HZ') or r.random() < 0.8
    hE = logU(r, 0.5, 1e4); hc = 0.0 if r.random() < 0.15 else U(r, 0.05, 2.0)
    hpar = [hE, hc] + friction_params(r, ordered)
    fang, fp = vec(r, 1.5), vec(r, 0.5)
    R_GB = rotxyz(hang); R_BF = rotxyz(fang); R_GF = mm(R_GB, R_BF); p_GF = add(hp, mv(R_GB, fp))
    xF = [R_GF[i][0] for i in range(3)]; yF = [R_GF[i][1] for i in range(3)]; zF = [R_GF[i][2] for i in range(3)]
    nums = ([nS] if kind != 'BK' else []) + [vt, 1 if onGround else 0] + hang + hp + hw + hv + [0.0] * 3 + hpar + fang + fp
    useMesh = (kind == 'HC') and (not isolated) and r.random() < 0.2
    if kind == 'HC': nums += [1 if useMesh else 0]
    info = {'nS': nS, 'vt': vt, 'hpar': hpar, 'spar': [], 'useMesh': useMesh, 'cats': []}
    prev = None
    for i in range(nS):
        radius = U(r, 0.2, 1.0)
        E = logU(r, 0.5, 1e4); c = 0.0 if r.random() < 0.15 else U(r, 0.05, 2.0)
        par = [E, c] + friction_params(r, ordered)
        off = [0.0] * 3 if r.random() < 0.5 else vec(r, 0.3)
        ang = vec(r, 1.2); R = rotxyz(ang)
        m = r.random()
        if prev is not None and not isolated and r.random() < 0.3:
            # overlap the previous sphere (sphere/sphere contact), wherever that is relative to the plane
            pc, pr_ = prev; d = U(r, 0.01, 0.3) * min(radius, pr_)
            centre = add(pc, sc(radius + pr_ - d, unit(r))); cat = 'pair'
        else:
            if m < 0.65: depth = U(r, 0.01, 0.5) * radius; cat = 'pen'
            elif m < 0.8: depth = logU(r, 1e-9, 1e-4); cat = 'graze'
            else: depth = -U(r, 0.01, 0.5); cat = 'sep'
            centre = add(p_GF, add(sc(-(radius - depth), xF), add(sc(3.0 * i + U(r, -0.3, 0.3), yF), sc(U(r, -0.3, 0.3), zF))))
        prev = (centre, radius)
        p = sub(centre, mv(R, off))
        # velocity: the half-space body's material point under the sphere plus a chosen relative velocity
        pt = add(centre, sc(radius, xF))
        vh = add(hv, cross(hw, sub(pt, hp)))
        cmin = min([x for x in (c, hc) if x > 0] or [1.0])
        m = r.random()
        if m < 0.2: a = 0.0; vc = 'rest'
        elif m < 0.5: a = U(r, 0.0, 2.0); vc = 'approach'
        elif m < 0.7: a = -U(r, 0.0, 0.6) * (2.0 / (3.0 * max(c, hc, 0.05))); vc = 'rebound'
        else: a = -U(r, 1.05, 4.0) * (2.0 / (3.0 * cmin)); vc = 'yank'
        m = r.random()
        if m < 0.2: t = 0.0
        elif m < 0.5: t = vt * logU(r, 1e-3, 0.9)
        elif m < 0.7: t = vt * U(r, 0.9, 1.1)
        else: t = vt * logU(r, 1.1, 50.0)
        w = [0.0] * 3 if (r.random() < 0.5 or (a == 0.0 and t == 0.0 and r.random() < 0.8)) else vec(r, 1.5)
        vcen = add(vh, add(sc(a, xF), sc(t, perp(r, xF) if t else [0.0] * 3)))
        if vc == 'rest' and t == 0.0 and onGround: vcen = [0.0] * 3
        v = sub(vcen, cross(w, mv(R, off)))
        nums += [radius] + par + off + ang + p + w + v + [0.0] * 3
        info['spar'].append(par); info['cats'].append(cat + '/' + vc)
    return nums, info

def hc_model_line(info, out):
    """probe output (sections) + known parameters -> driver line"""
    b, sf, cs = out[0][1:], out[1], out[2]
    nb = int(b[0]); nsurf = int(sf[0])
    pars = [p for p in info['spar']] + [info['hpar']] + ([[1.0, 0.0, 0.0, 0.0, 0.0]] if info['useMesh'] else [])
    toks = ['HC', info['vt'], nsurf]
    for i in range(nsurf):
        E, c, us, ud, uv = pars[i]
        toks += [int(sf[1 + i]), E ** (2.0 / 3.0), c, us, ud, uv]
    toks += [nb] + b[1:1 + 9 * nb] + [int(cs[0])]
    for i in range(int(cs[0])):
        rec = cs[1 + 11 * i: 1 + 11 * (i + 1)]
        toks += [int(rec[0]), int(rec[1]), int(rec[2])] + rec[3:]
    return fmt(toks)

def agree(a, b, rtol=1e-9, atol=1e-11):
    if len(a) != len(b) or not a: return False
    scv = max([1.0] + [abs(x) for x in a if x == x and abs(x) != float('inf')])
    return all(close(x, y, rtol, atol, scv) for x, y in zip(a, b))

# ------------------------------------------------------------------ implementation-only predicates (failing-input search)
def hc_predicates(info, out):
    """On isolated spheres (each body in at most one contact) evaluate the property's predicates on the implementation's
    own outputs: returns list of (predicate, detail) violations."""
    bad = []
    b, sf, cs, F = out[0][1:], out[1], out[2], out[3]
    nb = int(b[0]); bodies = [b[1 + 9 * i: 10 + 9 * i] for i in range(nb)]
    surf_body = [int(x) for x in sf[1:1 + int(sf[0])]]
    pars = info['spar'] + [info['hpar']]
    force = lambda i: F[6 * i + 3: 6 * i + 6]
    nc = int(cs[0]); per_body = {}
    recs = [cs[1 + 11 * i: 12 + 11 * i] for i in range(nc)]
    for rec in recs:
        for s in (int(rec[0]), int(rec[1])): per_body[surf_body[s]] = per_body.get(surf_body[s], 0) + 1
    for rec in recs:
        s1, s2, pt = int(rec[0]), int(rec[1]), int(rec[2])
        if not pt: continue
        b1, b2 = surf_body[s1], surf_body[s2]
        # use the side that is a sphere body with a single contact
        side = b2 if per_body[b2] == 1 and b2 != 0 else (b1 if per_body[b1] == 1 and b1 != 0 else None)
        if side is None: continue
        depth, n, loc, rad = rec[3], rec[4:7], rec[7:10], rec[10]
        f2 = force(side) if side == b2 else sc(-1.0, force(side))          # force on body 2
        p1, p2 = pars[s1], pars[s2]
        k1, k2 = p1[0] ** (2.0 / 3.0), p2[0] ** (2.0 / 3.0); s1_ = k2 / (k1 + k2); k = k1 * s1_; c = p1[1] * s1_ + p2[1] * (1 - s1_)
        at = add(loc, sc(depth * (0.5 - s1_), n))
        vel = lambda bd: add(bd[6:9], cross(bd[3:6], sub(at, bd[0:3])))
        v = sub(vel(bodies[b1]), vel(bodies[b2])); vn = dot(v, n); vtan = sub(v, sc(vn, n)); vslip = norm(vtan)
        fdoc = 4.0 / 3.0 * k * depth * math.sqrt(rad * k * depth) * (1 + 1.5 * c * vn) if depth > 0 else 0.0
        fn = dot(f2, n); ft = sub(f2, sc(fn, n)); scale = max(abs(fdoc), 1e-12)
        if fn < -1e-9 * scale: bad.append(('normal-attractive', 'normal component %g < 0' % fn))
        if abs(fn - max(fdoc, 0.0)) > 1e-7 * scale + 1e-13:
            bad.append(('magnitude-not-documented', 'normal component %.12g, documented max(f,0) = %.12g (depth %g, vn %g)' % (fn, max(fdoc, 0.0), depth, vn)))
        hm = lambda a, b_: 2 * a * b_ / (a + b_) if (a != 0 or b_ != 0) else 0.0
        us, ud, uv = hm(p1[2], p2[2]), hm(p1[3], p2[3]), hm(p1[4], p2[4])
        if us >= ud >= 0 and uv >= 0 and fn > 0:
            lim = fn * (us + uv * vslip)
            if norm(ft) > lim * (1 + 1e-7) + 1e-12 * scale: bad.append(('friction-above-limit', '|ft| = %g > %g' % (norm(ft), lim)))
            if dot(ft, vtan) < -1e-9 * scale * max(vslip, 1e-12): bad.append(('friction-does-not-oppose-slip', 'ft.vtan = %g' % dot(ft, vtan)))
    return bad

def hc_classify(info, out):
    """per contact: 'nonpoint' | 'active' | 'clipped' by the sign of the documented f on the implementation's data"""
    b, sf, cs = out[0][1:], out[1], out[2]
    nb = int(b[0]); bodies = [b[1 + 9 * i: 10 + 9 * i] for i in range(nb)]
    surf_body = [int(x) for x in sf[1:1 + int(sf[0])]]
    pars = info['spar'] + [info['hpar']] + [[1.0, 0.0, 0.0, 0.0, 0.0]]
    res = []
    for i in range(int(cs[0])):
        rec = cs[1 + 11 * i: 12 + 11 * i]; s1, s2 = int(rec[0]), int(rec[1])
        if not int(rec[2]): res.append('nonpoint'); continue
        depth, n, loc, rad = rec[3], rec[4:7], rec[7:10], rec[10]
        p1, p2 = pars[s1], pars[s2]
        k1, k2 = p1[0] ** (2.0 / 3.0), p2[0] ** (2.0 / 3.0); s1_ = k2 / (k1 + k2); c = p1[1] * s1_ + p2[1] * (1 - s1_)
        at = add(loc, sc(depth * (0.5 - s1_), n))
        vel = lambda bd: add(bd[6:9], cross(bd[3:6], sub(at, bd[0:3])))
        vn = dot(sub(vel(bodies[surf_body[s1]]), vel(bodies[surf_body[s2]])), n)
        res.append('active' if 1 + 1.5 * c * vn > 0 else 'clipped')
    return res


# ------------------------------------------------------------------ action and reaction (net wrench incl. Ground)
def net_wrench(ps, F):
    """ps: body origins; F: 6 numbers per body (moment about the body origin, force).  -> (|net force|, |net moment about O|, scale)"""
    nf = [0.0] * 3; nm = [0.0] * 3; scale = 0.0
    for i, pb in enumerate(ps):
        m, f = F[6 * i: 6 * i + 3], F[6 * i + 3: 6 * i + 6]; mo = add(m, cross(pb, f))
        nf = add(nf, f); nm = add(nm, mo); scale = max(scale, norm(f), norm(mo), norm(m))
    return norm(nf), norm(nm), scale
def ar_predicate(ctx, elem, line, ps, F, state):
    """implementation-only: the element's body forces (Ground included) must have zero net force and zero net moment"""
    fn, mn, scale = net_wrench(ps, F); state['evaluated'] = state.get('evaluated', 0) + 1
    if scale > 0: state['nonzero'] = state.get('nonzero', 0) + 1
    if (fn > 1e-9 * scale + 1e-11 or mn > 1e-9 * scale + 1e-11) and (state.get('worst') is None or max(fn, mn) > state['worst'][0]):
        state['worst'] = (max(fn, mn), line, 'net force %.6g, net moment about the Ground origin %.6g (largest body force/moment %.6g)' % (fn, mn, scale))
def ar_finish(ctx, elem, state):
    ctx.extra.setdefault('action_reaction', {})[elem] = {'evaluated': state.get('evaluated', 0), 'with_non_zero_forces': state.get('nonzero', 0),
        'with_patch_moment': state.get('moment', 0), 'surface1_on_moving_body': state.get('s1moving', 0), 'violations': 0 if state.get('worst') is None else 1}
    if state.get('worst'):
        w = state['worst']
        ctx.broken.append(('predicate:%s:net-wrench-not-zero' % elem, w[2]))
        ctx.report('impl:%s:net-wrench-not-zero' % elem, '%s applies a non-zero net wrench to the system (Ground included): %s' % (elem, w[2]),
                   {'probe_input': w[1], 'failing_input': w[1]})
def cc_action_reaction(ctx, elem, exe, drv, lines, parsed):
    """CompliantContactSubsystem scenes (HZ / BK / ME probe output): (a) implementation-only net-wrench predicate on the rigid body forces,
    (b) correspondence of the application step: rigid body forces = extracted cc_bodyForces of the reported ContactForces"""
    st = {}; ml = []; metas = []
    for line, p in zip(lines, parsed):
        b = p[0][2:]; nb = int(b[0]); ps = [b[1 + 9 * i: 4 + 9 * i] for i in range(nb)]; F = p[4]
        sf = p[1]; nsurf = int(sf[0]); sbody = [int(sf[1 + 7 * i]) for i in range(nsurf)]
        cs = p[2]; nc = int(cs[0]); W = 47; cmap = {}
        for i in range(nc):
            rec = cs[1 + W * i: 1 + W * (i + 1)]; cmap[int(rec[0])] = (int(rec[1]), int(rec[2]))
        f = p[3]; nf = int(f[0]); j = 1; cfs = []
        for _ in range(nf):
            cid = int(f[j]); rec = f[j + 1: j + 12]; nd = int(f[j + 12]); j += 13 + 16 * nd
            s1, s2 = cmap[cid]; cfs.append([sbody[s1], sbody[s2]] + rec[0:9])
            if norm(rec[3:6]) > 1e-9 * max(1.0, norm(rec[6:9])): st['moment'] = st.get('moment', 0) + 1
            if sbody[s1] != 0: st['s1moving'] = st.get('s1moving', 0) + 1
        ar_predicate(ctx, elem, line, ps, F, st)
        ml.append(fmt(['AR', nb] + sum(ps, []) + [len(cfs)] + sum(cfs, []))); metas.append((line, F))
    ar_finish(ctx, elem, st)
    if drv:
        mouts, err = run_lines(drv, ml)
        if len(mouts) != len(ml): ctx.broken.append(('ocaml:C37_drv:AR', 'driver produced %d lines for %d scenes' % (len(mouts), len(ml)))); return
        dis = 0; first = None
        for (line, F), mo in zip(metas, mouts):
            m = parse_floats(mo)[:len(F)]
            if not agree(F, m):
                dis += 1
                if first is None: first = (line, F, m)
        ctx.extra['action_reaction'][elem]['application_step_disagreements'] = dis
        if first: ctx.broken.append(('correspondence:%s:body-force-application' % elem, 'rigid body forces differ from the model applying the reported ContactForces: impl=%s model=%s input=%s' % (first[1], first[2], first[0][:200])))

# ------------------------------------------------------------------ the run
def build(ctx):
    exe = ctx.bdir('C37_probe')
    if not ctx.cxx(os.path.join(VERIF, 'harness', 'C37_probe.cpp'), exe):
        ctx.broken.append(('harness:C37_probe', 'probe does not compile against the current source')); return None, None
    od = ctx.bdir('ml')
    if not ctx.extract(EXTRACT, od):
        ctx.broken.append(('extract:C37_Model', 'extraction failed')); return exe, None
    drv = open(os.path.join(VERIF, 'ocaml', 'C37_drv.ml')).read().replace('#include "fops.inc"', open(os.path.join(VERIF, 'ocaml', 'fops.inc')).read())
    open(os.path.join(od, 'drv.ml'), 'w').write(drv)
    if not ctx.ocaml(od, ['c37model.mli', 'c37model.ml', 'drv.ml'], 'drv'):
        ctx.broken.append(('ocaml:C37_drv', 'driver build failed')); return exe, None
    return exe, os.path.join(od, 'drv')

def run_lines(exe, lines, timeout=1800):
    rc, out, err = sh([exe], input='\n'.join(lines) + '\n', timeout=timeout)
    return [l for l in out.split('\n') if l.strip()], err

def corr_hc(ctx, exe, drv, n, isolated_n):
    r = ctx.rng; cases = []
    cp = os.path.join(VERIF, 'corpus', 'C37', 'hc_cases.txt')
    corpus = [l.strip() for l in open(cp) if l.strip() and not l.startswith('#')] if os.path.exists(cp) else []
    for i in range(n): cases.append(gen_scene(r, 'HC'))
    iso = [gen_scene(r, 'HC', isolated=True, ordered=True) for i in range(isolated_n)]
    lines = ['HC ' + fmt(nums) for nums, info in cases + iso]
    outs, err = run_lines(exe, lines)
    if len(outs) != len(lines) or any(not o.startswith('OK') for o in outs):
        badl = [o for o in outs if not o.startswith('OK')][:1]
        ctx.broken.append(('harness:C37_probe:HC', 'probe failed: %d lines for %d cases %s %s' % (len(outs), len(lines), badl, err[-300:]))); return
    parsed = [secs(o) for o in outs]
    mlines = [hc_model_line(info, p) for (nums, info), p in zip(cases + iso, parsed)]
    mouts, err = run_lines(drv, mlines)
    if len(mouts) != len(mlines):
        ctx.broken.append(('ocaml:C37_drv:HC', 'driver produced %d lines for %d cases: %s' % (len(mouts), len(mlines), err[-300:]))); return
    arst = {}
    dis = 0; nontriv = set(); hist = {'contacts': 0, 'active': 0, 'clipped': 0, 'nonpoint': 0, 'multi_with_clipped_before_active': 0, 'sphere_sphere': 0}
    first = None
    for idx, (((nums, info), p), mo) in enumerate(zip(zip(cases + iso, parsed), mouts)):
        impl = p[3] + p[4]; model = parse_floats(mo)
        bb = p[0][1:]; ar_predicate(ctx, 'HuntCrossleyForce', lines[idx], [bb[1 + 9 * i: 4 + 9 * i] for i in range(int(bb[0]))], p[3], arst)
        ok = agree(impl, model)
        cs = p[2]; nc = int(cs[0]); recs = [cs[1 + 11 * i: 12 + 11 * i] for i in range(nc)]
        hist['contacts'] += nc; hist['nonpoint'] += sum(1 for x in recs if not int(x[2]))
        hist['sphere_sphere'] += sum(1 for x in recs if int(x[2]) and int(x[0]) < info['nS'] and int(x[1]) < info['nS'])
        if any(abs(x) > 0 for x in p[3]): nontriv.add(idx)
        cl = hc_classify(info, p); hist['active'] += cl.count('active'); hist['clipped'] += cl.count('clipped')
        if 'clipped' in cl and 'active' in cl[cl.index('clipped'):]: hist['multi_with_clipped_before_active'] += 1
        if not ok:
            dis += 1
            if first is None: first = (lines[idx], impl, model, mlines[idx])
    ctx.add_cases(len(lines), len(nontriv), [{'mode': 'HC', 'input': lines[0][:400], 'impl_forces_pe': parsed[0][3] + parsed[0][4], 'model': parse_floats(mouts[0])}])
    ar_finish(ctx, 'HuntCrossleyForce', arst)
    ctx.extra.setdefault('correspondence', {})['HC'] = {'cases': len(lines), 'disagreements': dis, 'rtol': 1e-9, **hist,
        'velocity_categories': count([c for (nums, info) in cases + iso for c in info['cats']])}
    if first:
        ctx.broken.append(('correspondence:HuntCrossleyForce', 'rigid body forces / pe differ from the model: input=%s impl=%s model=%s' % (first[0][:300], first[1][:12], first[2][:12])))
        ctx.extra['first_disagreement_HC'] = {'probe_input': first[0], 'model_input': first[3]}
    # implementation-only predicates (the failing-input search), always on the isolated-sphere cases
    nev = 0; found = None; clipped_then_active = 0; act = 0; clip = 0
    for ((nums, info), p), line in zip(zip(iso, parsed[len(cases):]), lines[len(cases):]):
        bad = hc_predicates(info, p); nev += 1
        if bad and found is None: found = (line, bad)
    # corpus (regression inputs; predicates only)
    if corpus:
        couts, _ = run_lines(exe, corpus)
        for line, o in zip(corpus, couts):
            if not o.startswith('OK'): continue
            nums = parse_floats(line)[1:]; nS = int(nums[0])
            info = {'nS': nS, 'vt': nums[1], 'hpar': nums[18:23], 'useMesh': False,
                    'spar': [nums[31 + 24 * i: 36 + 24 * i] for i in range(nS)]}
            bad = hc_predicates(info, secs(o)); nev += 1
            if bad and found is None: found = (line, bad)
    ctx.extra['search_HC'] = {'cases': nev, 'violations': 0 if found is None else 1}
    if found:
        line, bad = found
        ctx.broken.append(('predicate:HuntCrossleyForce:' + bad[0][0], bad[0][1]))
        ctx.report('impl:HuntCrossleyForce:' + bad[0][0], 'HuntCrossleyForce violates its documented law on the implementation alone: ' + '; '.join(b[1] for b in bad[:3]),
                   {'probe_input': line, 'replay_cmd': 'echo "%s" | %s' % (line, exe), 'failing_input': line})

def count(xs):
    d = {}
    for x in xs: d[x] = d.get(x, 0) + 1
    return d

# ---- SmoothSphereHalfSpaceForce
def gen_ss(r, witness=None):
    onGround = r.random() < 0.5
    hang, hp, hw, hv = rand_pose(r)
    if onGround: hang, hp, hw, hv = [0.0] * 3, [0.0] * 3, [0.0] * 3, [0.0] * 3
    fang, fp = vec(r, 1.5), vec(r, 0.5)
    c = U(r, 0.1, 2.0)
    par = [logU(r, 1e3, 1e6), c] + friction_params(r, True) + [logU(r, 1e-3, 0.3), logU(r, 1e-6, 1e-3), U(r, 50, 500), U(r, 10, 100)]
    radius = U(r, 0.1, 1.0); loc = [0.0] * 3 if r.random() < 0.5 else vec(r, 0.3)
    R_GB = rotxyz(hang); R_GF = mm(R_GB, rotxyz(fang)); p_GF = add(hp, mv(R_GB, fp))
    xF = [R_GF[i][0] for i in range(3)]
    x = U(r, -0.3, 0.4) * radius
    centre = add(p_GF, add(sc(x - radius, xF), sc(U(r, -1, 1), perp(r, xF))))
    ang = vec(r, 1.2); R = rotxyz(ang); p = sub(centre, mv(R, loc))
    pt = add(centre, sc(radius, xF)); vh = add(hv, cross(hw, sub(pt, hp)))
    m = r.random(); v0 = 2.0 / (3.0 * c)
    if m < 0.2: a = 0.0; cat = 'rest'
    elif m < 0.45: a = U(r, 0.0, 2.0); cat = 'approach'
    elif m < 0.6: a = -U(r, 0.0, 0.95) * v0; cat = 'rebound'
    elif m < 0.85: a = -U(r, 1.0, 1.15) * v0; cat = 'just-above-2/(3c)'
    else: a = -U(r, 1.15, 4.0) * v0; cat = 'yank'
    t = par[5] * logU(r, 1e-3, 50.0) if r.random() > 0.2 else 0.0
    w = [0.0] * 3 if r.random() < 0.5 else vec(r, 1.5)
    vcen = add(vh, add(sc(a, xF), sc(t, perp(r, xF) if t else [0.0] * 3)))
    v = sub(vcen, cross(w, mv(R, loc)))
    nums = [1 if onGround else 0] + hang + hp + hw + hv + [0.0] * 3 + fang + fp + par + [radius] + loc + ang + p + w + v + [0.0] * 3
    return nums, {'par': par, 'radius': radius, 'loc': loc, 'cat': cat, 'x': x}

def ss_model_line(info, o):
    b, mid, F = o[0][1:], o[1], o[2]
    nb = int(b[0]); rec = lambda i: b[1 + 18 * i: 19 + 18 * i]
    si, hi = int(mid[0]), int(mid[1]); frame = mid[2:14]
    X = lambda i: rec(i)[0:12]; B = lambda i: rec(i)[9:18]
    return fmt(['SS'] + info['par'] + X(si) + X(hi) + B(si) + B(hi) + info['loc'] + frame + [info['radius']]), si, hi

def corr_ss(ctx, exe, drv, n):
    r = ctx.rng; cases = [gen_ss(r) for i in range(n)]
    lines = ['SS ' + fmt(nums) for nums, info in cases]
    outs, err = run_lines(exe, lines)
    if len(outs) != len(lines) or any(not o.startswith('OK') for o in outs):
        ctx.broken.append(('harness:C37_probe:SS', 'probe failed: %s %s' % ([o for o in outs if not o.startswith('OK')][:1], err[-300:]))); return
    parsed = [secs(o) for o in outs]; ml = [ss_model_line(info, p) for (nums, info), p in zip(cases, parsed)]
    mouts, err = run_lines(drv, [m[0] for m in ml])
    if len(mouts) != len(ml):
        ctx.broken.append(('ocaml:C37_drv:SS', 'driver produced %d lines for %d cases' % (len(mouts), len(ml)))); return
    dis = 0; first = None; nontriv = 0; attractive = 0; pred_bad = None; arst = {}
    for ((nums, info), p), (m, si, hi), mo in zip(zip(cases, parsed), ml, mouts):
        F = p[2]; impl = F[6 * si: 6 * si + 6] + F[6 * hi: 6 * hi + 6] + p[3]
        bb = p[0][1:]; ar_predicate(ctx, 'SmoothSphereHalfSpaceForce', lines[cases.index((nums, info))], [bb[1 + 18 * i + 9: 1 + 18 * i + 12] for i in range(int(bb[0]))], F, arst)
        model = parse_floats(mo)[1:]
        if any(x != 0 for x in impl): nontriv += 1
        if not agree(impl, model):
            dis += 1
            if first is None: first = (lines[cases.index((nums, info))], impl, model)
        # implementation-only predicates: friction part orthogonal to the normal is automatic; sign of the normal component
        b = p[0][1:]; Rh = b[1 + 18 * hi: 10 + 18 * hi]; frame = p[1][2:14]
        nG = mv([Rh[0:3], Rh[3:6], Rh[6:9]], [frame[0], frame[3], frame[6]])
        fn = dot(F[6 * hi + 3: 6 * hi + 6], nG)     # force on the half-space body along the normal into the half space; < 0 = attractive
        if fn < 0:
            attractive += 1
            if info['cat'] in ('rest', 'approach', 'rebound') and fn < -1e-9 * max(1.0, abs(fn)) and pred_bad is None:
                pred_bad = (lines[cases.index((nums, info))], fn)
    ctx.add_cases(len(lines), nontriv, [{'mode': 'SS', 'input': lines[0][:300], 'impl': parsed[0][2], 'model': parse_floats(mouts[0])}])
    ar_finish(ctx, 'SmoothSphereHalfSpaceForce', arst)
    ctx.extra.setdefault('correspondence', {})['SS'] = {'cases': len(lines), 'disagreements': dis, 'attractive_cases_seen': attractive,
                                                       'categories': count([info['cat'] for nums, info in cases])}
    if first: ctx.broken.append(('correspondence:SmoothSphereHalfSpaceForce', 'body forces / pe differ from the model: input=%s impl=%s model=%s' % (first[0][:300], first[1], first[2])))
    if pred_bad:
        ctx.broken.append(('predicate:SmoothSphereHalfSpaceForce:normal-attractive-outside-known-region', 'fn=%g' % pred_bad[1]))
        ctx.report('impl:SmoothSphereHalfSpaceForce:normal-attractive-outside-known-region',
                   'normal force attractive although the separating speed is below 2/(3c): fn=%g' % pred_bad[1], {'probe_input': pred_bad[0], 'failing_input': pred_bad[0]})

def replay_ss_witness(ctx, exe):
    """DESIGN 7.20 witness on the real code: stiffness 1e5, dissipation 1, mu 0, vt .001, cf 1e-5, bd 300, bv 50, sphere r=.8 at height .7
    over the half space y < 0, separating (moving up) at 0, .67, .68, .70"""
    res = []
    for sp in (0.0, 0.67, 0.68, 0.70):
        nums = [1] + [0.0] * 15 + [0.0, 0.0, -0.5 * math.pi, 0.0, 0.0, 0.0] + [1e5, 1.0, 0.0, 0.0, 0.0, 0.001, 1e-5, 300.0, 50.0] + [0.8] + [0.0] * 3 + \
               [0.0] * 3 + [0.0, 0.7, 0.0] + [0.0] * 3 + [0.0, sp, 0.0] + [0.0] * 3
        outs, _ = run_lines(exe, ['SS ' + fmt(nums)])
        if not outs or not outs[0].startswith('OK'): return None
        p = secs(outs[0]); si = int(p[1][0]); res.append((sp, p[2][6 * si + 4]))
    return res

# ---- ExponentialSpringForce
def gen_es(r):
    pang, pp = vec(r, 1.5), vec(r, 0.5)
    d0 = U(r, -0.05, 0.05); d1 = U(r, 0.1, 2.0); d2 = U(r, 50, 1500); cz = U(r, 0.0, 1.0)
    maxFz = logU(r, 5.0, 1e5); kxy = logU(r, 1e2, 1e5); cxy = logU(r, 1.0, 600.0)
    mus = U(r, 0.0, 1.5) if r.random() > 0.1 else 0.0; muk = mus * U(r, 0, 1) if r.random() > 0.2 else mus
    K = r.choice([0.0, 1.0, U(r, 0, 1), U(r, 0, 1)])
    station = vec(r, 0.3); ang = vec(r, 1.2)
    R_GP = rotxyz(pang); Rb = rotxyz(ang)
    pz = d0 + U(r, -8.0, 10.0) / d2; pP = [U(r, -1, 1), U(r, -1, 1), pz]
    p0 = [pP[0] + logU(r, 1e-6, 1e-1) * r.choice([-1, 1]), pP[1] + logU(r, 1e-6, 1e-1) * r.choice([-1, 1]), 0.0]
    pG = add(pp, mv(R_GP, pP)); p = sub(pG, mv(Rb, station))
    vP = [logU(r, 1e-4, 5.0) * r.choice([-1, 1]), logU(r, 1e-4, 5.0) * r.choice([-1, 1]), U(r, -3.0, 3.0)]
    if r.random() < 0.15: vP[0] = vP[1] = 0.0
    w = [0.0] * 3 if r.random() < 0.5 else vec(r, 1.5)
    v = sub(mv(R_GP, vP), cross(w, mv(Rb, station)))
    nums = pang + pp + [d0, d1, d2, cz, maxFz, kxy, cxy, 0.01] + [mus, muk, K] + p0 + station + ang + p + w + v + [0.0] * 3
    return nums, {}

def corr_es(ctx, exe, drv, n):
    r = ctx.rng; cases = [gen_es(r) for i in range(n)]
    lines = ['ES ' + fmt(nums) for nums, info in cases]
    outs, err = run_lines(exe, lines)
    if len(outs) != len(lines) or any(not o.startswith('OK') for o in outs):
        ctx.broken.append(('harness:C37_probe:ES', 'probe failed: %s %s' % ([o for o in outs if not o.startswith('OK')][:1], err[-300:]))); return
    parsed = [secs(o) for o in outs]; ml = []
    for (nums, info), p in zip(cases, parsed):
        h = p[0][1:]     # sig mus muk K d0 d1 d2 cz maxFz kxy cxy
        ml.append(fmt(['ES', h[0]] + h[4:11] + h[1:4] + p[1][0:3] + p[1][3:6] + nums[17:20]))
    mouts, err = run_lines(drv, ml)
    if len(mouts) != len(ml):
        ctx.broken.append(('ocaml:C37_drv:ES', 'driver produced %d lines for %d cases' % (len(mouts), len(ml)))); return
    arst = {}
    dis = 0; first = None; hist = {'fz_clamped_low': 0, 'fz_clamped_high': 0, 'limit_reached': 0, 'below_significant': 0}; pred = None
    for i, (((nums, info), p), mo) in enumerate(zip(zip(cases, parsed), mouts)):
        m = parse_floats(mo)       # fe fd fz mu limit elas damp fric p0new forceP
        ar_predicate(ctx, 'ExponentialSpringForce', lines[i], [[0.0, 0.0, 0.0], p[6][15:18]], p[7], arst)
        fe, fd, fz = p[2][2], p[2][5], p[2][8]
        impl = [fe, fd, fz] + p[3][0:2] + p[4][0:9] + p[5][6:9] + p[5][0:3]
        h = p[0][1:]
        if fz == 0.0: hist['fz_clamped_low'] += 1
        if fz == h[8]: hist['fz_clamped_high'] += 1
        fr = p[4][6:9]; lim = p[3][1]
        if lim < h[0]: hist['below_significant'] += 1
        elif abs(norm(fr) - lim) <= 1e-9 * max(lim, 1e-30): hist['limit_reached'] += 1
        ok = agree(impl, m)
        # the body force: f_G = R_GP f_P at the station, minus on Ground
        if ok:
            X = p[6][0:12]; R = [X[0:3], X[3:6], X[6:9]]; fG = mv(R, m[17:20]); pG = p[6][12:15]; bo = p[6][15:18]
            Fb = p[7][6:12]; Fg = p[7][0:6]
            ok = agree(Fb + Fg, cross(sub(pG, bo), fG) + fG + sc(-1.0, cross(pG, fG)) + sc(-1.0, fG))
        if not ok:
            dis += 1
            if first is None: first = (lines[i], impl, m)
        # implementation-only predicates
        scale = max(1.0, abs(fz))
        if pred is None:
            if fz < 0: pred = (lines[i], 'normal-attractive', 'fz = %g' % fz)
            elif abs(p[4][8]) > 1e-12 * scale: pred = (lines[i], 'friction-out-of-plane', 'z component %g' % p[4][8])
            elif norm(fr) > lim * (1 + 1e-9) + 1e-12 and lim >= h[0]: pred = (lines[i], 'friction-above-limit', '|fric| = %.17g > mu fz = %.17g' % (norm(fr), lim))
    ctx.add_cases(len(lines), sum(1 for p in parsed if p[2][8] != 0), [{'mode': 'ES', 'input': lines[0][:300], 'model': parse_floats(mouts[0])}])
    ar_finish(ctx, 'ExponentialSpringForce', arst)
    ctx.extra.setdefault('correspondence', {})['ES'] = dict(cases=len(lines), disagreements=dis, **hist)
    if first: ctx.broken.append(('correspondence:ExponentialSpringForce', 'reported force parts differ from the model: input=%s impl=%s model=%s' % (first[0][:300], first[1], first[2])))
    if pred:
        ctx.broken.append(('predicate:ExponentialSpringForce:' + pred[1], pred[2]))
        ctx.report('impl:ExponentialSpringForce:' + pred[1], pred[2], {'probe_input': pred[0], 'failing_input': pred[0]})

# ---- CompliantContactSubsystem: Hertz circular
def corr_hz(ctx, exe, drv, n):
    r = ctx.rng; cases = [gen_scene(r, 'HZ') for i in range(n)]
    lines = ['HZ ' + fmt(nums) for nums, info in cases]
    outs, err = run_lines(exe, lines)
    if len(outs) != len(lines) or any(not o.startswith('OK') for o in outs):
        ctx.broken.append(('harness:C37_probe:HZ', 'probe failed: %s %s' % ([o for o in outs if not o.startswith('OK')][:1], err[-300:]))); return
    parsed = [secs(o) for o in outs]
    cc_action_reaction(ctx, 'CompliantContactSubsystem:HertzCircular', exe, drv, lines, parsed)
    ml = []; meta = []
    for ci, p in enumerate(parsed):
        sig = p[0][1]; sf = p[1]; nsurf = int(sf[0]); mats = [sf[1 + 7 * i: 8 + 7 * i] for i in range(nsurf)]
        cs = p[2]; nc = int(cs[0]); W = 5 + 12 + 12 + 6 + 12
        forces = {}
        f = p[3]; nf = int(f[0]); j = 1
        for _ in range(nf):
            cid = int(f[j]); rec = f[j + 1: j + 12]; nd = int(f[j + 12]); j += 13 + 16 * nd; forces[cid] = rec
        for i in range(nc):
            rec = cs[1 + W * i: 1 + W * (i + 1)]
            cid, s1, s2, kind, broken = [int(x) for x in rec[0:5]]
            if kind != 1: continue
            XG = rec[5:17]; X12 = rec[17:29]; V12 = rec[29:35]; g = rec[35:47]
            m1 = mats[s1]; m2 = mats[s2]
            mat = lambda m: [m[2], m[3], m[4], m[5], m[6]]          # k23 c us ud uv
            ml.append(fmt(['HZ', sig] + mat(m1) + mat(m2) + [cases[ci][1]['vt'], g[0]] + g[1:4] + g[4:7] + [g[7], 1.0] + X12[9:12] + V12[0:3] + V12[3:6]))
            meta.append((ci, cid, XG, forces.get(cid), g, m1, m2, V12, X12))
    mouts, err = run_lines(drv, ml)
    if len(mouts) != len(ml):
        ctx.broken.append(('ocaml:C37_drv:HZ', 'driver produced %d lines for %d contacts' % (len(mouts), len(ml)))); return
    dis = 0; first = None; hist = {'contacts': len(ml), 'yanked': 0, 'with_friction': 0}; pred = None
    for (ci, cid, XG, frc, g, m1, m2, V12, X12), mo in zip(meta, mouts):
        m = parse_floats(mo)   # valid pt force pe power
        R = [XG[0:3], XG[3:6], XG[6:9]]; pG = add(XG[9:12], mv(R, m[1:4])); fG = mv(R, m[4:7])
        if frc is None: ok = (m[0] == 0.0); impl = None
        else:
            impl = frc[0:3] + frc[3:9] + frc[9:11]; ok = m[0] == 1.0 and agree(impl, pG + [0.0, 0.0, 0.0] + fG + m[7:9])
            if all(x == 0 for x in frc[6:9]): hist['yanked'] += 1
            # implementation-only predicates: force on surface 2 along the normal (away from surface 1) >= 0, friction limit
            nG = mv(R, g[1:4]); fn = dot(frc[6:9], nG); ft = sub(frc[6:9], sc(fn, nG))
            if norm(ft) > 0: hist['with_friction'] += 1
            hm = lambda a, b_: 2 * a * b_ / (a + b_) if a * b_ != 0 else 0.0
            us, uv = hm(m1[4], m2[4]), hm(m1[6], m2[6])
            # slip speed from the model-independent data: velocity of S2's point at the contact point relative to S1
            ptS1 = mtv(R, sub(frc[0:3], XG[9:12])); vel = add(V12[3:6], cross(V12[0:3], sub(ptS1, X12[9:12])))
            vt_ = sub(vel, sc(dot(vel, g[1:4]), g[1:4])); vs = norm(vt_)
            scale = max(1.0, abs(fn))
            # documented Hertz / Hunt-Crossley magnitude with the documented material-combination rules, from the
            # implementation's own contact data: s1 = k2/(k1+k2) (k = stiffness^(2/3)), k = k1 s1, c = c1 s1 + c2 (1-s1),
            # contact point = origin + x (1/2 - s1) n, xdot = -(v12 + w12 x (pt - p12)).n, fN = 4/3 k x sqrt(R k x) (1 + 3/2 c xdot)
            k1_, k2_, c1_, c2_ = m1[2], m2[2], m1[3], m2[3]; s1_ = k2_ / (k1_ + k2_); kk = k1_ * s1_; cc = c1_ * s1_ + c2_ * (1 - s1_)
            x_ = g[0]; n_ = g[1:4]; ptd = add(g[4:7], sc(x_ * (0.5 - s1_), n_))
            xdot = -dot(add(V12[3:6], cross(V12[0:3], sub(ptd, X12[9:12]))), n_)
            fH_ = 4.0 / 3.0 * kk * x_ * math.sqrt(g[7] * kk * x_) if x_ > 0 else 0.0; fdoc = fH_ * (1 + 1.5 * cc * xdot)
            dscale = max(abs(fdoc), abs(fH_), 1e-12)
            if abs(k1_ - k2_) > 1e-3 * (k1_ + k2_) and abs(c1_ - c2_) > 1e-3 and abs(xdot) > 1e-3:
                hist['discriminating_contacts'] = hist.get('discriminating_contacts', 0) + 1
                hist['discriminating_' + ('approaching' if xdot > 0 else 'separating')] = hist.get('discriminating_' + ('approaching' if xdot > 0 else 'separating'), 0) + 1
            if abs(fn - max(fdoc, 0.0)) > 1e-7 * dscale + 1e-13 and (pred is None or (pred[1] == 'magnitude-not-documented' and abs(fn - max(fdoc, 0.0)) > pred[3])):
                # keep the magnitude violation with the largest absolute discrepancy as the reported failing input
                pred = (lines[ci], 'magnitude-not-documented', 'contact %d: normal force %.12g, documented max(fN,0) = %.12g (k1^(2/3) %g, k2^(2/3) %g, c1 %g, c2 %g, x %g, xdot %g, R %g)' % (cid, fn, max(fdoc, 0.0), k1_, k2_, c1_, c2_, x_, xdot, g[7]), abs(fn - max(fdoc, 0.0)))
            if pred is None:
                if fn < -1e-9 * scale: pred = (lines[ci], 'normal-attractive', 'contact %d: normal component %g' % (cid, fn))
                elif fdoc > 0 and abs(frc[9] - 0.4 * fH_ * x_) > 1e-7 * max(abs(frc[9]), 1e-12) + 1e-13:
                    pred = (lines[ci], 'potential-energy-not-documented', 'contact %d: PE %.12g, documented 2/5 fH x = %.12g' % (cid, frc[9], 0.4 * fH_ * x_))
                elif norm(ft) > fn * (us + uv * vs) * (1 + 1e-7) + 1e-12 * scale: pred = (lines[ci], 'friction-above-limit', 'contact %d: |ft| %g > %g' % (cid, norm(ft), fn * (us + uv * vs)))
                elif dot(ft, mv(R, vt_)) > 1e-9 * scale * max(vs, 1e-12): pred = (lines[ci], 'friction-does-not-oppose-slip', 'contact %d' % cid)
        if not ok:
            dis += 1
            if first is None: first = (lines[ci], impl, m)
    ctx.add_cases(len(ml), sum(1 for x in meta if x[3] is not None and any(v != 0 for v in x[3][6:9])), [{'mode': 'HZ', 'model': parse_floats(mouts[0]) if mouts else []}])
    ctx.extra.setdefault('correspondence', {})['HZ'] = dict(scenes=len(lines), disagreements=dis, **hist)
    if first: ctx.broken.append(('correspondence:HertzCircular', 'ContactForce differs from the model: input=%s impl=%s model=%s' % (first[0][:300], first[1], first[2])))
    if pred:
        ctx.broken.append(('predicate:HertzCircular:' + pred[1], pred[2]))
        ctx.report('impl:HertzCircular:' + pred[1], pred[2], {'probe_input': pred[0], 'failing_input': pred[0]})

# ---- CompliantContactSubsystem: brick on half space
def gen_brick(r):
    vt = r.choice([0.01, 0.1, 1.0]) * U(r, 0.5, 2.0); onGround = r.random() < 0.5
    hang, hp, hw, hv = rand_pose(r)
    if onGround: hang, hp, hw, hv = [0.0] * 3, [0.0] * 3, [0.0] * 3, [0.0] * 3
    us = U(r, 0.05, 1.5); hmat = [logU(r, 10, 1e5), 0.0 if r.random() < 0.15 else U(r, 0.05, 2.0), us, us * U(r, 0, 1), 0.0 if r.random() < 0.4 else U(r, 0, 0.5)]
    fang, fp = vec(r, 1.5), vec(r, 0.5)
    R_GB = rotxyz(hang); R_GF = mm(R_GB, rotxyz(fang)); p_GF = add(hp, mv(R_GB, fp)); xF = [R_GF[i][0] for i in range(3)]
    half = [U(r, 0.2, 1.0) for _ in range(3)]
    us = U(r, 0.05, 1.5); mat = [logU(r, 10, 1e5), 0.0 if r.random() < 0.15 else U(r, 0.05, 2.0), us, us * U(r, 0, 1), 0.0 if r.random() < 0.4 else U(r, 0, 0.5)]
    if r.random() < 0.15: mat[2:5] = [0.0, 0.0, 0.0]
    oang = [0.0] * 3 if r.random() < 0.5 else vec(r, 0.5); op = [0.0] * 3 if r.random() < 0.5 else vec(r, 0.3)
    # brick orientation: a face roughly (or exactly) parallel to the half-space surface
    tilt = [0.0] * 3 if r.random() < 0.3 else [0.0, U(r, -0.3, 0.3), U(r, -0.3, 0.3)]
    perm = r.choice([[0, 0, 0], [0, math.pi / 2, 0], [0, 0, math.pi / 2], [math.pi, 0, 0]])
    R_FS = mm(rotxyz(tilt), rotxyz(perm))         # brick surface frame in F
    R_GS = mm(R_GF, R_FS)
    verts = [[sx * half[0], sy * half[1], sz * half[2]] for sx in (-1, 1) for sy in (-1, 1) for sz in (-1, 1)]
    deepest = max(dot(mv(R_GS, v), xF) for v in verts)
    depth = U(r, 0.005, 0.2) if r.random() < 0.85 else -U(r, 0.01, 0.2)
    # surface-frame origin so that the deepest vertex is at x_F = depth
    pS = add(p_GF, add(sc(depth - deepest, xF), sc(U(r, -1, 1), perp(r, xF))))
    R_BS = rotxyz(oang); Rb = mm(R_GS, [[R_BS[j][i] for j in range(3)] for i in range(3)])      # R_GB = R_GS * R_BS^T
    p = sub(pS, mv(Rb, op))
    # body-fixed XYZ angles of Rb: recover by construction instead -> pass Rb through angles numerically
    ang = xyz_angles(Rb)
    pt = pS; vh = add(hv, cross(hw, sub(pt, hp)))
    cm = max(mat[1], hmat[1], 0.05)
    m = r.random()
    a = 0.0 if m < 0.2 else (U(r, 0, 2.0) if m < 0.5 else (-U(r, 0, 0.9) / cm if m < 0.75 else -U(r, 1.1, 4.0) / cm))
    t = vt * logU(r, 1e-3, 50.0) if r.random() > 0.2 else 0.0
    w = [0.0] * 3 if r.random() < 0.5 else vec(r, 0.8)
    vS = add(vh, add(sc(a, xF), sc(t, perp(r, xF) if t else [0.0] * 3)))
    v = sub(vS, cross(w, mv(Rb, op)))
    nums = [vt, 1 if onGround else 0] + hang + hp + hw + hv + [0.0] * 3 + hmat + fang + fp + half + mat + oang + op + ang + p + w + v + [0.0] * 3
    return nums, {'vt': vt, 'half': half}

def xyz_angles(R):
    """body-fixed XYZ angles (a,b,c) with R = Rx(a) Ry(b) Rz(c); |b| < pi/2 assumed"""
    b = math.asin(max(-1.0, min(1.0, R[0][2])))
    a = math.atan2(-R[1][2], R[2][2]); c = math.atan2(-R[0][1], R[0][0])
    return [a, b, c]

def corr_bk(ctx, exe, drv, n):
    r = ctx.rng; cases = [gen_brick(r) for i in range(n)]
    lines = ['BK ' + fmt(nums) for nums, info in cases]
    outs, err = run_lines(exe, lines)
    if len(outs) != len(lines) or any(not o.startswith('OK') for o in outs):
        ctx.broken.append(('harness:C37_probe:BK', 'probe failed: %s %s' % ([o for o in outs if not o.startswith('OK')][:1], err[-300:]))); return
    parsed = [secs(o) for o in outs]; ml = []; meta = []
    cc_action_reaction(ctx, 'CompliantContactSubsystem:BrickHalfSpace', exe, drv, lines, parsed)
    for ci, p in enumerate(parsed):
        sig = p[0][1]; sf = p[1]; nsurf = int(sf[0]); mats = [sf[1 + 7 * i: 8 + 7 * i] for i in range(nsurf)]
        cs = p[2]; nc = int(cs[0]); W = 5 + 12 + 12 + 6 + 12
        f = p[3]; nf = int(f[0]); j = 1; forces = {}
        for _ in range(nf):
            cid = int(f[j]); rec = f[j + 1: j + 12]; nd = int(f[j + 12]); det = [f[j + 13 + 16 * d: j + 29 + 16 * d] for d in range(nd)]; j += 13 + 16 * nd
            forces[cid] = (rec, det)
        for i in range(nc):
            rec = cs[1 + W * i: 1 + W * (i + 1)]
            cid, s1, s2, kind, broken = [int(x) for x in rec[0:5]]
            if kind != 2: continue
            XG = rec[5:17]; X12 = rec[17:29]; V12 = rec[29:35]; g = rec[35:47]
            nH = g[1:4]; half = g[4:7]; R12 = [X12[0:3], X12[3:6], X12[6:9]]; p12 = X12[9:12]
            verts = [[sx * half[0], sy * half[1], sz * half[2]] for sx in (-1, 1) for sy in (-1, 1) for sz in (-1, 1)]
            vH = [add(p12, mv(R12, v)) for v in verts]
            low = max(range(8), key=lambda q: -dot(vH[q], nH))
            # the face of the lowest vertex whose outward normal is most antiparallel to the half-space normal
            best = None
            for ax in range(3):
                sgn = 1.0 if verts[low][ax] > 0 else -1.0
                cosv = dot(nH, [sgn * R12[q][ax] for q in range(3)])
                if best is None or cosv < best[0]: best = (cosv, ax, sgn)
            face = [vH[q] for q in range(8) if (verts[q][best[1]] > 0) == (best[2] > 0)]
            mat = lambda m: [m[1], m[3], m[4], m[5], m[6]]          # k (plain stiffness) c us ud uv
            ml.append(fmt(['BK', sig] + mat(mats[s1]) + mat(mats[s2]) + [cases[ci][1]['vt']] + nH + p12 + V12[0:3] + V12[3:6] + [4] + sum(face, [])))
            meta.append((ci, cid, XG, forces.get(cid), g, mats[s1], mats[s2]))
    mouts, err = run_lines(drv, ml)
    if len(mouts) != len(ml):
        ctx.broken.append(('ocaml:C37_drv:BK', 'driver produced %d lines for %d contacts' % (len(mouts), len(ml)))); return
    dis = 0; first = None; hist = {'contacts': len(ml), 'active_vertices': {}, 'no_force': 0, 'vertex_details_checked': 0}; pred = None
    for (ci, cid, XG, frc, g, mH, mB), mo in zip(meta, mouts):
        m = parse_floats(mo)   # F[6] (moment about H origin, force) pe power nactive {pt f pe power x xdot}
        R = [XG[0:3], XG[3:6], XG[6:9]]; nact = int(m[8]); hist['active_vertices'][nact] = hist['active_vertices'].get(nact, 0) + 1
        if frc is None:
            ok = nact == 0; impl = None; hist['no_force'] += 1
        else:
            rec, det = frc
            cop = mtv(R, sub(rec[0:3], XG[9:12])); M = mtv(R, rec[3:6]); Fh = mtv(R, rec[6:9])
            MO = add(M, cross(cop, Fh))
            impl = MO + Fh + rec[9:11]; ok = agree(impl, m[0:8], 1e-8, 1e-10) and len(det) == nact
            # implementation-only predicate on every reported vertex detail: documented penalty law with the documented
            # combination rules (plain stiffness): sH = kB/(kH+kB), k = kH sH, c = cH sH + cB (1-sH), fN = k x (1 + c xdot), pe = k x^2/2
            kH_, kB_, cH_, cB_ = mH[1], mB[1], mH[3], mB[3]; sH_ = kB_ / (kH_ + kB_); kk = kH_ * sH_; cc = cH_ * sH_ + cB_ * (1 - sH_)
            for dd in det:
                hist['vertex_details_checked'] += 1
                x_, xd_ = dd[12], dd[13]; fdoc = kk * x_ * (1 + cc * xd_); fnv = dot(dd[9:12], dd[3:6]); dsc = max(abs(fdoc), kk * x_, 1e-12)
                if pred is None:
                    if fnv < -1e-9 * dsc: pred = (lines[ci], 'normal-attractive', 'vertex normal force %g' % fnv)
                    elif abs(fnv - max(fdoc, 0.0)) > 1e-7 * dsc + 1e-13:
                        pred = (lines[ci], 'magnitude-not-documented', 'vertex normal force %.12g, documented max(k x (1 + c xdot),0) = %.12g (kH %g kB %g cH %g cB %g x %g xdot %g)' % (fnv, max(fdoc, 0.0), kH_, kB_, cH_, cB_, x_, xd_))
                    elif abs(dd[14] - kk * x_ * x_ / 2) > 1e-7 * max(abs(dd[14]), 1e-12) + 1e-13:
                        pred = (lines[ci], 'potential-energy-not-documented', 'vertex PE %.12g, documented k x^2/2 = %.12g' % (dd[14], kk * x_ * x_ / 2))
            if ok:
                mdet = [m[9 + 10 * d: 19 + 10 * d] for d in range(nact)]
                for dd in det:
                    ptH = mtv(R, sub(dd[0:3], XG[9:12])); fH = mtv(R, dd[9:12])
                    cand = min(mdet, key=lambda q: norm(sub(q[0:3], ptH)))
                    if not agree(ptH + fH + [dd[14], dd[15], dd[12], dd[13]], cand, 1e-8, 1e-10): ok = False
        if not ok:
            dis += 1
            if first is None: first = (lines[ci], impl, m[:9])
    ctx.add_cases(len(ml), sum(1 for x in meta if x[3] is not None), [{'mode': 'BK', 'model': parse_floats(mouts[0])[:9] if mouts else []}])
    hist['active_vertices'] = {str(k): v for k, v in hist['active_vertices'].items()}
    ctx.extra.setdefault('correspondence', {})['BK'] = dict(scenes=len(lines), disagreements=dis, **hist)
    if first: ctx.broken.append(('correspondence:BrickHalfSpacePenalty', 'ContactForce / details differ from the model: input=%s impl=%s model=%s' % (first[0][:300], first[1], first[2])))
    if pred:
        ctx.broken.append(('predicate:BrickHalfSpacePenalty:' + pred[1], pred[2]))
        ctx.report('impl:BrickHalfSpacePenalty:' + pred[1], pred[2], {'probe_input': pred[0], 'failing_input': pred[0]})

# ---- CompliantContactSubsystem: triangle-mesh sphere (elastic-foundation generator): action and reaction only
def gen_me(r):
    vt = r.choice([0.01, 0.1]) * U(r, 0.5, 2.0); onGround = r.random() < 0.5; plate = 1 if r.random() < 0.5 else 0
    us = U(r, 0.2, 1.0); hmat = [logU(r, 1e3, 1e5), 0.0 if r.random() < 0.2 else U(r, 0.05, 1.0), us, us * U(r, 0, 1), 0.0 if r.random() < 0.4 else U(r, 0, 0.3)]
    us = U(r, 0.2, 1.0); mat = [logU(r, 1e3, 1e5), 0.0 if r.random() < 0.2 else U(r, 0.05, 1.0), us, us * U(r, 0, 1), 0.0 if r.random() < 0.4 else U(r, 0, 0.3)]
    fang, fp = ([0.0, 0.0, -0.5 * math.pi], [0.0] * 3) if plate == 0 else ([0.0] * 3, [0.0, -0.5, 0.0])      # surface y = 0 in the plate body
    hang, hp, hw, hv = ([0.0] * 3,) * 4 if onGround else (vec(r, 0.15), vec(r, 0.05), vec(r, 0.5), vec(r, 0.5))
    rad = U(r, 0.35, 0.6); depth = U(r, 0.03, 0.12)
    oang = [0.0] * 3 if r.random() < 0.5 else vec(r, 0.5); op = vec(r, 0.1)
    ang = vec(r, 1.2); R = rotxyz(ang); c = [U(r, -0.1, 0.1), rad - depth, U(r, -0.1, 0.1)]
    Ro = rotxyz(oang); pb = sub(c, mv(R, op))                 # mesh centre = body origin + R * op
    w = [0.0] * 3 if r.random() < 0.3 else vec(r, 2.0); v = [vt * logU(r, 0.1, 30) * r.choice([-1, 1]), U(r, -0.5, 0.3), vt * logU(r, 0.1, 30) * r.choice([-1, 1])]
    nums = [vt, 1 if onGround else 0] + list(hang) + list(hp) + list(hw) + list(hv) + [0.0] * 3 + hmat + fang + fp + [plate, U(r, 0.05, 0.3)] + \
           [rad, 2] + mat + [U(r, 0.05, 0.3)] + oang + op + ang + pb + w + v + [0.0] * 3
    return nums, {'plate': plate, 'onGround': onGround}
def corr_me(ctx, exe, drv, n):
    r = ctx.rng; cases = [gen_me(r) for i in range(n)]
    lines = ['ME ' + fmt(nums) for nums, info in cases]
    outs, err = run_lines(exe, lines)
    if len(outs) != len(lines) or any(not o.startswith('OK') for o in outs):
        ctx.broken.append(('harness:C37_probe:ME', 'probe failed: %s %s' % ([o[:200] for o in outs if not o.startswith('OK')][:1], err[-300:]))); return
    parsed = [secs(o) for o in outs]
    cc_action_reaction(ctx, 'CompliantContactSubsystem:ElasticFoundation', exe, drv, lines, parsed)
    ctx.add_cases(len(lines), sum(1 for p in parsed if any(x != 0 for x in p[4])), [{'mode': 'ME', 'input': lines[0][:200]}])
    ctx.extra['action_reaction']['CompliantContactSubsystem:ElasticFoundation']['scenes_by_plate'] = count(['mesh-brick' if info['plate'] else 'half-space' for nums, info in cases])

def run(ctx):
    ctx.build_repo()
    meta = ctx.translate('c37')
    ok = ctx.coq_props(PROPS)
    quick = ctx.tier == 'quick'
    # (T) translator validation of step5 / step5d / hollars
    def argfn(rng, kn, pn, pt):
        if kn['coq'] == 'k37_step5' or pn == 'x': return [rng.uniform(0.0, 1.0)]
        if pn == 'v': return [rng.choice([rng.uniform(0, 1), rng.uniform(1, 3), rng.uniform(3, 8)])]
        return [rng.uniform(0.0, 2.0)]
    pre = '#include "%s/Simbody/src/CompliantContactSubsystem.cpp"\n' % REPO
    dis = tvgen.run_tv(ctx, 'c37', meta, 40 if quick else 400, argfn=argfn, prelude_extra=pre)
    if dis:
        k, args, fa, fb = dis[0]
        ctx.broken.append(('correspondence:c37:' + k, 'translated kernel and compiled function differ: args=%s cxx=%s model=%s' % (args, fa, fb)))
    # (C) correspondence of the hand-written laws
    exe, drv = build(ctx)
    if exe and drv:
        mult = 1 if quick else 8
        corr_hc(ctx, exe, drv, 600 * mult, 300 * mult)
        corr_ss(ctx, exe, drv, 500 * mult)
        corr_es(ctx, exe, drv, 500 * mult)
        corr_hz(ctx, exe, drv, 400 * mult)
        corr_bk(ctx, exe, drv, 400 * mult)
        corr_me(ctx, exe, drv, 60 * mult)
    C37_ef.run_ef(ctx, 56 * (1 if quick else 8), 56 * (1 if quick else 8))
    if exe and drv:
        # known finding (DESIGN 7.20): replay the witness of C37_ss_normal_never_attractive_refuted on the real code
        w = replay_ss_witness(ctx, exe)
        ctx.extra['ss_witness_Fy_on_sphere'] = w
        if w and w[0][1] > 0 and any(fy < 0 for sp, fy in w[1:]):
            ctx.report('smooth-normal-attractive-above-2/(3c)', 'SmoothSphereHalfSpaceForce normal force attractive: Fy on the sphere %s' % w,
                       {'witness': 'stiffness 1e5 dissipation 1 mu 0 vt .001 cf 1e-5 bd 300 bv 50 r .8 height .7', 'Fy_by_separating_speed': w})
        elif w is not None:
            ctx.notes.append('smooth-model witness no longer attractive: %s' % w)
            ctx.broken.append(('refuted-witness:ss_normal_never_attractive_refuted', 'the implementation no longer shows the attractive force the model theorem exhibits: %s' % w))
    ctx.cov['rule'] = ('correspondence cases: HC/HZ = random scenes of 1-5 spheres (radius .2-1, stiffness .5-1e4, dissipation 0-2, friction 0-1.5, half space on Ground or on a '
                       'moving body, depth: penetrating/grazing/separated, sphere pairs overlapping; normal velocity: rest/approach/rebound/yank (f<=0); slip 0, <vt, ~vt, >vt); '
                       'SS = one sphere, indentation -.3..+.4 radius, separating speeds clustered around 2/(3c); ES = station height d0-8/d2..d0+10/d2, Sliding 0/1/random, '
                       'anchor offsets 1e-6..1e-1; BK = brick with a face flat or tilted <= .3 rad. evaluations = scenes (HC,SS,ES) + contacts (HZ,BK) + translator-validation tuples; '
                       'EF = mesh sphere (radius .35-.6, 2-3 subdivisions, depth .02-.15) on half space / analytic sphere / mesh brick / mesh sphere, other body on Ground or moving; '
                       'non-trivial = some non-zero force produced')
    ctx.assumptions += ['theorems are over the reals (ROps) with std::pow = Rpower; binary64 rounding is covered only by the tolerance-based correspondence (1e-9 relative)',
                        'the model takes the contact geometry (depth, normal, location, radius) from the collision detector and the body poses/velocities from the State; their correctness is C35 / C03',
                        'stiffness^(2/3) stored by HuntCrossleyForceImpl::Parameters and ContactMaterial is an input of the model (computed outside the anchored files)',
                        'friction theorems assume 0 <= mu_d <= mu_s, 0 <= mu_v, vt > 0 (ContactMaterial enforces it; HuntCrossleyForce, SmoothSphereHalfSpaceForce do not)',
                        'brick/half-space: the choice of the contacting face and the centre-of-pressure shift are not modelled (the check picks the face by the documented rule)',
                        'ExponentialSpringForce: the update of the Sliding state (time-dependent) is not modelled',
                        'ElasticFoundationForce: which faces are inside, the spring and nearest points and the face areas are taken from the implementation (mesh/OBB traversal and nearest-point queries are C36/C34); the gradient theorem holds the nearest point fixed']
    ctx.finish()
