"""C37, ElasticFoundationForce part (called from checks/C37.py).

Correspondence: the extracted model of ElasticFoundationForceImpl::calcForce/processContact (coq/C37/C37_ef_Model.v) against
the compiled element through GeneralContactSubsystem on random scenes: a triangle-mesh sphere (Free body, offset surface,
moving, with dissipation and friction) against a half space, an analytic sphere, a mesh brick WITH parameters, a mesh brick
WITHOUT parameters and a mesh sphere WITH parameters (mesh-on-mesh, both with parameters, is where areaScale = 1/2); the other
body on Ground or moving.  The per-face geometry (inside faces, spring and nearest points in Ground, face areas) is taken from
the implementation (harness/C37_ef_probe.cpp reproduces it with the public API); the model must reproduce every rigid-body
force and the potential energy.
Failing-input search (every run, implementation alone): static scenes without dissipation or friction; the force on the ball
must equal minus the central finite difference of calcPotentialEnergy w.r.t. the ball's translation."""
import os, math
from vlib import *

EXTRACT = '''From Coq Require Import Extraction ExtrOcamlBasic.
Require Import Num Vec c37_gen C37_Model C37_ef_Model.
Extraction "c37efmodel.ml" ef_calcForce ef_force ef_face_pe.
'''
OTHER = {0: 'halfspace', 1: 'sphere', 2: 'meshbrick+par', 3: 'meshbrick-nopar', 4: 'meshsphere+par'}
def U(r, lo, hi): return r.uniform(lo, hi)
def logU(r, lo, hi): return math.exp(r.uniform(math.log(lo), math.log(hi)))
def vec(r, s): return [r.uniform(-s, s) for _ in range(3)]
def fmt(xs): return ' '.join(hexf(x) if isinstance(x, float) else str(x) for x in xs)
def secs(line): return [parse_floats(s) for s in line.split('|')]

def fric(r):
    if r.random() < 0.25: return [0.0, 0.0, 0.0]
    us = U(r, 0.05, 1.2); return [us, us * U(r, 0, 1), 0.0 if r.random() < 0.4 else U(r, 0, 0.4)]

def surface_frame(r, other):
    """other-surface frame in its body and the point/direction from which the ball approaches (in that frame)"""
    if other == 0: return [0.0, 0.0, -0.5 * math.pi], [0.0, 0.0, 0.0]          # half space y < 0
    if other in (2, 3): return [0.0, 0.0, 0.0], [0.0, -0.5, 0.0]               # brick 1.2 x 1.0 x 1.2, top face at y = 0
    return [0.0, 0.0, 0.0], [0.0, -0.7, 0.0]                                   # sphere radius .7, top at y = 0

def gen_static(r, other):
    rad = U(r, 0.35, 0.6); depth = U(r, 0.02, 0.15)
    ang, p = surface_frame(r, other)
    q = [U(r, -0.12, 0.12), rad - depth, U(r, -0.12, 0.12)]
    return [other, r.choice([2, 3]), rad, logU(r, 100, 5000), logU(r, 100, 5000)] + ang + p + q

def gen_scene(r, other):
    rad = U(r, 0.35, 0.6); depth = U(r, 0.02, 0.15); vt = r.choice([0.01, 0.1]) * U(r, 0.5, 2)
    bp = [logU(r, 100, 5000), 0.0 if r.random() < 0.2 else U(r, 0.05, 1.5)] + fric(r)
    op = [logU(r, 100, 5000), 0.0 if r.random() < 0.2 else U(r, 0.05, 1.5)] + fric(r)
    ang, p = surface_frame(r, other)
    onGround = r.random() < 0.5
    # keep the other body's frame at the origin (small rotations only when it moves) so the approach direction stays +y
    oa = [0.0] * 3 if onGround else vec(r, 0.15); opos = [0.0] * 3 if onGround else vec(r, 0.05)
    ow = [0.0] * 3 if onGround else vec(r, 0.5); ov = [0.0] * 3 if onGround else vec(r, 0.5)
    ba = vec(r, 1.2)
    # ball surface frame offset (0.05,-0.02,0.03) in the body: place the body so that the mesh centre is at c
    c = [U(r, -0.12, 0.12), rad - depth, U(r, -0.12, 0.12)]
    R = rot(ba); off = [0.05, -0.02, 0.03]
    bpos = [c[i] - sum(R[i][k] * off[k] for k in range(3)) for i in range(3)]
    m = r.random()
    vy = 0.0 if m < 0.2 else (-U(r, 0, 1.5) if m < 0.55 else (U(r, 0, 0.5) if m < 0.8 else U(r, 1.0, 4.0) / max(bp[1], op[1], 0.2)))
    bv = [0.0, 0.0, 0.0] if m < 0.2 and r.random() < 0.5 else [vt * logU(r, 1e-2, 30) * r.choice([-1, 1]), vy, vt * logU(r, 1e-2, 30) * r.choice([-1, 1])]
    bw = [0.0] * 3 if r.random() < 0.5 else vec(r, 1.0)
    nums = [other, vt, r.choice([2, 2, 3]), rad] + bp + op + [1 if onGround else 0] + oa + opos + ow + ov + ang + p + ba + bpos + bw + bv
    return nums, {'vt': vt, 'bp': bp, 'op': op, 'other': other}

def rot(a):
    cx, sx, cy, sy, cz, sz = math.cos(a[0]), math.sin(a[0]), math.cos(a[1]), math.sin(a[1]), math.cos(a[2]), math.sin(a[2])
    mm = lambda A, B: [[sum(A[i][k] * B[k][j] for k in range(3)) for j in range(3)] for i in range(3)]
    return mm(mm([[1, 0, 0], [0, cx, -sx], [0, sx, cx]], [[cy, 0, sy], [0, 1, 0], [-sy, 0, cy]]), [[cz, -sz, 0], [sz, cz, 0], [0, 0, 1]])

def model_line(info, p):
    b = p[0][1:]; nb = int(b[0]); toks = ['EF', info['vt'], nb] + b[1:1 + 9 * nb]
    c = p[1]; nc = int(c[0]); toks.append(nc); j = 1; nfaces = 0; both = 0
    for _ in range(nc):
        b1, b2, has1, has2, s1, s2 = [int(x) for x in c[j:j + 6]]; j += 6
        par = lambda s: info['bp'] if s == 0 else info['op']
        toks += [b1, b2, has1] + (par(s1) if has1 else []) + [has2] + (par(s2) if has2 else [])
        if has1 and has2: both += 1
        for side in (0, 1):
            n = int(c[j]); j += 1; toks += [n] + c[j:j + 8 * n]; j += 8 * n; nfaces += n
    return fmt(toks), nc, nfaces, both

def run_ef(ctx, n_scenes, n_static):
    exe = ctx.bdir('C37_ef_probe')
    if not ctx.cxx(os.path.join(VERIF, 'harness', 'C37_ef_probe.cpp'), exe):
        ctx.broken.append(('harness:C37_ef_probe', 'probe does not compile against the current source')); return
    od = ctx.bdir('mlef'); drv = None
    if ctx.extract(EXTRACT, od):
        src = open(os.path.join(VERIF, 'ocaml', 'C37_ef_drv.ml')).read().replace('#include "fops.inc"', open(os.path.join(VERIF, 'ocaml', 'fops.inc')).read())
        open(os.path.join(od, 'drv.ml'), 'w').write(src)
        if ctx.ocaml(od, ['c37efmodel.mli', 'c37efmodel.ml', 'drv.ml'], 'drv'): drv = os.path.join(od, 'drv')
    if drv is None: ctx.broken.append(('extract:C37_ef_Model', 'extraction / driver build failed'))
    r = ctx.rng
    # ---- correspondence
    if drv:
        cases = [gen_scene(r, [0, 1, 2, 3, 4, 2, 4][i % 7]) for i in range(n_scenes)]
        lines = ['EF ' + fmt(nums) for nums, info in cases]
        rc, out, err = sh([exe], input='\n'.join(lines) + '\n', timeout=1800)
        outs = [l for l in out.split('\n') if l.strip()]
        if len(outs) != len(lines) or any(not o.startswith('OK') for o in outs):
            ctx.broken.append(('harness:C37_ef_probe:EF', 'probe failed: %d lines for %d scenes %s' % (len(outs), len(lines), [o[:200] for o in outs if not o.startswith('OK')][:1])))
        else:
            parsed = [secs(o) for o in outs]; ml = [model_line(info, p) for (nums, info), p in zip(cases, parsed)]
            rc, o2, e2 = sh([drv], input='\n'.join(m[0] for m in ml) + '\n', timeout=900)
            mouts = [l for l in o2.split('\n') if l.strip()]
            if len(mouts) != len(ml): ctx.broken.append(('ocaml:C37_ef_drv', 'driver produced %d lines for %d scenes: %s' % (len(mouts), len(ml), e2[-200:])))
            else:
                dis = 0; first = None; hist = {}; nontriv = 0; faces = 0; mm = 0; arst = {}
                import C37 as _c37
                for ((nums, info), p), (m, nc, nf, both), mo in zip(zip(cases, parsed), ml, mouts):
                    impl = p[2] + p[3]; model = parse_floats(mo)
                    bb = p[0][1:]; _c37.ar_predicate(ctx, 'ElasticFoundationForce', lines[cases.index((nums, info))], [bb[1 + 9 * i: 4 + 9 * i] for i in range(int(bb[0]))], p[2], arst)
                    k = OTHER[info['other']] + (':contact' if nc else ':none'); hist[k] = hist.get(k, 0) + 1; faces += nf; mm += both
                    if any(x != 0 for x in p[2]): nontriv += 1
                    scv = max([1.0] + [abs(x) for x in impl if x == x])
                    if not (len(impl) == len(model) and all(close(x, y, 1e-9, 1e-11, scv) for x, y in zip(impl, model))):
                        dis += 1
                        if first is None: first = (lines[cases.index((nums, info))], impl, model, OTHER[info['other']])
                ctx.add_cases(len(lines), nontriv, [{'mode': 'EF', 'input': lines[0][:300], 'impl': parsed[0][2] + parsed[0][3], 'model': parse_floats(mouts[0])}])
                _c37.ar_finish(ctx, 'ElasticFoundationForce', arst)
                ctx.extra.setdefault('correspondence', {})['EF'] = {'scenes': len(lines), 'disagreements': dis, 'faces': faces, 'mesh_on_mesh_contacts_both_with_parameters': mm, 'by_kind': hist, 'rtol': 1e-9}
                if first: ctx.broken.append(('correspondence:ElasticFoundationForce', 'rigid body forces / pe differ from the model (%s): impl=%s model=%s input=%s' % (first[3], first[1][-7:], first[2][-7:], first[0][:200])))
    # ---- implementation-only predicate: force = -grad PE (static, no dissipation, no friction)
    st = [gen_static(r, [2, 4, 0, 1, 3, 2, 4][i % 7]) for i in range(n_static)]
    lines = ['FD ' + fmt(nums) for nums in st]
    rc, out, err = sh([exe], input='\n'.join(lines) + '\n', timeout=1800)
    outs = [l for l in out.split('\n') if l.strip()]
    nev = 0; found = None; hist = {}
    if len(outs) != len(lines): ctx.broken.append(('harness:C37_ef_probe:FD', 'probe produced %d lines for %d cases' % (len(outs), len(lines))))
    for nums, line, o in zip(st, lines, outs):
        if not o.startswith('OK'): continue
        f = parse_floats(o)[1:]; pe, frc, grad, nc = f[0], f[1:4], f[4:7], int(f[7])
        if nc == 0: continue
        nev += 1; hist[OTHER[nums[0]]] = hist.get(OTHER[nums[0]], 0) + 1
        err_ = math.sqrt(sum((a + b) ** 2 for a, b in zip(frc, grad))); scale = max(math.sqrt(sum(a * a for a in frc)), math.sqrt(sum(a * a for a in grad)))
        # 2% of the larger of the two: the energy is only piecewise smooth (faces enter and leave the contact set), the seeded factor is 2
        if scale > 1e-3 and err_ > 0.02 * scale and found is None:
            found = (line, OTHER[nums[0]], pe, frc, grad)
    ctx.extra['search_EF'] = {'static_cases_in_contact': nev, 'by_kind': hist, 'violations': 0 if found is None else 1}
    if found:
        line, kind, pe, frc, grad = found
        ctx.broken.append(('predicate:ElasticFoundationForce:force-is-not-minus-gradient-of-PE', '%s: PE=%.9g f=%s -dPE/dq=%s' % (kind, pe, frc, [-g for g in grad])))
        ctx.report('impl:ElasticFoundationForce:force-is-not-minus-gradient-of-PE',
                   'static %s contact: force on the ball %s but -d(PE)/dq = %s (PE = %.9g)' % (kind, frc, [-g for g in grad], pe),
                   {'probe_input': line, 'replay_cmd': 'echo "%s" | %s' % (line, exe), 'failing_input': line})
