"""C38 Non-contact force elements follow their documented laws (DESIGN 5 C38).

Model: coq/C13/C13_Model.v (element laws, shared with C12/C13) + coq/C38/C38_Model.v (cache/history machine).
Theorems: coq/Props/Properties_C38.v - (A) each element's force and PE equal the formula of its documentation
(spring f = k(x-x0) along d, damper c v d, constant force, Gravity m g d at the mass centre with exclusions and
PE = m g (p.(-d) - hz), -k(q-q0), MobilityLinearStop's piecewise min/max law, bushing -(Kq + C qdot), 1/2 q'Kq);
UniformGravity's PE formula and "PE = 0 at the zero height" (regression witness of fix 6270af84);  (B) along any history of parameter/state/enable changes every
realization reports the value for the current values (given that parameter writes invalidate the cached force).
Tie: (1) correspondence of the laws: extracted model vs compiled elements on the same poses/velocities/parameters;
(2) random histories of set-parameter / set-state / enable-disable / realize on the real elements, observed through the
System's force arrays after realize(Dynamics), compared (a) with a fresh state holding the same values and (b) with the
extracted history machine running the extracted laws."""
import os, sys, math
from vlib import *
import C13

PROPS = ['Props/Properties_C38.v']
WAVE = ['TPS', 'TPD', 'TPC', 'CF', 'CT', 'GD', 'UG', 'GR', 'LB', 'MLS', 'MLD', 'MCF', 'MST']
HIST_KINDS = ['MLS', 'MLD', 'MCF', 'MST', 'GR']
NPAR = {'MLS': 2, 'MLD': 1, 'MCF': 1, 'MST': 4, 'GR': 8}
EXTRACT = '''From Coq Require Import Extraction ExtrOcamlBasic.
Require Import Num Vec C13_Model C38_Model.
Extraction "c38model.ml" ev_mspring ev_mdamper ev_mconst ev_mstop ev_gravity hrun hspec.
'''

def rand_params(r, kind):
    U = C13.U
    if kind == 'MLS': return [U(r, 0.0, 50.0) if r.random() > 0.1 else 0.0, U(r, 1.0)]
    if kind == 'MLD': return [U(r, 0.0, 10.0) if r.random() > 0.1 else 0.0]
    if kind == 'MCF': return [U(r, 20.0)]
    if kind == 'MST':
        lo = U(r, 1.2); hi = lo + (U(r, 0.0, 1.5) if r.random() > 0.1 else 0.0)
        return [0.0 if r.random() < 0.1 else U(r, 0.0, 80.0), 0.0 if r.random() < 0.25 else U(r, 0.0, 2.0), lo, hi]
    return C13.unit(r, 3) + [0.0 if r.random() < 0.15 else U(r, 0.0, 20.0), U(r, 2.0)] + [1.0 if r.random() < 0.3 else 0.0 for _ in range(3)]

def gen_history(r, kind, nops):
    """-> (harness numbers, python-side op list).  The python list carries the full parameter vector after each
    parameter op (semantics of the partial Gravity setters as documented)."""
    if kind == 'GR':
        pre = C13.gen_sysA(r); p0 = rand_params(r, kind); head = pre + p0; nq, nu = 21, 18; fixed = []
        for i in range(3): fixed += pre[17 * i:17 * i + 4]
    else:
        pre = C13.vec(r, 10, 1.5) + C13.vec(r, 10, 2.0)
        b = r.randrange(1, 6); w = r.randrange(0, C13.SYSB_NQ[b]); p0 = rand_params(r, kind)
        head = pre + [b, w] + p0; nq, nu = 10, 10; fixed = []
        jq = {1: 0, 2: 1, 3: 2, 4: 4, 5: 7}[b] + w
    nums = list(head); ops = []; cur = list(p0)
    def report(): nums.append(5); ops.append(('R',))
    report()
    for _ in range(nops):
        m = r.random()
        if m < 0.35:
            if kind == 'GR' and r.random() < 0.7:
                c = r.choice([6, 7, 8, 9, 10])
                if c == 6:
                    v = [0.0, 0.0, 0.0] if r.random() < 0.2 else C13.vec(r, 3, 10.0); nums += [6] + v
                    n = math.sqrt(sum(x * x for x in v))
                    if n > 0: cur[0:3] = [x / n for x in v]
                    cur[3] = n
                elif c == 7:
                    i = r.randrange(1, 4); e = float(r.random() < 0.5); nums += [7, i, e]; cur[4 + i] = e
                elif c == 8:
                    g = 0.0 if r.random() < 0.3 else C13.U(r, 0.0, 20.0); nums += [8, g]; cur[3] = g
                elif c == 9:
                    z = C13.U(r, 2.0); nums += [9, z]; cur[4] = z
                else:
                    d = C13.unit(r, 3); nums += [10] + d; cur[0:3] = d
            else:
                cur = rand_params(r, kind); nums += [1] + cur
            ops.append(('P', list(cur)))
        elif m < 0.5:
            # move the element's own coordinate (or any coordinate): position data change
            i = r.randrange(nq) if kind == 'GR' or r.random() < 0.3 else jq
            nums += [2, i, C13.U(r, 1.5)]; ops.append(('Qmark',))
        elif m < 0.6:
            i = r.randrange(nu); nums += [3, i, C13.U(r, 2.0)]; ops.append(('Qmark',))
        elif m < 0.7:
            e = float(r.random() < 0.5); nums += [4, e]; ops.append(('E', e))
        else:
            report()
    report()
    return nums, ops, p0, fixed

def parse_hist(kind, line):
    """harness line -> (nb, nu, j, [report dicts])"""
    if not line.startswith('OK'): return None
    h = line.split('|', 2)
    nb, nu, j = [int(x) for x in h[1].split()]
    out = []
    for rec in h[2].split(';'):
        if not rec.strip(): continue
        secs = rec.split('|')
        if secs[0].strip() != 'R': return None
        s = [parse_floats(x) for x in secs[1:]]
        out.append({'hist': s[0] + s[1] + s[2], 'fresh': s[3] + s[4] + s[5], 'params': s[6][:-1], 'enabled': s[6][-1], 'pos': s[7]})
    return nb, nu, j, out

def model_line(kind, nb, nu, j, fixed, p0, ops, reps):
    toks = [kind, nb, nu, j, len(fixed)] + fixed + [len(p0)] + p0
    ri = 0; dirty = True
    for o in ops:
        if o[0] == 'R':
            if dirty: toks += ['Q', len(reps[ri]['pos'])] + reps[ri]['pos']; dirty = False
            toks.append('R'); ri += 1
        elif o[0] == 'P': toks += ['P', len(o[1])] + o[1]
        elif o[0] == 'E': toks += ['E', o[1]]
        else: dirty = True
    return ' '.join(hexf(x) if isinstance(x, float) else str(x) for x in toks)

def histories(ctx, n_per_kind, nops):
    exe = ctx.bdir('C38_hist')
    if not ctx.cxx(os.path.join(VERIF, 'harness', 'C38_hist.cpp'), exe):
        ctx.broken.append(('harness:C38_hist', 'history harness does not compile')); return
    od = ctx.bdir('mlh')
    if not ctx.extract(EXTRACT, od):
        ctx.broken.append(('extract:C38_Model', 'extraction failed')); return
    drv = open(os.path.join(VERIF, 'ocaml', 'C38_drv.ml')).read().replace('#include "fops.inc"', open(os.path.join(VERIF, 'ocaml', 'fops.inc')).read())
    open(os.path.join(od, 'drv.ml'), 'w').write(drv)
    if not ctx.ocaml(od, ['c38model.mli', 'c38model.ml', 'drv.ml'], 'drv'):
        ctx.broken.append(('ocaml:C38_drv', 'driver build failed')); return
    # regression histories first (implementation-only predicate: history state vs fresh state)
    cp = os.path.join(VERIF, 'corpus', 'C38', 'histories.txt')
    if os.path.exists(cp):
        cl = [l.strip() for l in open(cp) if l.strip() and not l.startswith('#')]
        rc, out, err = sh([exe], input='\n'.join(cl) + '\n', timeout=600)
        nbad = 0; nr = 0
        for cin, l in zip(cl, [x for x in out.split('\n') if x.strip()]):
            ph = parse_hist(cin.split()[0], l)
            if ph is None: continue
            for ri, rep in enumerate(ph[3]):
                nr += 1
                if not C13.agree(rep['hist'], rep['fresh'], 1e-12, 1e-13):
                    nbad += 1
                    if nbad == 1:
                        ctx.report('impl:stale-after-parameter-change:' + C13.NAMES[cin.split()[0]], 'corpus history: realized forces/PE differ from a fresh state with the same values (report %d)' % ri,
                                   {'kind': cin.split()[0], 'harness_input': cin})
                        ctx.broken.append(('predicate:history-vs-fresh', 'corpus history ' + C13.NAMES[cin.split()[0]]))
        ctx.extra['corpus_histories'] = {'histories': len(cl), 'reports': nr, 'disagreements': nbad}
    r = ctx.rng; cases = []
    for k in HIST_KINDS:
        for i in range(n_per_kind):
            nums, ops, p0, fixed = gen_history(r, k, nops); cases.append((k, nums, ops, p0, fixed))
    rc, out, err = sh([exe], input='\n'.join(k + ' ' + C13.fmt(nums) for k, nums, ops, p0, fixed in cases) + '\n', timeout=1800)
    lines = [l for l in out.split('\n') if l.strip()]
    if len(lines) != len(cases):
        ctx.broken.append(('harness:C38_hist', 'harness produced %d lines for %d histories: %s' % (len(lines), len(cases), (out + err)[-300:]))); return
    parsed = []; mlines = []
    for (k, nums, ops, p0, fixed), l in zip(cases, lines):
        ph = parse_hist(k, l)
        if ph is None:
            ctx.broken.append(('harness:history', 'implementation raised on a generated history (%s): %s' % (k, l[:200]))); return
        nb, nu, j, reps = ph
        nrep = sum(1 for o in ops if o[0] == 'R')
        if len(reps) != nrep:
            ctx.broken.append(('harness:history', 'expected %d reports, got %d (%s)' % (nrep, len(reps), k))); return
        parsed.append(ph); mlines.append(model_line(k, nb, nu, j, fixed, p0, ops, reps))
    rc, out, err = sh([os.path.join(od, 'drv')], input='\n'.join(mlines) + '\n', timeout=1800)
    mo = out.split('\n')[:len(cases)]
    nrep = 0; stale = 0; setter = 0; moddis = 0; nparam_then_report = 0; hist = {}
    for (k, nums, ops, p0, fixed), (nb, nu, j, reps), ml in zip(cases, parsed, mo):
        mreps = [parse_floats(x) for x in ml.split(';')[:-1]]
        if ml.startswith('!') or len(mreps) != len(reps):
            ctx.broken.append(('ocaml:C38_drv', 'driver output does not match the history (%s): %s' % (k, ml[:200]))); return
        # python-side parameter tracking (documented setter semantics) vs the getters
        cur = list(p0); en = 1.0; ri = 0; changed = False
        for o in ops:
            if o[0] == 'P': cur = o[1]; changed = True
            elif o[0] == 'E': en = o[1]
            elif o[0] == 'R':
                rep = reps[ri]; nrep += 1; hist[C13.NAMES[k]] = hist.get(C13.NAMES[k], 0) + 1
                if changed: nparam_then_report += 1; changed = False
                if not C13.agree(rep['params'], cur, 1e-12, 1e-14) or rep['enabled'] != en:
                    setter += 1
                    if setter == 1:
                        ctx.report('impl:setter:' + C13.NAMES[k], 'parameter getters after a setter history differ from the documented setter semantics: got %s expected %s'
                                   % (rep['params'], cur), {'kind': k, 'harness_input': k + ' ' + C13.fmt(nums)})
                        ctx.broken.append(('predicate:setter-semantics', C13.NAMES[k]))
                if not C13.agree(rep['hist'], rep['fresh'], 1e-12, 1e-13):
                    stale += 1
                    if stale == 1:
                        ctx.report('impl:stale-after-parameter-change:' + C13.NAMES[k],
                                   'after a history of changes the realized forces/PE of %s differ from a fresh state with the same values (report %d of the history)' % (C13.NAMES[k], ri),
                                   {'kind': k, 'harness_input': k + ' ' + C13.fmt(nums), 'history_state': rep['hist'], 'fresh_state': rep['fresh']})
                        ctx.broken.append(('predicate:history-vs-fresh', C13.NAMES[k]))
                if not C13.agree(rep['hist'], mreps[ri], 1e-9, 1e-12):
                    moddis += 1
                    if moddis == 1:
                        ctx.broken.append(('correspondence:history:' + C13.NAMES[k], 'extracted history machine and implementation differ at report %d: harness input "%s"'
                                           % (ri, (k + ' ' + C13.fmt(nums))[:1200])))
                ri += 1
    ctx.add_cases(nrep, nparam_then_report, [m[:160] for m in mlines[:2]])
    ctx.extra['histories'] = {'histories': len(cases), 'reports': nrep, 'reports_after_a_parameter_change': nparam_then_report, 'per_element': hist,
                              'history_vs_fresh_disagreements': stale, 'setter_semantics_disagreements': setter, 'model_disagreements': moddis}

def witness(ctx, exe):
    rc, out, err = sh([exe], input='WUG\n', timeout=120)
    line = [l for l in out.split('\n') if l.startswith('OK')]
    if not line:
        ctx.broken.append(('witness', 'witness replay did not run: ' + (out + err)[-200:])); return
    v = parse_floats(line[0].split('|')[1])
    ctx.extra['witness_replay'] = {'UniformGravity_PE_at_zero_height': v[0], 'Gravity_PE_at_zero_height': v[1]}
    # regression case (was the known finding uniformgravity-zero-height until fix 6270af84): PE must be 0 at the zero height
    if abs(v[0]) > 1e-12:
        ctx.report('impl:uniformgravity-zero-height', 'UniformGravity with g=(0,-2,0), zeroHeight=3: a unit mass whose mass centre is at height 3 reports PE %g, documented 0 (Gravity reports %g)' % (v[0], v[1]),
                   {'theorem': 'C38_uniformgravity_zero_height_witness', 'replay_cmd': 'echo WUG | %s' % exe, 'observed': v})
        ctx.broken.append(('predicate:uniformgravity-zero-height', 'PE %g at the zero height' % v[0]))
    if abs(v[1]) > 1e-12:
        ctx.report('impl:gravity-zero-height', 'Force::Gravity reports PE %g for a mass centre at the zero height' % v[1], {'observed': v})
        ctx.broken.append(('predicate:gravity-zero-height', 'PE %g' % v[1]))

def replay(ctx, path):
    """re-run one recorded case: a law case (both sides) or a history (history state vs fresh state)"""
    import json
    d = json.load(open(path)); hi = d.get('harness_input', '')
    if d.get('key', '').startswith('impl:stale') or d.get('key', '').startswith('impl:setter'):
        ctx.build_repo(); exe = ctx.bdir('C38_hist')
        if not ctx.cxx(os.path.join(VERIF, 'harness', 'C38_hist.cpp'), exe): print('harness does not compile'); return
        rc, out, err = sh([exe], input=hi + '\n', timeout=600)
        ph = parse_hist(hi.split()[0], [l for l in out.split('\n') if l.strip()][0])
        for ri, rep in enumerate(ph[3]):
            print('report %d: parameters %s enabled %s\n  history state: %s\n  fresh state  : %s\n  %s' % (ri, rep['params'], rep['enabled'], rep['hist'], rep['fresh'],
                  'equal' if C13.agree(rep['hist'], rep['fresh'], 1e-12, 1e-13) else 'DIFFERENT'))
    else:
        C13.replay_case(ctx, path)

def run(ctx):
    ctx.build_repo()
    ctx.coq_props(PROPS)
    exes = C13.build_sides(ctx)
    per = 15 if ctx.tier == 'quick' else 200
    if exes:
        r = ctx.rng; cases = []
        for k in WAVE:
            for i in range(per):
                hl, ep = C13.gen_case(r, k); cases.append((k, hl, ep))
        res = C13.run_cases(ctx, exes, cases)
        dis = C13.compare(res)
        nontriv = sum(1 for kind, hl, ep, di, dm, ml in res if any(x != 0.0 for x in di.get('bf', []) + di['mf']) or di['pe'] != 0.0)
        ctx.add_cases(len(res), nontriv, [c[5][:160] for c in res[:1]])
        hist = {}
        for kind, hl, ep, di, dm, ml in res: hist[C13.NAMES[kind]] = hist.get(C13.NAMES[kind], 0) + 1
        ctx.extra['law_case_histogram'] = hist
        if dis:
            kind, what, di, dm, (hl, ep, ml) = dis[0]
            ctx.broken.append(('correspondence:' + C13.NAMES[kind], 'model and implementation differ in %s (%d of %d cases): harness input "%s"' %
                               (what, len(dis), len(res), (kind + ' ' + C13.fmt(hl))[:1500])))
        witness(ctx, exes[0])
    histories(ctx, 12 if ctx.tier == 'quick' else 150, 14 if ctx.tier == 'quick' else 30)
    ctx.cov['rule'] = ('(1) law correspondence: every element of the wave in a real system, random poses/velocities/parameters, all forces and PE vs the extracted model (rel 1e-9); '
                       '(2) histories: per element with State-held parameters (MobilityLinearSpring/Damper/ConstantForce/LinearStop, Gravity incl. its partial setters and exclusions) random sequences of '
                       'set-parameter / set-q / set-u / enable-disable / realize(Dynamics); each report = System force arrays + PE, compared with a fresh state with the same values (1e-12) '
                       'and with the extracted history machine over the extracted laws (1e-9); evaluations = law cases + reports; non-trivial = law cases with a non-zero output + reports that follow a parameter change')
    ctx.assumptions += ['theorems are over the reals (ROps); binary64 rounding is covered only by the tolerance-based correspondence',
                        'the documented formulas are transcribed by hand from the Doxygen comments of Force.h, Force_Gravity.h, Force_MobilityLinearStop.h, Force_LinearBushing.h',
                        'the cache model has one flag: whether a parameter write invalidates the cached force; the theorem assumes it does, the histories check that the code behaves so',
                        'elements whose parameters are Topology-stage only (two-point elements, ConstantForce/Torque, GlobalDamper, UniformGravity) have no runtime parameter change to test',
                        'LinearBushing: only the generalized-force law and PE formula are stated; the mapping of q, qdot and of the generalized force to the bodies is covered by correspondence only']
    ctx.finish()
