"""C40 Numerical differentiation meets its error bounds (DESIGN 5 C40) -- partial: truncation part of the bound only.
Tie (correspondence): hand model C40_Model.v of the step-size rule and the forward/central formulas of
SimTKmath/src/Differentiator.cpp, extracted to OCaml, run against the real Differentiator (all nine combinations of
Scalar/Gradient/Jacobian function x calcDerivative/calcGradient/calcJacobian, both methods, fast and slow interfaces)
on polynomial test functions; compared: the estimates AND the points at which the user function was evaluated (= the step h)."""
import os, sys, math
from vlib import *

PROPS = ['Props/Properties_C40.v']
EPS = 2.0 ** -52
K_LOST = 'calcDerivative-on-vector-function-result-lost'
K_THROW = 'calcGradient-on-JacobianFunction-throws'

def gen_cases(ctx, ncases, sig):
    r = ctx.rng; H = hexf; out = []; hist = {}
    def yval():
        c = r.random()
        if c < 0.10: return 0.0
        if c < 0.18: return r.choice((0.1, -0.1, 0.1 * (1 + EPS), 0.1 * (1 - EPS), 0.09999, 0.10001))       # the YMin branch boundary
        if c < 0.28: return r.choice((-1, 1)) * 10 ** r.uniform(-12, -2)
        if c < 0.75: return r.uniform(-3, 3)
        return r.choice((-1, 1)) * 10 ** r.uniform(1, 8)
    for c in range(ncases):
        io = r.choice(('SS', 'SS', 'SG', 'SJ', 'GS', 'GG', 'GG', 'GG', 'GJ', 'JS', 'JG', 'JJ', 'JJ', 'JJ', 'JJ'))
        ms = r.choice(('F', 'F', 'C', 'C', 'UF', 'UC', 'UU'))
        if io[0] == 'S' or io[1] == 'S': n = 1
        else: n = r.choice((1, 2, 3, 3, 5, 8, 13, 20))
        m = r.randint(1, 10) if io == 'JJ' else 1
        if r.random() < 0.15: acc_c = -1.0; acc = sig
        else: acc = 10 ** r.uniform(-14, -2); acc_c = acc
        cb = acc ** (1.0 / 3.0)
        deg = r.choice((1, 1, 2, 2, 3))
        co = []
        for j in range(m):
            co.append(r.uniform(-2, 2))
            for i in range(n):
                co += [r.uniform(-2, 2), r.uniform(-2, 2) if deg >= 2 else 0.0, r.uniform(-2, 2) if deg >= 3 else 0.0,
                       r.uniform(-2, 2) if deg >= 2 and n > 1 and r.random() < 0.5 else 0.0]
        y0 = [yval() for _ in range(n)]
        withf = r.randint(0, 1)
        out.append((io, n, ' '.join([io, ms, H(acc_c), H(acc), H(cb), str(withf), str(n), str(m)] + [H(x) for x in co] + [H(y) for y in y0]), y0))
        for tag in ('iface/' + io, 'method/' + ms, 'degree/%d' % deg, 'accuracy/' + ('default' if acc_c < 0 else '1e%d' % int(math.floor(math.log10(acc)))),
                    'n/%d' % n, 'interface/' + ('fast(fy0 given)' if withf else 'slow')):
            hist[tag] = hist.get(tag, 0) + 1
        for y in y0:
            a = abs(y); tag = 'y0/' + ('zero' if a == 0 else 'at-YMin' if 0.0999 < a < 0.1001 else 'small' if a < 0.1 else 'moderate' if a <= 3 else 'large')
            hist[tag] = hist.get(tag, 0) + 1
    return out, hist

def fl(tokens):
    out = []
    for t in tokens:
        try: out.append(float.fromhex(t))
        except ValueError: out.append(float(t))
    return out

def correspondence(ctx, ncases):
    d = ctx.bdir('corr'); os.makedirs(d, exist_ok=True)
    ext = ('From Coq Require Import Extraction ExtrOcamlBasic.\nRequire Import Num C40_Model.\nExtraction Language OCaml.\n'
           'Extraction "c40_x.ml" dstep diff_scalar diff_grad diff_jac eval_points.\n')
    if not ctx.extract(ext, d):
        ctx.broken.append(('correspondence:C40', 'extraction of the model failed')); return
    drv = open(os.path.join(VERIF, 'ocaml', 'C40_drv.ml')).read().replace('(*FOPS*)', open(os.path.join(VERIF, 'ocaml', 'fops.inc')).read())
    open(os.path.join(d, 'drv.ml'), 'w').write(drv)
    if not ctx.ocaml(d, ['c40_x.mli', 'c40_x.ml', 'drv.ml'], 'drv'):
        ctx.broken.append(('correspondence:C40', 'OCaml driver build failed')); return
    exe = os.path.join(d, 'diff')
    if not ctx.cxx(os.path.join(VERIF, 'harness', 'C40_diff.cpp'), exe):
        ctx.broken.append(('correspondence:C40', 'C++ harness does not compile against the current source')); return
    rc, out, err = sh([exe], input='Q\n', timeout=60)
    try: sig = float.fromhex(out.split()[0])
    except Exception:
        ctx.broken.append(('correspondence:C40', 'harness did not report SignificantReal: ' + (out + err)[-200:])); return
    cases, hist = gen_cases(ctx, ncases, sig)
    corpus = []
    cdir = os.path.join(VERIF, 'corpus', 'C40')
    if os.path.isdir(cdir):
        for f in sorted(os.listdir(cdir)):
            for l in open(os.path.join(cdir, f)):
                l = l.strip()
                if l and not l.startswith('#'):
                    t = l.split(); n = int(t[6]); corpus.append((t[0], n, l, fl(t[-n:])))
    cases = corpus + cases
    inp = '\n'.join(c[2] for c in cases) + '\n'
    open(os.path.join(d, 'cases.txt'), 'w').write(inp)
    rc1, o1, e1 = sh([exe], input=inp, timeout=900)
    rc2, o2, e2 = sh([os.path.join(d, 'drv')], input=inp, timeout=900)
    l1 = [l for l in o1.split('\n') if l.strip()]; l2 = [l for l in o2.split('\n') if l.strip()]
    if rc1 != 0 or rc2 != 0 or len(l1) != len(cases) or len(l2) != len(cases):
        ctx.broken.append(('correspondence:C40', 'runner failed rc=%s/%s lines=%d/%d of %d: %s' % (rc1, rc2, len(l1), len(l2), len(cases), (e1 + e2)[-300:])))
        return
    dis = []; nontrivial = set(); known = {}; bitwise = 0; nest = 0
    SENT = 12345.678
    # witness of the known 'result lost' defect: on the fast interface the caller's variable keeps the harness's sentinel
    lost_seen = False
    for (io, n, line, y0), a in zip(cases, l1):
        if io in ('GS', 'JS') and line.split()[5] == '1' and not a.startswith('EXC'):
            try: lost_seen = lost_seen or float.fromhex(a.split()[0]) == SENT
            except ValueError: pass
    for (io, n, line, y0), a, b in zip(cases, l1, l2):
        why = None
        if a.startswith('EXC'):
            if io == 'JG' and n > 1 and 'resize' in a: known.setdefault(K_THROW, (line, a, b)); continue
            why = 'implementation threw: ' + a
        else:
            pa = a.split('|'); pb = b.split('|')
            try:
                ea, pta = fl(pa[0].split()), fl(pa[1].split()); eb, ptb, info = fl(pb[0].split()), fl(pb[1].split()), fl(pb[2].split())
            except Exception:
                ea = pta = eb = ptb = info = None; why = 'unparsable output'
            if why is None:
                if len(pta) != len(ptb) or len(ea) != len(eb): why = 'different number of evaluations/estimates (%d/%d points, %d/%d estimates)' % (len(pta), len(ptb), len(ea), len(eb))
                else:
                    for k, (x, y) in enumerate(zip(pta, ptb)):
                        yi = y0[k % n]
                        if not abs(x - y) <= 8 * EPS * (abs(yi) + abs(y)):
                            why = 'evaluation point %d differs: cxx %r model %r (step-size rule)' % (k, x, y); break
                if why is None:
                    per = len(eb) // n           # estimates per parameter
                    k = 0; idx = 0
                    for i in range(n):
                        h = info[idx]; idx += 1
                        for j in range(per):
                            mag = info[idx]; idx += 1
                            x, y = ea[k], eb[k]; k += 1; nest += 1
                            if x == y: bitwise += 1
                            tol = 1e-9 * abs(y) + 64 * EPS * mag / abs(h) + 1e-300
                            if not abs(x - y) <= tol:
                                if io in ('GS', 'JS') and lost_seen and (x == SENT or line.split()[5] == '0'): known.setdefault(K_LOST, (line, a, b))
                                elif why is None: why = 'estimate (param %d, fn %d) differs: cxx %r model %r tol %.3g' % (i, j, x, y, tol)
                    if any(v != 0 for v in eb): nontrivial.add(line)
        if why: dis.append((line, a, b, why))
    ctx.add_cases(len(cases), len(nontrivial), [{'case': cases[len(corpus)][2][:200], 'cxx': l1[len(corpus)][:200], 'model': l2[len(corpus)][:200]}])
    ctx.extra.setdefault('correspondence', {})['differentiator'] = {'cases': len(cases), 'corpus_cases': len(corpus), 'disagreements': len(dis),
        'estimates_compared': nest, 'estimates_bitwise_equal': bitwise, 'SignificantReal': sig, 'input_distribution': dict(sorted(hist.items()))}
    ctx.trusted.add('correspondence harness harness/C40_diff.cpp + ocaml/C40_drv.ml with float NumOps; evaluation points compared to 8 ulp, estimates to 1e-9 rel + 64 eps |f|/h')
    # the two defects below were found by this check and repaired in /repo (fix commit 9362a2af, known_findings.txt 'fixed:' lines);
    # the classification is kept so that a regression is reported under its specific key with the failing case attached
    for key, (line, a, b) in known.items():
        what = ('Differentiator::calcDerivative on a 1-parameter GradientFunction / 1x1 JacobianFunction returns an uninitialised value (result written to a copy)'
                if key == K_LOST else 'Differentiator::calcGradient on a JacobianFunction with one function and n>1 parameters throws (Vector resized to 1 x n)')
        ctx.report(key, what, {'case': line, 'cxx': a, 'model': b, 'replay_cmd': 'echo "%s" | %s' % (line, exe)})
    if dis:
        line, a, b, why = dis[0]
        ctx.broken.append(('correspondence:C40:' + line.split()[0], '%s; case "%s" cxx=%s model=%s (%d disagreements)' % (why, line[:300], a[:200], b[:200], len(dis))))

def search(ctx, n):
    """failing-input search on the implementation: exactness on affine/quadratic functions and the error bound on
    polynomial, exponential and trigonometric functions, all interfaces, both methods"""
    exe = ctx.bdir('C40_search')
    if not ctx.cxx(os.path.join(VERIF, 'harness', 'C40_search.cpp'), exe):
        ctx.broken.append(('search:C40', 'search harness does not compile')); return
    rc, out, err = sh([exe, str(ctx.seed), str(n)], timeout=1200)
    fails = [l for l in out.split('\n') if l.startswith('FAIL')]
    done = [l for l in out.split('\n') if l.startswith('DONE')]
    ctx.extra['search'] = {'predicate_evaluations': int(done[0].split()[1]) if done else 0, 'failures': len(fails)}
    if not done: ctx.broken.append(('search:C40', 'search harness crashed rc=%s %s' % (rc, err[-300:])))
    seen = set()
    for f in fails:
        key = f.split()[1]
        if key in seen or len(seen) >= 4: continue
        seen.add(key)
        ctx.report(key if key in (K_LOST, K_THROW) else 'impl:' + key, 'implementation violates C40 predicate: ' + f,
                   {'replay_cmd': '%s %d %d' % (exe, ctx.seed, n), 'failing_input': f})

def run(ctx):
    ctx.build_repo()
    ctx.coq_props(PROPS)
    quick = ctx.tier == 'quick'
    correspondence(ctx, 400 if quick else 6000)
    ctx.cov['rule'] = ('correspondence of the extracted model with the real Differentiator on polynomial test functions (degree 1..3 with cross terms), '
                       '1..20 parameters, 1..10 functions, all nine function-kind x operation combinations, methods Forward/Central/Unspecified with each default, '
                       'accuracy default or 1e-14..1e-2, fast and slow interfaces, y0 components zero / tiny / at the YMin=0.1 branch boundary / moderate / up to 1e8; '
                       'non-trivial = some estimate non-zero; distinct by full case text')
    ctx.assumptions += ['theorems are over the reals (ROps): cleanUpH is the identity there; binary64 rounding is covered only by the tolerance-based correspondence',
                        'the model takes AccFac2 = cbrt(accuracy) as an input (no cube root in NumOps); theorems assume nothing about it except positivity (and cb^3 = acc where stated)',
                        'truncation bounds assume f differentiable 2 (3) times on all of R with the stated bound on the sampled interval; the rounding part of the error bound (function accuracy / h) is NOT proved',
                        'hand-written model tied by correspondence on the generated cases only; exception and statistics bookkeeping of Differentiator not modelled']
    if ctx.broken or not quick:
        search(ctx, 200 if quick else 2000)
    ctx.finish()

def replay(ctx, path):
    """bin/check C40 --replay FILE : re-run a recorded case on the implementation and on the model"""
    import json
    r = json.load(open(path))
    print('replay of %s: key=%s\n  %s' % (path, r.get('key'), r.get('what', r.get('no_longer_checks'))))
    if r.get('case'):
        d = ctx.bdir('corr')
        if not (os.path.exists(os.path.join(d, 'diff')) and os.path.exists(os.path.join(d, 'drv'))): correspondence(ctx, 1)
        for nm, exe in (('implementation', 'diff'), ('model', 'drv')):
            rc, out, err = sh([os.path.join(d, exe)], input=r['case'] + '\n', timeout=60)
            print('  %s: %s' % (nm, out.strip()))
    elif r.get('replay_cmd'):
        ctx.cxx(os.path.join(VERIF, 'harness', 'C40_search.cpp'), ctx.bdir('C40_search'))
        rc, out, err = sh(r['replay_cmd'], timeout=1200)
        for l in out.split('\n'):
            if l.startswith('FAIL') or l.startswith('DONE'): print('  implementation: ' + l)
