"""C41 Functions, splines and smooth steps are self-consistent (DESIGN 5 C41) -- partial: spline FITTING (gcvspl) is not modelled.
Tie 1 (translator): Gen/step_gen.v = stepUp..d3stepAny regenerated from Scalar.h each run, plus translator validation
        (lib/tvgen.py) on arguments inside the asserted domain.
Tie 2 (correspondence): hand model C41_Model.v of Function_<Real>::{Constant,Linear,Polynomial,Sinusoid,Step} extracted to
        OCaml and run against the compiled Function.h objects on the same generated cases (harness/C41_func.cpp, -DNDEBUG).
Tie 3 (correspondence): hand model C41_spline_Model.v of the spline EVALUATION (gcvspl.cpp search_ + SimTK_splder_, GCVSPLUtil::splder,
        Spline_::calcValue/calcDerivative) extracted to OCaml and run against Spline_ objects fitted by the implementation's SplineFitter
        (degrees 1,3,5,7; interpolating, smoothing, GCV), orders 0..degree+1, at the ends, at / a few ulps around / 1e-9 around knots and
        inside intervals (harness/C41_spline.cpp), rel tol 1e-12."""
import os, sys, math
from vlib import *
import tvgen

PROPS = ['Props/Properties_C41.v', 'Props/Properties_C41_func.v', 'Props/Properties_C41_spline.v', 'Props/Properties_C41_fit.v']
ONE_ARG = ('k_stepUp', 'k_dstepUp', 'k_d2stepUp', 'k_d3stepUp', 'k_stepDown', 'k_dstepDown', 'k_d2stepDown', 'k_d3stepDown')

class StepArgs:
    """arguments for the translated step kernels, inside the domain the C++ asserts (the tvgen harness has asserts on):
    x in [0,1] for stepUp/..; for stepAny the adjusted x in [0,1]; ends and midpoint included"""
    def __init__(self): self.cur = None; self.count = {}
    def __call__(self, rng, kn, pn, pt):
        if kn['coq'] in ONE_ARG:
            c = self.count.get(kn['coq'], 0); self.count[kn['coq']] = c + 1
            return [[0.0], [1.0], [0.5]][c] if c < 3 else [rng.random()]
        if pn in ('y0', 'yRange'): return None
        if pn == 'x0':
            c = self.count.get(kn['coq'], 0); self.count[kn['coq']] = c + 1
            x0 = rng.uniform(-2, 2); xr = rng.uniform(0.3, 3) * rng.choice((-1, 1))
            u = [0.0, 1.0, 0.5][c] if c < 3 else rng.random()
            self.cur = (x0, 1.0 / xr, x0 + u * xr)
            # keep the adjusted argument inside [0,1] after rounding (the assert allows only ~1e-14 slack)
            xa = (self.cur[2] - x0) * self.cur[1]
            if xa < 0 or xa > 1: self.cur = (x0, 1.0 / xr, x0 + 0.5 * xr)
            return [x0]
        if pn == 'oneOverXRange': return [self.cur[1]]
        if pn == 'x': return [self.cur[2]]
        return None

def gen_cases(ctx, n):
    """n cases per kind; boundaries of every case split of the proofs are aimed at explicitly"""
    r = ctx.rng; H = hexf; out = []; hist = {}
    def add(kind, toks, tag):
        out.append(kind + ' ' + ' '.join(toks)); hist[tag] = hist.get(tag, 0) + 1
    def fl(a=-2.0, b=2.0): return r.uniform(a, b)
    for c in range(n):
        # Constant
        na = r.randint(1, 5); k = r.randint(1, 3)
        add('K', [H(fl())] + [str(na), str(k)] + [str(r.randrange(na)) for _ in range(k)] + [H(fl()) for _ in range(na)], 'Constant/order%d' % k)
        # Linear
        na = r.randint(1, 6); k = r.choice((1, 1, 1, 2, 3))
        add('L', [str(na)] + [H(fl()) for _ in range(na + 1)] + [str(k)] + [str(r.randrange(na)) for _ in range(k)] + [H(fl()) for _ in range(na)],
            'Linear/order%d' % k)
        # Polynomial: degree 0..8 (and the empty coefficient list), order around the degree
        m = r.choice((0, 1, 1, 2, 3, 4, 5, 6, 7, 8, 9))
        k = r.choice((0, 1, 2, 3, max(m - 2, 0), max(m - 1, 0), m, m + 1, m + 3))
        x = r.choice((0.0, 1.0, -1.0)) if r.random() < 0.1 else fl(-2.5, 2.5)
        add('P', [str(m)] + [H(fl()) for _ in range(m)] + [str(k), H(x)], 'Polynomial/%s' % ('k<deg' if k < m - 1 else 'k=deg' if k == m - 1 else 'k>deg'))
        # Sinusoid: orders 0..3 are explicit cases in the code, >=4 the general branch (sign/parity): cover 0..13
        k = r.randint(0, 13)
        add('S', [H(fl()), H(r.uniform(0.2, 3) * r.choice((-1, 1))), H(fl(-3, 3)), str(k), H(fl(-3, 3))], 'Sinusoid/order%d' % (k if k < 4 else 4 + k % 4))
        # Step: both directions, x before / at / inside / at / after the transition, all orders incl. the throwing ones
        y0, y1, x0 = fl(-3, 3), fl(-3, 3), fl()
        xr = r.uniform(0.2, 3) * r.choice((-1, 1)); x1 = x0 + xr
        where = r.choice(('before', 'at0', 'inside', 'inside', 'inside', 'at1', 'after', 'near0', 'near1'))
        x = {'before': x0 - r.uniform(0.01, 2) * xr, 'at0': x0, 'inside': x0 + r.random() * xr, 'at1': x1, 'after': x1 + r.uniform(0.01, 2) * xr,
             'near0': x0 + r.uniform(-1e-9, 1e-9) * xr, 'near1': x1 + r.uniform(-1e-9, 1e-9) * xr}[where]
        k = r.choice((0, 1, 1, 2, 2, 3, 3, 4, 5))
        if r.random() < 0.03: x1 = x0; where = 'zero-length'
        add('T', [H(y0), H(y1), H(x0), H(x1), str(k), H(x)], 'Step/%s/%s' % ('fwd' if xr > 0 else 'rev', where))
        # raw stepAny family, also outside the transition (clamp branches; NDEBUG build as in the release libraries)
        y0, yr, x0 = fl(-3, 3), fl(-3, 3), fl()
        xr = r.uniform(0.2, 3) * r.choice((-1, 1)); u = r.choice((0.0, 1.0, r.random(), r.random(), r.uniform(-2, 0), r.uniform(1, 3)))
        add('A', [H(y0), H(yr), H(x0), H(1.0 / xr), H(x0 + u * xr)], 'stepAny/%s' % ('inside' if 0 < u < 1 else 'end' if u in (0.0, 1.0) else 'outside'))
    return out, hist

def correspondence(ctx, n):
    d = ctx.bdir('corr'); os.makedirs(d, exist_ok=True)
    ext = ('From Coq Require Import Extraction ExtrOcamlBasic.\nRequire Import Num Vec step_gen C41_Model.\nExtraction Language OCaml.\n'
           'Extraction "c41_x.ml" const_value const_deriv lin_value lin_deriv poly_value poly_deriv sin_value sin_deriv '
           'step_ok step_value step_deriv k_stepAny k_dstepAny k_d2stepAny k_d3stepAny.\n')
    if not ctx.extract(ext, d):
        ctx.broken.append(('correspondence:C41', 'extraction of the model failed')); return
    drv = open(os.path.join(VERIF, 'ocaml', 'C41_drv.ml')).read().replace('(*FOPS*)', open(os.path.join(VERIF, 'ocaml', 'fops.inc')).read())
    open(os.path.join(d, 'drv.ml'), 'w').write(drv)
    if not ctx.ocaml(d, ['c41_x.mli', 'c41_x.ml', 'drv.ml'], 'drv'):
        ctx.broken.append(('correspondence:C41', 'OCaml driver build failed')); return
    exe = os.path.join(d, 'func')
    if not ctx.cxx(os.path.join(VERIF, 'harness', 'C41_func.cpp'), exe, flags=('-DNDEBUG',)):
        ctx.broken.append(('correspondence:C41', 'C++ harness does not compile against the current source')); return
    corpus = []
    cdir = os.path.join(VERIF, 'corpus', 'C41')
    if os.path.isdir(cdir):
        for f in sorted(os.listdir(cdir)):
            corpus += [l.strip() for l in open(os.path.join(cdir, f)) if l.strip() and not l.startswith('#')]
    cases, hist = gen_cases(ctx, n)
    cases = corpus + cases
    inp = '\n'.join(cases) + '\n'
    open(os.path.join(d, 'cases.txt'), 'w').write(inp)
    rc1, o1, e1 = sh([exe], input=inp, timeout=900)
    rc2, o2, e2 = sh([os.path.join(d, 'drv')], input=inp, timeout=900)
    l1 = [l for l in o1.split('\n') if l.strip()]; l2 = [l for l in o2.split('\n') if l.strip()]
    if rc1 != 0 or rc2 != 0 or len(l1) != len(cases) or len(l2) != len(cases):
        ctx.broken.append(('correspondence:C41', 'runner failed rc=%s/%s lines=%d/%d of %d: %s' % (rc1, rc2, len(l1), len(l2), len(cases), (e1 + e2)[-300:])))
        return
    dis = []; nontrivial = set(); exc = 0
    for c, a, b in zip(cases, l1, l2):
        ta, tb = a.split(), b.split()
        ok = len(ta) == len(tb)
        if ok:
            fa = [float.fromhex(t) for t in ta if t != 'EXC']
            sc = max([1.0] + [abs(v) for v in fa if v == v and abs(v) != float('inf')])
            for x, y in zip(ta, tb):
                if x == 'EXC' or y == 'EXC':
                    ok = ok and x == y; exc += (x == 'EXC')
                else:
                    ok = ok and close(float.fromhex(x), float.fromhex(y), 1e-9, 1e-12, sc)
            if any(v != 0 for v in fa): nontrivial.add(c)
        if not ok: dis.append((c, a, b))
    ctx.add_cases(len(cases), len(nontrivial), [{'case': cases[len(corpus)], 'cxx': l1[len(corpus)], 'model': l2[len(corpus)]}])
    ctx.extra.setdefault('correspondence', {})['functions'] = {'cases': len(cases), 'corpus_cases': len(corpus), 'disagreements': len(dis),
        'cases_where_both_throw': exc, 'rtol': 1e-9, 'input_distribution': dict(sorted(hist.items()))}
    ctx.trusted.add('correspondence harness harness/C41_func.cpp (-DNDEBUG) + ocaml/C41_drv.ml with float NumOps, tolerance 1e-9 rel (exact for throws)')
    if dis:
        c, a, b = dis[0]
        ctx.broken.append(('correspondence:C41:' + c.split()[0], 'model and implementation differ on case "%s": cxx=%s model=%s (%d disagreements)' % (c, a, b, len(dis))))

def spline_cases(ctx, nspl):
    """splines of degree 1,3,5,7 fitted by the implementation to random data; arguments at the ends, at knots, a few ulps
    and 1e-9 around knots, and inside intervals"""
    r = ctx.rng; H = hexf; lines = []; meta = []; hist = {}
    for c in range(nspl):
        deg = r.choice((1, 3, 3, 5, 7)); n = r.randint(deg + 3, 40)
        style = r.choice(('uniform', 'uniform', 'random', 'random', 'random', 'cluster-start-long-last', 'cluster-end-long-first', 'geometric-up', 'geometric-down', 'two-clusters'))
        if style in ('cluster-start-long-last', 'cluster-end-long-first', 'geometric-up', 'geometric-down', 'two-clusters'): n = r.randint(deg + 3, 50)
        uniform = style == 'uniform'
        if style in ('uniform', 'random'): gaps = [(0.25 if uniform else r.uniform(0.05, 0.8)) for i in range(n - 1)]
        elif style == 'cluster-start-long-last': gaps = [r.uniform(0.01, 0.05) for i in range(n - 2)] + [r.uniform(3, 30)]
        elif style == 'cluster-end-long-first': gaps = [r.uniform(3, 30)] + [r.uniform(0.01, 0.05) for i in range(n - 2)]
        elif style == 'geometric-up': q = r.uniform(1.15, 1.6); gaps = [0.01 * q ** i for i in range(n - 1)]
        elif style == 'geometric-down': q = r.uniform(1.15, 1.6); gaps = [0.01 * q ** (n - 2 - i) for i in range(n - 1)]
        else: k = r.randint(1, max(1, n - 3)); gaps = [r.uniform(0.01, 0.05) for i in range(k)] + [r.uniform(5, 20)] + [r.uniform(0.01, 0.05) for i in range(n - 2 - k)]
        xs = [r.uniform(-3, 3)]
        for g in gaps: xs.append(xs[-1] + g)
        amp = 10 ** r.uniform(-1, 1); w = r.uniform(0.3, 2)
        ys = [amp * (math.sin(w * v) + 0.3 * r.uniform(-1, 1)) for v in xs]
        kind = r.choice(('interpolating', 'interpolating', 'smoothing', 'smoothing', 'gcv'))
        mode, param = {'interpolating': (0, 0.0), 'smoothing': (0, 10 ** r.uniform(-4, 0)), 'gcv': (1, 0.0)}[kind]
        ts = [xs[0], xs[-1]]
        for _ in range(3):
            i = r.randrange(1, n - 1); ts.append(xs[i])
            i = r.randrange(1, n - 1); ts.append(math.nextafter(xs[i], -1e9) if r.random() < 0.5 else math.nextafter(xs[i], 1e9))
            i = r.randrange(1, n - 1); ts.append(xs[i] + r.choice((-1, 1)) * 1e-9)
        ts += [r.uniform(xs[0], xs[-1]) for _ in range(5)]
        ts += [xs[0] + r.random() * (xs[deg] - xs[0]), xs[-1] - r.random() * (xs[-1] - xs[-1 - deg])]      # boundary intervals
        if not uniform and style != 'random':          # strongly non-uniform knots: a point inside EVERY interval (the interval search is hint + bisection)
            ts += [xs[i] + r.uniform(0.05, 0.95) * (xs[i + 1] - xs[i]) for i in range(n - 1)]
        else:
            ts += [xs[0] + r.uniform(0.05, 0.95) * (xs[1] - xs[0]), xs[-2] + r.uniform(0.05, 0.95) * (xs[-1] - xs[-2])]   # first and last interval
        ts = [min(max(t, xs[0]), xs[-1]) for t in ts]
        lines.append(' '.join([str(deg), str(mode), H(param), str(n)] + [H(v) for v in xs + ys] + [str(len(ts))] + [H(v) for v in ts]))
        meta.append((deg, n, xs, ts))
        for tag in ('degree/%d' % deg, 'fit/' + kind, 'knots/' + style): hist[tag] = hist.get(tag, 0) + 1
    return lines, meta, hist

def spline_correspondence(ctx, nspl):
    """extracted evaluator (C41_spline_Model.v: search_ + SimTK_splder_ + Spline_ dispatch) against Spline_::calcValue /
    calcDerivative, orders 0..degree+1, on the knots and coefficients produced by the implementation's SplineFitter"""
    d = ctx.bdir('spl'); os.makedirs(d, exist_ok=True)
    ext = ('From Coq Require Import Extraction ExtrOcamlBasic.\nRequire Import Num C41_spline_Model.\nExtraction Language OCaml.\n'
           'Extraction "c41s_x.ml" spline_value spline_deriv.\n')
    if not ctx.extract(ext, d):
        ctx.broken.append(('correspondence:C41:spline', 'extraction of the spline model failed')); return
    drv = open(os.path.join(VERIF, 'ocaml', 'C41_spline_drv.ml')).read().replace('(*FOPS*)', open(os.path.join(VERIF, 'ocaml', 'fops.inc')).read())
    open(os.path.join(d, 'drv.ml'), 'w').write(drv)
    if not ctx.ocaml(d, ['c41s_x.mli', 'c41s_x.ml', 'drv.ml'], 'drv'):
        ctx.broken.append(('correspondence:C41:spline', 'OCaml driver build failed')); return
    exe = os.path.join(d, 'spline')
    if not ctx.cxx(os.path.join(VERIF, 'harness', 'C41_spline.cpp'), exe):
        ctx.broken.append(('correspondence:C41:spline', 'C++ harness does not compile against the current source')); return
    lines, meta, hist = spline_cases(ctx, nspl)
    inp = '\n'.join(lines) + '\n'
    open(os.path.join(d, 'cases.txt'), 'w').write(inp)
    rc1, o1, e1 = sh([exe], input=inp, timeout=900)
    l1 = [l for l in o1.split('\n') if l.strip()]
    if rc1 != 0 or len(l1) != len(lines):
        ctx.broken.append(('correspondence:C41:spline', 'C++ runner failed rc=%s lines=%d of %d: %s' % (rc1, len(l1), len(lines), e1[-300:]))); return
    dl = []; keep = []; fitfail = 0
    for (deg, n, xs, ts), a in zip(meta, l1):
        if a.startswith('EXC'): fitfail += 1; continue
        cs = a.split('|')[0].split()
        dl.append(' '.join([str(deg), str(n)] + [hexf(v) for v in xs] + cs + [str(len(ts))] + [hexf(v) for v in ts])); keep.append((deg, n, xs, ts, a))
    rc2, o2, e2 = sh([os.path.join(d, 'drv')], input='\n'.join(dl) + '\n', timeout=900)
    l2 = [l for l in o2.split('\n') if l.strip()]
    if rc2 != 0 or len(l2) != len(keep):
        ctx.broken.append(('correspondence:C41:spline', 'model runner failed rc=%s lines=%d of %d: %s' % (rc2, len(l2), len(keep), e2[-300:]))); return
    dis = []; nval = 0; bit = 0; nontrivial = set(); sample = None
    for (deg, n, xs, ts, a), b in zip(keep, l2):
        va = [float.fromhex(v) for v in a.split('|')[1].split()]; vb = [float.fromhex(v) for v in b.split()]
        if len(va) != len(vb) or len(va) != len(ts) * (deg + 2):
            dis.append('degree %d n=%d: %d/%d values' % (deg, n, len(va), len(vb))); continue
        for i, (p, q) in enumerate(zip(va, vb)):
            nval += 1; bit += (p == q)
            e, order = divmod(i, deg + 2)
            if not close(p, q, 1e-12, 1e-300, max(1.0, abs(p), abs(q))):
                dis.append('degree %d n=%d order %d at x=%r (knots %r..%r): cxx %r model %r' % (deg, n, order, ts[e], xs[0], xs[-1], p, q))
            if p != 0: nontrivial.add((tuple(xs), ts[e], order))
        if sample is None: sample = {'spline': 'degree %d, %d knots' % (deg, n), 'x': ts[4], 'cxx orders 0..degree+1': va[4*(deg+2):5*(deg+2)], 'model': vb[4*(deg+2):5*(deg+2)]}
    ctx.add_cases(nval, len(nontrivial), [sample] if sample else None)
    ctx.extra.setdefault('correspondence', {})['splines'] = {'splines': len(keep), 'fits_that_threw': fitfail, 'values_compared': nval, 'values_bitwise_equal': bit,
        'disagreements': len(dis), 'rtol': 1e-12, 'input_distribution': dict(sorted(hist.items()))}
    ctx.trusted.add('spline correspondence harness harness/C41_spline.cpp + ocaml/C41_spline_drv.ml (float NumOps), tolerance 1e-12 rel; knots and coefficients taken from the implementation (fitting not modelled)')
    if dis:
        ctx.broken.append(('correspondence:C41:spline', 'spline evaluation model and implementation differ: %s (%d disagreements)' % (dis[0], len(dis))))

K_HANG = 'spline-fit-never-returns'
def fit_certificates(ctx, n):
    """spline FITTING certificates on the implementation (the fitting is not modelled): interpolation of the control points,
    reproduction of polynomials of degree < m for any smoothing parameter and every mode, refit / reported-statistics / DOF-target
    consistency, residual monotone in the smoothing parameter, every fit returns.  Run on EVERY check run."""
    exe = ctx.bdir('C41_spline_fit')
    if not ctx.cxx(os.path.join(VERIF, 'harness', 'C41_spline_fit.cpp'), exe):
        ctx.broken.append(('certificates:C41:fit', 'fit certificate harness does not compile')); return
    try: rc, out, err = sh([exe, str(ctx.seed), str(n)], timeout=600)
    except Exception as e:
        ctx.broken.append(('certificates:C41:fit', 'fit certificate harness did not finish: %r' % (e,))); return
    fails = [l for l in out.split('\n') if l.startswith('FAIL')]
    done = [l for l in out.split('\n') if l.startswith('DONE')]
    nev = int(done[0].split()[1]) if done else 0
    ctx.extra['spline_fit_certificates'] = {'predicate_evaluations': nev, 'failures': len(fails), 'fits_per_degree': n // 4,
        'predicates': ['interpolation of control points (p=0)', 'polynomial of degree < m reproduced (fixed p, GCV, error variance, DOF)',
                       'refit with reported p gives the same coefficients and statistics', 'fitFromDOF hits its target', 'residual monotone in p', 'every fit returns']}
    ctx.add_cases(nev)
    if not done: ctx.broken.append(('certificates:C41:fit', 'fit certificate harness crashed rc=%s %s' % (rc, err[-300:])))
    seen = set()
    for f in fails:
        key = f.split()[1]
        if key in seen: continue
        seen.add(key)
        if key == 'fit_never_returns':
            ctx.report(K_HANG, 'a SplineFitter fit never returns: ' + f[:400], {'replay_cmd': '%s %d %d' % (exe, ctx.seed, n), 'failing_input': f})
        else:
            ctx.report('impl:' + key, 'implementation violates C41 spline fitting certificate: ' + f[:600], {'replay_cmd': '%s %d %d' % (exe, ctx.seed, n), 'failing_input': f})

def search(ctx, n):
    """failing-input search on the implementation: the property's predicates by finite differences"""
    exe = ctx.bdir('C41_search')
    if not ctx.cxx(os.path.join(VERIF, 'harness', 'C41_search.cpp'), exe, flags=('-DNDEBUG',)):
        ctx.broken.append(('search:C41', 'search harness does not compile')); return
    rc, out, err = sh([exe, str(ctx.seed), str(n)], timeout=1200)
    fails = [l for l in out.split('\n') if l.startswith('FAIL')]
    done = [l for l in out.split('\n') if l.startswith('DONE')]
    ctx.extra['search'] = {'predicate_evaluations': int(done[0].split()[1]) if done else 0, 'failures': len(fails)}
    if not done: ctx.broken.append(('search:C41', 'search harness crashed rc=%s %s' % (rc, err[-300:])))
    seen = set()
    for f in fails:
        key = f.split()[1]
        if key in seen or len(seen) >= 3: continue      # at most three distinct failing predicates are reported
        seen.add(key)
        ctx.report('impl:' + key, 'implementation violates C41 predicate: ' + f, {'replay_cmd': '%s %d %d' % (exe, ctx.seed, n), 'failing_input': f})
    # spline predicates (interpolation, derivative consistency by finite differences, continuity across knots)
    exe = ctx.bdir('C41_spline_search')
    if not ctx.cxx(os.path.join(VERIF, 'harness', 'C41_spline_search.cpp'), exe):
        ctx.broken.append(('search:C41:spline', 'spline search harness does not compile')); return
    ns = max(n // 2, 100)
    rc, out, err = sh([exe, str(ctx.seed), str(ns)], timeout=1200)
    fails = [l for l in out.split('\n') if l.startswith('FAIL')]
    done = [l for l in out.split('\n') if l.startswith('DONE')]
    ctx.extra['spline_search'] = {'predicate_evaluations': int(done[0].split()[1]) if done else 0, 'failures': len(fails)}
    if not done: ctx.broken.append(('search:C41:spline', 'spline search harness crashed rc=%s %s' % (rc, err[-300:])))
    seen = set()
    for f in fails:
        key = f.split()[1]
        if key in seen: continue
        seen.add(key)
        ctx.report('impl:' + key, 'implementation violates C41 spline predicate: ' + f, {'replay_cmd': '%s %d %d' % (exe, ctx.seed, ns), 'failing_input': f})

def run(ctx):
    ctx.build_repo()
    meta = ctx.translate('step')
    ctx.translate('stepf')      # float overloads: only their generated text is used (theorem float_overloads_same_formulas)
    ctx.coq_props(PROPS)
    quick = ctx.tier == 'quick'
    dis = tvgen.run_tv(ctx, 'step', meta, 40 if quick else 400, argfn=StepArgs())
    if dis:
        k, args, fa, fb = dis[0]
        ctx.broken.append(('correspondence:step:' + k, 'translated kernel and implementation differ: args=%s cxx=%s model=%s' % (args, fa, fb)))
    ctx.log('translator validation done: %d disagreements' % len(dis))
    correspondence(ctx, 150 if quick else 3000)
    ctx.log('function-object correspondence done')
    spline_correspondence(ctx, 60 if quick else 600)
    ctx.log('spline evaluation correspondence done')
    fit_certificates(ctx, 400 if quick else 8000)
    ctx.log('spline fitting certificates done')
    ctx.cov['rule'] = ('(a) translator validation: each of the 12 translated step kernels on arguments inside the asserted domain (0, 1, 1/2 and uniform); '
                       '(b) correspondence: per kind (Constant, Linear, Polynomial, Sinusoid, Step, raw stepAny family) generated parameters, derivative '
                       'component lists / orders around every case split (order vs degree, Sinusoid orders 0..13, Step before/at/inside/after both directions, '
                       'throwing orders, zero-length interval); (c) spline evaluation: splines of degree 1,3,5,7 with 4..40 knots (uniform / random) fitted by the '
                       'implementation (interpolating, fixed smoothing parameter, GCV), every order 0..degree+1 at the first and last knot, at interior knots, one ulp '
                       'and 1e-9 beside knots, inside intervals and inside the boundary intervals; non-trivial = some output non-zero; distinct by full case text '
                       '(splines: by knot vector, argument and order)')
    ctx.assumptions += ['theorems are over the reals (ROps); binary64 rounding is covered only by the tolerance-based runs',
                        'Function objects are a hand-written model (C41_Model.v) tied by correspondence only on the generated cases; T = Real only (Function_<Vec<N>> not run)',
                        'std::pow(w,order) in Sinusoid is modelled as repeated multiplication',
                        'harness compiled with -DNDEBUG (as the release libraries): assert-guarded preconditions (derivative order > 0, argument sizes, x in range for the raw step helpers) are preconditions of the theorems where stated',
                        'd3stepAny outside the open transition interval is outside the documented domain (it reports 60*yRange/xRange^3, the true value is 0); Function::Step returns 0 there and is proved correct',
                        'splines: only the EVALUATION (search_, SimTK_splder_, Spline_ dispatch) is modelled and tied; knots and coefficients are taken from the implementation; '
                        'the FITTING (gcvspl_: interpolation of the data, GCV optimisation) is not modelled -- that interpolating splines pass through their data is only checked by the failing-input search on the implementation',
                        'spline derivative-consistency and C2 theorems are proved for degree 1 and degree 3 (every knot vector, every interval); for degrees 5 and 7 only the degree-independent theorems (orders above the degree vanish, linearity in the coefficients, interval search) and the correspondence run apply',
                        'the spline model takes the initial interval guess of GCVSPLUtil::splder as an input (computed by the driver with the same expression); search_guess_irrelevant proves it does not matter for increasing knots']
    if ctx.broken or not quick:
        search(ctx, 300 if quick else 3000)
    ctx.finish()

def replay(ctx, path):
    """bin/check C41 --replay FILE : re-run a recorded failing input on the implementation (and print the record)"""
    import json
    r = json.load(open(path))
    print('replay of %s: key=%s\n  %s' % (path, r.get('key'), r.get('what', r.get('no_longer_checks'))))
    if r.get('replay_cmd'):
        ctx.cxx(os.path.join(VERIF, 'harness', 'C41_search.cpp'), ctx.bdir('C41_search'), flags=('-DNDEBUG',))
        rc, out, err = sh(r['replay_cmd'], timeout=1200)
        key = (r.get('key') or '').split(':')[-1]
        for l in out.split('\n'):
            if l.startswith('FAIL ' + key) or l.startswith('DONE'): print('  implementation: ' + l)
