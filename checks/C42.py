"""C42 MultibodyGraphMaker always produces a valid spanning tree (DESIGN 5 C42, 7.19).

Model: coq/C42/C42_Model.v (hand-written executable Gallina model of generateGraph and everything it calls).
Theorems: coq/Props/Properties_C42.v (for every input on which the model returns Ok).
Tie: the model is extracted to OCaml and run against the real MultibodyGraphMaker (harness/C42_probe.cpp, linked
with the libraries rebuilt from the working tree) on the same inputs: exhaustively on all graphs up to a small
size and on random graphs up to 30 bodies; joints, mobilizers, loop constraints, slave table, body levels and
error kinds are compared exactly.  The probe also evaluates the property's own predicates on the implementation's
result for every case (this is the failing-input search; it runs always because it costs nothing extra)."""
import os, sys, itertools, collections
from vlib import *

PROPS = ['Props/Properties_C42.v']
TYPES = '3 1 0 3 1 0 0'        # user joint types: 2 = pin(1 dof, no loop constraint), 3 = ball(3, loop ok), 4 = lock(0, no loop constraint)
EXTRACT = '''From Coq Require Import Extraction ExtrOcamlBasic.
Require Import C42_Model.
Extraction "C42_model.ml" generate defaultFuel.
'''
KNOWN_TAGS = {'mustBeBase-only-loop-joint-to-ground': 'mustBeBase-only-loop-joint-to-ground',
              'mustBeBase-outboard-of-massless-chain': 'mustBeBase-outboard-of-massless-chain'}

def case_line(bodies, joints, types=TYPES):
    return '%s %d %s %d %s' % (types, len(bodies), ' '.join('%d %d' % b for b in bodies), len(joints),
                               ' '.join('%d %d %d %d' % j for j in joints))

# ---------------------------------------------------------------- generators
def exhaustive(nbod, nj, masses, jtypes, with_self=True):
    """every graph with exactly nbod bodies and exactly nj joints: all masses from `masses`, both mustBeBase values,
    every joint type from `jtypes`, every (parent, child) pair over Ground+bodies (self joints and Ground-Ground
    included iff with_self), both mustBeLoop values, every order"""
    bopts = [(m, f) for m in masses for f in (0, 1)]
    pairs = [(p, c) for p in range(nbod + 1) for c in range(nbod + 1) if with_self or p != c]
    jopts = [(t, p, c, l) for t in jtypes for (p, c) in pairs for l in (0, 1)]
    for bs in itertools.product(bopts, repeat=nbod):
        bl = ' '.join('%d %d' % b for b in bs)
        head = '%s %d %s %d ' % (TYPES, nbod, bl, nj)
        for js in itertools.product(jopts, repeat=nj):
            yield head + ' '.join('%d %d %d %d' % j for j in js)

def exhaustive_count(nbod, nj, masses, jtypes, with_self=True):
    npairs = (nbod + 1) ** 2 if with_self else (nbod + 1) * nbod
    return (len(masses) * 2) ** nbod * (len(jtypes) * npairs * 2) ** nj

def random_graph(rng, nbmax, big):
    nbod = rng.randint(1, nbmax)
    pm0 = rng.choice([0.0, 0.05, 0.15, 0.3])
    pbase = rng.choice([0.0, 0.1, 0.3])
    ploop = rng.choice([0.0, 0.1, 0.3])
    bodies = [(0 if rng.random() < pm0 else rng.randint(1, 4), 1 if rng.random() < pbase else 0) for _ in range(nbod)]
    style = rng.randrange(4)
    joints = []
    def jt(): return rng.choice([0, 1, 2, 2, 3, 3, 4])
    if style == 0:      # tree-ish: each body hangs off an earlier body or Ground, random orientation, then extra loop joints
        order = list(range(1, nbod + 1)); rng.shuffle(order)
        seen = [0]
        for b in order:
            if rng.random() < 0.85:
                a = rng.choice(seen)
                joints.append((jt(), a, b, 0) if rng.random() < 0.7 else (jt(), b, a, 0))
            seen.append(b)
        for _ in range(rng.randint(0, max(1, nbod // 3))):
            p = rng.randint(0, nbod); c = rng.randint(0, nbod)
            joints.append((jt(), p, c, 1 if rng.random() < ploop else 0))
        rng.shuffle(joints)
    elif style == 1:    # chains with massless interior bodies
        b = 1
        while b <= nbod:
            ln = rng.randint(1, 5); prev = 0 if rng.random() < 0.7 else None
            for k in range(ln):
                if b > nbod: break
                if prev is not None:
                    joints.append((jt(), prev, b, 0) if rng.random() < 0.7 else (jt(), b, prev, 0))
                prev = b; b += 1
        for _ in range(rng.randint(0, 3)):
            joints.append((jt(), rng.randint(0, nbod), rng.randint(0, nbod), 1 if rng.random() < ploop else 0))
        if rng.random() < 0.5: rng.shuffle(joints)
    else:               # uniformly random multigraph
        nj = rng.randint(0, nbod + (nbod // 2) + 2)
        for _ in range(nj):
            p = rng.randint(0, nbod); c = rng.randint(0, nbod)
            if p == c and rng.random() < 0.8: p = 0
            joints.append((jt(), p, c, 1 if rng.random() < ploop else 0))
    return case_line(bodies, joints)

def input_error_cases():
    out = []
    out.append('1 7 0 1 1 0 0')                              # addJointType: 7 mobilities
    out.append('2 6 1 9 1 1 1 0 0')                          # second type bad
    out.append(case_line([(1, 0), (-1, 0)], []))             # negative mass
    out.append(case_line([(1, 0)], [(5, 0, 1, 0)]))          # unknown type
    out.append(case_line([(1, 0)], [(2, 2, 1, 0)]))          # unknown parent
    out.append(case_line([(1, 0)], [(2, 0, 3, 0)]))          # unknown child
    out.append(case_line([(1, 0)], [(9, 9, 9, 0)]))          # all three: type is reported
    out.append(case_line([(1, 0), (2, 1)], [(2, 0, 1, 0), (2, 1, 5, 1)]))
    out.append(case_line([], []))                            # Ground only
    out.append('0 1 1 0 1 1 0 1 0')                          # no user types, free joint
    return out

# ---------------------------------------------------------------- running both sides
def run_both(ctx, probe, drv, lines, label):
    """returns (n, mismatches[(case, impl, model)], tagcount, first case per tag, stats)"""
    inp = '\n'.join(lines) + '\n'
    p1 = subprocess.Popen([probe], stdin=subprocess.PIPE, stdout=subprocess.PIPE, text=True)
    p2 = subprocess.Popen([drv], stdin=subprocess.PIPE, stdout=subprocess.PIPE, text=True)
    import threading
    res = {}
    def feed(p, k): res[k] = p.communicate(inp)[0]
    t1 = threading.Thread(target=feed, args=(p1, 'impl')); t2 = threading.Thread(target=feed, args=(p2, 'model'))
    t1.start(); t2.start(); t1.join(); t2.join()
    a = res['impl'].split('\n'); b = res['model'].split('\n')
    if a and a[-1] == '': a.pop()
    if b and b[-1] == '': b.pop()
    if p1.returncode != 0 or p2.returncode != 0 or len(a) != len(lines) or len(b) != len(lines):
        ctx.broken.append(('correspondence:' + label, 'probe/driver crashed or line count differs: rc=%s/%s lines impl=%d model=%d cases=%d'
                           % (p1.returncode, p2.returncode, len(a), len(b), len(lines))))
        return 0, [], {}, {}, {}
    mism = []; tags = collections.Counter(); first = {}; stats = collections.Counter()
    for i in range(len(lines)):
        ra, _, pa = a[i].partition(' # ')
        if ra != b[i]:
            if len(mism) < 5: mism.append((lines[i], ra, b[i]))
            stats['mismatch'] += 1
        if ra.startswith('OK'): stats['ok'] += 1
        else: stats[' '.join(ra.split()[:2])] += 1
        if pa != 'P ok':
            for t in pa.split()[1:]:
                tags[t] += 1
                if t not in first: first[t] = (lines[i], ra)
    return len(lines), mism, tags, first, stats

def shrink(ctx, probe, drv, line, pred):
    """greedy delete-one-joint / delete-last-body shrink of a failing case; pred(line) -> bool (still failing)"""
    def parse(l):
        t = [int(x) for x in l.split()]; k = 0
        nt = t[k]; k += 1; types = t[k:k + 2 * nt]; k += 2 * nt
        nbod = t[k]; k += 1; bodies = [tuple(t[k + 2 * i:k + 2 * i + 2]) for i in range(nbod)]; k += 2 * nbod
        nj = t[k]; k += 1; joints = [tuple(t[k + 4 * i:k + 4 * i + 4]) for i in range(nj)]
        return types, bodies, joints
    types, bodies, joints = parse(line)
    changed = True
    while changed:
        changed = False
        for i in range(len(joints)):
            cand = joints[:i] + joints[i + 1:]
            l2 = case_line(bodies, cand)
            if pred(l2): joints = cand; changed = True; break
        if not changed and len(bodies) > 1:
            nbod = len(bodies)
            if all(p != nbod and c != nbod for (_, p, c, _) in joints):
                l2 = case_line(bodies[:-1], joints)
                if pred(l2): bodies = bodies[:-1]; changed = True
    return case_line(bodies, joints)

def one(probe, drv, line):
    ra = subprocess.run([probe], input=line + '\n', capture_output=True, text=True).stdout.strip()
    rb = subprocess.run([drv], input=line + '\n', capture_output=True, text=True).stdout.strip()
    r, _, p = ra.partition(' # ')
    return r, p, rb

def run(ctx):
    ctx.build_repo()
    ok = ctx.coq_props(PROPS)
    # ---- build both sides
    odir = ctx.bdir('ml')
    if not ctx.extract(EXTRACT, odir):
        ctx.broken.append(('extraction', 'C42_Model.v does not extract')); ctx.finish()
    shutil.copy(os.path.join(VERIF, 'ocaml', 'C42_drv.ml'), os.path.join(odir, 'C42_drv.ml'))
    if not ctx.ocaml(odir, ['C42_model.mli', 'C42_model.ml', 'C42_drv.ml'], 'C42_drv'):
        ctx.broken.append(('ocaml', 'driver does not build')); ctx.finish()
    drv = os.path.join(odir, 'C42_drv')
    probe = ctx.bdir('C42_probe')
    if not ctx.cxx(os.path.join(VERIF, 'harness', 'C42_probe.cpp'), probe, opt='-O2'):
        ctx.broken.append(('harness', 'C42_probe.cpp does not compile against the working tree')); ctx.finish()
    ctx.log('model extracted, driver and probe built')

    thorough = ctx.tier == 'thorough'
    all_tags = collections.Counter(); first_tag = {}; all_stats = collections.Counter(); mismatches = []
    total = 0; crashed = []
    def batch(lines, label, quiet=False):
        nonlocal total
        n, mism, tags, first, stats = run_both(ctx, probe, drv, lines, label)
        if n != len(lines): crashed.append(label)
        total += n; all_tags.update(tags); all_stats.update(stats)
        for t, v in first.items(): first_tag.setdefault(t, v)
        for m in mism:
            if len(mismatches) < 5: mismatches.append((label,) + m)
        if not quiet:
            ctx.log('%s: %d cases, %d mismatches, predicate tags %s' % (label, n, stats.get('mismatch', 0), dict(tags)))
        return n, stats

    # ---- corpus (regression cases and the DESIGN 7.19 witnesses) first
    corpus = []
    cdir = os.path.join(VERIF, 'corpus', 'C42')
    for f in sorted(os.listdir(cdir)) if os.path.isdir(cdir) else []:
        for l in open(os.path.join(cdir, f)):
            l = l.strip()
            if l and not l.startswith('#'): corpus.append(l)
    batch(corpus + input_error_cases(), 'corpus+input-errors')

    # ---- exhaustive families (pairwise disjoint: no two families share (bodies, joints))
    M3 = (0, 1, 2); M2 = (0, 1); T4 = (0, 2, 3, 4); T5 = (0, 1, 2, 3, 4); T3 = (0, 2, 3); T2 = (0, 2)
    # (bodies, joints, masses, joint types, self/Ground-Ground joints included)
    if not thorough:
        fams = [(1, 0, M3, T5, True), (1, 1, M3, T5, True), (1, 2, M3, T5, True), (2, 0, M3, T5, True), (2, 1, M3, T5, True),
                (2, 2, M3, T4, True), (3, 0, M3, T5, True), (3, 1, M3, T4, True),
                (3, 2, M2, T3, False), (2, 3, M2, T2, False)]
    else:
        fams = [(1, 0, M3, T5, True), (1, 1, M3, T5, True), (1, 2, M3, T5, True), (1, 3, M3, T4, True),
                (2, 0, M3, T5, True), (2, 1, M3, T5, True), (2, 2, M3, T5, True), (2, 3, M2, T3, False),
                (3, 0, M3, T5, True), (3, 1, M3, T5, True), (3, 2, M3, T3, False), (4, 2, M2, T2, False)]
    assert len(set((f[0], f[1]) for f in fams)) == len(fams)
    exh = []; n_exh = 0; n_exh_ok = 0
    for (nbod, nj, ms, ts, ws) in fams:
        label = 'exhaustive bodies=%d joints=%d masses=%s types=%s self-joints=%s' % (nbod, nj, ms, ts, ws)
        gen = exhaustive(nbod, nj, ms, ts, ws); n = 0; okc = 0; mm = 0
        while True:
            lines = list(itertools.islice(gen, 250000))
            if not lines: break
            k, st = batch(lines, label, quiet=True)
            n += k; okc += st.get('ok', 0); mm += st.get('mismatch', 0)
        if n != exhaustive_count(nbod, nj, ms, ts, ws): crashed.append(label)
        ctx.log('%s: %d cases (%d Ok graphs), %d mismatches' % (label, n, okc, mm))
        exh.append({'bodies': nbod, 'joints': nj, 'masses': list(ms), 'joint_types': list(ts), 'self_and_ground_ground_joints': ws,
                    'all_flag_combinations': True, 'cases': n, 'ok_graphs': okc})
        n_exh += n; n_exh_ok += okc
    max_exh = max((f[0], f[1]) for f in fams)

    # ---- random graphs
    nrand = 60000 if not thorough else 600000
    lines = []
    for i in range(nrand):
        r = ctx.rng.random()
        lines.append(random_graph(ctx.rng, 5 if r < 0.45 else (12 if r < 0.8 else 30), r >= 0.8))
    # distinct random cases that are certainly outside every exhaustive family (>= 4 bodies... counted conservatively: > 4 bodies)
    def nbod_of(l): return int(l.split()[7])
    big = set(l for l in lines if nbod_of(l) > 4)
    rand_ok_big = 0
    for k in range(0, len(lines), 200000):
        chunk = lines[k:k + 200000]
        batch(chunk, 'random graphs (<=30 bodies) part %d' % (k // 200000))
    # count Ok outcomes among the distinct big random cases
    if big:
        bl = sorted(big)
        n_, mism_, tags_, first_, stats_ = run_both(ctx, probe, drv, bl, 'recount')
        rand_ok_big = stats_.get('ok', 0)

    ctx.add_cases(total, n_exh_ok + rand_ok_big, [lines[0], lines[1]] + corpus[:2])
    ctx.cov['rule'] = ('correspondence: extracted model vs real MultibodyGraphMaker on the same case line, exact comparison of joint list (incl. added base joints), '
                       'mobilizer list (joint, level, inboard, outboard, reversed), loop constraints, slave->master table, body levels, or error kind+index. '
                       'Cases: corpus + precondition-error cases, then every member of the exhaustive families listed under exhaustive_families, then random graphs '
                       '(tree-like with extra loop joints / chains with massless interior bodies / uniform multigraphs; 1..30 bodies; mustBeBase, mustBeLoop, massless bodies, '
                       'reversed and Ground-child joints, self joints). non-trivial = generateGraph succeeded (an Ok graph, the hypothesis of the theorems); '
                       'distinct = exhaustive cases are pairwise distinct by construction, random cases are deduplicated and counted only when they have more than 4 bodies '
                       '(so they cannot coincide with an exhaustive case).')
    ctx.extra['exhaustive'] = (not crashed)
    ctx.extra['exhaustive_families'] = exh
    ctx.extra['exhaustive_scope'] = ('every family listed is enumerated completely: all masses from the listed set, both mustBeBaseBody values, every listed joint type '
                                     '(0 weld, 1 free, 2 pin(1 dof, no loop constraint), 3 ball(3 dof, loop constraint), 4 lock(0 dof, no loop constraint)), every ordered '
                                     '(parent,child) pair over Ground+bodies (self and Ground-Ground joints where stated), both mustBeLoopJoint values, every joint order; '
                                     'the random cases are in addition to that and are of course not exhaustive')
    ctx.extra['exhaustive_cases'] = n_exh
    ctx.extra['random'] = {'cases': nrand, 'distinct_with_more_than_4_bodies': len(big), 'of_those_ok_graphs': rand_ok_big, 'max_bodies': 30}
    ctx.extra['outcomes'] = dict(all_stats)
    ctx.extra['implementation_predicate_tags'] = dict(all_tags)
    ctx.extra['not_decided'] = ['clearGraph/deleteBody/deleteJoint and regeneration', 'duplicate-name and reserved-name throws of addBody/addJoint/addJointType',
                                'that the model equals the code outside the compared cases (differential testing)',
                                'mustBeBaseBody in full: refuted (two witnesses); proved only under base_joint_precondition, with the massless-chain exception']
    ctx.assumptions += ['masses are integers in the model; the harness passes the same integers as doubles (only comparisons with 0 and with each other are made)',
                        'Ground\'s mass (Infinity in the code) and slave masses (NaN) are never read by generateGraph; the model uses a placeholder',
                        'the model mirrors the Release build (assert() absent); names are replaced by indices, so duplicate-name checks of addBody/addJoint/addJointType are outside the model',
                        'clearGraph/deleteBody/deleteJoint and regeneration after deletion are not modelled; only a fresh maker followed by generateGraph']
    if crashed:
        ctx.broken.append(('correspondence:crash', 'probe or driver crashed / wrong line count in: ' + '; '.join(crashed[:3])))

    # ---- correspondence verdict
    if mismatches:
        label, case, ra, rb = mismatches[0]
        def pred(l):
            r, p, m = one(probe, drv, l); return r != m
        small = shrink(ctx, probe, drv, case, pred)
        r, p, m = one(probe, drv, small)
        ctx.broken.append(('correspondence:' + label, 'model and implementation differ on case "%s": impl="%s" model="%s"' % (small, r, m)))
        try:
            os.makedirs(cdir, exist_ok=True)
        except OSError: pass

    # ---- predicate verdicts on the implementation (failing-input search + known findings)
    for t, cnt in sorted(all_tags.items()):
        case, ra = first_tag[t]
        def predt(l, t=t):
            r, p, m = one(probe, drv, l); return t in p.split()
        small = shrink(ctx, probe, drv, case, predt)
        r, p, m = one(probe, drv, small)
        ctx.report(KNOWN_TAGS.get(t, 'impl:' + t),
                   'the real MultibodyGraphMaker violates the C42 predicate "%s" (%d of %d cases this run)' % (t, cnt, total),
                   {'case_line': small, 'format': 'nt (dof loopOk)* nbod (mass mustBeBase)* nj (type parent child mustBeLoop)*; types 0=weld 1=free 2=pin 3=ball 4=lock',
                    'implementation_result': r, 'model_result': m, 'predicates': p,
                    'replay_cmd': 'echo "%s" | %s' % (small, probe)})
    ctx.finish()

def replay(ctx, path):
    obj = json.load(open(path))
    probe = ctx.bdir('C42_probe'); drv = os.path.join(ctx.bdir('ml'), 'C42_drv')
    line = obj.get('case_line', '')
    r, p, m = one(probe, drv, line)
    print('case : ' + line); print('impl : ' + r); print('preds: ' + p); print('model: ' + m)
