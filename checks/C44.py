"""C44 Impulse solvers return impulses satisfying contact conditions (DESIGN 5 C44) -- PARTIAL: convergence and the PLUS
active-set logic are not decided.
Tie 1 (correspondence): the hand model C44_Model.v of PGSImpulseSolver::solve (helpers, one sweep in the C++ order, outer loop
        with SOR reduction and convergence test), extracted to OCaml, is run against the compiled C++ (harness/C44_probe.cpp) on
        the same generated subproblems with fixed iteration limits 1,2,3,5,20,100: converged flag and every reported contact /
        friction / bounded condition compared exactly, impulses and the updated verr to 1e-11 relative.
Tie 2 (certificate): the impulses returned by the C++ PGS and PLUS solvers are fed to the extracted checker inv_check of the
        documented inequalities (and resid_check for purely unconditional problems: [A+D] pi = rhs)."""
import os, sys, math, json
from vlib import *

PROPS = ['Props/Properties_C44.v']
PI_RTOL = 1e-11

def gen_problem(r, kinds):
    """random well-posed subproblem; returns dict with all fields.  kinds: which constraint kinds may appear"""
    nxt = [0]
    def alloc(k):
        ix = list(range(nxt[0], nxt[0] + k)); nxt[0] += k; return ix
    unc = []; con = []; bnd = []; stl = []; cnl = []
    for _ in range(r.randint(0, 3) if 'U' in kinds else 0): unc.append(alloc(r.randint(1, 3)))
    for _ in range(r.randint(0, 4) if 'C' in kinds else 0):
        ty = r.choice((2, 2, 2, 2, 1, 0)) if 'K' in kinds else 2
        nk = alloc(1)[0]; fk = alloc(2) if r.random() < 0.7 else []
        con.append([ty, nk, r.choice((1.0, -1.0)) if 'S' in kinds else 1.0, fk, r.choice((0.0, 0.2, 0.5, 1.0, r.uniform(0, 1.5)))])
    for _ in range(r.randint(0, 2) if 'B' in kinds else 0):
        lb = r.uniform(-1, 0.5); ub = lb + r.choice((0.0, r.uniform(0, 1.5)))
        bnd.append([alloc(1)[0], lb, ub])
    for _ in range(r.randint(0, 2) if 'T' in kinds else 0):
        stl.append([alloc(r.randint(1, 3)), r.choice((0.0, r.uniform(0, 2))), r.uniform(0, 1.2)])
    if 'L' in kinds and unc:
        for _ in range(r.randint(0, 2)):
            cnl.append([alloc(r.randint(1, 3)), list(r.choice(unc)), r.uniform(0, 1.2)])
    m = nxt[0]
    if m == 0: unc.append(alloc(1)); m = 1
    # A = G G^T (+ ridge): symmetric positive (semi)definite
    q = m + r.randint(0, 3) if r.random() < 0.8 else max(1, m - 1)
    G = [[r.uniform(-1, 1) for _ in range(q)] for _ in range(m)]
    ridge = r.choice((0.0, 0.05, 0.5))
    A = [[sum(G[i][k] * G[j][k] for k in range(q)) + (ridge if i == j else 0.0) for j in range(m)] for i in range(m)]
    D = [r.choice((0.0, 0.0, r.uniform(0, 0.5))) for _ in range(m)]
    vs = [r.uniform(-1, 1) for _ in range(m)]
    va = [r.uniform(-0.3, 0.3) for _ in range(m)] if r.random() < 0.5 else [0.0] * m
    piE = [0.0] * m; expd = []; part = []
    for rows in unc: part += rows
    for ty, nk, sign, fk, mu in con:
        if ty == 2: part.append(nk)
        if ty == 1:
            piE[nk] = -sign * r.uniform(0, 1)       # expansion impulse pushes: sign*piE <= 0
            expd.append(nk)
        if ty != 0: part += fk
    for ix, lb, ub in bnd: part.append(ix)
    for fk, kn, mu in stl: part += fk
    for fk, nk, mu in cnl: part += fk
    part.sort(); expd.sort()
    return dict(m=m, A=A, D=D, vs=vs, va=va, piE=piE, part=part, expd=expd, unc=unc, con=con, bnd=bnd, stl=stl, cnl=cnl)

def fmt(kind, maxit, tol, P, extra=''):
    H = hexf; t = [kind] + ([extra] if extra else []) + [str(maxit), H(tol), str(P['m'])]
    for row in P['A']: t += [H(x) for x in row]
    for v in (P['D'], P['vs'], P['va'], P['piE']): t += [H(x) for x in v]
    t += [str(len(P['part']))] + [str(i) for i in P['part']] + [str(len(P['expd']))] + [str(i) for i in P['expd']]
    t.append(str(len(P['unc'])))
    for rows in P['unc']: t += [str(len(rows))] + [str(i) for i in rows]
    t.append(str(len(P['con'])))
    for ty, nk, sign, fk, mu in P['con']: t += [str(ty), str(nk), H(sign), str(len(fk))] + [str(i) for i in fk] + [H(mu)]
    t.append(str(len(P['bnd'])))
    for ix, lb, ub in P['bnd']: t += [str(ix), H(lb), H(ub)]
    t.append(str(len(P['stl'])))
    for fk, kn, mu in P['stl']: t += [str(len(fk))] + [str(i) for i in fk] + [H(kn), H(mu)]
    t.append(str(len(P['cnl'])))
    for fk, nk, mu in P['cnl']: t += [str(len(fk))] + [str(i) for i in fk] + [str(len(nk))] + [str(i) for i in nk] + [H(mu)]
    return ' '.join(t)

def expected_conds(P, step_conds):
    """model conditions (one per step, C++ step order) -> the five arrays the probe prints"""
    it = iter(step_conds)
    for _ in P['unc']: next(it)
    cc = [(next(it) if c[0] == 2 else -1) for c in P['con']]
    fc = [(next(it) if (c[0] != 0 and c[3]) else -1) for c in P['con']]
    bc = [next(it) for _ in P['bnd']]; sc = [next(it) for _ in P['stl']]; lc = [next(it) for _ in P['cnl']]
    return [cc, fc, bc, sc, lc]

def build_sides(ctx):
    d = ctx.bdir('corr'); os.makedirs(d, exist_ok=True)
    ext = ('From Coq Require Import Extraction ExtrOcamlBasic.\nRequire Import Num C44_Model.\nExtraction Language OCaml.\n'
           'Extraction "c44_x.ml" pgs_solve make_rhs final_verr steps_wfb inv_check resid_check sweep pgs_bilateral bilateral_check.\n')
    if not ctx.extract(ext, d):
        ctx.broken.append(('correspondence:C44', 'extraction of the model failed')); return None
    drv = open(os.path.join(VERIF, 'ocaml', 'C44_drv.ml')).read().replace('(*FOPS*)', open(os.path.join(VERIF, 'ocaml', 'fops.inc')).read())
    open(os.path.join(d, 'drv.ml'), 'w').write(drv)
    if not ctx.ocaml(d, ['c44_x.mli', 'c44_x.ml', 'drv.ml'], 'drv'):
        ctx.broken.append(('correspondence:C44', 'OCaml driver build failed')); return None
    exe = os.path.join(d, 'probe')
    # VERIF_C44_EXTRA_SRC (mutation testing only): additional source files compiled into the probe; a definition in the executable
    # takes precedence over the one in libSimTKsimbody, so a mutated copy of PGSImpulseSolver.cpp can be tried without rebuilding the library
    extra = tuple(x for x in os.environ.get('VERIF_C44_EXTRA_SRC', '').split(':') if x)
    if extra: ctx.log('probe built with extra sources (mutation testing): %s' % (extra,))
    if not ctx.cxx(os.path.join(VERIF, 'harness', 'C44_probe.cpp'), exe, flags=('-DNDEBUG',) + extra):
        ctx.broken.append(('correspondence:C44', 'C++ probe does not compile against the current source')); return None
    return exe, os.path.join(d, 'drv')

def run_lines(exe, lines, what, ctx):
    rc, o, e = sh([exe], input='\n'.join(lines) + '\n', timeout=3000)
    l = [x for x in o.split('\n') if x.strip()]
    if rc != 0 or len(l) != len(lines):
        ctx.broken.append(('correspondence:C44', '%s failed rc=%s lines=%d of %d: %s' % (what, rc, len(l), len(lines), (e or '')[-300:])))
        return None
    return l

def secs(line):
    p = line.split('|'); return [s.split() for s in p]

# ------------------------------------------------------------------------------------------------ implementation-side predicate
# The property's own conditions evaluated on what PGSImpulseSolver::solve RETURNS (pi, updated verr = rhs - [A+D] pi, converged flag), for
# every generated case that reports converged = true.  "Velocity" below is the returned verr of a row, i.e. the constraint-space velocity
# error that is left after the impulse.  Converged means RMS(enforced row errors) < tol, measured inside the last sweep, so a row that
# the solver enforces can be left with a velocity of a modest multiple of tol*sqrt(p): VTOL_FACTOR is 30x the largest ratio measured on
# the unchanged tree (0.85 over 12 seeds; see 'measured_max_velocity_over_tol_sqrtp' in the evidence).
VTOL_FACTOR = 30.0
def pgs_output_predicate(P, tol, pi, verr, stats, vtol=None):
    """-> None or (clause, detail).  Clauses named '...-inactive-side' concern rows the solver has projected (contact off, row at a bound)."""
    p = max(1, len(P['part'])); ftol = 1e-9; strict_dir = vtol is not None
    if vtol is None: vtol = VTOL_FACTOR * tol * math.sqrt(p) + 1e-12
    piE = P['piE']
    def note(v): stats['v'] = max(stats['v'], abs(v) / (tol * math.sqrt(p)))
    def vec_fric(what, fk, L):
        f = [pi[i] for i in fk]; v = [verr[i] for i in fk]
        nf = math.sqrt(sum(x * x for x in f)); nv = math.sqrt(sum(x * x for x in v))
        if nf > L + ftol: return (what + '-outside-cone', '|pi_t| = %g > mu*|pi_n| = %g on rows %s' % (nf, L, fk))
        if nf < L - max(ftol, 1e-7 * L):            # strictly inside the limit: must stick
            note(nv)
            if nv > vtol: return (what + '-neither-stick-nor-slide', 'rows %s: |pi_t| = %g is strictly inside the limit mu*|pi_n| = %g but the tangential velocity after the impulse is %s (|v| = %g > %g)' % (fk, nf, L, v, nv, vtol))
        else:                                       # on the limit: sliding, the impulse must not push along the remaining slip the wrong way
            d = sum(x * y for x, y in zip(f, v))
            stats['slide'] += 1
            if d < -(vtol * nf + 1e-12):
                stats['slide_wrong_way'] += 1
                # at a fixed point of the sweep the sliding impulse is a positive multiple of (pi + sor*v/Arr), hence never against v
                if strict_dir: return (what + '-slides-the-wrong-way', 'rows %s: |pi_t| = %g is on the limit but pi_t . v = %g < 0 (pi_t = %s, remaining slip v = %s)' % (fk, nf, d, f, v))
        return None
    for rows in P['unc']:
        for r_ in rows:
            note(verr[r_])
            if abs(verr[r_]) > vtol: return ('unconditional-row', 'row %d: velocity %g after the impulse (> %g)' % (r_, verr[r_], vtol))
    for ty, nk, sign, fk, mu in P['con']:
        if ty != 2 and pi[nk] != 0: return ('nonparticipating-normal-impulse', 'contact normal %d (type %d) got unknown impulse %g (Known normals carry exactly piExpand)' % (nk, ty, pi[nk]))
        if ty == 0 and any(pi[i] != 0 for i in fk): return ('observing-friction-impulse', 'observing contact got friction impulse on rows %s' % fk)
        if ty == 2:
            if sign * pi[nk] > ftol: return ('normal-pulls', 'contact normal %d: sign*pi = %g > 0' % (nk, sign * pi[nk]))
            if pi[nk] != 0:
                note(verr[nk])
                if abs(verr[nk]) > vtol: return ('normal-complementarity', 'active contact normal %d (pi = %g) is left with normal velocity %g' % (nk, pi[nk], verr[nk]))
            elif sign * verr[nk] < -vtol: return ('normal-complementarity-inactive-side', 'inactive contact normal %d (pi = 0) is left with a velocity %g that a push would remove' % (nk, verr[nk]))
        if ty != 0 and fk:
            bad = vec_fric('contact-friction(%s)' % ('participating' if ty == 2 else 'known'), fk, mu * abs(pi[nk] + piE[nk]))
            if bad: return bad
    for ix, lb, ub in P['bnd']:
        if pi[ix] < lb - ftol or pi[ix] > ub + ftol: return ('bounded-out-of-bounds', 'row %d: pi = %g outside [%g, %g]' % (ix, pi[ix], lb, ub))
        if lb + ftol < pi[ix] < ub - ftol:
            note(verr[ix])
            if abs(verr[ix]) > vtol: return ('bounded-complementarity', 'row %d strictly inside its bounds is left with velocity %g' % (ix, verr[ix]))
        elif ub - lb > 2 * ftol:
            if pi[ix] >= ub - ftol and verr[ix] < -vtol: return ('bounded-complementarity-inactive-side', 'row %d at its upper bound with velocity %g asking for less' % (ix, verr[ix]))
            if pi[ix] <= lb + ftol and verr[ix] > vtol: return ('bounded-complementarity-inactive-side', 'row %d at its lower bound with velocity %g asking for more' % (ix, verr[ix]))
    for fk, kn, mu in P['stl']:
        bad = vec_fric('state-limited-friction', fk, mu * kn)
        if bad: return bad
    for fk, nk, mu in P['cnl']:
        bad = vec_fric('constraint-limited-friction', fk, mu * math.sqrt(sum(pi[i] ** 2 for i in nk)))
        if bad: return bad
    return None

def pgs_correspondence(ctx, exe, drv, n):
    r = ctx.rng; probs = []; lines = []; hist = {}
    for i in range(n):
        kinds = r.choice(('U', 'UC', 'UCS', 'UCSK', 'UCSKB', 'UCSKBT', 'UCSKBTL', 'UCSKBTL', 'C', 'CS', 'B', 'UL', 'UT'))
        P = gen_problem(r, kinds)
        maxit = r.choice((1, 2, 3, 5, 20, 100)); tol = r.choice((1e-6, 1e-6, 1e-10, 1e-3))
        probs.append((P, maxit, tol)); lines.append(fmt('PGS', maxit, tol, P))
        hist['kinds=%s/maxIters=%d' % (kinds, maxit)] = hist.get('kinds=%s/maxIters=%d' % (kinds, maxit), 0) + 1
    open(ctx.bdir('corr', 'pgs_cases.txt'), 'w').write('\n'.join(lines) + '\n')
    o1 = run_lines(exe, lines, 'C++ probe', ctx); o2 = run_lines(drv, lines, 'OCaml driver', ctx)
    if o1 is None or o2 is None: return None
    dis = []; nconv = 0; nontrivial = 0; worst = 0.0; notwf = 0; conds_compared = 0; its_hist = {}
    npred = 0; pred_fail = []; pstats = {'v': 0.0, 'slide': 0, 'slide_wrong_way': 0}
    for (P, maxit, tol), l, a, b in zip(probs, lines, o1, o2):
        sa, sb = secs(a), secs(b)
        if sa[0][0] != 'OK' or sb[0][0] != 'OK': dis.append((l, a, b)); continue
        ok = sa[0][1] == sb[0][1]                      # converged flag
        nconv += sa[0][1] == '1'; its_hist[sb[0][2]] = its_hist.get(sb[0][2], 0) + 1
        pa = [float.fromhex(x) for x in sa[1]]; pb = [float.fromhex(x) for x in sb[1]]
        va = [float.fromhex(x) for x in sa[2]]; vb = [float.fromhex(x) for x in sb[2]]
        sc = max([1.0] + [abs(x) for x in pa]);
        for x, y in zip(pa, pb):
            if x != x or y != y or abs(x - y) > PI_RTOL * sc: ok = False
            elif sc > 0: worst = max(worst, abs(x - y) / sc)
        scv = max([1.0] + [abs(x) for x in va])
        for x, y in zip(va, vb):
            if x != x or y != y or abs(x - y) > 1e-9 * scv: ok = False
        if any(x != 0 for x in pa): nontrivial += 1
        exp = expected_conds(P, [int(x) for x in sb[3]])
        got = [[int(x) for x in s] for s in sa[3:8]]
        # conditions the solver did not touch keep their constructor value -1; the model reports only the touched ones
        if sb[0][2] != '0' or P['part']:
            if exp != got: ok = False
            conds_compared += sum(len(e) for e in exp)
        if sb[4][0] != '1': notwf += 1
        if not ok: dis.append((l, a, b))
        if sa[0][1] == '1' and P['part']:
            npred += 1
            bad = pgs_output_predicate(P, tol, pa, va, pstats)
            if bad: pred_fail.append((bad[0], bad[1], l, a))
    ctx.add_cases(len(lines), nontrivial, [{'case': lines[0][:200], 'cxx': o1[0][:200], 'model': o2[0][:200]}])
    ctx.extra.setdefault('correspondence', {})['pgs'] = {'cases': len(lines), 'disagreements': len(dis), 'converged': nconv, 'pi_rtol': PI_RTOL,
        'measured_max_rel_difference_of_pi': worst, 'conditions_compared_exactly': conds_compared, 'problems_not_well_formed': notwf,
        'model_iterations_histogram': dict(sorted(its_hist.items(), key=lambda kv: int(kv[0]))), 'input_distribution': dict(sorted(hist.items()))}
    ctx.trusted.add('correspondence harness harness/C44_probe.cpp (-DNDEBUG) + ocaml/C44_drv.ml (double NumOps): converged flag and conditions exact, impulses %g relative' % PI_RTOL)
    # (A) SETTLED outputs: the same problems with tol = 0 (the loop never stops early) and 300 / 301 sweeps; where the two answers agree the
    # implementation has reached a fixed point of ITS OWN sweep, and there every clause must hold strictly (for the model this is the
    # theorem C44_pgs_fixed_point_satisfies_conditions; here it is evaluated on the implementation alone, model not involved)
    l300 = [fmt('PGS', 300, 0.0, P) for (P, mi, t) in probs]; l301 = [fmt('PGS', 301, 0.0, P) for (P, mi, t) in probs]
    s300 = run_lines(exe, l300, 'C++ probe (300 sweeps)', ctx); s301 = run_lines(exe, l301, 'C++ probe (301 sweeps)', ctx)
    nsettled = 0; settled_fail = []; sstats = {'v': 0.0, 'slide': 0, 'slide_wrong_way': 0}
    if s300 is not None and s301 is not None:
        for (P, mi, t), l, a, b in zip(probs, l301, s300, s301):
            sa, sb = secs(a), secs(b)
            if sa[0][0] != 'OK' or sb[0][0] != 'OK' or not P['part']: continue
            pa = [float.fromhex(x) for x in sa[1]]; pb = [float.fromhex(x) for x in sb[1]]; vb = [float.fromhex(x) for x in sb[2]]
            if any(x != x for x in pa + pb) or max(abs(x - y) for x, y in zip(pa, pb)) > 1e-11 * max([1.0] + [abs(x) for x in pb]): continue
            nsettled += 1
            bad = pgs_output_predicate(P, 1.0, pb, vb, sstats, vtol=1e-7)
            if bad: settled_fail.append((bad[0], bad[1], l, b))
    nknownfric = sum(1 for (P, mi, t) in probs if any(c[0] == 1 and c[3] and c[4] > 0 for c in P['con']))
    ctx.extra['correspondence']['pgs_output_predicate'] = {'converged_cases_evaluated': npred, 'failures': len(pred_fail),
        'cases_with_a_known_frictional_contact_and_expansion_impulse': nknownfric, 'velocity_tolerance_factor': VTOL_FACTOR,
        'measured_max_velocity_over_tol_sqrtp': pstats['v'], 'sliding_friction_sets': pstats['slide'],
        'sliding_sets_pushing_against_the_remaining_slip_recorded_not_decided': pstats['slide_wrong_way']}
    ctx.extra['correspondence']['pgs_output_predicate'].update({'settled_cases_evaluated_strictly': nsettled, 'settled_failures': len(settled_fail),
        'settled_sliding_friction_sets': sstats['slide'], 'settled_sliding_sets_pushing_against_the_remaining_slip': sstats['slide_wrong_way']})
    seenp = set()
    for clause, detail, l, a in settled_fail:
        if clause in seenp or len(seenp) >= 3: continue
        seenp.add(clause)
        ctx.broken.append(('predicate:C44:PGS-settled:' + clause, detail[:400]))
        ctx.report('impl:pgs-settled:' + clause, 'PGSImpulseSolver::solve has settled (300 and 301 sweeps agree) on an answer that violates the clause "%s": %s' % (clause, detail),
                   {'failing_input': l, 'implementation_output': a[:2000], 'replay_case': l, 'failures_of_this_clause': sum(1 for q in settled_fail if q[0] == clause)})
    # (B) outputs returned with converged = true.  The convergence test of PGSImpulseSolver::solve only looks at the rows it enforced in the
    # last sweep, so it can stop while a projected row (contact switched off, row at a bound) still asks for an impulse: known finding; every
    # other clause is strict.
    seenp = set()
    for clause, detail, l, a in pred_fail:
        key = 'pgs-converged-while-projected-rows-unsatisfied' if clause.endswith('-inactive-side') else 'impl:pgs-output:' + clause
        if key in seenp or len(seenp) >= 3: continue
        seenp.add(key)
        if key not in ctx.known: ctx.broken.append(('predicate:C44:PGS:' + clause, detail[:400]))
        ctx.report(key, 'PGSImpulseSolver::solve reports converged but its output violates the clause "%s": %s' % (clause, detail),
                   {'failing_input': l, 'implementation_output': a[:2000], 'replay_case': l, 'failures_of_this_clause': sum(1 for q in pred_fail if q[0] == clause)})
    if notwf: ctx.broken.append(('generator:C44', '%d generated problems are not well formed (steps_wfb false): the invariants theorem would not apply' % notwf))
    if dis:
        l, a, b = dis[0]
        ctx.broken.append(('correspondence:C44:PGS', 'model and implementation differ on case "%s": cxx=%s model=%s (%d disagreements)' % (l[:300], a[:300], b[:300], len(dis))))
    return probs, o1

def certificates(ctx, exe, drv, probs, o1, nplus):
    """(a) the C++ PGS impulses of the correspondence cases, (b) PLUS impulses on fresh problems -> extracted inv_check / resid_check"""
    r = ctx.rng; inv = []; meta = []
    for (P, maxit, tol), a in zip(probs, o1):
        sa = secs(a)
        if sa[0][0] != 'OK': continue
        inv.append(fmt('INV', maxit, tol, P, extra=hexf(1e-9)) + ' ' + ' '.join(sa[1])); meta.append(('PGS', P, a, False))
    plus_lines = []; plus_probs = []
    for i in range(nplus):
        kinds = r.choice(('U', 'U', 'UC', 'C', 'UC'))
        P = gen_problem(r, kinds)
        # PLUS: friction always as a pair and no expansion here; A positive definite (well-posed)
        for i2 in range(P['m']): P['A'][i2][i2] += 0.2
        # PLUSImpulseSolver::solve leaves D out of the system it solves ("TODO: D" in the source; known finding): every 5th problem
        # keeps its D to exhibit that, the others are given D = 0 so that the documented conditions can be certified
        P['withD'] = (i % 5 == 0) and any(x != 0 for x in P['D'])
        if not P['withD']: P['D'] = [0.0] * P['m']
        plus_probs.append(P); plus_lines.append(fmt('PLUS', 0, 0.0, P))
    o3 = run_lines(exe, plus_lines, 'C++ probe (PLUS)', ctx) if plus_lines else []
    if o3 is None: return
    nflag = 0; plus_exc = 0
    for P, a in zip(plus_probs, o3):
        sa = secs(a)
        if sa[0][0] != 'OK': plus_exc += 1; continue
        nflag += sa[0][1] == '1'
        inv.append(fmt('INV', 0, 0.0, P, extra=hexf(1e-7)) + ' ' + ' '.join(sa[1])); meta.append(('PLUS', P, a, True))
    res = run_lines(drv, inv, 'OCaml certificate checker', ctx) if inv else []
    if res is None: return
    bad = []; n = {'PGS': 0, 'PLUS': 0}; nresid = 0; withD_fail = 0; withD = 0; plus_fric_bad = []
    nfric = sum(1 for (who, P, a, c) in meta if who == 'PLUS' and any(cc[3] for cc in P['con']) and not P.get('withD'))
    for (who, P, a, chk_resid), line, il in zip(meta, res, inv):
        t = line.split(); n[who] += 1
        if who == 'PLUS' and P.get('withD'):
            withD += 1
            if t[0] != '1' or t[1] != '1': withD_fail += 1; bad.append(('PLUS:ignores-D', il, a))
            continue
        if t[0] != '1':
            # PLUS with friction rows runs a Newton iteration whose convergence is NOT decided and which it does not report (its return
            # value is always false: known finding); an answer outside the friction cone there is recorded, not alarmed on.  Without
            # friction rows the PLUS active set solves linear systems only and its answers are certified strictly.
            if who == 'PLUS' and any(c[3] for c in P['con']): plus_fric_bad.append(a); continue
            bad.append((who + ':inequalities', il, a))
        if chk_resid:
            nresid += 1
            if t[1] != '1':
                if who == 'PLUS' and any(c[3] for c in P['con']): plus_fric_bad.append(a)      # same rule as above
                else: bad.append((who + ':unconditional-residual', il, a))
    if o3 and nflag == 0 and plus_exc == 0:
        bad.append(('PLUS:never-converged-flag', plus_lines[0], 'PLUSImpulseSolver::solve returned false for all %d problems (participating rows present), although its answers satisfy every certificate' % len(o3)))
    ctx.add_cases(len(inv), len(inv), [])
    ctx.extra.setdefault('correspondence', {})['certificate'] = {'pgs_outputs_checked': n['PGS'], 'plus_outputs_checked': n['PLUS'], 'plus_solve_returned_true': nflag,
        'plus_exceptions': plus_exc, 'plus_unconditional_residual_checked': nresid, 'plus_problems_with_D': withD, 'plus_problems_with_D_failing': withD_fail,
        'plus_frictional_problems': nfric, 'plus_frictional_answers_outside_the_inequalities_recorded_not_decided': len(plus_fric_bad),
        'failures': len(bad), 'tolerance_pgs': 1e-9, 'tolerance_plus': 1e-7}
    ctx.trusted.add('certificate: impulses returned by the C++ PGS and PLUS solvers fed to the extracted inv_check / resid_check (absolute tolerance 1e-9 / 1e-7)')
    KNOWN_MAP = {'PLUS:ignores-D': 'plus-solve-ignores-D', 'PLUS:never-converged-flag': 'plus-solve-never-reports-convergence'}
    seen = set()
    for what, il, a in bad:
        key = KNOWN_MAP.get(what, 'impl:' + what)
        if key in seen: continue
        seen.add(key)
        if key not in ctx.known:
            ctx.broken.append(('certificate:C44:' + what, 'returned impulses violate the documented conditions: %s' % a[:300]))
        ctx.report(key, 'impulse solver output violates the documented conditions (%s)' % what, {'failing_input': il[:4000], 'implementation_output': a[:1000]})

def bilateral(ctx, exe, drv, n):
    """solveBilateral of both solvers: only unconditional rows, P (A+D) ~P P pi = P rhs and pi = 0 off the participating set.
    PGS: correspondence with the model (pgs_bilateral).  PLUS: FactorQTZ inside, so its answer is CERTIFIED with the extracted bilateral_check
    (a certificate decides it because the solution is unique for a positive definite block: C44_bilateral_certificate_unique).
    Participating sets: strict subsets in permuted order as well as everything in order; D: empty vector, zero, uniform, NON-UNIFORM."""
    r = ctx.rng; H = hexf; pgs = []; plus = []; meta = []; hist = {}
    for i in range(n):
        m = r.randint(2, 9); q = m + r.randint(0, 3)
        G = [[r.uniform(-1, 1) for _ in range(q)] for _ in range(m)]
        A = [[sum(G[a][k] * G[b][k] for k in range(q)) + (0.3 if a == b else 0.0) for b in range(m)] for a in range(m)]   # positive definite
        dk = r.choice(('empty', 'zero', 'uniform', 'nonuniform', 'nonuniform', 'nonuniform'))
        D = {'empty': [], 'zero': [0.0] * m, 'uniform': [r.uniform(0.1, 1.0)] * m}.get(dk)
        if D is None: D = [r.choice((0.0, r.uniform(0, 2.0))) for _ in range(m)]; D[r.randrange(m)] = r.uniform(0.5, 2.0)
        sk = r.choice(('all-in-order', 'strict-sorted', 'strict-permuted', 'strict-permuted', 'all-permuted'))
        part = list(range(m))
        if sk.startswith('strict'): part = sorted(r.sample(range(m), r.randint(1, m - 1)))
        if sk.endswith('permuted'): r.shuffle(part)
        rhs = [r.uniform(-1, 1) for _ in range(m)]
        body = ' '.join([str(m)] + [H(x) for row in A for x in row] + [str(len(D))] + [H(x) for x in D] + [H(x) for x in rhs] + [str(len(part))] + [str(k) for k in part])
        maxit = r.choice((1, 3, 10, 200)); tol = r.choice((1e-6, 1e-10))
        pgs.append('PGSB %d %s %s' % (maxit, H(tol), body)); plus.append('PLUSB 0 %s %s' % (H(0.0), body)); meta.append(body)
        hist['D=%s/part=%s' % (dk, sk)] = hist.get('D=%s/part=%s' % (dk, sk), 0) + 1
    o1 = run_lines(exe, pgs, 'C++ probe (PGS solveBilateral)', ctx); o2 = run_lines(drv, pgs, 'OCaml driver (pgs_bilateral)', ctx)
    o3 = run_lines(exe, plus, 'C++ probe (PLUS solveBilateral)', ctx)
    if o1 is None or o2 is None or o3 is None: return
    dis = []; worst = 0.0
    for l, a, b in zip(pgs, o1, o2):
        sa, sb = secs(a), secs(b); ok = sa[0][0] == 'OK' and sb[0][0] == 'OK' and sa[0][1] == sb[0][1]
        if ok:
            pa = [float.fromhex(x) for x in sa[1]]; pb = [float.fromhex(x) for x in sb[1]]; sc = max([1.0] + [abs(x) for x in pa])
            for x, y in zip(pa, pb):
                if x != x or y != y or abs(x - y) > PI_RTOL * sc: ok = False
                else: worst = max(worst, abs(x - y) / sc)
        if not ok: dis.append((l, a, b))
    cert = []; bad = []
    for body, a in zip(meta, o3):
        sa = secs(a)
        if sa[0][0] != 'OK' or sa[0][1] != '1': bad.append(('PLUS:solveBilateral-returned-failure', body, a)); continue
        cert.append('BIL %s %s %s' % (H(1e-9), body, ' '.join(sa[1])))
    res = run_lines(drv, cert, 'OCaml bilateral certificate', ctx) if cert else []
    if res is None: return
    for c, line, a in zip(cert, res, [a for a in o3 if secs(a)[0][0] == 'OK' and secs(a)[0][1] == '1']):
        if line.strip() != '1': bad.append(('PLUS:solveBilateral-certificate', c, a))
    ctx.add_cases(len(pgs) + len(plus), len(pgs) + len(cert), [{'case': plus[0][:200], 'cxx': o3[0][:200], 'certificate': (res[0] if res else '')}])
    ctx.extra.setdefault('correspondence', {})['solveBilateral'] = {'pgs_cases': len(pgs), 'pgs_disagreements': len(dis), 'pgs_measured_max_rel_difference': worst,
        'plus_cases': len(plus), 'plus_certificates_checked': len(cert), 'plus_failures': len(bad), 'certificate_tolerance': 1e-9, 'input_distribution': dict(sorted(hist.items()))}
    if dis:
        l, a, b = dis[0]
        ctx.broken.append(('correspondence:C44:PGS-solveBilateral', 'model and implementation differ on case "%s": cxx=%s model=%s (%d disagreements)' % (l[:300], a[:300], b[:300], len(dis))))
    seen = set()
    for what, c, a in bad:
        if what in seen: continue
        seen.add(what)
        ctx.broken.append(('certificate:C44:' + what, 'PLUSImpulseSolver::solveBilateral output fails the bilateral certificate ((A+D) pi = rhs on the participating rows, 0 elsewhere): %s (%d such)' % (a[:300], sum(1 for q in bad if q[0] == what))))
        ctx.report('impl:' + what, 'PLUSImpulseSolver::solveBilateral: returned impulses do not satisfy (A+D) pi = rhs on the participating rows / are not 0 off them',
                   {'failing_input': 'PLUSB 0 0x0p+0 ' + (c.split(' ', 2)[2] if c.startswith('BIL') else c)[:4000], 'implementation_output': a[:1000]})

def run(ctx):
    ctx.build_repo()
    ctx.coq_props(PROPS)
    quick = ctx.tier == 'quick'
    sides = build_sides(ctx)
    if sides:
        exe, drv = sides
        got = pgs_correspondence(ctx, exe, drv, 400 if quick else 6000)
        ctx.log('PGS correspondence done')
        if got:
            certificates(ctx, exe, drv, got[0], got[1], 150 if quick else 2000)
            ctx.log('certificates done')
        bilateral(ctx, exe, drv, 300 if quick else 4000)
        ctx.log('solveBilateral done')
    ctx.cov['rule'] = ('random subproblems: 0-3 unconditional constraints (1-3 rows), 0-4 unilateral contacts (participating / known with expansion impulse / observing, '
                       'with or without a friction pair, either sign convention), 0-2 bounded rows (also lb = ub), 0-2 state-limited and constraint-limited friction sets; '
                       'A = G G^T (+ridge) positive (semi)definite, D >= 0 with zeros, random verrStart / verrApplied; iteration limits 1,2,3,5,20,100 and tolerances 1e-3,1e-6,1e-10; '
                       'non-trivial = some impulse non-zero; distinct by full case text')
    ctx.assumptions += ['theorems are over the reals (ROps); binary64 rounding is covered only by the correspondence runs',
                        'PGSImpulseSolver::solve is a hand-written model (C44_Model.v) tied to the C++ only by the correspondence run; m_SOR = 1.2 is read from the header',
                        'NOT decided: convergence of PGS (the theorems hold after every sweep whether or not it converged); PLUSImpulseSolver is not modelled at all, only its '
                        'outputs on well-posed problems (unconditional rows and unilateral contacts, A positive definite, D = 0, no expansion) are checked against the inequalities; strictly when there are no '
                        'friction rows (linear active-set solves only); with friction rows PLUS runs a Newton iteration that it does not report on (solve always returns false) and about 1 answer in 400 '
                        'lies outside the friction cone (e.g. |pi_F| = 5e-3 against mu*|pi_N| = 2e-4): those are counted in the evidence, not decided',
                        'unilateral speed constraints (UniSpeedRT) are counted but never updated by PGSImpulseSolver::solve (their multipliers stay 0); they are not generated']
    ctx.finish()

def replay(ctx, path):
    """bin/check C44 --replay FILE: re-run the recorded case line on the implementation (and, for PGS lines, on the model)"""
    r = json.load(open(path))
    print('replay of %s: key=%s\n  %s' % (path, r.get('key'), r.get('what', r.get('no_longer_checks'))))
    case = r.get('replay_case') or (r.get('failing_input') if str(r.get('failing_input', '')).split(' ')[0] in ('PGS', 'PLUS', 'PGSB', 'PLUSB') else None)
    if case:
        sides = build_sides(ctx)
        if sides:
            rc, o, e = sh([sides[0]], input=case + '\n'); print('  implementation: ' + o.strip()[:3000])
            if case.split(' ')[0] in ('PGS', 'PGSB'):
                rc, o, e = sh([sides[1]], input=case + '\n'); print('  model:          ' + o.strip()[:3000])
