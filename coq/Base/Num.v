(** One numeric structure, three instances (DESIGN 2.1).  All numeric models are
    polymorphic in a [NumOps T]; theorems are about [ROps]; [QOps] runs exact
    rational correspondence; the float instance is supplied by the OCaml drivers. *)
From Coq Require Import ZArith Reals QArith Qabs.

Record NumOps (T:Type) := mkOps {
  n0 : T; n1 : T;
  nadd : T->T->T; nsub : T->T->T; nmul : T->T->T; ndiv : T->T->T; nopp : T->T;
  nsqrt : T->T; nsin : T->T; ncos : T->T; nabs : T->T; nexp : T->T; ntanh : T->T;
  natan2 : T->T->T;
  nofZ : Z -> T; nleb : T -> T -> bool; nltb : T -> T -> bool }.
Arguments n0 {T}. Arguments n1 {T}. Arguments nadd {T}. Arguments nsub {T}. Arguments nmul {T}.
Arguments ndiv {T}. Arguments nopp {T}. Arguments nsqrt {T}. Arguments nsin {T}. Arguments ncos {T}.
Arguments nabs {T}. Arguments nexp {T}. Arguments ntanh {T}. Arguments natan2 {T}.
Arguments nofZ {T}. Arguments nleb {T}. Arguments nltb {T}.

(** atan2 over R, from [atan] (the stdlib has none). Value at (0,0) is 0. *)
Definition Ratan2 (y x : R) : R :=
  if Rlt_dec 0 x then atan (y / x)
  else if Rlt_dec x 0 then (if Rle_dec 0 y then atan (y / x) + PI else atan (y / x) - PI)
  else if Rlt_dec 0 y then PI / 2 else if Rlt_dec y 0 then - PI / 2 else 0.

Definition Rleb (x y : R) : bool := if Rle_dec x y then true else false.
Definition Rltb (x y : R) : bool := if Rlt_dec x y then true else false.

Definition ROps : NumOps R :=
  mkOps R 0%R 1%R Rplus Rminus Rmult Rdiv Ropp sqrt sin cos Rabs exp tanh Ratan2 IZR Rleb Rltb.

(** Exact rationals; the transcendental fields are placeholders (identity) and any
    kernel using them is never run on this instance. *)
Definition Qltb (x y : Q) : bool := negb (Qle_bool y x).
Definition QOps : NumOps Q :=
  mkOps Q 0%Q 1%Q Qplus Qminus Qmult Qdiv Qopp (fun x=>x) (fun x=>x) (fun x=>x) Qabs (fun x=>x) (fun x=>x)
        (fun x _ => x) inject_Z Qle_bool Qltb.

Lemma Rleb_true x y : Rleb x y = true <-> (x <= y)%R.
Proof. unfold Rleb; destruct (Rle_dec x y); split; auto; discriminate. Qed.
Lemma Rleb_false x y : Rleb x y = false <-> (y < x)%R.
Proof. unfold Rleb; destruct (Rle_dec x y); split; auto; try discriminate.
  - intros H; exfalso; apply (Rlt_irrefl x); eapply Rle_lt_trans; eauto.
  - intros _; apply Rnot_le_lt; auto. Qed.
Lemma Rltb_true x y : Rltb x y = true <-> (x < y)%R.
Proof. unfold Rltb; destruct (Rlt_dec x y); split; auto; discriminate. Qed.
Lemma Rltb_false x y : Rltb x y = false <-> (y <= x)%R.
Proof. unfold Rltb; destruct (Rlt_dec x y); split; auto; try discriminate.
  - intros H; exfalso; apply (Rlt_irrefl x); eapply Rlt_le_trans; eauto.
  - intros _; apply Rnot_lt_le; auto. Qed.
