(** Proof helpers shared by the *_Proofs files. *)
From Coq Require Import Reals Lra Psatz Nsatz.
Require Import Num Vec.

(** split tuple equalities without touching [a+b = c+d] *)
Ltac teq := repeat match goal with |- (_,_) = (_,_) => apply f_equal2 end.

(** unfold the tuple algebra of Vec.v *)
Ltac vunf := cbv [m33_mul m33_mulv m33_Tmulv m43_mulv m34_mulv m33_T m33_c0 m33_c1 m33_c2 m33_r0 m33_r1 m33_r2 m33_e
  m33_add m33_sub m33_scale m33_neg m33_id m33_crossMat m33_outer m33_det
  v2_add v2_sub v2_scale v2_neg v2_dot v2_normSqr v2_0 v2_1
  v3_zero v3_add v3_sub v3_scale v3_neg v3_dot v3_cross v3_normSqr v3_norm v3_0 v3_1 v3_2
  v4_add v4_sub v4_scale v4_neg v4_dot v4_normSqr v4_0 v4_1 v4_2 v4_3
  sym_to_m33 sym_of_m33_lower sym_add sym_sub sym_scale sym_mulv
  sv_add sv_sub sv_neg sv_scale sv_dot xf_apply xf_compose xf_inv fst snd
  ROps n0 n1 nadd nsub nmul ndiv nopp nsqrt nsin ncos nabs nexp ntanh natan2 nofZ nleb nltb].

(** [nsatz] that fails instead of leaving a reified goal *)
Ltac nsatz_or_fail := solve [nsatz].
(** close a rational identity over R possibly needing polynomial side relations *)
Ltac rfield := try (field; auto); try (field_simplify_eq; auto; cbv [Rpow_def.pow]; nsatz_or_fail).
