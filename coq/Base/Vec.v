(** Small fixed-size vectors and matrices as tuples, generic in [NumOps]. *)
Require Import Num.
Definition Vec2 (T:Type) := (T*T)%type.
Definition Vec3 (T:Type) := (T*T*T)%type.
Definition Vec4 (T:Type) := (T*T*T*T)%type.
Definition Mat22 (T:Type) := (Vec2 T * Vec2 T)%type.
Definition Mat33 (T:Type) := (Vec3 T * Vec3 T * Vec3 T)%type.   (* rows *)
Definition Mat43 (T:Type) := (Vec3 T * Vec3 T * Vec3 T * Vec3 T)%type.
Definition Mat34 (T:Type) := (Vec4 T * Vec4 T * Vec4 T)%type.
(** SymMat33 in SimTK order: diagonal (xx,yy,zz) then lower (xy,xz,yz) *)
Definition SymMat33 (T:Type) := (Vec3 T * Vec3 T)%type.
Definition SpatialVec (T:Type) := (Vec3 T * Vec3 T)%type.       (* angular, linear *)
Definition Transform (T:Type) := (Mat33 T * Vec3 T)%type.       (* R, p *)

Section V. Context {T:Type}.
Definition v2_0 (v:Vec2 T) := fst v. Definition v2_1 (v:Vec2 T) := snd v.
Definition v3_0 (v:Vec3 T) := let '(a,_,_) := v in a.
Definition v3_1 (v:Vec3 T) := let '(_,b,_) := v in b.
Definition v3_2 (v:Vec3 T) := let '(_,_,c) := v in c.
Definition v4_0 (v:Vec4 T) := let '(a,_,_,_) := v in a.
Definition v4_1 (v:Vec4 T) := let '(_,b,_,_) := v in b.
Definition v4_2 (v:Vec4 T) := let '(_,_,c,_) := v in c.
Definition v4_3 (v:Vec4 T) := let '(_,_,_,d) := v in d.
Definition m33_r0 (m:Mat33 T) : Vec3 T := let '(a,_,_) := m in a.
Definition m33_r1 (m:Mat33 T) : Vec3 T := let '(_,b,_) := m in b.
Definition m33_r2 (m:Mat33 T) : Vec3 T := let '(_,_,c) := m in c.
Definition m33_c0 (m:Mat33 T) : Vec3 T := let '(a,b,c) := m in (v3_0 a, v3_0 b, v3_0 c).
Definition m33_c1 (m:Mat33 T) : Vec3 T := let '(a,b,c) := m in (v3_1 a, v3_1 b, v3_1 c).
Definition m33_c2 (m:Mat33 T) : Vec3 T := let '(a,b,c) := m in (v3_2 a, v3_2 b, v3_2 c).
Definition m33_T (m:Mat33 T) : Mat33 T := (m33_c0 m, m33_c1 m, m33_c2 m).
Definition m33_e (m:Mat33 T) (i j:nat) : T :=
  let r := match i with O => m33_r0 m | S O => m33_r1 m | _ => m33_r2 m end in
  match j with O => v3_0 r | S O => v3_1 r | _ => v3_2 r end.
Variable K : NumOps T.
Local Notation "x + y" := (nadd K x y). Local Notation "x * y" := (nmul K x y). Local Notation "x - y" := (nsub K x y).
Definition v2_add (a b:Vec2 T) : Vec2 T := let '(a0,a1):=a in let '(b0,b1):=b in (a0+b0,a1+b1).
Definition v2_sub (a b:Vec2 T) : Vec2 T := let '(a0,a1):=a in let '(b0,b1):=b in (a0-b0,a1-b1).
Definition v2_scale (s:T) (a:Vec2 T) : Vec2 T := let '(a0,a1):=a in (s*a0,s*a1).
Definition v2_neg (a:Vec2 T) : Vec2 T := let '(a0,a1):=a in (nopp K a0,nopp K a1).
Definition v2_dot (a b:Vec2 T) : T := let '(a0,a1):=a in let '(b0,b1):=b in a0*b0+a1*b1.
Definition v2_normSqr (a:Vec2 T) := v2_dot a a.
Definition v3_zero : Vec3 T := (n0 K, n0 K, n0 K).
Definition v3_add (a b:Vec3 T) : Vec3 T := let '(a0,a1,a2):=a in let '(b0,b1,b2):=b in (a0+b0,a1+b1,a2+b2).
Definition v3_sub (a b:Vec3 T) : Vec3 T := let '(a0,a1,a2):=a in let '(b0,b1,b2):=b in (a0-b0,a1-b1,a2-b2).
Definition v3_scale (s:T) (a:Vec3 T) : Vec3 T := let '(a0,a1,a2):=a in (s*a0,s*a1,s*a2).
Definition v3_neg (a:Vec3 T) : Vec3 T := let '(a0,a1,a2):=a in (nopp K a0,nopp K a1,nopp K a2).
Definition v3_dot (a b:Vec3 T) : T := let '(a0,a1,a2):=a in let '(b0,b1,b2):=b in a0*b0+a1*b1+a2*b2.
Definition v3_cross (a b:Vec3 T) : Vec3 T := let '(a0,a1,a2):=a in let '(b0,b1,b2):=b in
  (a1*b2-a2*b1, a2*b0-a0*b2, a0*b1-a1*b0).
Definition v3_normSqr (a:Vec3 T) := v3_dot a a.
Definition v3_norm (a:Vec3 T) := nsqrt K (v3_normSqr a).
Definition v4_add (a b:Vec4 T) : Vec4 T := let '(a0,a1,a2,a3):=a in let '(b0,b1,b2,b3):=b in (a0+b0,a1+b1,a2+b2,a3+b3).
Definition v4_sub (a b:Vec4 T) : Vec4 T := let '(a0,a1,a2,a3):=a in let '(b0,b1,b2,b3):=b in (a0-b0,a1-b1,a2-b2,a3-b3).
Definition v4_scale (s:T) (a:Vec4 T) : Vec4 T := let '(a0,a1,a2,a3):=a in (s*a0,s*a1,s*a2,s*a3).
Definition v4_neg (a:Vec4 T) : Vec4 T := let '(a0,a1,a2,a3):=a in (nopp K a0,nopp K a1,nopp K a2,nopp K a3).
Definition v4_dot (a b:Vec4 T) : T := let '(a0,a1,a2,a3):=a in let '(b0,b1,b2,b3):=b in a0*b0+a1*b1+a2*b2+a3*b3.
Definition v4_normSqr (a:Vec4 T) := v4_dot a a.
Definition m33_mulv (m:Mat33 T) (v:Vec3 T) : Vec3 T := let '(r0,r1,r2):=m in (v3_dot r0 v, v3_dot r1 v, v3_dot r2 v).
Definition m33_Tmulv (m:Mat33 T) (v:Vec3 T) : Vec3 T := m33_mulv (m33_T m) v.
Definition m43_mulv (m:Mat43 T) (v:Vec3 T) : Vec4 T := let '(r0,r1,r2,r3):=m in (v3_dot r0 v, v3_dot r1 v, v3_dot r2 v, v3_dot r3 v).
Definition m34_mulv (m:Mat34 T) (v:Vec4 T) : Vec3 T := let '(r0,r1,r2):=m in (v4_dot r0 v, v4_dot r1 v, v4_dot r2 v).
Definition m33_mul (a b : Mat33 T) : Mat33 T :=
  let c0 := m33_c0 b in let c1 := m33_c1 b in let c2 := m33_c2 b in
  let '(r0,r1,r2) := a in
  ((v3_dot r0 c0, v3_dot r0 c1, v3_dot r0 c2),
   (v3_dot r1 c0, v3_dot r1 c1, v3_dot r1 c2),
   (v3_dot r2 c0, v3_dot r2 c1, v3_dot r2 c2)).
Definition m33_add (a b : Mat33 T) : Mat33 T := let '(a0,a1,a2):=a in let '(b0,b1,b2):=b in (v3_add a0 b0, v3_add a1 b1, v3_add a2 b2).
Definition m33_sub (a b : Mat33 T) : Mat33 T := let '(a0,a1,a2):=a in let '(b0,b1,b2):=b in (v3_sub a0 b0, v3_sub a1 b1, v3_sub a2 b2).
Definition m33_scale (s:T) (a : Mat33 T) : Mat33 T := let '(a0,a1,a2):=a in (v3_scale s a0, v3_scale s a1, v3_scale s a2).
Definition m33_neg (a : Mat33 T) : Mat33 T := let '(a0,a1,a2):=a in (v3_neg a0, v3_neg a1, v3_neg a2).
Definition m33_id : Mat33 T := ((n1 K, n0 K, n0 K),(n0 K, n1 K, n0 K),(n0 K, n0 K, n1 K)).
Definition m33_crossMat (v:Vec3 T) : Mat33 T := let '(x,y,z):=v in
  ((n0 K, nopp K z, y),(z, n0 K, nopp K x),(nopp K y, x, n0 K)).
Definition m33_outer (a b:Vec3 T) : Mat33 T := let '(a0,a1,a2):=a in (v3_scale a0 b, v3_scale a1 b, v3_scale a2 b).
Definition m33_det (m:Mat33 T) : T := v3_dot (m33_r0 m) (v3_cross (m33_r1 m) (m33_r2 m)).
(* SymMat33 *)
Definition sym_to_m33 (s:SymMat33 T) : Mat33 T := let '((xx,yy,zz),(xy,xz,yz)) := s in
  ((xx,xy,xz),(xy,yy,yz),(xz,yz,zz)).
Definition sym_of_m33_lower (m:Mat33 T) : SymMat33 T :=
  ((m33_e m 0 0, m33_e m 1 1, m33_e m 2 2),(m33_e m 1 0, m33_e m 2 0, m33_e m 2 1)).
Definition sym_add (a b:SymMat33 T) : SymMat33 T := (v3_add (fst a) (fst b), v3_add (snd a) (snd b)).
Definition sym_sub (a b:SymMat33 T) : SymMat33 T := (v3_sub (fst a) (fst b), v3_sub (snd a) (snd b)).
Definition sym_scale (s:T) (a:SymMat33 T) : SymMat33 T := (v3_scale s (fst a), v3_scale s (snd a)).
Definition sym_mulv (s:SymMat33 T) (v:Vec3 T) : Vec3 T := m33_mulv (sym_to_m33 s) v.
(* spatial vectors *)
Definition sv_add (a b:SpatialVec T) : SpatialVec T := (v3_add (fst a) (fst b), v3_add (snd a) (snd b)).
Definition sv_sub (a b:SpatialVec T) : SpatialVec T := (v3_sub (fst a) (fst b), v3_sub (snd a) (snd b)).
Definition sv_neg (a:SpatialVec T) : SpatialVec T := (v3_neg (fst a), v3_neg (snd a)).
Definition sv_scale (s:T) (a:SpatialVec T) : SpatialVec T := (v3_scale s (fst a), v3_scale s (snd a)).
Definition sv_dot (a b:SpatialVec T) : T := v3_dot (fst a) (fst b) + v3_dot (snd a) (snd b).
(* transforms *)
Definition xf_apply (X:Transform T) (v:Vec3 T) : Vec3 T := v3_add (snd X) (m33_mulv (fst X) v).
Definition xf_compose (X Y:Transform T) : Transform T := (m33_mul (fst X) (fst Y), xf_apply X (snd Y)).
Definition xf_inv (X:Transform T) : Transform T := (m33_T (fst X), v3_neg (m33_Tmulv (fst X) (snd X))).
End V.
